"""C12 — equality and ordering are coherent.  See DESIGN.md section 6 (C12)."""
import itertools
import sys

import common as c
from gen_values import dense_pool, N, S, L, R, B, NULL, V

PID = "C12"
MANIFEST = {
    "text": "17 Coq theorems over all values of the model (equivalence of .== on data, key-order insensitivity, "
            "trichotomy, unions, antisymmetry, transitivity, lexicographic/prefix-first, cross-type, unchecked "
            "built-ins), model tied to the code by an exhaustive pairwise correspondence over a dense value pool and "
            "by the laws re-checked on the implementation's own answers",
    "note": "trusted: Coq kernel + vm_compute; the hand transcription of Value::equals/compare (validated by "
            "correspondence on every ordered pair of the pool); Rust str ordering = byte order; no axioms (Closed "
            "under the global context)",
    "design_ref": "DESIGN.md section 6 C12",
}
OPS = [".<", ".<=", ".>", ".>="]


def rust_pair_lines(a, b):
    head = "a = %s\nb = %s\n" % (a.src(), b.src())
    lines = [head + "[a .== b, a .!= b, ugt(a, b), ult(a, b), ugte(a, b), ulte(a, b)]"]
    for op in OPS:
        lines.append(head + "a %s b" % op)
    return [c.hexs(l) for l in lines]


def decode_rust(outs):
    """outs: 5 harness eval result lines for one pair -> 10-char string (T/F/E) or None"""
    def last(o):
        body = o.split(";ENV:")[0]
        return body.split("|")[-1] if body else body
    first = last(outs[0])
    if not first.startswith("OK:L["):
        return None, outs[0]
    items = first[len("OK:L["):-1].split(",")
    s = "".join(items)
    for o in outs[1:]:
        r = last(o)
        if r == "OK:T":
            s += "T"
        elif r == "OK:F":
            s += "F"
        elif r == "ERR":
            s += "E"
        else:
            return None, o
    return s, None


SIZE_BOUNDS = [0, 1, 2, 7, 8, 9, 15, 16, 17, 22, 23, 24, 25, 31, 32, 33, 63, 64, 65, 127, 128, 129, 255, 256, 257, 1023,
               1024, 1025]


def size_boundary_cases(tier):
    """Equal-content strings / lists / records whose SIZE sits on a boundary an implementation might treat
    specially (inline vs heap storage, interning, small-vector, hashing thresholds): written as two separate
    literals, built by concatenation, and with only the last unit different.  (Seed C12-7 of round 4 —
    interning with an off-by-one at 64 bytes — was missed: the pool had no string longer than 6 bytes.)
    Each case: (head program binding a and b, expected ten observations, description)."""
    EQ, LT, GT = "TFFFTTFTFT", "FTFTFTTTFF", "FTTFTFFFTT"
    out = []
    bounds = SIZE_BOUNDS if tier == "thorough" else [n for n in SIZE_BOUNDS if n <= 257]
    for n in bounds:
        for unit, what in (("a", "ASCII"), ("\u00e9", "2-byte")):
            k = n if unit == "a" else n // 2
            if unit != "a" and (n % 2 or k == 0):
                continue
            lit = '"' + unit * k + '"'
            out.append(("a = %s\nb = %s\n" % (lit, lit), EQ, "two %s string literals of %d bytes" % (what, n)))
            if k >= 2:
                h1, h2 = '"' + unit * (k // 2) + '"', '"' + unit * (k - k // 2) + '"'
                out.append(("a = %s\nb = %s + %s\n" % (lit, h1, h2), EQ,
                            "a %d-byte %s string literal vs the same string built by +" % (n, what)))
                out.append(("r9 = {k: %s}\na = [r9.k]\nb = [%s + %s]\n" % (lit, h1, h2), EQ,
                            "%d-byte %s strings inside lists, one read from a record field" % (n, what)))
            if k >= 1:
                lit2 = '"' + unit * (k - 1) + ("b" if unit == "a" else "\u00ea") + '"'
                out.append(("a = %s\nb = %s\n" % (lit, lit2), LT, "%d-byte %s strings differing in the last character" % (n, what)))
                out.append(("a = %s\nb = %s\n" % (lit2, lit), GT, "%d-byte %s strings differing in the last character (swapped)" % (n, what)))
        if n <= 257:
            items = ", ".join(str(i % 7) for i in range(n))
            out.append(("a = [%s]\nb = [%s]\n" % (items, items), EQ, "two list literals of %d numbers" % n))
            if n >= 2:
                out.append(("a = [%s]\nb = [...[%s], ...[%s]]\n" % (items, ", ".join(str(i % 7) for i in range(n // 2)),
                                                               ", ".join(str(i % 7) for i in range(n // 2, n))), EQ,
                            "a list literal of %d numbers vs the same list built by spreading" % n))
            if n >= 1:
                items2 = ", ".join(str(i % 7) for i in range(n - 1)) + (", " if n > 1 else "") + "9"
                out.append(("a = [%s]\nb = [%s]\n" % (items, items2), LT, "lists of %d numbers differing in the last element" % n))
        if 1 <= n <= 129:
            ents = ", ".join("k%d: %d" % (i, i % 5) for i in range(n))
            rev = ", ".join("k%d: %d" % (i, i % 5) for i in reversed(range(n)))
            out.append(("a = {%s}\nb = {%s}\n[a .== b, a .!= b]" % (ents, rev), "TF", "records of %d keys in opposite key order" % n))
            ents2 = ", ".join("k%d: %d" % (i, (i % 5) if i != n - 1 else 77) for i in range(n))
            out.append(("a = {%s}\nb = {%s}\n[a .== b, a .!= b]" % (ents, ents2), "FT", "records of %d keys differing in one value" % n))
    return out


def size_boundary_stream(h, res, tier):
    cases = size_boundary_cases(tier)
    lines, shape = [], []
    for head, exp, what in cases:
        if len(exp) == 2:
            lines.append(c.hexs(head)); shape.append(1)
        else:
            lines.append(c.hexs(head + "[a .== b, a .!= b, ugt(a, b), ult(a, b), ugte(a, b), ulte(a, b)]"))
            for op in OPS:
                lines.append(c.hexs(head + "a %s b" % op))
            shape.append(5)
    outs = c.harness_lines_resilient(h, "eval", lines)
    pos, bad = 0, 0
    for (head, exp, what), k in zip(cases, shape):
        o = outs[pos:pos + k]; pos += k
        if k == 1:
            r = o[0].split(";ENV:")[0].split("|")[-1]
            got = r[len("OK:L["):-1].replace(",", "") if r.startswith("OK:L[") else r
        else:
            got, _err = decode_rust(o)
        if got != exp:
            bad += 1
            if bad <= 3:
                res.violation("equality / ordering of equal-content (or last-unit-different) values depends on their size: " + what,
                              {"kind": "impl-law", "program": head + "[a .== b, a .!= b, ugt(a, b), ult(a, b), ugte(a, b), ulte(a, b)]  and  a .< b, a .<= b, a .> b, a .>= b",
                               "observed": got, "expected": exp, "legend": "eq ne ugt ult ugte ulte lt le gt ge (T/F/E)"})
    res.streams["SIZES"] = {"cases": len(cases), "violations": bad, "sizes": [n for n in SIZE_BOUNDS if tier == "thorough" or n <= 257],
                            "kinds": "string literal x2 / literal vs concatenation / inside lists via a record field / last character differs (ASCII and 2-byte) ; list literal x2 / vs spread / last differs ; records: opposite key order / one value differs"}
    return len(cases)


def coq_pair_expr(a, b):
    return ("(let a := %s in let b := %s in "
            "show_bool (dot_eq a b) ++ show_bool (dot_ne a b) ++ show_bool (ugt a b) ++ show_bool (ult a b) ++ "
            "show_bool (ugte a b) ++ show_bool (ulte a b) ++ show_obool (dot_lt a b) ++ show_obool (dot_le a b) ++ "
            "show_obool (dot_gt a b) ++ show_obool (dot_ge a b))" % (a.coq(), b.coq()))


IDX = {"eq": 0, "ne": 1, "ugt": 2, "ult": 3, "ugte": 4, "ulte": 5, "lt": 6, "le": 7, "gt": 8, "ge": 9}


def law_search(pool, table, res):
    """The property itself, evaluated on the implementation's answers only."""
    n = len(pool)
    checked = 0

    def g(i, j, k):
        return table[(i, j)][IDX[k]]

    def viol(what, idxs):
        prog = "\n".join("v%d = %s" % (t, pool[i].src()) for t, i in enumerate(idxs))
        res.violation(what, {"kind": "impl-law", "law": what, "values": [pool[i].src() for i in idxs],
                             "program_prefix": prog,
                             "observed": {"%d,%d" % (i, j): table[(i, j)] for i in idxs for j in idxs},
                             "legend": "eq ne ugt ult ugte ulte lt le gt ge ; T/F/E(error)",
                             "rerun": "./check C12 --replay <this file>"})

    for i in range(n):
        a = pool[i]
        if a.is_data():
            checked += 1
            if g(i, i, "eq") != "T":
                viol("reflexivity of .== on a data value", [i])
        for j in range(n):
            b = pool[j]
            t = table[(i, j)]
            checked += 1
            if a.is_data() and b.is_data() and g(i, j, "eq") != g(j, i, "eq"):
                viol("symmetry of .==", [i, j])
            if (g(i, j, "eq") == "T") == (g(i, j, "ne") == "T"):
                viol(".!= is not the negation of .==", [i, j])
            ords = [g(i, j, k) for k in ("lt", "le", "gt", "ge")]
            if any(o == "E" for o in ords) and not all(o == "E" for o in ords):
                viol("ordering operators disagree on comparability", [i, j])
            if ords[0] != "E":
                tri = [g(i, j, "lt"), g(i, j, "eq"), g(i, j, "gt")].count("T")
                if tri != 1:
                    viol("trichotomy: exactly one of .< .== .> must hold", [i, j])
                if (g(i, j, "le") == "T") != (g(i, j, "lt") == "T" or g(i, j, "eq") == "T"):
                    viol(".<= is not the union of .< and .==", [i, j])
                if (g(i, j, "ge") == "T") != (g(i, j, "gt") == "T" or g(i, j, "eq") == "T"):
                    viol(".>= is not the union of .> and .==", [i, j])
                if (g(i, j, "lt") == "T") != (g(j, i, "gt") == "T"):
                    viol("a .< b must equal b .> a", [i, j])
            # unchecked built-ins
            for u, o in (("ugt", "gt"), ("ult", "lt"), ("ugte", "ge"), ("ulte", "le")):
                exp = g(i, j, o) if g(i, j, o) != "E" else "F"
                if g(i, j, u) != exp:
                    viol("%s disagrees with .%s" % (u, o), [i, j])
            if a.tname() != b.tname():
                if g(i, j, "eq") != "F":
                    viol("values of different types compare equal", [i, j])
                if ords[0] != "E":
                    viol("ordering of different types does not fail", [i, j])
            if a.tname() in ("null", "rec", "builtin", "lam") and a.tname() == b.tname() and ords[0] != "E":
                viol("unordered type is ordered", [i, j])
    # transitivity on triples
    lt = [[g(i, j, "lt") == "T" for j in range(n)] for i in range(n)]
    eq = [[g(i, j, "eq") == "T" and pool[i].is_data() and pool[j].is_data() for j in range(n)] for i in range(n)]
    for i in range(n):
        for j in range(n):
            if not (lt[i][j] or eq[i][j]):
                continue
            for k in range(n):
                checked += 1
                if lt[i][j] and lt[j][k] and not lt[i][k]:
                    viol("transitivity of .<", [i, j, k])
                if eq[i][j] and eq[j][k] and not eq[i][k]:
                    viol("transitivity of .==", [i, j, k])
                if eq[i][j] and lt[j][k] and not lt[i][k]:
                    viol(".== then .< must give .<", [i, j, k])
                if len(res.violations) > 20:
                    return checked
    return checked


def prefix_pairs(rng, count):
    """(prefix, extension) pairs of lists and strings: the prefix must order first."""
    out = []
    elems = [N(0), N(1), N(-1), N(2.5), S("a"), S(""), B(True), B(False), L(N(1)), L()]
    for _ in range(count):
        if rng.chance(1, 2):
            k = rng.below(4)
            t = rng.choice([0, 4, 6, 8])           # homogeneous element family
            fam = {0: elems[0:4], 4: elems[4:6], 6: elems[6:8], 8: elems[8:10]}[t]
            pre = [rng.choice(fam) for _ in range(k)]
            ext = pre + [rng.choice(fam) for _ in range(1 + rng.below(3))]
            out.append((V("list", pre), V("list", ext)))
        else:
            alphabet = ["a", "b", "z", "é", "A", "0", " ", "\U0001F600"]
            pre = "".join(rng.choice(alphabet) for _ in range(rng.below(5)))
            ext = pre + "".join(rng.choice(alphabet) for _ in range(1 + rng.below(3)))
            out.append((S(pre), S(ext)))
    return out


def main(argv):
    tier, seed, replay = c.tier_and_seed(argv)
    res = c.Result(PID, tier, seed)
    rng = c.Rng(seed)
    try:
        h = c.build_harness()
        c.regen_builtins(h)
    except c.BrokenTie as e:
        res.tie_broken(e.what, e.detail)
        return res.finish()
    if replay:
        return c.generic_replay(h, replay)

    c.proof_step(res, PID)

    pool = dense_pool()
    if tier == "thorough":
        # add random nested values near existing ones
        base = list(pool)
        for _ in range(60):
            a = rng.choice(base)
            b = rng.choice(base)
            pool.append(rng.choice([L(a, b), L(b, a), R(("k", a), ("j", b)), R(("j", b), ("k", a)), L(a)]))
    n = len(pool)
    pairs = [(i, j) for i in range(n) for j in range(n)]
    # ---- implementation
    lines = []
    for i, j in pairs:
        lines += rust_pair_lines(pool[i], pool[j])
    outs = c.harness_lines_resilient(h, "eval", lines)
    table = {}
    bad_rust = []
    for idx, (i, j) in enumerate(pairs):
        s, err = decode_rust(outs[5 * idx:5 * idx + 5])
        if s is None:
            bad_rust.append(((i, j), err))
            s = "??????????"
        table[(i, j)] = s
    for (i, j), err in bad_rust[:5]:
        kind = "panic/abort" if ("PANIC" in err or "ABORT" in err) else "unexpected harness output"
        res.violation("%s while comparing two values" % kind,
                      {"kind": "impl", "program": "a = %s\nb = %s\na .== b" % (pool[i].src(), pool[j].src()),
                       "observed": err})
    # ---- model
    try:
        model = c.coq_eval_batch(["Blots.Num", "Blots.gen.Builtins", "Blots.Ast", "Blots.Value", "Blots.Show"],
                                 "", [coq_pair_expr(pool[i], pool[j]) for i, j in pairs], "c12")
    except c.BrokenTie as e:
        res.tie_broken(e.what, e.detail)
        model = [None] * len(pairs)
    mism = []
    for idx, (i, j) in enumerate(pairs):
        if model[idx] is not None and model[idx] != table[(i, j)]:
            mism.append((i, j, model[idx], table[(i, j)]))
    if mism:
        i, j, m, r = mism[0]
        res.tie_broken("correspondence C12/EVAL-dot: model and implementation disagree on %d of %d pairs"
                       % (len(mism), len(pairs)),
                       "first: a = %s ; b = %s ; model=%s impl=%s (eq ne ugt ult ugte ulte lt le gt ge)"
                       % (pool[i].src(), pool[j].src(), m, r))
    # ---- the laws on the implementation alone
    checked = law_search(pool, table, res)
    # ---- aliasing: the ten observations depend on the two VALUES, not on whether both operands are the same
    # heap cell (one binding used twice, a shared inner list) — compared with the same values written out twice
    alias_src = [v.src() for v in pool] + ["[1, null]", "[null]", "{k: null}", "[0 / 0]", "[[0 / 0], [1]]", "{a: 0 / 0}",
                                           "[x => x]", "[1, [2, null]]", "[sum]", "{k: [0 / 0, 1]}"]
    alines, ameta = [], []
    for vs in alias_src:
        variants = [("a = %s\nb = %s\n" % (vs, vs), "a = %s\nb = a\n" % vs, "one binding used for both operands"),
                    ("a = [%s, 1]\nb = [%s, 2]\n" % (vs, vs), "s9 = %s\na = [s9, 1]\nb = [s9, 2]\n" % vs,
                     "a shared inner value"),
                    ("a = [%s]\nb = [%s]\n" % (vs, vs), "s9 = %s\na = [s9]\nb = [s9]\n" % vs, "a shared only element")]
        for lit, ali, why in variants:
            for head in (lit, ali):
                alines.append(c.hexs(head + "[a .== b, a .!= b, ugt(a, b), ult(a, b), ugte(a, b), ulte(a, b)]"))
                for op in OPS:
                    alines.append(c.hexs(head + "a %s b" % op))
            ameta.append((lit, ali, why))
    aouts = c.harness_lines_resilient(h, "eval", alines)
    alias_bad = 0
    for k, (lit, ali, why) in enumerate(ameta):
        s_lit, _ = decode_rust(aouts[10 * k:10 * k + 5])
        s_ali, _ = decode_rust(aouts[10 * k + 5:10 * k + 10])
        if s_lit is not None and s_ali is not None and s_lit != s_ali:
            alias_bad += 1
            if alias_bad <= 3:
                res.violation("equality / ordering observations depend on heap identity (%s), not on the values" % why,
                              {"kind": "impl-law", "program": ali + "[a .== b, a .!= b, ugt(a, b), ult(a, b), ugte(a, b), ulte(a, b)]  and  a .< b, a .<= b, a .> b, a .>= b",
                               "reference_program": lit + "...", "observed": s_ali, "expected": s_lit,
                               "legend": "eq ne ugt ult ugte ulte lt le gt ge (T/F/E)"})
    n_sizes = size_boundary_stream(h, res, tier)
    # prefix-first
    pp = prefix_pairs(rng, 200 if tier == "quick" else 3000)
    plines = [c.hexs("a = %s\nb = %s\n[a .< b, b .> a, a .== b]" % (a.src(), b.src())) for a, b in pp]
    pouts = c.harness_lines_resilient(h, "eval", plines)
    for (a, b), o in zip(pp, pouts):
        r = o.split(";ENV:")[0].split("|")[-1]
        if r != "OK:L[T,T,F]":
            res.violation("a proper prefix must order first",
                          {"kind": "impl-law", "program": "a = %s\nb = %s\n[a .< b, b .> a, a .== b]" % (a.src(), b.src()),
                           "observed": r, "expected": "OK:L[T,T,F]"})
            break
    nontrivial = len({(pool[i].show() if pool[i].k not in ("builtin",) else pool[i].src(),
                       pool[j].show() if pool[j].k not in ("builtin",) else pool[j].src())
                      for i, j in pairs if pool[i].tname() == pool[j].tname()})
    res.coverage["evaluations"] = len(lines) + len(plines)
    res.coverage["distinct_nontrivial"] = nontrivial
    res.coverage["rule"] = ("all ordered pairs of a %d-value pool dense in near-equal values, 10 observations per pair "
                            "(.== .!= ugt ult ugte ulte .< .<= .> .>=), plus %d prefix/extension pairs; non-trivial = "
                            "distinct ordered pairs of the same type (cross-type pairs only exercise the error arm)"
                            % (n, len(pp)))
    res.coverage["samples"] = [{"a": pool[i].src(), "b": pool[j].src(), "impl": table[(i, j)]}
                               for i, j in [pairs[rng.below(len(pairs))] for _ in range(5)]]
    res.coverage["traces_validated_against_impl"] = len(pairs) - len(mism)
    res.streams["ALIAS"] = {"values": len(alias_src), "variants": len(ameta), "identity_dependent": alias_bad}
    res.streams["EVAL-dot"] = {"pairs": len(pairs), "mismatches": len(mism), "pool": n,
                               "impl_laws_checked": checked,
                               "types": {t: sum(1 for v in pool if v.tname() == t)
                                         for t in sorted({v.tname() for v in pool})}}
    res.assumptions = ["NaN handled as Rust f64 (NaN != NaN): data values exclude NaN as in the property text",
                       "strings compared byte-wise (Rust str Ord); equal to code-point order for valid UTF-8"]
    return res.finish()


if __name__ == "__main__":
    sys.exit(main(sys.argv[1:]))
