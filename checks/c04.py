"""C04 — closures capture definition-time values; calls are call-site independent.
DESIGN.md section 6 (C04)."""
import itertools
import sys

import common as c
import evalstream as es
import c04_depth as cd

PID = "C04"
MANIFEST = {
    "text": "8 Coq theorems over the evaluator model: CALL-SITE INDEPENDENCE — FunctionDef::call of a hereditarily "
            "closed function (free names = parameters, captured names or its own name; likewise for every captured "
            "function) on closed arguments returns the same outcome and store from every scope chain with the same "
            "`inputs`, at every call depth (simulation over all expression forms, operators and the callback-taking "
            "built-ins included), and its result is closed again; plus the mechanisms: capture by value of every "
            "referenced bound name and nothing else, lookup order, positional binding, arity classes of the documented "
            "shape, binding never indexes past the arguments for ANY parameter list.  Tied to the code by the EVAL "
            "correspondence on the context-grammar programs; the law itself re-checked on the implementation; round 7: INPUTS family on the implementation (12 closures that captured `inputs` x 41 contexts that re-bind `inputs`, with controls) - finding F9 (a captured inputs was overridden by the call site's) was shown on the faithful model while the defect stood and is repaired in /repo dc2b363; Eval.call_passed follows the repaired code (C04_f9_witness_repaired); C04_call_site_independent_any_inputs_full (no same-inputs hypothesis) is kept as a Prop",
    "note": "trusted: Coq kernel + vm_compute; transcription of collect_free_variables / Expr::Lambda / "
            "FunctionDef::call / evaluate_ast (validated by correspondence); built-ins outside the transcribed set are "
            "Unmodelled in the theorem's evaluator; exclusions of the theorem = open findings F8 (self name before "
            "captured value is part of the stated lookup order) and F32 (assignment expressions in function bodies); "
            "no axioms",
    "design_ref": "DESIGN.md section 6 C04",
}

# ---- closures: (definitions, function expression F, captured names, argument tuples)
CLOSURES = [
    ("k = 3\nF = x => x + k", ["k", "x"], ["(1)", "(2.5)"]),
    ("s = \"cap\"\nl = [1, 2]\nr = {a: 1}\nF = () => [s, l, r, {s}, {...r}]", ["s", "l", "r"], ["()"]),
    ("k = 3\ninner = y => y * k\nF = x => inner(x) + k", ["k", "inner", "x", "y"], ["(1)"]),
    ("add = a => b => a + b\nF = add(10)", ["a", "b", "add"], ["(5)"]),
    ("mk = do {\n  base = 100\n  h = n => n + base\n  return h\n}\nF = mk", ["base", "h", "n", "mk"], ["(1)"]),
    ("fact = n => if n <= 1 then 1 else n * fact(n - 1)\nF = m => fact(m)", ["fact", "n", "m"], ["(5)"]),
    ("k = 2\nF = (a, b?, ...rest) => [a, b, rest, k]", ["k", "a", "b", "rest"], ["(1)", "(1, 2)", "(1, 2, 3, 4)"]),
    ("k = [1, 2, 3]\nF = i => k[i]", ["k", "i"], ["(0)", "(-1)", "(7)"]),
    ("t = 5\nF = x => do {\n  t2 = t + x\n  return t2 * t\n}", ["t", "t2", "x"], ["(1)"]),
    ("k = 3\nF = x => [x] via (e => e + k)", ["k", "e", "x"], ["(1)"]),
    ("k = 3\nF = x => {k}", ["k", "x"], ["(1)"]),
    ("k = 1\ng2 = () => k\nF = () => [g2(), k]", ["k", "g2"], ["()"]),
    ("k = 4\nF = x => (y => (z => x + y + z + k))(1)(2)", ["k", "x", "y", "z"], ["(3)"]),
    # an inner lambda's parameter has the name of a captured outer variable that is used AFTER it
    ("k = 10\nF = xs => [map(xs, k => k * 2), k]", ["k", "xs"], ["([1])"]),
    ("k = 10\nF = xs => [xs via (k => k + 1), k, (k => k)(3), k]", ["k", "xs"], ["([1, 2])"]),
    ("k = 10\nmk = k => xs => [xs where (k => k > 0), k]\nF = mk(5)", ["k", "xs", "mk"], ["([1])"]),
    ("k = 10\nF = () => do {\n  g9 = k => k\n  return [g9(1), k]\n}", ["k", "g9"], ["()"]),
    ("a1 = 1\nb1 = 2\nF = () => [reduce([1], (a1, b1) => a1 + b1, 0), a1, b1]", ["a1", "b1"], ["()"]),
    # the body's do-block re-binds a captured name from its own captured value
    ("y = 10\nF = x => do {\n  y = y + x\n  return y\n}", ["y", "x"], ["(1)"]),
    ("y = 10\nmk = y => (x => do {\n  y = y + x\n  return y\n})\nF = mk(7)", ["y", "x", "mk"], ["(1)"]),
    ("k = 2\nF = x => do {\n  k = k * x\n  g9 = () => k\n  return [k, g9()]\n}", ["k", "x", "g9"], ["(3)"]),
    # a function named like one of its captured names (F8, repaired): the captured value is what it sees
    ("g = 7\nF = () => do {\n  g = () => g\n  return g()\n}", ["g"], ["()"]),
    # a free name that is still unbound when the function is created (its own name, a forward reference)
    # comes BEFORE a bound one in the body: the bound one is captured all the same
    ("k = 10\nF = n => if n <= 0 then 0 else F(n - 1) + k", ["k", "n"], ["(3)"]),
    ("k = 10\nF = n => if n > 100 then later9 else [k, n]", ["k", "n"], ["(3)"]),
    ("k = 10\nmkr = step => (n => if n <= 0 then 0 else self9(n - 1) + step + k)\nF = mkr(5)", ["k", "n", "step"], ["(0)"]),
    # parameters named `inputs` / like the function itself are parameters
    ("F = inputs => [inputs, 1]", ["inputs"], ["(7)"]),
    ("F = (F, inputs?) => [F, inputs]", ["inputs"], ["(7)", "(7, 8)"]),
    # surplus arguments for optional parameters are an error from every call site
    ("F = (a, b?) => [a, b]", ["a", "b"], ["(1)", "(1, 2)", "(1, 2, 3)"]),
]


# ---- enumerated "shadow, then read" bodies (seed C03-b of round 4 was missed by the hand-written list):
# a nested scope of every kind binds the name k somewhere in the body, and the CAPTURED k is read before
# it, after it, or inside a sibling of it, under every parent shape.  A free-variable scan that lets the
# nested binding leak (in either direction) stops capturing k, and the call then sees the call site's k.
BINDERS = [
    ("do-local", "do {\n  k = 1\n  return k\n}"),
    ("do-local-from-param", "do {\n  k = x\n  return k\n}"),
    ("nested-do", "do {\n  t8 = do {\n    k = 2\n    return k\n  }\n  return t8\n}"),
    ("lambda-param", "(k => k)(1)"),
    ("lambda-optional-param", "((k?) => k)(1)"),
    ("lambda-rest-param", "((...k) => k)(1)"),
    ("map-callback-param", "map([1], k => k)"),
    ("via-callback-param", "([1] via (k => k))"),
    ("do-local-function-param", "do {\n  g9 = k => k\n  return g9(1)\n}"),
    ("curried-param", "(a9 => k => [a9, k])(0)(1)"),
]
BODY_SHAPES = [
    ("list-after", "[%(B)s, k]"),
    ("list-before", "[k, %(B)s]"),
    ("list-around", "[k, %(B)s, k]"),
    ("record-after", "{a: %(B)s, b: k}"),
    ("record-shorthand-after", "{a: %(B)s, k}"),
    ("conditional-branch", "if x > 0 then [%(B)s, k] else [k]"),
    ("conditional-condition", "if %(B)s == 1 then k else [k]"),
    ("operand-after", "[%(B)s] + [k]"),
    ("callback-after", "[%(B)s] via (q9 => [q9, k])"),
    ("do-return-after", "do {\n  t9 = %(B)s\n  return [t9, k]\n}"),
    ("argument-after", "(z9 => [z9, k])(%(B)s)"),
    ("inner-closure-after", "[%(B)s, (() => k)()]"),
    ("call-argument-list", "concat([%(B)s], [k])"),
]


def shadow_read_closures():
    out = []
    for bname, b in BINDERS:
        for sname, sh in BODY_SHAPES:
            body = sh % {"B": b}
            out.append(("k = 10\nF = x => " + body, ["k", "x"], ["(1)"]))
    # the same with the closure made by a factory whose parameter is the captured k
    for bname, b in BINDERS[:4]:
        out.append(("k = 10\nmk = k => (x => [%s, k])\nF = mk(5)" % b, ["k", "x", "mk"], ["(1)"]))
    return out


def contexts(call, shadow_names):
    """the context grammar: expressions that must evaluate like the bare `call`"""
    out = [("top", call)]
    for x in shadow_names:
        out.append(("shadowing parameter " + x, "(%s => %s)(999)" % (x, call)))
        out.append(("shadowing do-local " + x, "do {\n  %s = 999\n  return %s\n}" % (x, call)))
        out.append(("nested shadowing " + x, "((%s) => (zz9 => %s)(%s))(998)" % (x, call, x)))
    out.append(("via callback", "([0] via (q9 => %s))[0]" % call))
    out.append(("map callback", "map([0], q9 => %s)[0]" % call))
    out.append(("reduce callback", "reduce([0], (acc9, q9) => %s, 0)" % call))
    # the result seen inside the callback is compared as text: a NaN result is not `.==` to itself
    out.append(("where callback", "([%s] where (q9 => to_string(q9) == to_string(%s)))[0]" % (call, call)))
    out.append(("sort_by callback", "do {\n  tmp9 = sort_by([1, 2], q9 => %s)\n  return %s\n}" % (call, call)))
    out.append(("into", "(0 into (q9 => %s))" % call))
    out.append(("conditional", "if true then %s else 0" % call))
    return out


# functions that captured `inputs` (the harness binds inputs = {n: 5, s: "str", l: [1, 2, 3]})
INPUTS_CLOSURES = [
    ("F = x => #n + x", "F(1)"),
    ("F = x => inputs.n + x", "F(1)"),
    ("F = x => inputs[\"n\"] + x", "F(1)"),
    ("F = () => inputs", "F()"),
    ("F = x => [#n, #s, #l, #missing]", "F(0)"),
    ("F = x => (y => #n + y)(x)", "F(1)"),
    ("mk = () => (x => #n + x)\nF = mk()", "F(1)"),
    ("mk = k => (x => inputs.n * k + x)\nF = mk(2)", "F(1)"),
    ("F = x => do {\n  t = #n\n  return t + x\n}", "F(1)"),
    ("F = x => #l via (e => e + #n + x)", "F(1)"),
    ("G = x => #n + x\nF = x => G(x) + 1", "F(1)"),
    ("F = (x, inputs2?) => #n + x", "F(1)"),
]


def inputs_contexts(call):
    """(name, expression, binds `inputs`?) — the first must be ("top", call, False)"""
    out = [("top", call, False)]
    for val in ("{n: 100, s: \"other\", l: [9]}", "999", "null"):
        out.append(("parameter inputs = " + val, "(inputs => %s)(%s)" % (call, val), True))
        out.append(("do-local inputs = " + val, "do {\n  inputs = %s\n  return %s\n}" % (val, call), True))
        out.append(("nested parameter inputs = " + val, "((inputs) => (zz9 => %s)(0))(%s)" % (call, val), True))
        out.append(("via callback parameter inputs = " + val, "([%s] via (inputs => %s))[0]" % (val, call), True))
        out.append(("optional parameter inputs = " + val, "((q9, inputs?) => %s)(0, %s)" % (call, val), True))
    out.append(("optional parameter inputs absent", "((q9, inputs?) => %s)(0)" % call, True))
    out.append(("rest parameter inputs", "((...inputs) => %s)(1, 2)" % call, True))
    # controls: contexts that bind other names, incl. the names the bodies use and the input keys
    for x in ("n", "s", "l", "x", "y", "t", "k", "e", "inputs2", "input"):
        out.append(("control: parameter " + x, "(%s => %s)(999)" % (x, call), False))
        out.append(("control: do-local " + x, "do {\n  %s = 999\n  return %s\n}" % (x, call), False))
    out.append(("control: via callback", "([0] via (q9 => %s))[0]" % call, False))
    out.append(("control: map callback", "map([0], q9 => %s)[0]" % call, False))
    out.append(("control: into", "(0 into (q9 => %s))" % call, False))
    return out


def shape_lists(maxlen=3):
    """all parameter lists of the documented shape up to maxlen (+ some undocumented ones)"""
    out = []
    for nreq in range(maxlen + 1):
        for nopt in range(maxlen + 1 - nreq):
            for rest in (0, 1):
                if nreq + nopt + rest <= maxlen + 1:
                    out.append(["r"] * nreq + ["o"] * nopt + (["s"] if rest else []))
    return out


def shape_src(shape):
    names = ["p%d" % i for i in range(len(shape))]
    ps = []
    for n_, k in zip(names, shape):
        ps.append(n_ if k == "r" else (n_ + "?" if k == "o" else "..." + n_))
    return "(" + ", ".join(ps) + ") => [" + ", ".join(names) + "]", names


def expected_binding(shape, nargs):
    """None = arity error; else list describing each parameter's value in canonical show syntax"""
    nreq = shape.count("r")
    has_rest = "s" in shape
    if nargs < nreq or (not has_rest and nargs > len(shape)):
        return None
    vals = []
    for i, k in enumerate(shape):
        if k in ("r", "o"):
            vals.append(num_show(10 + i) if i < nargs else "U")
        else:
            vals.append("L[" + ",".join(num_show(10 + j) for j in range(i, nargs)) + "]")
    return "OK:L[" + ",".join(vals) + "]"


def num_show(x):
    import struct
    return "N%016x" % struct.unpack(">Q", struct.pack(">d", float(x)))[0]


def last(o):
    return o.split(";ENV:")[0].split("|")[-1]


def depth_family(res, h, tier, seed, wide, meta, ref_results):
    """DEPTH axis (checks/c04_depth.py): every closure of the context grammar called at every level of deep
    recursions whose frames shadow its names; expected = the bare call at top level.
    -> (programs, implementation results, indices of the programs the model is also run on)"""
    import time
    t0 = time.time()
    rng = c.Rng(seed + 404)
    quick = tier == "quick"
    closures = {}
    for defs, call, cname, ref in meta:
        ent = closures.setdefault(ref, (defs, call, []))
        if cname.startswith("shadowing parameter "):
            ent[2].append(cname[len("shadowing parameter "):])
    core = {d for d, _, _ in CLOSURES} | {d for d, _, _ in wide}
    dprogs, dmeta = [], []
    for ref, (defs, call, names) in closures.items():
        names = list(dict.fromkeys(names))
        shapes = cd.SHAPES if (defs in core or not quick) else [rng.choice(cd.SHAPES)]
        for shape in shapes:
            cbk = cd.CALLBACKS[len(dprogs) % len(cd.CALLBACKS)]
            D = cd.draw_depth(rng, shape, deep=(rng.below(7) == 0))
            p, count = cd.every_level(defs, call, names, shape, D, cbk)
            dprogs.append(p)
            dmeta.append((defs, call, names, shape, D, cbk, count, ref))
    drust = es.rust_eval(h, dprogs)
    viol, sites, by_shape, depths = 0, 0, {}, []
    for (defs, call, names, shape, D, cbk, count, ref), r, p in zip(dmeta, drust, dprogs):
        by_shape[shape] = by_shape.get(shape, 0) + 1
        depths.append(D)
        sites += max(1, count)
        if "PANIC" in r or r.startswith("ABORT"):
            res.violation("the evaluator panicked/aborted", {"kind": "impl", "program": p, "observed": r[:300]})
            continue
        exp = cd.expected_show(ref_results[ref], count)
        if last(r) == exp:
            continue
        viol += 1
        if viol > 3:
            continue
        # smallest recursion depth at which the single call at the bottom differs from the bare call
        small = [cd.bottom_only(defs, call, names, shape, d, cbk) for d in range(1, D + 1)]
        so = es.rust_eval(h, small)
        bad = [i for i, o in enumerate(so) if last(o) != ref_results[ref]]
        if bad:
            i = bad[0]
            res.violation("a closed function returned a different result when called %d levels deep in a recursion "
                          "whose frames bind its captured / parameter names (%s)" % (i + 1, shape),
                          {"kind": "impl-law", "family": "DEPTH", "shape": shape, "callback": cbk if shape == "callback" else None,
                           "levels": i + 1, "failing_levels_up_to_%d" % D: [j + 1 for j in bad[:40]], "shadowed_names": names,
                           "program": small[i], "reference_program": ref, "observed": last(so[i])[:400],
                           "expected": ref_results[ref][:400], "rerun": "./check C04 --replay <this file>"})
        else:
            res.violation("a closed function called at every level of a %d-level recursion whose frames bind its captured / "
                          "parameter names did not return its top-level result every time (%s)" % (D, shape),
                          {"kind": "impl-law", "family": "DEPTH", "shape": shape, "levels": D, "shadowed_names": names,
                           "program": p, "bare_call_program": ref, "observed": last(r)[:400], "expected": exp,
                           "expected_is": "%d copies of the reference result" % count if count else "the reference result",
                           "rerun": "./check C04 --replay <this file>"})
    sd = sorted(depths)
    res.streams["DEPTH"] = {"closures": len(closures), "programs": len(dprogs), "by_recursion_shape": by_shape,
                            "levels_min_median_max": [sd[0], sd[len(sd) // 2], sd[-1]] if sd else [],
                            "programs_over_500_levels": sum(1 for d in depths if d > 500),
                            "call_sites_compared": sites, "violations": viol}
    # the model is run on the shallowest program of each shape (vm_compute; all of them in thorough)
    force = []
    for shape in cd.SHAPES:
        # (not the wide closures: the model's scopes are association lists, 129 names x 130 levels costs 25 s)
        cand = [(m[4], len(dprogs[i]), i) for i, m in enumerate(dmeta) if m[3] == shape and m[4] <= 400 and len(dprogs[i]) < 500]
        force += [i for _, _, i in sorted(cand)[: (3 if quick else 60)]]
    res.streams["DEPTH"]["model_also_run_on"] = len(force)
    res.coverage["depth_rule"] = ("DEPTH: every closure of the context grammar (+ %d wide ones: 9..129 captured names / parameters) "
                                  "called at EVERY level of a recursion of 130..900 levels (depths from c.Rng, one program in seven "
                                  "near the call-depth limit) whose frames bind its captured / parameter names to level-dependent "
                                  "values, in the shapes %s; each of the call sites must give the result of the bare top-level "
                                  "call; a failure is minimised to the smallest recursion with a single call at the bottom"
                                  % (len(wide), ", ".join(cd.SHAPES)))
    res.streams["DEPTH"]["seconds_generate_run_compare"] = round(time.time() - t0, 1)
    return dprogs, drust, force


def main(argv):
    tier, seed, replay = c.tier_and_seed(argv)
    res = c.Result(PID, tier, seed)
    try:
        h = c.build_harness()
        c.regen_all(h)
    except c.BrokenTie as e:
        res.tie_broken(e.what, e.detail)
        return res.finish()
    if replay:
        import json
        rp = json.load(open(replay))
        print(json.dumps(rp, indent=1))
        if rp.get("program") and rp.get("reference_program"):
            o = es.rust_eval(h, [rp["program"], rp["reference_program"]])
            print("implementation now returns:", last(o[0]), "vs reference", last(o[1]))
            return 0 if last(o[0]) == last(o[1]) else 1
        if rp.get("program") and "expected" in rp:
            o = es.rust_eval(h, [rp["program"]])
            print("implementation now returns:", last(o[0]))
            return 0 if last(o[0]) == rp["expected"] else 1
        return 0

    c.proof_step(res, PID, extra_targets=["EvalInst.vo"])
    known = c.open_known(PID)

    # ---------------- context grammar: every closure x every context x argument tuples
    progs, meta = [], []
    wide = cd.wide_closures(c.Rng(seed + 41), tier == "quick")
    for defs, names, argtuples in CLOSURES + shadow_read_closures() + wide:
        for args in argtuples:
            call = "F" + args
            ref = defs + "\n" + call
            for cname, ctx in contexts(call, names):
                progs.append(defs + "\n" + ctx)
                meta.append((defs, call, cname, ref))
            # after a failed redefinition attempt of a captured name (sessions continue)
    # generated closures: random top-level bindings, then a random function over them; every name in
    # scope and every parameter name the generator uses is shadowed in the contexts
    from gen_programs import Gen, Scope
    rngc = c.Rng(seed + 4)
    gg = Gen(rngc, allow_fail=False, max_depth=2)
    n_gen = 25 if tier == "quick" else 1500
    for _ in range(n_gen):
        sc = Scope()
        sc.vars["inputs"] = "rec"
        dl = []
        for _k in range(2 + rngc.below(4)):
            kind = rngc.below(4)
            nm = gg.fresh(sc)
            if kind == 0:
                dl.append("%s = %s" % (nm, gg.num(sc, 1))); sc.vars[nm] = "num"
            elif kind == 1:
                dl.append("%s = %s" % (nm, gg.numlist(sc, 1))); sc.vars[nm] = "numlist"
            elif kind == 2:
                dl.append("%s = %s" % (nm, gg.fn1(sc, 1))); sc.vars[nm] = "fn1"
            else:
                dl.append("%s = %s" % (nm, gg.string(sc, 1))); sc.vars[nm] = "str"
        if any("=" in ln.split("=", 1)[1].replace("=>", "").replace("==", "").replace("<=", "").replace(">=", "").replace("!=", "")
               for ln in dl):
            continue        # no inner assignments (F32 class)
        fexp = gg.fn1(sc, 2)
        if fexp in sc.vars or fexp in ("abs", "floor", "ceil", "trunc", "sqrt"):
            continue
        defs = "\n".join(dl) + "\nF = " + fexp
        names = [n_ for n_ in sc.vars if n_ != "inputs"] + ["x", "e", "item", "n", "i"]
        call = "F(%s)" % rngc.choice(["1", "2.5", "0"])
        ref = defs + "\n" + call
        for cname, ctx in contexts(call, names[:6]):
            progs.append(defs + "\n" + ctx)
            meta.append((defs, call, cname, ref))
    rust = es.rust_eval(h, progs)
    ref_results = {}
    for (defs, call, cname, ref), r in zip(meta, rust):
        if cname == "top":
            ref_results[ref] = last(r)
    ctx_viol = 0
    for (defs, call, cname, ref), r, p in zip(meta, rust, progs):
        if "PANIC" in r or r.startswith("ABORT"):
            res.violation("the evaluator panicked/aborted", {"kind": "impl", "program": p, "observed": r})
            continue
        if last(r) != ref_results[ref]:
            ctx_viol += 1
            if ctx_viol <= 5:
                res.violation("a closed function returned a different result from another call site (%s)" % cname,
                              {"kind": "impl-law", "context": cname, "program": p, "reference_program": ref,
                               "observed": last(r), "expected": ref_results[ref],
                               "rerun": "./check C04 --replay <this file>"})
    # ---------------- INPUTS family: functions that captured `inputs` called from contexts that re-bind
    # `inputs` (class F9).  While F9 is an open known finding a difference in a context that binds
    # `inputs` is counted under it; every other difference, and every difference once F9 is closed,
    # is a violation.  Controls: the same functions under contexts that bind other names.
    f9_open = any(e["id"] == "F9" for e in known)
    iprogs, imeta = [], []
    for defs, call in INPUTS_CLOSURES:
        ref = defs + "\n" + call
        for cname, ctx, binds_inputs in inputs_contexts(call):
            iprogs.append(defs + "\n" + ctx)
            imeta.append((cname, ref, binds_inputs))
    irust = es.rust_eval(h, iprogs)
    iref = {m[1]: last(r) for m, r in zip(imeta, irust) if m[0] == "top"}
    f9_hits, f9_ctx, i_viol = 0, {}, 0
    for (cname, ref, binds_inputs), r, p in zip(imeta, irust, iprogs):
        if "PANIC" in r or r.startswith("ABORT"):
            res.violation("the evaluator panicked/aborted", {"kind": "impl", "program": p, "observed": r})
        elif last(r) != iref[ref]:
            if binds_inputs and f9_open:
                f9_hits += 1
                f9_ctx[cname] = f9_ctx.get(cname, 0) + 1
            else:
                i_viol += 1
                if i_viol <= 5:
                    res.violation("a function that captured `inputs` returned a different result from another call site (%s)" % cname,
                                  {"kind": "impl-law", "context": cname, "program": p, "reference_program": ref,
                                   "observed": last(r), "expected": iref[ref],
                                   "rerun": "./check C04 --replay <this file>"})
    res.streams["INPUTS family"] = {"programs": len(iprogs), "closures": len(INPUTS_CLOSURES),
                                    "contexts binding inputs": sum(1 for m in imeta if m[2]),
                                    "control contexts": sum(1 for m in imeta if not m[2]),
                                    "differences under open finding F9": f9_hits, "by context": f9_ctx,
                                    "violations": i_viol}
    # ---------------- DEPTH: the same calls at every level of deep recursions that shadow the names
    dprogs, drust, dforce = depth_family(res, h, tier, seed, wide, meta, ref_results)
    # ---------------- argument binding: all documented parameter lists x argument counts 0..n+3
    bprogs, bexp, bshape = [], [], []
    for shape in shape_lists(3 if tier == "quick" else 4):
        src, names = shape_src(shape)
        for nargs in range(0, len(shape) + 4):
            args = ", ".join(str(10 + j) for j in range(nargs))
            bprogs.append("B = %s\nB(%s)" % (src, args))
            bexp.append(expected_binding(shape, nargs))
            bshape.append((shape, nargs))
        # the same through a spread argument list
        bprogs.append("B = %s\nB(...[10, 11])" % src)
        bexp.append(expected_binding(shape, 2))
        bshape.append((shape, 2))
    # undocumented orders must not crash (C01 class) and must reject counts that miss a required parameter
    for src in ["(a?, b) => [a, b]", "(...r, b) => [r, b]", "(a?, ...r, b?) => [a, r, b]", "(a, a) => a"]:
        for nargs in range(0, 4):
            bprogs.append("B = %s\nB(%s)" % (src, ", ".join(str(10 + j) for j in range(nargs))))
            bexp.append("nocrash")
            bshape.append((src, nargs))
    brust = es.rust_eval(h, bprogs)
    for p, e, r, sh in zip(bprogs, bexp, brust, bshape):
        lr = last(r)
        if "PANIC" in r or r.startswith("ABORT"):
            res.violation("binding arguments to parameters panicked", {"kind": "impl", "program": p, "observed": r})
        elif e == "nocrash":
            pass
        elif e is None:
            if lr != "ERR":
                res.violation("a wrong argument count was not reported as an error",
                              {"kind": "impl-law", "program": p, "observed": lr, "expected": "ERR"})
        elif lr != e:
            res.violation("arguments were not bound positionally (required / optional=null / rest=list)",
                          {"kind": "impl-law", "program": p, "observed": lr, "expected": e})
    # ---------------- known-finding witnesses (classes excluded from the generator above)
    for e in known:
        w = e.get("witness_program")
        if w:
            o = es.rust_eval(h, [w, e["witness_reference"]])
            still = last(o[0]) != last(o[1])
            res.known("%s %s%s" % (e["id"], e["what"], "" if still else " (no longer reproduces)"))
        else:
            res.known("%s %s" % (e["id"], e["what"]))
    # ---------------- model vs implementation on all of these programs
    allp = progs + bprogs
    allr = rust + brust
    rng = c.Rng(seed)
    idx = list(range(len(allp)))
    n_model = 700 if tier == "quick" else len(allp)
    if len(idx) > n_model:
        idx = sorted(rng.shuffle(idx)[:n_model])
    # the deep programs the model is run on (a few per recursion shape; all in thorough)
    # (spread over the shards; coqc evaluates them on a 1 GiB stack: vm_compute recurses with the program)
    for n_, i in enumerate(dforce):
        idx.insert((n_ * 97) % (len(idx) + 1), len(allp) + i)
    try:
        import resource
        resource.setrlimit(resource.RLIMIT_STACK, (1 << 30, resource.getrlimit(resource.RLIMIT_STACK)[1]))
    except (ValueError, OSError):
        pass
    allp = allp + dprogs
    allr = allr + drust
    agree, mism, skipped = 0, [], 0
    try:
        coq, _ = es.parse_to_coq(h, [allp[i] for i in idx])
        model = es.model_eval(coq, tag="c04")
        for j, i in enumerate(idx):
            if model[j] is None:
                continue
            if "UNMODELLED" in model[j]:
                skipped += 1
            elif model[j] == allr[i]:
                agree += 1
            else:
                mism.append((allp[i], allr[i], model[j]))
    except c.BrokenTie as e:
        res.tie_broken(e.what, e.detail)
    if mism:
        res.tie_broken("correspondence C04/EVAL: model and implementation disagree on %d of %d programs" % (len(mism), len(idx)),
                       "first: %r\nimpl : %s\nmodel: %s" % mism[0])
    res.streams["CONTEXTS"] = {"closures": len(CLOSURES), "shadow_then_read_closures": len(shadow_read_closures()), "programs": len(progs), "context_violations": ctx_viol}
    res.streams["BINDING"] = {"programs": len(bprogs), "shapes": len(shape_lists(3 if tier == "quick" else 4))}
    res.streams["EVAL"] = {"model_compared": len(idx), "agree": agree, "skipped_unmodelled": skipped, "mismatches": len(mism)}
    res.coverage["evaluations"] = len(allp)
    res.coverage["distinct_nontrivial"] = len({(p, last(r)) for p, r in zip(allp, allr) if last(r).startswith("OK")})
    res.coverage["rule"] = ("%d closures + %d enumerated shadow-then-read bodies (every nested binder kind x every parent shape, captured name read before/after/beside it) (capturing numbers/strings/lists/records/closures, curried, escaped from a "
                            "do-block, recursive, optional+rest parameters, shorthand and spread uses) x argument tuples x "
                            "the context grammar (top level, parameter/do-local/nested shadowing of every captured or "
                            "parameter name, via/map/reduce/where/sort_by callbacks, into, conditional); every documented "
                            "parameter list up to length %d x argument counts 0..n+3 (+spread); non-trivial = distinct "
                            "programs that evaluate successfully" % (len(CLOSURES), len(shadow_read_closures()), 3 if tier == "quick" else 4))
    res.coverage["samples"] = [{"program": progs[i], "impl": last(rust[i])} for i in (0, 5, len(progs) - 1)]
    res.coverage["traces_validated_against_impl"] = agree
    return res.finish()


if __name__ == "__main__":
    sys.exit(main(sys.argv[1:]))
