"""C09 — formatting never loses or reorders comments.  See notes/C09.md / DESIGN.md section 6 (C09)."""
import json
import sys

import common as c
import c0809_lib as L
import c09_contexts as X
import c09_parser as PH

PID = "C09"
MANIFEST = {
    "text": "Coq theorems over a document model of formatter.rs and of both statement drivers, for all ASTs, widths, "
            "indentations and all expr_to_source oracles: every comment of the commented AST is accounted for in order "
            "by every layout (shown, or under an expression printed through expr_to_source — and since ff5578e no "
            "comment-carrying expression is printed that way), both drivers account for all statement-level comments "
            "(library loop and blots --format loop), no layout merges a comment into code, a lexer-level scan of the "
            "rendered text recovers the shown comments (chain: scan of the emitted text = comments of the program); "
            "model tied to the code by the "
            "FORMAT correspondence (text equality incl. formatter output re-formatted and the real blots --format "
            "binary) and the comment-sequence oracle searched on the implementation over generated programs with "
            "comments at every position class the grammar admits",
    "note": "trusted: Coq kernel + vm_compute; hand transcription of formatter.rs / format_blots loop / --format loop "
            "(validated by the FORMAT correspondence on every run); PARSER HALF (coq/PegComments.v over the PEG model "
            "coq/Peg.v + gen/Grammar.v): pairs_to_expr_with_comments (pending comments, leading / trailing fields, the "
            "attach-to-last step) and the drivers' statement loop are transcribed and compared with the real parser on every "
            "run (C09P stream: commented-AST skeleton with every comment's role, statement lines, comment pairs); proved: "
            "the commented Pratt glue keeps every comment of its token stream in order, the tree's comment pairs = the "
            "program's comments (C09_parse_keeps_comments), and tree -> emitted text for both drivers, under two decidable "
            "grammar-shape hypotheses that the stream TESTS on every interpreter tree (flags S, V), the first of which "
            "(forest_shape_ok) is since round C09P2 PROVED of Peg.parse for every text (C09_shape_comment_texts: a comment pair's text is // + no line "
            "feed; C09_shape_do_statement: a comment-first do_statement has no second pair; C09_shape_inner_pairs: one "
            "return_statement, last, per do_block, and the inner-pair sequences of "
            "do_statement / list_item / record_item / statement / return_statement; generic tools "
            "C09_shape_postconditions_hold_of_every_node, C09_shape_top_level_pairs for every grammar) and "
            "with the explicit exclusion C09-empty-container (refuted witness `[ // c <LF> ]`); F20 (comments consumed by "
            "NEWLINE) is characterised on the regenerated grammar (NEWLINE / inline_comment / plain_newline silent and "
            "closed; 6-byte witness through the interpreter, re-run on the real parser) and, since round C09P2, as a theorem: "
            "quiet rules emit no pairs for EVERY grammar (C09_quiet_rules_emit_no_pairs), hence NEWLINE never yields a pair "
            "on gen/Grammar.v for every text (C09_newline_never_yields_a_pair); wf_ast of everything the parser model "
            "returns is proved (C09_parser_output_wf_ast), so the end-to-end theorems need stmt_ok without it; gen/Grammar.v "
            "and gen/PrecTable.v are regenerated before the proof step; the shape hypothesis forest_shape_ok is PROVED of "
            "every Peg.parse result (C09_shape_items: tree facts C09_shape_comment_texts / C09_shape_inner_pairs / "
            "C09_shape_do_statement — the last by a FIRST-byte analysis of the interpreter — carried through PegToItems.conv), "
            "so C09_parse_keeps_comments_text / C09_text_to_text_lib / _cli start from the text with that hypothesis and "
            "wf_ast discharged; since round VIEW the second shape hypothesis forest_view_ok (the item view reads every "
            "comment pair) is PROVED of every Peg.parse result as well (C09_view_items = the former C09_view_items_full: a "
            "uniform per-rule inner-pair specification computed from gen/Grammar.v, C09_view_inner_pairs / "
            "C09_view_top_level, and the tree-level C09_view_conv over all ten structural arms of conv), flag V is now a "
            "redundant cross-check, and C09_parse_keeps_comments_text_total / C09_text_to_text_lib_total / _cli_total "
            "start from the text with only the exclusion forest_no_empty_container and the formatter-half stmt_ok_parsed "
            "as hypotheses; round ATOMS: the COMMENT part of atoms_ok is derived from the parser model for the weaker "
            "predicate comment_ok_cr (`//` + LF-free text not ending in CR; a bare CR inside is admitted; ScanFmt / DriverText "
            "re-proved for it: C09_fmtd_wf_doc_cr, C09_*_driver_text_comments_cr, C09_atoms_ok_split, "
            "C09_parsed_program_comments_ok_cr) and C09_text_to_text_lib_closed / _cli_closed start from the text with the two "
            "exclusions forest_no_empty_container and `no comment pair ends in CR` (new finding C09-comment-trailing-cr: "
            "`// a<CR>` + the emitted LF re-reads as `// a`, scanner-level witness C09_comment_trailing_cr_refuted) and "
            "stmt_rest_ok; PARTIAL: the names / keys part of atoms_ok (names_ok: identifiers are plain, static keys key_ok) "
            "is still a hypothesis (not connected to PegIdent.v), as are the expr_to_source texts (opaque_texts_neutral) "
            "and `a comment statement has no second comment`; "
            "the findings stay open; blots-wasm is not built natively, its loop is mirrored in harness/src/s_c0809.rs; "
            "no axioms",
    "design_ref": "DESIGN.md section 6 C09; notes/C09.md",
}


def comment_oracle(sc, driver):
    """-> None when the property holds on this case, else (what, observed dict, known class|None)."""
    out = sc.lib1 if driver == "lib" else sc.cli1
    if out is None or out[0] != "OK":
        return None
    texts_in = [t for t, _, _ in sc.case.comments]
    got = L.py_scan(out[1])
    recs = {t: (t, cls, fl) for t, cls, fl in sc.case.comments}
    # nothing invented / duplicated / altered, order kept
    pos = 0
    for g in got:
        try:
            pos = texts_in.index(g, pos) + 1
        except ValueError:
            return ("the output contains a comment that is not in the input, or comments were reordered/duplicated",
                    {"input_comments": texts_in, "output_comments": got, "offending": g}, None)
    missing = [t for t in texts_in if t not in got]
    if not missing:
        return None
    classes = {L.known_class_of_comment(recs[t], driver) for t in missing}
    if None in classes:
        bad = [t for t in missing if L.known_class_of_comment(recs[t], driver) is None]
        return ("comment lost by the formatter (%s driver): position class %s"
                % (driver, ", ".join(sorted({recs[t][1] for t in bad}))),
                {"input_comments": texts_in, "output_comments": got, "lost": bad,
                 "lost_classes": {t: recs[t][1] for t in bad}}, None)
    return ("known", {"lost": missing}, sorted(classes))


def shrink(h, clir, sc, driver, obs):
    """smaller program on which the same comment is still lost / the output still has a foreign comment"""
    def fmt(s):
        return clir.format(s) if driver == "cli" else L.impl_format(h, [(s, sc.width, "lib")])[0]
    lost = obs.get("lost")
    if lost:
        t = lost[0]

        def pred(s):
            o = fmt(s)
            return o[0] == "OK" and t in L.py_scan(s) and t not in L.py_scan(o[1])
    else:
        def pred(s):
            o = fmt(s)
            if o[0] != "OK":
                return False
            a, b = L.py_scan(s), L.py_scan(o[1])
            pos = 0
            for g in b:
                if g not in a[pos:]:
                    return True
                pos = a.index(g, pos) + 1
            return False
    return L.shrink_lines(sc.src, pred)


def regen_parens(h):
    """coq/gen/ParensTable.v (found by common.regen_all: a full .vo build needs every generated table)"""
    return L.regen_parens(h)


def replay(h, cli, path):
    with open(path) as f:
        rp = json.load(f)
    print(json.dumps(rp, indent=1))
    src = rp.get("source")
    if src is None:
        return 0
    clir = L.CliRunner(cli)
    try:
        if rp.get("driver") == "cli":
            out = clir.format(src)
        else:
            out = L.impl_format(h, [(src, rp.get("width"), "lib")])[0]
    finally:
        clir.close()
    print("implementation now returns:", out)
    if out[0] != "OK":
        return 1
    a, b = L.py_scan(src), L.py_scan(out[1])
    print("comments in :", a)
    print("comments out:", b)
    return 0 if a == b else 1


def main(argv):
    tier, seed, replay_path = c.tier_and_seed(argv)
    res = c.Result(PID, tier, seed)
    rng = c.Rng(seed ^ 0x0C09)
    try:
        h, cli, _ = L.setup(res)
    except c.BrokenTie as e:
        res.tie_broken(e.what, e.detail)
        return res.finish()
    if replay_path:
        return replay(h, cli, replay_path)
    PH.regen_tables(h, res)      # C09_shape_* / C09_newline_* are over gen/Grammar.v: regenerate before the proofs
    c.proof_step(res, PID)
    clir = L.CliRunner(cli)
    try:
        quick = tier == "quick"
        # ---- correspondence
        validated = L.correspondence(res, h, clir, rng, 250 if quick else 3000, PID, "c09")
        # ---- parser half: text -> pair tree (Peg.v) -> commented AST (PegComments.v) against the real parser
        validated += PH.parser_half(h, res, c.Rng(seed ^ 0x0C09B), tier, L.py_scan)
        # ---- the property on the implementation
        progs = (L.corpus_programs(PID) + X.programs(rng, 400 if quick else 20000) +
                 L.gen_programs(rng, 500 if quick else 12000, h=h))
        cases = L.run_search_inputs(h, clir, progs, cli_every=1 if quick else 2)
        # the generator's bookkeeping against the independent scanners (harness + python)
        scans = L.impl_scan(h, [sc.src for sc in cases])
        bad_gen = 0
        for sc, hs in zip(cases, scans):
            texts = [t for t, _, _ in sc.case.comments]
            if hs != texts or L.py_scan(sc.src) != texts:
                bad_gen += 1
                if bad_gen == 1:
                    res.tie_broken("comment scanner and generator bookkeeping disagree on an input",
                                   "source=%r generator=%r harness scan=%r python scan=%r"
                                   % (sc.src, texts, hs, L.py_scan(sc.src)))
        known_hits = {}
        lost_by_class = {}
        checked = 0
        nontrivial = set()
        for sc in cases:
            for driver in ("lib", "cli"):
                out = sc.lib1 if driver == "lib" else sc.cli1
                if out is None or out[0] != "OK":
                    continue
                checked += 1
                if sc.case.comments:
                    nontrivial.add((sc.src, driver))
                r = comment_oracle(sc, driver)
                if r is None:
                    continue
                what, obs, classes = r
                if classes:
                    for k in classes:
                        known_hits[k] = known_hits.get(k, 0) + 1
                    continue
                if len(res.violations) < 5:
                    obs = dict(obs, shrunk_source=shrink(h, clir, sc, driver, obs))
                    res.violation(what, dict(obs, kind="impl-law", source=sc.src, width=sc.width, driver=driver,
                                             formatted=out[1],
                                             expected="comment sequence of the output == comment sequence of the input",
                                             rerun="./check C09 --replay <this file>"))
        # ---- known findings: re-run the witnesses
        for e in c.open_known(PID):
            w = e["witness"]
            if w["driver"] == "cli":
                out = clir.format(w["source"])
            else:
                out = L.impl_format(h, [(w["source"], w.get("width"), "lib")])[0]
            still = out[0] == "OK" and L.py_scan(out[1]) != L.py_scan(w["source"])
            res.known("%s %s%s" % (e["id"], e["what"], "" if still else " (no longer reproduces)"))
    finally:
        clir.close()
    ncomments = sum(len(sc.case.comments) for sc in cases)
    res.coverage["evaluations"] = checked + res.streams.get("FORMAT", {}).get("lib", 0) * 2
    res.coverage["distinct_nontrivial"] = len(nontrivial)
    res.coverage["rule"] = ("CONTEXT programs (checks/c09_contexts.py: 11 commented containers under each of 31 parent "
                            "node shapes, and under sampled / all pairs of parents) + generated programs (1-5 statements, expression depth <= 4, comments injected at the 20 "
                            "position classes of checks/c0809_gen.py, 0-5 blank lines) x width sampled in 1..120/default "
                            "x driver (library loop / real blots --format binary); non-trivial = distinct (program, driver) "
                            "pairs with at least one comment that were accepted by the parser")
    res.coverage["samples"] = [{"source": sc.src, "width": sc.width, "lib": sc.lib1[1] if sc.lib1[0] == "OK" else sc.lib1[0]}
                               for sc in cases[:3]]
    res.coverage["traces_validated_against_impl"] = validated
    res.streams["SEARCH-comments"] = {
        "programs": len(cases), "driver_runs_checked": checked, "comments_injected": ncomments,
        "known_class_hits": known_hits, "generator": L.generator_distribution(progs),
        "parser_rejects": L.check_reject_rate(res, cases)}
    res.assumptions = [
        "comment = // up to end of line outside string literals; string literals have no escapes (grammar.pest)",
        "string literals may contain the other quote character and `//` (since afe753e expr_to_source picks a quote "
        "character that does not occur in the string)",
        "blots-wasm::format_blots is exercised through its line-by-line mirror in harness/src/s_c0809.rs"]
    return res.finish()


if __name__ == "__main__":
    sys.exit(main(sys.argv[1:]))
