"""C16 / CAPTURED: finite numbers inside CAPTURED CONTAINERS through function-source emission.

The NUMTEXT stream takes every sampled double through function emission as a captured *scalar* (`f = y => x`).
A function can equally capture a list, a record, a nested container, or another closure that captured one; the
emitter (`serializable_value_to_source`) has its own arms for those, and each arm writes the numbers it holds.
This family builds, value-first, containers whose leaves are doubles of stated classes, captures them in
functions of several forms, and checks on the real implementation that every finite leaf comes back as the
identical double
  * through JSON function output -> JSON function input -> call          (R)
  * after emitting the reloaded function again and reloading that        (R2)
  * through to_string(f) -> the parser -> call                           (TR)
  * through the real binary: `blots prog1 | blots prog2`                 (CLI)
and (tie to the model) that the emitted text of the container is the structural composition of the SCALAR
emission texts of its leaves - the texts the NUMTEXT correspondence has just compared with the model's
`emit_num`, which is what theorem C16_function_emission_reads_back speaks about.

Everything random comes from the c.Rng handed in.  Names in generated programs are written `@name@` and are
instantiated per entry point (harness: plain names; CLI batches: one suffix per case)."""
import json
import re
import struct
import subprocess
import time

import common as c


def _bits(x):
    return struct.unpack("<Q", struct.pack("<d", x))[0]


def _f(b):
    return struct.unpack("<d", struct.pack("<Q", b))[0]


def _hx(b):
    return "%016x" % b


def _finite(b):
    return (b >> 52) & 0x7FF != 0x7FF


# --------------------------------------------------------------------------- leaf classes (value-first)
CLASSES = ("zero+", "zero-", "small-int", "int<1e15", "int[1e15,2^53)", "int[2^53,2^63)", "whole>=2^63",
           "fraction>=1", "fraction<1", "subnormal")


def classify(b):
    x = abs(_f(b))
    if x == 0.0:
        return "zero-" if b >> 63 else "zero+"
    if x < 2.2250738585072014e-308:
        return "subnormal"
    if x != int(x):
        return "fraction>=1" if x >= 1 else "fraction<1"
    if x <= 100:
        return "small-int"
    if x < 1e15:
        return "int<1e15"
    if x < 2.0 ** 53:
        return "int[1e15,2^53)"
    if x < 2.0 ** 63:
        return "int[2^53,2^63)"
    return "whole>=2^63"


def extra_doubles():
    """doubles added to the NUMTEXT sample so that every leaf class has members whose scalar texts have been
    compared with the model: the i64 / u64 / i128 conversion edges and a few everyday huge constants"""
    out = []
    for v in (2.0 ** 62, 2.0 ** 63, 2.0 ** 64, 2.0 ** 127, 2.0 ** 128, 1e18, 9.2e18, 9223372036854775807.0,
              9223372036854777856.0, 9223372036854774784.0, 1e19, 1.8446744073709552e19, 6.02214076e23, 1e100,
              1e300, 1.7976931348623157e308, 4294967296.0, 4294967295.0, 2147483648.0, 2147483647.0, 65536.0,
              255.0, 256.0, 100.0, 42.0, 7.0, 3.0, 2.0, 1.0, 10.0, 9007199254740992.0, 9007199254740991.0,
              1e15, 999999999999999.0, 4503599627370496.5, 0.5, 1.5, 0.1, 2.5, 1e-7, 123.456):
        out += [_bits(v), _bits(v) | (1 << 63)]
    out += [0, 1 << 63]
    return out


# --------------------------------------------------------------------------- container trees
# tree ::= ("n", leaf index) | ("x", source text of a non-number leaf) | ("l", [tree]) | ("r", [(key, tree)])
KEYS = ["a", "b", "c", "k1", "key", "x", "y", "with space", "é", "if", "0"]
OTHER_LEAVES = ['"s"', "null", "true", "false", '""', '"1"']
NONFINITE = ["(0/0)", "(1/0)", "(-1/0)"]          # run-time NaN / infinities, built in the setup program


def key_src(k):
    return k if re.fullmatch(r"[a-z][a-z0-9]*", k) and k not in ("if",) else json.dumps(k, ensure_ascii=False)


def key_path(k):
    return "." + k if re.fullmatch(r"[a-z][a-z0-9]*", k) and k not in ("if",) else "[%s]" % json.dumps(k, ensure_ascii=False)


def tree_src(t):
    if t[0] == "n":
        return "@n%d@" % t[1]
    if t[0] == "x":
        return t[1]
    if t[0] == "l":
        return "[" + ", ".join(tree_src(u) for u in t[1]) + "]"
    return "{" + ", ".join("%s: %s" % (key_src(k), tree_src(u)) for k, u in t[1]) + "}"


def tree_leaves(t, path=()):
    """[(path, leaf index)], path = tuple of ('i', k) / ('k', key)"""
    if t[0] == "n":
        return [(path, t[1])]
    if t[0] == "x":
        return []
    if t[0] == "l":
        return [pl for k, u in enumerate(t[1]) for pl in tree_leaves(u, path + (("i", k),))]
    return [pl for k, u in t[1] for pl in tree_leaves(u, path + (("k", k),))]


def path_src(path):
    return "".join("[%d]" % p[1] if p[0] == "i" else key_path(p[1]) for p in path)


class Gen:
    def __init__(self, rng, pool_by_class):
        self.rng = rng
        self.pool = pool_by_class
        self.classes = [k for k in CLASSES if pool_by_class.get(k)]
        self.leaves = []

    def leaf(self, cls=None):
        cls = cls or self.rng.choice(self.classes)
        b = self.rng.choice(self.pool[cls])
        self.leaves.append(b)
        return ("n", len(self.leaves) - 1)

    def numlist(self, n, profile):
        """profile: one class for every element / any class per element"""
        cls = self.rng.choice(self.classes) if profile == "uniform-class" else None
        return ("l", [self.leaf(cls) for _ in range(n)])

    def record(self, n, mk):
        keys = self.rng.shuffle(KEYS)[:n]
        return ("r", [(k, mk()) for k in keys])

    def any_tree(self, depth):
        r = self.rng.below(10)
        if depth == 0 or r < 4:
            return self.leaf() if self.rng.chance(5, 6) else ("x", self.rng.choice(OTHER_LEAVES))
        if r < 7:
            return ("l", [self.any_tree(depth - 1) for _ in range(self.rng.below(4))])
        return self.record(self.rng.below(4), lambda: self.any_tree(depth - 1))


SHAPES = ("numlist", "numlist-1", "numlist-long", "numlist+nonfinite", "mixedlist", "list-of-numlists",
          "record-of-numbers", "record-of-numlists", "list-of-records", "numlist-in-mixed", "random-tree")


def gen_container(g, shape):
    rng = g.rng
    prof = "uniform-class" if rng.chance(1, 2) else "any"
    if shape == "numlist":
        return g.numlist(2 + rng.below(7), prof)
    if shape == "numlist-1":
        return g.numlist(1, prof)
    if shape == "numlist-long":
        return g.numlist(65 + rng.below(200) if rng.chance(1, 4) else 20 + rng.below(30), prof)
    if shape == "numlist+nonfinite":
        t = g.numlist(1 + rng.below(5), prof)
        t[1].insert(rng.below(len(t[1]) + 1), ("x", rng.choice(NONFINITE)))
        return t
    if shape == "mixedlist":
        t = g.numlist(1 + rng.below(5), prof)
        t[1].insert(rng.below(len(t[1]) + 1), ("x", rng.choice(OTHER_LEAVES)))
        return t
    if shape == "list-of-numlists":
        return ("l", [g.numlist(rng.below(4), prof) for _ in range(1 + rng.below(3))])
    if shape == "record-of-numbers":
        return g.record(1 + rng.below(4), lambda: g.leaf())
    if shape == "record-of-numlists":
        return g.record(1 + rng.below(3), lambda: g.numlist(1 + rng.below(4), prof))
    if shape == "list-of-records":
        return ("l", [g.record(1 + rng.below(3), lambda: g.leaf()) for _ in range(1 + rng.below(3))])
    if shape == "numlist-in-mixed":
        return ("l", [("x", rng.choice(OTHER_LEAVES)), g.numlist(1 + rng.below(4), prof), g.leaf()])
    while True:
        t = g.any_tree(3)
        if t[0] in ("l", "r") and tree_leaves(t):
            return t


# --------------------------------------------------------------------------- function forms
# a form maps the container (bound to @t@) to a setup program ending in the binding of @f@ and one probe per leaf
FORMS = ("whole", "index", "cond-paths", "shorthand", "spread", "closure", "closure-index", "do-block",
         "pair-with-scalar", "two-tables", "inner-lambda", "inputs-ref", "inputs-field")


def build_case(g, shape, form):
    """-> dict(setup, probes[(expr, leaf index)], text_law: None | (prefix, suffix))"""
    t = gen_container(g, shape)
    lv = tree_leaves(t)
    pre = "@t@ = %s\n" % tree_src(t)
    law = (None, "")        # (None, _): the composed container text must OCCUR in the emitted source; else prefix/suffix
    first_ok = all(p for p, _ in lv)
    if form == "index" and not first_ok:
        form = "whole"
    if form == "spread" and t[0] not in ("l", "r"):
        form = "whole"
    if form == "whole":
        setup = pre + "@f@ = () => @t@"
        probes = [("@f@()" + path_src(p), i) for p, i in lv]
        law = ("() => ", "")
    elif form == "index":
        setup = pre + "@f@ = i => @t@[i]"
        probes = [("@f@(%s)%s" % (p[0][1] if p[0][0] == "i" else json.dumps(p[0][1], ensure_ascii=False),
                                path_src(p[1:])), i) for p, i in lv]
        law = ("(i) => ", "[i]")
    elif form == "cond-paths":
        lv = lv[:4]
        body = "".join("if k == %d then @t@%s else " % (j, path_src(p)) for j, (p, _) in enumerate(lv)) + "null"
        setup = pre + "@f@ = k => " + body
        probes = [("@f@(%d)" % j, i) for j, (_, i) in enumerate(lv)]
    elif form == "shorthand":
        setup = pre + "@f@ = () => {@t@}"
        # the record key is the instantiated name of the table: the probe indexes by that name
        probes = [('@f@()["@t@"]' + path_src(p), i) for p, i in lv]
    elif form == "spread":
        setup = pre + ("@f@ = () => [...@t@]" if t[0] == "l" else "@f@ = () => {...@t@}")
        probes = [("@f@()" + path_src(p), i) for p, i in lv]
    elif form == "closure":
        setup = pre + "@g@ = () => @t@\n@f@ = () => @g@()"
        probes = [("@f@()" + path_src(p), i) for p, i in lv]
    elif form == "closure-index":
        setup = pre + "@g@ = p => p(@t@)\n@f@ = p => @g@(p)"
        probes = [("@f@(v => v%s)" % path_src(p), i) for p, i in lv]
    elif form == "do-block":
        setup = pre + "@f@ = () => do {\n  u = @t@\n  return u\n}"
        probes = [("@f@()" + path_src(p), i) for p, i in lv]
    elif form == "pair-with-scalar":
        s = g.leaf()
        setup = pre + "@s@ = @n%d@\n@f@ = () => [@s@, @t@]" % s[1]
        probes = [("@f@()[0]", s[1])] + [("@f@()[1]" + path_src(p), i) for p, i in lv]
    elif form == "two-tables":
        u = gen_container(g, g.rng.choice(("numlist", "mixedlist", "record-of-numbers")))
        lu = tree_leaves(u)
        setup = pre + "@u@ = %s\n@f@ = w => if w then @t@ else @u@" % tree_src(u)
        probes = [("@f@(true)" + path_src(p), i) for p, i in lv] + [("@f@(false)" + path_src(p), i) for p, i in lu]
    elif form in ("inputs-ref", "inputs-field"):
        # the function captured `inputs` (a record holding the container): the `#tab` / `inputs.tab` emission sites
        setup = "inp = {tab: %s, other: 1}\n#!inputs\n@f@ = () => %s" % (tree_src(t), "#tab" if form == "inputs-ref" else "inputs.tab")
        probes = [("@f@()" + path_src(p), i) for p, i in lv]
    else:   # inner-lambda: the capture is mentioned only inside a lambda nested in the body
        setup = pre + "@f@ = () => (q => @t@)"
        probes = [("@f@()(0)" + path_src(p), i) for p, i in lv]
    return {"shape": shape, "form": form, "tree": t, "setup": setup, "probes": probes, "law": law}


def inst(text, suffix=""):
    return re.sub(r"@([a-z0-9]+)@", lambda m: m.group(1) + suffix, text)


# --------------------------------------------------------------------------- expected text (compositional law)
def compose(t, leaves, scalar_text):
    """text the emitter must write for the container if every number is written as the scalar emission writes it"""
    if t[0] == "n":
        return scalar_text.get(leaves[t[1]])
    if t[0] == "x":
        s = t[1]
        return {"(0/0)": "(0/0)", "(1/0)": "inf", "(-1/0)": "(-inf)"}.get(s, s)
    if t[0] == "l":
        parts = [compose(u, leaves, scalar_text) for u in t[1]]
        return None if any(p is None for p in parts) else "[" + ", ".join(parts) + "]"
    parts = [(k, compose(u, leaves, scalar_text)) for k, u in t[1]]
    if any(p is None for _, p in parts):
        return None
    return "{" + ", ".join("%s: %s" % (key_src(k), p) for k, p in parts) + "}"


def lit_src(t, leaves, src_text):
    """the container as a literal of a program, every number written as its Number-node source text"""
    if t[0] == "n":
        return src_text[leaves[t[1]]]
    if t[0] == "x":
        return t[1]
    if t[0] == "l":
        return "[" + ", ".join(lit_src(u, leaves, src_text) for u in t[1]) + "]"
    return "{" + ", ".join("%s: %s" % (key_src(k), lit_src(u, leaves, src_text)) for k, u in t[1]) + "}"


def show_tree(t, leaves):
    """harness show_value text of the container"""
    if t[0] == "n":
        return "N" + _hx(leaves[t[1]])
    if t[0] == "x":
        s = t[1]
        return {"null": "U", "true": "T", "false": "F"}.get(s) or "S%s;" % c.hexs(s[1:-1])
    if t[0] == "l":
        return "L[" + ",".join(show_tree(u, leaves) for u in t[1]) + "]"
    return "R{" + ",".join("%s:%s" % (c.hexs(k), show_tree(u, leaves)) for k, u in t[1]) + "}"


def fields(line):
    d = {}
    for part in line.split(" "):
        if "=" in part:
            k, v = part.split("=", 1)
            d[k] = v
    return d


def harness_line(case, leaves):
    return "%s %s %s" % (",".join(_hx(b) for b in leaves), c.hexs(inst(case["setup"])),
                         c.hexs("\n".join(inst(p) for p, _ in case["probes"])))


PATHS = {"R": "JSON function output -> JSON function input -> call",
         "R2": "emission of the reloaded function again -> reload -> call",
         "TR": "to_string(f) -> parser -> call"}


def judge(case, leaves, out):
    """-> (list of (path, probe, leaf bits, observed), generator_problem | None)"""
    f = fields(out)
    exp = [_hx(leaves[i]) for _, i in case["probes"]]
    fin = [_finite(leaves[i]) for _, i in case["probes"]]
    if "O" not in f:
        return [], "setup/probe failed on the ORIGINAL function: %s" % out[:200]
    if f["O"].split(",") != exp:
        return [], "the ORIGINAL function does not return the leaves: %s vs %s" % (f["O"], ",".join(exp))
    bad = []
    for path in ("R", "R2", "TR"):
        got = f.get(path, "MISSING").split(",")
        if len(got) != len(exp):
            bad.append((path, None, None, f.get(path, "MISSING")))
            continue
        for (pe, _), e, g_, fi in zip(case["probes"], exp, got, fin):
            if fi and g_ != e:
                bad.append((path, inst(pe), e, g_))
    return bad, None


def replay_dict(case, leaves, out, bad):
    f = fields(out)
    path, probe, e, got = bad[0]
    d = {"kind": "c16-capt", "shape": case["shape"], "form": case["form"],
         "bits": [_hx(b) for b in leaves], "values": [repr(_f(b)) for b in leaves],
         "setup": inst(case["setup"]), "probes": [inst(p) for p, _ in case["probes"]],
         "expected": [_hx(leaves[i]) for _, i in case["probes"]],
         "path": PATHS.get(path, path), "failing_probe": probe, "expected_bits": e,
         "expected_value": repr(_f(int(e, 16))) if e else None, "observed": got,
         "observed_value": repr(_f(int(got, 16))) if got and re.fullmatch(r"[0-9a-f]{16}", got) else None,
         "emitted_source": c.unhex(f["E"]) if re.fullmatch(r"[0-9a-f]+", f.get("E", "")) else f.get("E"),
         "to_string_text": c.unhex(f["T"]) if re.fullmatch(r"[0-9a-f]+", f.get("T", "")) else f.get("T"),
         "failures_in_this_case": len(bad),
         "rerun": "./check C16 --replay <this file>   (n0.. are bound bit-exactly, then setup, then the probes on "
                  "the original and on the reloaded function)"}
    return d


def replay(h, rp):
    if rp.get("kind") == "c16-astlit":
        out = c.harness_lines_resilient(h, "c16-astlit", [c.hexs(rp["text"])])[0]
        f = fields(out)
        print("implementation now returns:", {k_: f.get(k_) for k_ in ("V", "S", "F0", "F1", "F2", "F3", "F4")})
        return 0 if all(f.get(k_) == rp["expected"] for k_ in ("V", "S", "F0", "F1", "F2", "F3", "F4")) else 1
    leaves = [int(b, 16) for b in rp["bits"]]
    line = "%s %s %s" % (",".join(rp["bits"]), c.hexs(rp["setup"]), c.hexs("\n".join(rp["probes"])))
    out = c.harness_lines_resilient(h, "c16-capt", [line])[0]
    f = fields(out)
    print("implementation now returns:", {k: f.get(k) for k in ("O", "R", "R2", "TR")})
    if re.fullmatch(r"[0-9a-f]+", f.get("E", "")):
        print("emitted source:", c.unhex(f["E"]))
    exp = rp["expected"]
    ok = True
    for k in ("R", "R2", "TR"):
        got = f.get(k, "").split(",")
        if len(got) != len(exp):
            ok = False
            continue
        for e, g_ in zip(exp, got):
            if _finite(int(e, 16)) and e != g_:
                ok = False
    return 0 if ok else 1


# --------------------------------------------------------------------------- the real binary: blots prog1 | blots prog2
def run_cli_batch(cli, batch):
    """batch = [(case, leaves)], all leaves finite.  -> (list of per-case list of bits | None, error text | None)"""
    nums = [[repr(_f(b)) for b in leaves] for _, leaves in batch]
    doc = '{"n":[' + ",".join("[" + ",".join(ns) + "]" for ns in nums) + "]}"
    p1 = []
    for k, (case, leaves) in enumerate(batch):
        sfx = "_%d" % k
        for j in range(len(leaves)):
            p1.append("n%d%s = inputs.n[%d][%d]" % (j, sfx, k, j))
        p1.append(inst(case["setup"], sfx))
        p1.append("output f%s" % sfx)
    prog1 = "\n".join(p1)
    r1 = subprocess.run([cli, "-i", doc, prog1], stdin=subprocess.DEVNULL, capture_output=True, text=True, timeout=600)
    if r1.returncode != 0:
        return None, "first program: exit %d: %s" % (r1.returncode, (r1.stdout + r1.stderr)[-300:])
    rows = []
    for k, (case, leaves) in enumerate(batch):
        sfx = "_%d" % k
        rows.append("[" + ", ".join(inst(p, sfx).replace("f" + sfx, "inputs.f" + sfx, 1) for p, _ in case["probes"]) + "]")
    prog2 = "output r = [\n" + ",\n".join(rows) + "\n]"
    r2 = subprocess.run([cli, prog2], input=r1.stdout, capture_output=True, text=True, timeout=600)
    if r2.returncode != 0:
        return None, "second program: exit %d: %s" % (r2.returncode, (r2.stdout + r2.stderr)[-300:])
    try:
        got = json.loads(r2.stdout)["r"]
        return [[_hx(_bits(float(v))) if isinstance(v, (int, float)) and not isinstance(v, bool) else "OTHER"
                 for v in row] for row in got], None
    except Exception:   # noqa
        return None, "unparsable output of the second program: %s" % r2.stdout[-300:]


def cli_programs(case, leaves):
    nums = ",".join(repr(_f(b)) for b in leaves)
    p1 = "\n".join(["n%d_0 = inputs.n[0][%d]" % (j, j) for j in range(len(leaves))]
                   + [inst(case["setup"], "_0"), "output f_0"])
    p2 = "output r = [[" + ", ".join(inst(p, "_0").replace("f_0", "inputs.f_0", 1) for p, _ in case["probes"]) + "]]"
    return "blots -i '{\"n\":[[%s]]}' '%s' </dev/null | blots '%s'" % (nums, p1, p2)


# --------------------------------------------------------------------------- the stream
def run(res, rng, h, cli, xs, rust, model_ok, quick):
    """xs / rust: the NUMTEXT sample and its c16-num fields (scalar emission text E per double);
    model_ok(bits) -> True when the model reproduced that scalar text in this run"""
    t_start = time.time()
    scalar_text = {}
    pool = {}
    for b, f in zip(xs, rust):
        if f and "E" in f:
            scalar_text[b] = c.unhex(f["E"])
        if _finite(b):
            pool.setdefault(classify(b), []).append(b)
    n_cases = 4000 if quick else 30000
    n_cli = 600 if quick else 6000
    cases = []
    dist = {"shape": {}, "form": {}, "leaf_class": {}, "leaves": 0, "probes": 0}
    # every (shape, form) pair first, then random pairs
    pairs = [(s, f) for s in SHAPES for f in FORMS]
    k = 0
    while len(cases) < n_cases:
        shape, form = pairs[k] if k < len(pairs) else (rng.choice(SHAPES), rng.choice(FORMS))
        k += 1
        g = Gen(rng, pool)
        case = build_case(g, shape, form)
        if not case["probes"]:
            continue
        cases.append((case, g.leaves))
        dist["shape"][case["shape"]] = dist["shape"].get(case["shape"], 0) + 1
        dist["form"][case["form"]] = dist["form"].get(case["form"], 0) + 1
        for b in g.leaves:
            cl = classify(b)
            dist["leaf_class"][cl] = dist["leaf_class"].get(cl, 0) + 1
        dist["leaves"] += len(g.leaves)
        dist["probes"] += len(case["probes"])
    outs = c.harness_lines_resilient(h, "c16-capt", [harness_line(cs, lv) for cs, lv in cases])
    failing = []
    gen_problems = []
    law_checked = law_bad = law_model_backed = 0
    law_first = None
    reemit_differs = 0
    for (case, leaves), out in zip(cases, outs):
        if out.startswith("PANIC") or out.startswith("ABORT"):
            res.violation("panic/abort while emitting / reloading a function that captured a container of numbers",
                          {"kind": "c16-capt", "bits": [_hx(b) for b in leaves], "setup": inst(case["setup"]),
                           "probes": [inst(p) for p, _ in case["probes"]],
                           "expected": [_hx(leaves[i]) for _, i in case["probes"]], "observed": out[:300]})
            continue
        bad, prob = judge(case, leaves, out)
        if prob:
            gen_problems.append((inst(case["setup"]), prob))
            continue
        f = fields(out)
        if f.get("E2") not in ("same", None):
            reemit_differs += 1
        if bad:
            failing.append((case, leaves, out, bad))
        # compositional text law (tie to the model's emit_num through the scalar texts of NUMTEXT)
        if case["law"] and re.fullmatch(r"[0-9a-f]+", f.get("E", "")):
            body = compose(case["tree"], leaves, scalar_text)
            if body is not None:
                law_checked += 1
                if all(model_ok(leaves[i]) for _, i in tree_leaves(case["tree"])):
                    law_model_backed += 1
                want = (case["law"][0] or "... ") + body + case["law"][1]
                got_e = c.unhex(f["E"])
                if (got_e != want) if case["law"][0] is not None else (body not in got_e):
                    law_bad += 1
                    law_first = law_first or (inst(case["setup"]), [_hx(b) for b in leaves], c.unhex(f["E"]), want)
    failing.sort(key=lambda x: (len(x[1]), len(x[0]["setup"])))
    for case, leaves, out, bad in failing[:4]:
        res.violation("a finite number inside a container captured by a function does not read back identically through %s"
                      % PATHS.get(bad[0][0], bad[0][0]), replay_dict(case, leaves, out, bad))
    if gen_problems:
        res.tie_broken("C16/CAPTURED: %d generated cases did not evaluate as designed on the original function"
                       % len(gen_problems), "first: %r: %s" % gen_problems[0])
    if law_bad:
        res.tie_broken("correspondence C16/CAPTURED: the emitted text of a captured container is not the composition of "
                       "the scalar emission texts of its numbers (the texts the model's emit_num reproduces) in %d of %d "
                       "cases" % (law_bad, law_checked),
                       "first: setup=%r bits=%s emitted=%r composed=%r" % law_first)

    # ---- the real binary
    cli_cases = [(cs, lv) for cs, lv in cases if all(_finite(b) for b in lv)
                 and not any(s in cs["setup"] for s in NONFINITE) and "#!inputs" not in cs["setup"]]
    cli_cases = cli_cases[:len(SHAPES) * len(FORMS) // 2] + [cli_cases[rng.below(len(cli_cases))] for _ in range(n_cli)]
    cli_cases = cli_cases[:n_cli]
    cli_checked = cli_probes = 0
    cli_fail = []
    for k0 in range(0, len(cli_cases), 60):
        batch = cli_cases[k0:k0 + 60]
        got, err = run_cli_batch(cli, batch)
        todo = []
        if err:
            # one failing case takes the whole batch down: run the cases one by one (bounded)
            for cs, lv in batch[:60]:
                g1, e1 = run_cli_batch(cli, [(cs, lv)])
                todo.append((cs, lv, g1[0] if g1 else None, e1))
        else:
            todo = [(cs, lv, row, None) for (cs, lv), row in zip(batch, got)]
        for cs, lv, row, e1 in todo:
            cli_checked += 1
            exp = [_hx(lv[i]) for _, i in cs["probes"]]
            cli_probes += len(exp)
            if row != exp:
                cli_fail.append((cs, lv, row, e1, exp))
    cli_fail.sort(key=lambda x: (len(x[1]), len(x[0]["setup"])))
    for cs, lv, row, e1, exp in cli_fail[:2]:
        res.violation("a finite number inside a container captured by a function does not survive "
                      "`blots prog1 | blots prog2` (function output -> function input -> call) in the real binary",
                      {"kind": "c16-capt-cli", "shape": cs["shape"], "form": cs["form"],
                       "bits": [_hx(b) for b in lv], "values": [repr(_f(b)) for b in lv],
                       "setup": inst(cs["setup"], "_0"), "probes": [inst(p, "_0") for p, _ in cs["probes"]],
                       "expected": exp, "observed": row if row is not None else e1,
                       "other_failing_cases": len(cli_fail) - 1, "rerun": cli_programs(cs, lv)})

    # ---- sibling path: the same containers as LITERALS of a program, through source emission and the formatter
    # (each number written as the Number-node text S of NUMTEXT, which the model has compared; the parser turns
    # negative ones into prefix negations, as in any real program)
    src_text = {}
    for b, f in zip(xs, rust):
        if f and "S" in f:
            src_text[b] = c.unhex(f["S"])
    lit_cases = []
    for cs, lv in cases:
        if len(lit_cases) >= (1500 if quick else 10000):
            break
        if any(s_ in cs["setup"] for s_ in NONFINITE) or not all(_finite(b) and b in src_text for b in lv):
            continue
        lit_cases.append((cs["tree"], lv))
    lit_outs = c.harness_lines_resilient(h, "c16-astlit", [c.hexs(lit_src(t, lv, src_text)) for t, lv in lit_cases])
    lit_fail = []
    for (t, lv), out in zip(lit_cases, lit_outs):
        f = fields(out)
        want = show_tree(t, lv)
        wrong = [k_ for k_ in ("V", "S", "F0", "F1", "F2", "F3", "F4") if f.get(k_) != want]
        if wrong:
            lit_fail.append((t, lv, out, wrong, want))
    lit_fail.sort(key=lambda x: len(x[1]))
    names = {"V": "the literal text itself", "S": "expr_to_source of the parsed program", "F0": "format_expr (no width)",
             "F1": "format_expr width 0", "F2": "format_expr width 1", "F3": "format_expr width 20", "F4": "format_expr width 80"}
    for t, lv, out, wrong, want in lit_fail[:2]:
        f = fields(out)
        res.violation("finite numbers inside a list / record literal do not read back identically through %s" % names[wrong[0]],
                      {"kind": "c16-astlit", "text": lit_src(t, lv, src_text), "bits": [_hx(b) for b in lv],
                       "values": [repr(_f(b)) for b in lv], "expected": want, "observed": {k_: f.get(k_) for k_ in wrong},
                       "emitted_source": c.unhex(f["ST"]) if "ST" in f else None,
                       "formatted_width_20": c.unhex(f["FT"]) if "FT" in f else None,
                       "other_failing_cases": len(lit_fail) - 1, "rerun": "./check C16 --replay <this file>"})

    res.streams["CAPTURED"] = {
        "cases": len(cases), "shape": dist["shape"], "form": dist["form"], "leaf_class": dist["leaf_class"],
        "number_leaves": dist["leaves"], "probes": dist["probes"],
        "paths_per_probe": "original, JSON function output->input->call, re-emission->reload->call, to_string(f)->parser->call",
        "impl_roundtrip_failures": len(failing), "generator_problems": len(gen_problems),
        "reemission_text_differs": reemit_differs,
        "text_law_checked": law_checked, "text_law_all_leaves_model_backed": law_model_backed, "text_law_broken": law_bad,
        "seconds": round(time.time() - t_start, 1),
        "text_law": "whole / index forms: emitted source == prefix + composition of the leaves' scalar emission texts + suffix; "
                    "other forms: that composition occurs in the emitted source",
        "container_literals_through_expr_to_source_and_formatter": len(lit_cases), "container_literal_failures": len(lit_fail),
        "cli_chain_cases": cli_checked, "cli_chain_probes": cli_probes, "cli_chain_failures": len(cli_fail)}
    return {"evaluations": 4 * dist["probes"] + cli_probes + 7 * len(lit_cases),
            "nontrivial": set("C" + inst(cs["setup"]) + ",".join(_hx(b) for b in lv) for cs, lv in cases)}
