"""Generator for the FORMAT stream (C08 C09): syntactically valid Blots programs with comments
injected at every position class the grammar admits, 0-5 blank lines between statements, and
varied source layout.  Every random choice derives from one c.Rng.

Each comment gets a unique text and a record (text, cls, flags):
  cls    position class (see CLASSES)
  flags  'opaque'  the comment sits in a list/record that has an ancestor printed through
                   expr_to_source (unary / postfix / index / dot / spread operand: always;
                   binary operand or conditional part: when the parent fits on one line)
         'empty'   the comment sits in a list/record without items
"""

CLASSES = [
    "stmt_own",          # standalone comment statement
    "stmt_eol",          # end-of-line comment after a top-level statement
    "list_open",         # after "[" before the first item
    "list_after_comma",  # after a comma (own line or end of line)
    "list_item_eol",     # end-of-line comment after the last item (no comma)
    "list_before_close", # own line before "]"
    "rec_open", "rec_after_comma", "rec_item_eol", "rec_before_close",
    "do_open",           # after "do {"
    "do_stmt_eol",       # after a do-block statement on the same line (blanks allowed since b1bc7c1)
    "do_between",        # own line between do-block statements
    "do_before_return",  # own line before return
    "swallow_infix",     # inside a multi-line binary expression (consumed by NEWLINE) -- F20
    "swallow_arrow",     # after "=>"
    "swallow_cond",      # between if / then / else parts
    "swallow_call",      # inside a call's argument list
    "swallow_paren",     # inside parentheses
    "swallow_colon",     # after the ":" of a record pair
]
SWALLOW = {k for k in CLASSES if k.startswith("swallow")}

NAMES = ["a", "b", "c", "d", "x", "y", "z", "n", "m", "k", "p", "q", "acc", "item", "f", "g", "h",
         "total", "r1", "r2", "long_variable_name", "another_quite_long_identifier", "value", "rate",
         "is_ok", "data", "cfg", "_tmp", "A", "Zed"]
BUILTINS = ["map", "filter", "sum", "max", "min", "len", "range", "abs", "round", "sqrt", "keys", "head"]
NUMS = ["0", "1", "2", "3", "42", "100", "0.5", "2.5", "3.14159", "1000000", "1_000", "0x1F", "0b101",
        "1e3", "2.5e-3", "123456789012", ".5", "7"]
STRS = ['"a"', '"hello world"', '""', "'single'", '"x//y"', "'say // no'", '"héllo"', '"it\'s"',
        '"a somewhat longer string literal to push the width"', '"k"', "'q\"uote // x'", "'\"'"]
INFIX = ["+", "-", "*", "/", "%", "^", "==", "!=", "<", "<=", ">", ">=", ".==", ".!=", ".<", ".<=", ".>",
         ".>=", "&&", "||", "??"]
NATURAL = ["and", "or"]
COMMENT_TEXTS = ["// note %d", "//tight%d", "// has \" quote %d", "// nested // slashes %d", "// héllo %d",
                 "// trailing space %d  ", "// 'single %d", "// TODO(%d): [x], {y}", "//%d"]


class Case:
    def __init__(self):
        self.comments = []       # (text, cls, flags frozenset) in source order
        self.stats = {}
        self.do_trailing = False
        self.multiline_string = False

    def note(self, k):
        self.stats[k] = self.stats.get(k, 0) + 1


class Ctx:
    """ancestors that matter for how the formatter prints a node"""

    def __init__(self, opaque=False, in_do=False, depth=0):
        self.opaque = opaque
        self.in_do = in_do      # inside a do-block (compound-atomic context at statement level)
        self.depth = depth

    def sub(self, opaque=None):
        return Ctx(self.opaque if opaque is None else (self.opaque or opaque), self.in_do, self.depth + 1)


class FmtGen:
    def __init__(self, rng, comment_rate=(1, 3), swallow=True, max_depth=4):
        self.r = rng
        self.comment_rate = comment_rate
        self.swallow = swallow
        self.max_depth = max_depth
        self.case = None
        self.n = 0

    # ---------------------------------------------------------------- comments
    def want(self):
        return self.r.chance(*self.comment_rate)

    def comment(self, cls, ctx, empty=False):
        self.n += 1
        t = self.r.choice(COMMENT_TEXTS) % self.n
        flags = set()
        if cls.startswith(("list_", "rec_")) and ctx.opaque:
            flags.add("opaque")
        if empty:
            flags.add("empty")
        self.case.comments.append((t, cls, frozenset(flags)))
        self.case.note("comment:" + cls)
        return t

    def ws(self):
        return self.r.choice(["", " ", " ", "  ", "\t"])

    def sp(self):
        return self.r.choice([" ", " ", "  "])

    def ind(self):
        return self.r.choice(["", "  ", "    ", " ", "\t"])

    # ---------------------------------------------------------------- expressions
    def expr(self, d, ctx):
        r = self.r
        if d <= 0:
            return self.atom()
        k = r.below(40)
        c = self.case
        if k < 6:
            return self.atom()
        if k < 12:
            c.note("list")
            return self.list_(d, ctx)
        if k < 17:
            c.note("record")
            return self.record(d, ctx)
        if k < 21:
            c.note("binary")
            return self.binary(d, ctx)
        if k < 23:
            c.note("lambda")
            return self.lambda_(d, ctx)
        if k < 26:
            c.note("cond")
            return self.cond(d, ctx)
        if k < 30:
            c.note("do")
            return self.do_block(d, ctx)
        if k < 33:
            c.note("call")
            return self.call(d, ctx)
        if k < 34:
            c.note("access")
            return "%s[%s]" % (self.postfix_base(d, ctx), self.expr(d - 2, ctx.sub(True)))
        if k < 35:
            c.note("dot")
            return "%s.%s" % (self.postfix_base(d, ctx), r.choice(NAMES))
        if k < 36:
            c.note("unary")
            op = r.choice(["-", "!", "not "])
            return op + self.unary_operand(d, ctx)
        if k < 37:
            c.note("factorial")
            return self.postfix_base(d, ctx) + "!"
        if k < 38:
            c.note("paren")
            return self.paren(d, ctx)
        if k < 39:
            c.note("via")
            return self.via(d, ctx)
        c.note("assign_expr")
        return "(%s = %s)" % (r.choice(NAMES), self.expr(d - 1, ctx.sub()))

    def atom(self):
        r = self.r
        k = r.below(10)
        if k < 3:
            return r.choice(NUMS)
        if k < 5:
            return r.choice(STRS)
        if k < 8:
            return r.choice(NAMES)
        if k == 8:
            return r.choice(["true", "false", "null"])
        return "#" + r.choice(NAMES)

    def postfix_base(self, d, ctx):
        """operand of [ ], ., ! : printed through expr_to_source"""
        r = self.r
        k = r.below(6)
        sub = ctx.sub(True)
        if k < 2:
            return r.choice(NAMES)
        if k < 4:
            return self.list_(d - 1, sub)
        if k == 4:
            return self.record(d - 1, sub)
        return "(%s)" % self.expr(d - 1, sub)

    def unary_operand(self, d, ctx):
        r = self.r
        k = r.below(5)
        sub = ctx.sub(True)
        if k < 2:
            return r.choice(NAMES)
        if k == 2:
            return r.choice(["1", "2.5", "x"])
        if k == 3:
            return self.list_(d - 1, sub)
        return "(%s)" % self.expr(d - 1, sub)

    def paren(self, d, ctx):
        inner = self.expr(d - 1, ctx.sub())
        if self.swallow and self.want() and self.r.chance(1, 3):
            return "( %s\n%s%s\n%s)" % (self.comment("swallow_paren", ctx), self.ind(), inner, self.ind())
        return "(%s%s%s)" % (self.ws(), inner, self.ws())

    def binary(self, d, ctx):
        r = self.r
        sub = ctx.sub(True)
        a = self.operand(d - 1, sub)
        n = 1 + r.below(3)
        out = a
        for _ in range(n):
            b = self.operand(d - 1, sub)
            if r.chance(1, 5):
                op = r.choice(NATURAL)
                sep_l = " " if not r.chance(1, 4) else "\n" + self.ind()
                out += "%s%s %s" % (sep_l, op, b)
            else:
                op = r.choice(INFIX)
                lay = r.below(8)
                if lay == 0:
                    out += "%s%s" % (op, b) if op not in ("-",) else " %s %s" % (op, b)
                elif lay == 1:
                    cm = ""
                    if self.swallow and self.want():
                        cm = " " + self.comment("swallow_infix", ctx)
                    out += " %s%s\n%s%s" % (op, cm, self.ind(), b)
                elif lay == 2:
                    cm = ""
                    if self.swallow and self.want():
                        cm = " " + self.comment("swallow_infix", ctx)
                    out += "%s\n%s%s %s" % (cm, self.ind(), op, b)
                else:
                    out += " %s %s" % (op, b)
        return out

    def operand(self, d, ctx):
        """operand of a binary operator: parenthesised unless atomic-looking"""
        r = self.r
        k = r.below(10)
        if k < 4 or d <= 0:
            return self.atom()
        if k < 6:
            return self.list_(d, ctx)
        if k == 6:
            return self.record(d, ctx)
        if k == 7:
            return self.call(d, ctx)
        return "(%s)" % self.expr(d, ctx)

    def via(self, d, ctx):
        r = self.r
        k = r.below(3)
        left = (r.choice(NAMES) if k == 0 else self.list_(d - 1, ctx.sub(True)) if k == 1
                else "range(%s)" % r.choice(NUMS[:6]))
        op = r.choice(["via", "into", "where"])
        if r.chance(3, 4):
            right = self.lambda_(d - 1, ctx.sub(True))
        else:
            right = r.choice(NAMES + BUILTINS)
        sep = " " if not r.chance(1, 5) else "\n" + self.ind()
        return "%s%s%s %s" % (left, sep, op, right)

    def lambda_(self, d, ctx):
        r = self.r
        k = r.below(5)
        if k == 0:
            args = r.choice(NAMES)
        elif k == 1:
            args = "(%s)" % r.choice(NAMES)
        elif k == 2:
            args = "(%s, %s?)" % (r.choice(NAMES), r.choice(NAMES))
        elif k == 3:
            args = "(%s, ...%s)" % (r.choice(NAMES), r.choice(NAMES))
        else:
            args = "()"
        sub = ctx.sub()
        body_k = r.below(6)
        if body_k < 2:
            body = self.do_block(d - 1, sub)
        elif body_k < 4:
            body = self.lambda_body(d - 1, sub)
        else:
            body = self.atom()
        if self.swallow and self.want() and r.chance(1, 3):
            return "%s => %s\n%s%s" % (args, self.comment("swallow_arrow", ctx), self.ind(), body)
        sep = r.choice([" ", " ", "  ", "\n  "])
        return "%s%s=>%s%s" % (args, self.ws(), sep, body)

    def lambda_body(self, d, ctx):
        r = self.r
        k = r.below(6)
        if k == 0:
            return self.list_(d, ctx)
        if k == 1:
            return self.record(d, ctx)
        if k == 2:
            return self.cond(d, ctx)
        if k == 3:
            return self.call(d, ctx)
        return "%s %s %s" % (self.atom(), r.choice(INFIX), self.atom())

    def cond(self, d, ctx):
        r = self.r
        sub = ctx.sub(True)
        c = self.cond_part(d - 1, sub)
        t = self.cond_part(d - 1, sub)
        if r.chance(1, 3) and d > 1:
            e = self.cond(d - 1, ctx)
        else:
            e = self.cond_part(d - 1, sub)
        seps = []
        for _ in range(3):
            if r.chance(1, 4):
                cm = ""
                if self.swallow and self.want():
                    cm = " " + self.comment("swallow_cond", ctx)
                seps.append("%s\n%s" % (cm, self.ind()))
            else:
                seps.append(" ")
        return "if %s%sthen%s%s%selse %s" % (c, seps[0], self.sp(), t, seps[1], e)

    def cond_part(self, d, ctx):
        r = self.r
        k = r.below(8)
        if k < 3 or d <= 0:
            return self.atom()
        if k < 5:
            return "%s %s %s" % (self.atom(), r.choice(INFIX), self.atom())
        if k == 5:
            return self.list_(d, ctx)
        if k == 6:
            return self.record(d, ctx)
        return self.call(d, ctx)

    def call(self, d, ctx):
        r = self.r
        fn = r.choice(NAMES + BUILTINS) if not r.chance(1, 8) else "(%s)" % self.lambda_(d - 1, ctx.sub())
        n = r.below(4)
        sub = ctx.sub()
        args = []
        for _ in range(n):
            if r.chance(1, 8):
                args.append("..." + (r.choice(NAMES) if r.chance(1, 2) else self.list_(d - 1, ctx.sub(True))))
            else:
                args.append(self.expr(d - 1, sub))
        if not args:
            return fn + "()"
        if r.chance(1, 4):
            parts = []
            for i, a in enumerate(args):
                cm = ""
                if self.swallow and self.want() and r.chance(1, 2):
                    cm = " " + self.comment("swallow_call", ctx)
                parts.append("%s%s,%s\n" % (self.ind(), a, cm) if i < len(args) - 1 else
                             "%s%s%s\n" % (self.ind(), a, r.choice([",", ""])))
            return "%s(\n%s%s)" % (fn, "".join(parts), self.ind())
        return "%s(%s)" % (fn, (r.choice([", ", ","])).join(args))

    # ---- lists / records: comment slots as the grammar has them
    def container(self, d, ctx, kind):
        r = self.r
        op, cl = ("[", "]") if kind == "list" else ("{", "}")
        pre = "list_" if kind == "list" else "rec_"
        n = r.below(5)
        multiline = r.chance(1, 2)
        sub = ctx.sub()
        if n == 0:
            if self.want() and r.chance(1, 4):
                return "%s %s\n%s" % (op, self.comment(pre + "open", ctx, empty=True), cl)
            return op + cl if not r.chance(1, 6) else "%s %s" % (op, cl)
        items = [self.item(d - 1, sub, kind) for _ in range(n)]
        if not multiline:
            s = op + self.ws() + (r.choice([", ", ",", " , "])).join(items)
            if r.chance(1, 6):
                s += ","
            return s + self.ws() + cl
        out = op
        # after the opening bracket
        k = 0
        while self.want() and k < 2:
            out += "%s%s\n%s" % (self.ws(), self.comment(pre + "open", ctx), self.ind())
            k += 1
        if k == 0 and r.chance(3, 4):
            out += "\n" + self.ind()
        for i, it in enumerate(items):
            out += it
            last = i == len(items) - 1
            if not last:
                out += self.ws() + ","
                # after a comma: end-of-line comment, own-line comments, or nothing
                k = 0
                if self.want():
                    out += "%s%s\n%s" % (self.sp(), self.comment(pre + "after_comma", ctx), self.ind())
                    k = 1
                    while self.want() and k < 3:
                        out += "%s\n%s" % (self.comment(pre + "after_comma", ctx), self.ind())
                        k += 1
                elif r.chance(2, 3):
                    out += "\n" + self.ind()
                else:
                    out += " "
            else:
                trailing_comma = r.chance(1, 2)
                if trailing_comma:
                    out += self.ws() + ","
                    if self.want():
                        out += "%s%s\n" % (self.sp(), self.comment(pre + "after_comma", ctx))
                    else:
                        out += r.choice(["\n", "", " "])
                else:
                    if self.want():
                        out += "%s%s\n" % (self.ws(), self.comment(pre + "item_eol", ctx))
                    else:
                        out += r.choice(["\n", "", " "])
                k = 0
                while self.want() and k < 2:
                    out += "%s%s\n" % (self.ind(), self.comment(pre + "before_close", ctx))
                    k += 1
        return out + self.ind() + cl

    def list_(self, d, ctx):
        return self.container(d, ctx, "list")

    def record(self, d, ctx):
        return self.container(d, ctx, "rec")

    def item(self, d, ctx, kind):
        r = self.r
        if kind == "list":
            if r.chance(1, 10):
                return "..." + (r.choice(NAMES) if r.chance(1, 2) else self.list_(d, ctx.sub(True)))
            return self.expr(d, ctx)
        k = r.below(10)
        if k < 5:
            key = r.choice(NAMES)
        elif k < 7:
            key = r.choice(['"quoted key"', '"a"', "'k2'", '"if"'])
        elif k == 7:
            return r.choice(NAMES)                                   # shorthand
        elif k == 8:
            # a spread entry is RecordKey::Spread(Expr::Spread(e)): printed through expr_to_source
            return "..." + (r.choice(NAMES) if r.chance(1, 2) else self.record(d, ctx.sub(True)))
        else:
            key = "[%s]" % self.expr(min(d, 1), ctx)
        val = self.expr(d, ctx)
        if self.swallow and self.want() and r.chance(1, 4):
            return "%s: %s\n%s%s" % (key, self.comment("swallow_colon", ctx), self.ind(), val)
        return "%s:%s%s" % (key, self.ws(), val)

    def do_block(self, d, ctx):
        r = self.r
        sub = Ctx(ctx.opaque, True, ctx.depth + 1)
        out = "do" + r.choice([" ", " ", "\n"]) + "{"
        k = 0
        while self.want() and k < 2:
            out += "%s%s\n%s" % (self.ws(), self.comment("do_open", ctx), self.ind())
            k += 1
        if k == 0:
            out += r.choice(["\n", " ", "\n\n"]) + self.ind()
        n = r.below(4)
        for _ in range(n):
            k = r.below(12)
            if k < 7:
                st = "%s = %s" % (r.choice(NAMES), self.expr(d - 1, sub))
            elif k < 10:
                st = self.call(d - 1, sub)
            elif k == 10:
                # a statement whose printed form starts with "-" (must stay parenthesised)
                st = "(-%s)" % r.choice([r.choice(NAMES), "1", "2.5"])
            else:
                st = self.atom()
            out += st
            if self.want() and r.chance(1, 2):
                out += self.ws() + self.comment("do_stmt_eol", ctx)
                self.case.do_trailing = True
                out += "\n" + self.ind()
            elif r.chance(1, 5):
                out += r.choice([";", " ;", "; "]) + self.ws()
            else:
                out += self.ws() + r.choice(["\n", "\n", "\n\n"]) + self.ind()
            k = 0
            while self.want() and k < 2:
                out += "%s\n%s" % (self.comment("do_between", ctx), self.ind())
                k += 1
        k = 0
        while self.want() and k < 2:
            out += "%s\n%s" % (self.comment("do_before_return", ctx), self.ind())
            k += 1
        out += "return%s%s%s}" % (self.sp(), self.expr(d - 1, sub), r.choice(["\n", " ", "\n" + self.ind()]))
        return out

    # ---------------------------------------------------------------- programs
    def statement(self, d):
        r = self.r
        ctx = Ctx()
        k = r.below(10)
        if k < 5:
            return "%s%s=%s%s" % (r.choice(NAMES), self.ws(), self.ws(), self.expr(d, ctx))
        if k < 8:
            return self.expr(d, ctx)
        if k == 8:
            return "output %s = %s" % (r.choice(NAMES), self.expr(d, ctx))
        return "output %s" % r.choice(NAMES)

    def bare_container(self, depth=2):
        """-> (source, Case): one statement that is a bare list / record / do-block"""
        from c0809_lib import py_scan
        self.case = Case()
        self.n = 0
        k = self.r.below(3)
        ctx = Ctx()
        while True:
            src = self.list_(depth, ctx) if k == 0 else self.record(depth, ctx) if k == 1 else self.do_block(depth, ctx)
            if src not in ("[]", "{}", "[ ]", "{ }"):
                break
        recs = {rec[0]: rec for rec in self.case.comments}
        self.case.comments = [recs[t] for t in py_scan(src) if t in recs]
        return src, self.case

    def program(self):
        """-> (source, Case)"""
        r = self.r
        self.case = Case()
        self.n = 0
        n = 1 + r.below(5)
        out = ""
        if r.chance(1, 6):
            out += "\n" * (1 + r.below(3))
        gaps = []
        for i in range(n):
            if self.want() and r.chance(1, 2):
                k = 0
                while k < 1 + r.below(2):
                    out += self.ind() + self.comment("stmt_own", Ctx()) + "\n" * (1 + r.below(3))
                    k += 1
            d = r.below(self.max_depth + 1)
            st = self.statement(d)
            if st.startswith("-"):
                # a line starting with "-" continues the previous statement (the line break and any
                # comment before it sit inside a binary expression: class swallow_infix, not a statement
                # boundary); keep statement boundaries unambiguous
                st = "(" + st + ")"
            out += (self.ind() if r.chance(1, 5) else "") + st
            if self.want() and r.chance(1, 2):
                out += self.sp() + self.comment("stmt_eol", Ctx())
            if i < n - 1:
                g = r.below(6)
                gaps.append(g)
                out += "\n" * (g + 1)
            else:
                out += r.choice(["", "\n", "\n\n", "\n// eof comment\n" if False else ""])
        self.case.gaps = gaps
        self.case.note("stmts:%d" % n)
        # records were appended in generation order, and some belong to alternatives that were
        # generated but not used: keep those that occur in the source, in source order
        from c0809_lib import py_scan
        recs = {rec[0]: rec for rec in self.case.comments}
        self.case.comments = [recs[t] for t in py_scan(out) if t in recs]
        return out, self.case
