"""C11 — scalar operator semantics and the broadcasting law.  See notes/C11.md (DESIGN.md section 6 C11)."""
import json
import math
import os
import sys

import common as c
from gen_values import N, S, L, R, B, NULL, V, f2bits, bits2f

PID = "C11"
MANIFEST = {
    "text": "Coq theorems over the arm-by-arm transcription of evaluate_binary_op_ast (coq/Binop.v): on non-list "
            "operands each of the 17 operators equals an independent scalar spec (IEEE + - * / via SpecFloat, exact "
            "fmod, powf oracle, string +, compare/equals, left-first and/or, ??); list-scalar, scalar-list and "
            "list-list applications equal mapM/mapM2 of that spec in element order with the scalar kept on its own "
            "side, fail exactly at the first failing element or on a length mismatch, never panic, never touch the "
            "state; dot operators never broadcast — for all operators, lists of any length, all values; model tied "
            "to the code by an exhaustive/sampled correspondence over 23 operators x 3 shapes and the law re-checked "
            "on the implementation's own answers",
    "note": "trusted: Coq kernel + vm_compute; the hand transcription in coq/Binop.v (validated by the c11-binop "
            "correspondence stream on every run); f64::powf is an oracle (theorems hold for every powf; the stream "
            "uses a table produced by the same std function); Value::equals symmetry is a hypothesis of the "
            "scalar-list ==/!= theorem, proved for values with unique record keys; no axioms",
    "design_ref": "DESIGN.md section 6 C11 / notes/C11.md",
}

OPS = ["+", "-", "*", "/", "%", "^", "==", "!=", "<", "<=", ">", ">=", "&&", "and", "||", "or", "??",
       ".==", ".!=", ".<", ".<=", ".>", ".>="]
NB = 17                              # the broadcasting operators come first
ARITH = {"+", "-", "*", "/", "%", "^"}
LOGIC = {"&&", "and", "||", "or"}
CMP = {"==": ".==", "!=": ".!=", "<": ".<", "<=": ".<=", ">": ".>", ">=": ".>="}
REQ = ["Blots.Num", "Blots.gen.Builtins", "Blots.Ast", "Blots.Value", "Blots.Outcome", "Blots.Show",
       "Blots.Binop", "Blots.BinopSpec", "Blots.BinopRun"]


# --------------------------------------------------------------------------- pools
def element_pool():
    nums = [0.0, -0.0, 1.0, -1.0, 2.0, 0.5, -2.5, 3.0, 7.0, -7.0, 0.1, 1e308, 5e-324, math.inf, -math.inf,
            math.nan]
    e = [N(x) for x in nums]
    e += [S(""), S("a"), S("b"), S("héllo")]
    e += [B(True), B(False), NULL]
    e += [L(), L(N(1)), L(N(1), N(2)), L(S("a")), L(NULL), L(L(N(1)))]
    e += [R(), R(("a", N(1))), V("builtin", "sum")]
    return e


def core_pool():
    """small pool, one or two representatives per behaviour class, for the exhaustive part"""
    return [N(1), N(-2.5), N(math.nan), S("a"), B(True), B(False), NULL, L(N(1))]


def core_scalars():
    return [N(2), N(-0.0), N(math.inf), S("b"), B(True), B(False), NULL, R(("a", N(1)))]


def random_double(rng):
    """doubles spread over the whole format: random bit patterns, small integers, decimal fractions,
    neighbours of powers of two, subnormals, huge values (NaN payloads are canonicalised)"""
    t = rng.below(8)
    if t == 0:
        x = bits2f(rng.next())
    elif t == 1:
        x = float(rng.below(2001) - 1000)
    elif t == 2:
        x = (rng.below(20001) - 10000) / 1000.0
    elif t == 3:
        x = bits2f((rng.below(2047) << 52) + rng.choice([0, 1, 2, (1 << 52) - 1, (1 << 52) - 2, 1 << 51]))
    elif t == 4:
        x = bits2f(rng.below(1 << 52))                      # subnormal or zero
    elif t == 5:
        x = bits2f((0x7fe << 52) + rng.below(1 << 52))      # near overflow
    elif t == 6:
        x = bits2f(((1023 + rng.below(64) - 32) << 52) + rng.below(1 << 52))
    else:
        x = float(rng.below(1 << 53)) * (1 if rng.chance(1, 2) else -1)
    if rng.chance(1, 2):
        x = -x
    return math.nan if x != x else x


def lists_upto(pool, n):
    out = [[]]
    frontier = [[]]
    for _ in range(n):
        frontier = [l + [x] for l in frontier for x in pool]
        out += frontier
    return [V("list", l) for l in out]


# --------------------------------------------------------------------------- python reference (scalars only)
def num_show(x):
    return "OK:N%016x" % f2bits(x)


def py_div(x, y):
    if x != x or y != y:
        return math.nan
    if y == 0:
        if x == 0:
            return math.nan
        neg = (math.copysign(1, x) < 0) != (math.copysign(1, y) < 0)
        return -math.inf if neg else math.inf
    return x / y


def py_fmod(x, y):
    try:
        return math.fmod(x, y)
    except ValueError:
        return math.nan


def py_compare(x, y):
    """Value::compare on non-list values: -1/0/1 or None"""
    if x.k != y.k:
        return None
    if x.k == "num":
        if x.p != x.p or y.p != y.p:
            return None
        return (x.p > y.p) - (x.p < y.p)
    if x.k == "bool":
        return (x.p > y.p) - (x.p < y.p)
    if x.k == "str":
        a, b = x.p.encode(), y.p.encode()
        return (a > b) - (a < b)
    return None


def py_equals(x, y):
    if x.k != y.k:
        return False
    if x.k == "num":
        return x.p == y.p
    if x.k in ("bool", "str", "builtin"):
        return x.p == y.p
    if x.k == "null":
        return True
    if x.k == "rec":
        return len(x.p) == len(y.p) and all(any(k == k2 and py_equals(v, v2) for k2, v2 in y.p) for k, v in x.p)
    raise ValueError(x.k)


def py_scalar(op, x, y, powf):
    """the property's first sentence, for two non-list pool values; returns the canonical result text"""
    tf = lambda b: "OK:T" if b else "OK:F"
    if op == "+":
        if x.k == "num" and y.k == "num":
            return num_show(x.p + y.p)
        if x.k == "str" and y.k == "str":
            return "OK:" + S(x.p + y.p).show()
        return "ERR"
    if op in ("-", "*", "/", "%", "^"):
        if x.k != "num" or y.k != "num":
            return "ERR"
        if op == "-":
            return num_show(x.p - y.p)
        if op == "*":
            return num_show(x.p * y.p)
        if op == "/":
            return num_show(py_div(x.p, y.p))
        if op == "%":
            return num_show(py_fmod(x.p, y.p))
        return "OK:N%016x" % powf[(f2bits(x.p), f2bits(y.p))]
    if op in ("==", ".=="):
        return tf(py_equals(x, y))
    if op in ("!=", ".!="):
        return tf(not py_equals(x, y))
    if op in ("<", "<=", ">", ">=", ".<", ".<=", ".>", ".>="):
        o = py_compare(x, y)
        if o is None:
            return "ERR"
        op = op.lstrip(".")
        return tf({"<": o < 0, "<=": o <= 0, ">": o > 0, ">=": o >= 0}[op])
    if op in ("&&", "and"):
        if x.k != "bool":
            return "ERR"
        if not x.p:
            return "OK:F"
        return tf(y.p) if y.k == "bool" else "ERR"
    if op in ("||", "or"):
        if x.k != "bool":
            return "ERR"
        if x.p:
            return "OK:T"
        return tf(y.p) if y.k == "bool" else "ERR"
    if op == "??":
        return "OK:" + (y.show() if x.k == "null" else x.show())
    raise ValueError(op)


# --------------------------------------------------------------------------- the law on the implementation alone
def elem_result(T, opi, x, y):
    """what the element operation `x op y` gives ACCORDING TO THE IMPLEMENTATION: its own scalar-arm
    answer when neither is a list; when an element is itself a list the operation is the whole-value
    one (broadcasting is one level deep): arithmetic fails, and/or treat it as a non-boolean, comparisons
    are the implementation's own non-broadcasting dot operators, ?? tests the left element for null."""
    row = T[(x.src(), y.src())]
    if x.k != "list" and y.k != "list":
        return row[opi]
    op = OPS[opi]
    if op in ARITH:
        return "ERR"
    if op in LOGIC:
        # a list is a non-boolean operand: on the left it always fails; on the right it fails exactly
        # when it is inspected, i.e. the implementation's own answer for a non-boolean scalar there
        return "ERR" if x.k == "list" else T[(x.src(), "null")][opi]
    if op in CMP:
        return row[OPS.index(CMP[op])]
    return "OK:" + (y.show() if x.k == "null" else x.show())


def law_expected(T, opi, a, b):
    if a.k == "list" and b.k == "list":
        if len(a.p) != len(b.p):
            return "ERR"
        rs = [elem_result(T, opi, x, y) for x, y in zip(a.p, b.p)]
    elif a.k == "list":
        rs = [elem_result(T, opi, x, b) for x in a.p]
    elif b.k == "list":
        rs = [elem_result(T, opi, a, y) for y in b.p]
    else:
        return T[(a.src(), b.src())][opi]
    for r in rs:
        if not r.startswith("OK:"):
            return r
    return "OK:L[" + ",".join(r[3:] for r in rs) + "]"


def parse_canon(t, tok):
    """canonical value text (harness/src/show.rs) -> Gallina term; `tok(kind, hex)` names a leaf"""
    def val(i):
        ch = t[i]
        if ch == "N":
            return tok("N", t[i + 1:i + 17]), i + 17
        if ch == "T":
            return "(VBool true)", i + 1
        if ch == "F" and not t.startswith("FN(", i):
            return "(VBool false)", i + 1
        if ch == "U":
            return "VNull", i + 1
        if ch == "S":
            j = t.index(";", i)
            return tok("S", t[i + 1:j]), j + 1
        if ch == "B":
            j = t.index(";", i)
            return "(VBuiltin B_%s)" % t[i + 1:j], j + 1
        if ch == "L":
            i += 2
            items = []
            while t[i] != "]":
                v, i = val(i)
                items.append(v)
                if t[i] == ",":
                    i += 1
            return "(VList [" + "; ".join(items) + "])", i + 1
        if ch == "R":
            i += 2
            items = []
            while t[i] != "}":
                j = t.index(":", i)
                v, i2 = val(j + 1)
                items.append('(hx "%s", %s)' % (t[i:j], v))
                i = i2
                if t[i] == ",":
                    i += 1
            return "(VRec [" + "; ".join(items) + "])", i + 1
        raise ValueError("unparsable canonical value at %d in %r" % (i, t[:80]))
    v, i = val(0)
    if i != len(t):
        raise ValueError("trailing text in canonical value %r" % t[:80])
    return v


def outcome_term(r, tok):
    if r.startswith("OK:"):
        return "(Ok %s)" % parse_canon(r[3:], tok)
    return {"ERR": "Err", "ERRDEPTH": "ErrDepth", "PANIC": "Panic"}.get(r, "Unmodelled")


def shape_of(a, b):
    if a.k == "list" and b.k == "list":
        return "list-list" if len(a.p) == len(b.p) else "list-list-mismatch"
    if a.k == "list":
        return "list-scalar"
    if b.k == "list":
        return "scalar-list"
    return "scalar-scalar"


def line_of(a, b, lit=False):
    return "\t".join([c.hexs(a.src()), c.hexs(b.src())] + (["lit"] if lit else []))


def rerun_hint(a, b, op):
    return ("./check C11 --replay <this file>   (or: printf '%%s\\n' '%s %s %s' | blots -e ...)"
            % ("(" + a.src() + ")", op, "(" + b.src() + ")"))


def replay(h, path):
    with open(path) as f:
        rp = json.load(f)
    print(json.dumps(rp, indent=1))
    if rp.get("kind") in ("impl-law", "impl-scalar", "impl-dot", "impl-crash") and "a" in rp:
        out = c.harness_lines_resilient(h, "c11-binop", ["\t".join([c.hexs(rp["a"]), c.hexs(rp["b"])])])[0]
        rs = out.split("|")
        got = rs[OPS.index(rp["op"])] if len(rs) == len(OPS) else out
        print("implementation now returns for (%s) %s (%s): %s   expected: %s"
              % (rp["a"], rp["op"], rp["b"], got, rp.get("expected")))
        return 0 if got == rp.get("expected") else 1
    return 0


# --------------------------------------------------------------------------- main
def main(argv):
    tier, seed, replay_path = c.tier_and_seed(argv)
    res = c.Result(PID, tier, seed)
    rng = c.Rng(seed)
    try:
        h = c.build_harness()
        c.regen_builtins(h)
    except c.BrokenTie as e:
        res.tie_broken(e.what, e.detail)
        return res.finish()
    if replay_path:
        return replay(h, replay_path)

    import time
    t0 = time.time()
    c.proof_step(res, PID, extra_targets=["BinopRun.vo"])
    c.log("proof step %.1fs" % (time.time() - t0))

    # the operator list of the stream must be the one this file assumes
    try:
        hops = c.harness_oneshot(h, "c11-ops").split("\n")[:-1]
    except c.BrokenTie as e:
        res.tie_broken(e.what, e.detail)
        return res.finish()
    if hops != OPS:
        res.tie_broken("harness c11-ops disagrees with checks/c11.py OPS")
        return res.finish()

    # ---- corpus first: minimised inputs that once distinguished a wrong implementation (mutation
    # witnesses and hand-picked corners), with the lawful answer of each
    corpus_n = 0
    cpath = os.path.join(c.VERIF, "corpus", PID, "cases.json")
    if os.path.exists(cpath):
        with open(cpath) as f:
            corpus = json.load(f)
        outs = c.harness_lines_resilient(h, "c11-binop",
                                         ["\t".join([c.hexs(k["a"]), c.hexs(k["b"])]) for k in corpus])
        for k, o in zip(corpus, outs):
            rs = o.split("|")
            got = rs[OPS.index(k["op"])] if len(rs) == len(OPS) else o
            corpus_n += 1
            if got != k["expected"]:
                res.violation("corpus case fails: `a %s b` (%s)" % (k["op"], k.get("why", "")),
                              {"kind": "impl-law", "a": k["a"], "b": k["b"], "op": k["op"], "observed": got,
                               "expected": k["expected"], "expected_from": "corpus/C11/cases.json",
                               "rerun": "./check C11 --replay <this file>"})

    E = element_pool()
    SC = [x for x in E if x.k != "list"]
    CORE = core_pool()
    CSC = core_scalars()
    thorough = tier == "thorough"

    # ---- cases
    cases = []          # (a, b, group)
    for x in SC:
        for y in SC:
            cases.append((x, y, "A scalar x scalar, full pool"))
    for x in E:
        for s in SC:
            cases.append((L(x), s, "B [e] op s, full pool"))
            cases.append((s, L(x), "B s op [e], full pool"))
    core_lists = lists_upto(CORE, 3)
    for l in core_lists:
        for s in CSC:
            cases.append((l, s, "C list(0..3, core) op scalar, exhaustive"))
            cases.append((s, l, "C scalar op list(0..3, core), exhaustive"))
    small = lists_upto(CORE, 2)
    for l in small:
        for m in small:
            cases.append((l, m, "E list(0..2) op list(0..2), core, exhaustive incl. mismatched"))
    for x in E:
        for y in E:
            cases.append((L(x), L(y), "E [e] op [f], full pool"))
    n_long = 400 if not thorough else 6000
    for _ in range(n_long):
        k = 4 + rng.below(5)
        l = V("list", [rng.choice(E) if rng.chance(1, 3) else rng.choice(SC[:16]) for _ in range(k)])
        s = rng.choice(SC)
        if rng.chance(1, 2):
            cases.append((l, s, "D list(4..8) op scalar, sampled"))
        else:
            cases.append((s, l, "D scalar op list(4..8), sampled"))
    n_ll = 600 if not thorough else 8000
    for _ in range(n_ll):
        k = 3 + rng.below(6)
        fam = rng.choice([SC[:16], SC[:16], E, SC[16:20], SC[20:23]])
        l = V("list", [rng.choice(fam) for _ in range(k)])
        if rng.chance(1, 4):
            k2 = rng.choice([j for j in range(0, 9) if j != k])
            m = V("list", [rng.choice(fam) for _ in range(k2)])
            cases.append((l, m, "E list op list, lengths 0..8 mismatched, sampled"))
        else:
            # mostly element-wise compatible (same family), sometimes one foreign element
            m = V("list", [rng.choice(fam) if rng.chance(9, 10) else rng.choice(E) for _ in range(k)])
            cases.append((l, m, "E list op list, equal length 3..8, sampled"))
    # random doubles: the IEEE-754 clause on numbers outside the fixed pool, in all shapes
    n_rd = 250 if not thorough else 4000
    for _ in range(n_rd):
        x, y, z = N(random_double(rng)), N(random_double(rng)), N(random_double(rng))
        cases.append((x, y, "F random doubles, scalar x scalar"))
        t = rng.below(3)
        if t == 0:
            cases.append((L(x, z), y, "F random doubles, list op scalar"))
        elif t == 1:
            cases.append((y, L(x, z), "F random doubles, scalar op list"))
        else:
            cases.append((L(x, z), L(y, x), "F random doubles, list op list"))
    # long lists: the element-by-element law at lengths where an implementation might switch strategy (chunked /
    # vectorised loops of 4, 8, 16, 32, 64; pre-sized buffers), with the one failing or foreign element in the
    # last chunk, and lengths that differ by one (round 4: size boundaries were absent from every generator)
    for n in ([15, 16, 17, 31, 33, 64, 65, 129] if not thorough else [15, 16, 17, 31, 32, 33, 63, 64, 65, 127, 128, 129, 255, 256, 257, 1000]):
        fam = SC[:16]
        l = V("list", [rng.choice(fam) for _ in range(n)])
        m = V("list", [rng.choice(fam) for _ in range(n)])
        s_ = rng.choice(fam)
        cases.append((l, s_, "G long list op scalar"))
        cases.append((s_, l, "G scalar op long list"))
        cases.append((l, m, "G long list op long list"))
        odd = list(m.p)
        odd[n - 1 - rng.below(3)] = rng.choice(E)
        cases.append((l, V("list", odd), "G long lists, one foreign element near the end"))
        cases.append((l, V("list", list(m.p) + [rng.choice(fam)]), "G long lists, lengths differ by one"))
        cases.append((V("list", list(l.p)[:-1]), m, "G long lists, lengths differ by one"))
    # de-duplicate, keep order
    seen = set()
    uniq = []
    for a, b, g in cases:
        key = (a.src(), b.src())
        if key not in seen:
            seen.add(key)
            uniq.append((a, b, g))
    cases = uniq

    # element pairs the law needs the implementation's own answer for
    def elem_pairs(a, b):
        if a.k == "list" and b.k == "list":
            return list(zip(a.p, b.p)) if len(a.p) == len(b.p) else []
        if a.k == "list":
            return [(x, b) for x in a.p]
        if b.k == "list":
            return [(a, y) for y in b.p]
        return [(a, b)]

    tpairs = [(x, y) for x in E for y in E]
    tseen = {(x.src(), y.src()) for x, y in tpairs}
    for a, b, _ in cases:
        for x, y in elem_pairs(a, b):
            for u, v in ((x, y), (x, NULL)):
                if (u.src(), v.src()) not in tseen:
                    tseen.add((u.src(), v.src()))
                    tpairs.append((u, v))

    # ---- powf oracle table (same std function) for every ordered pair of numbers that can meet
    poolbits = sorted({f2bits(x.p) for x in E if x.k == "num"} | {f2bits(1.0), f2bits(2.0)})
    numpairs = {(x, y) for x in poolbits for y in poolbits}
    for x, y in tpairs:
        if x.k == "num" and y.k == "num":
            numpairs.add((f2bits(x.p), f2bits(y.p)))
    numpairs = sorted(numpairs)
    plines = ["%016x %016x" % (x, y) for x, y in numpairs]
    pouts = c.harness_lines_resilient(h, "c11-powf", plines)
    powf = {}
    for pl, po in zip(plines, pouts):
        xs, ys = pl.split()
        try:
            powf[(int(xs, 16), int(ys, 16))] = int(po, 16)
        except ValueError:
            res.tie_broken("harness c11-powf gave %r for %s" % (po, pl))
            return res.finish()

    # ---- implementation: element table (all ordered pairs of the element pool) and the cases
    touts = c.harness_lines_resilient(h, "c11-binop", [line_of(x, y) for x, y in tpairs])
    T = {}
    for (x, y), o in zip(tpairs, touts):
        T[(x.src(), y.src())] = o.split("|")
    couts = c.harness_lines_resilient(h, "c11-binop", [line_of(a, b) for a, b, _ in cases])
    impl = [o.split("|") for o in couts]
    # operands written in place (literals) instead of through bindings: a sample
    lit_idx = [rng.below(len(cases)) for _ in range(300 if not thorough else 3000)]
    louts = c.harness_lines_resilient(h, "c11-binop", [line_of(cases[i][0], cases[i][1], True) for i in lit_idx])

    c.log("implementation runs done %.1fs" % (time.time() - t0))
    evaluations = (len(tpairs) + len(cases) + len(lit_idx) + corpus_n) * len(OPS)
    crashes = 0
    for (a, b, g), rs, raw in list(zip(cases, impl, couts)) + [((x, y, "T"), T[(x.src(), y.src())], o)
                                                               for (x, y), o in zip(tpairs, touts)]:
        if len(rs) != len(OPS) or any(r in ("PANIC",) or r.startswith("ABORT") for r in rs):
            crashes += 1
            if crashes <= 3:
                bad = [OPS[i] for i, r in enumerate(rs) if r == "PANIC"] if len(rs) == len(OPS) else ["?"]
                res.violation("panic/abort or malformed answer while applying a binary operator",
                              {"kind": "impl-crash", "a": a.src(), "b": b.src(), "op": bad[0] if bad else "?",
                               "observed": raw, "expected": "a value or an error",
                               "rerun": rerun_hint(a, b, bad[0] if bad else "+")})
    for i, o in zip(lit_idx, louts):
        if o != couts[i]:
            a, b, _ = cases[i]
            res.violation("operands written in place give a different answer than the same operands through bindings",
                          {"kind": "impl-law", "a": a.src(), "b": b.src(), "op": "*all*", "observed": o,
                           "expected": couts[i], "rerun": rerun_hint(a, b, "+")})
            break

    # ---- model (transcription) on the same cases; spec cross-run on a subset
    names = {}
    defs = []
    for i, x in enumerate(E + CORE + CSC):
        if x.src() not in names:
            names[x.src()] = "e%d" % i
            defs.append("Definition e%d : value := Eval vm_compute in %s." % (i, x.coq()))
    defs.append("Definition PT : list (Z * Z * Z) := [%s]."
                % "; ".join("(0x%016x, 0x%016x, 0x%016x)" % (x, y, r) for (x, y), r in sorted(powf.items())))
    defs.append("Definition PTm : ptab := Eval vm_compute in ptab_of_list PT.")
    defs.append("Definition P := powf_of_ptab PTm.")

    def cq(v):
        if v.src() in names:
            return names[v.src()]
        if v.k == "list":
            return "(VList [" + "; ".join(cq(x) for x in v.p) + "])"
        return v.coq()

    K = 25                           # operand pairs per vm_compute command

    def chunks(idxs):
        return [idxs[j:j + K] for j in range(0, len(idxs), K)]

    def flags(outs, groups):
        """per-pair agreement flags from the "1"/"0" strings; None where the command failed"""
        r = []
        for o, g in zip(outs, groups):
            r += [None] * len(g) if (o is None or len(o) != len(g)) else [ch == "1" for ch in o]
        return r

    # which operand pairs the MODEL is run on.  The implementation-level law below is checked on ALL
    # pairs; since eval_binop on lists is proved to be mapM/mapM2 of the element operation, the groups
    # that enumerate every element pair of the full pool (A, B, E [e] op [f]) are always run in full and
    # the exhaustive small-list groups are thinned 1-in-3 (rotating with the seed) in the quick tier.
    rot = seed % 3
    all_idx = [i for i, (a, b, g) in enumerate(cases)
               if thorough or not (g.startswith("C ") or g.startswith("E list(0..2)")) or i % 3 == rot]
    spec_idx = [i for i, (a, b, g) in enumerate(cases) if g.startswith("B ") or g.startswith("E [e]")]
    spec_idx += [rng.choice(all_idx) for _ in range(500 if not thorough else 5000)]
    g1 = chunks(all_idx)
    g2 = chunks(spec_idx)
    # the implementation's answers as value terms over named leaves (a ~1 kB string literal per pair
    # costs ~25 ms inside coqc; identifiers cost nothing): numbers/strings seen at least 3 times are
    # defined once per coqc process, the rest are written in place
    import re
    freq = {}
    for i in all_idx:
        for m in re.finditer(r"N[0-9a-f]{16}|S[0-9a-f]*;", couts[i]):
            freq[m.group(0)] = freq.get(m.group(0), 0) + 1
    for tk, n in sorted(freq.items()):
        if n >= 3 or tk[0] == "S":
            if tk[0] == "N":
                defs.append("Definition n%s : value := VNum (nb 0x%s)." % (tk[1:], tk[1:]))
            else:
                defs.append('Definition s%s_ : value := VStr (hx "%s").' % (tk[1:-1], tk[1:-1]))

    def tok(kind, hx_):
        if kind == "N":
            return "n" + hx_ if freq.get("N" + hx_, 0) >= 3 else "(VNum (nb 0x%s))" % hx_
        return "s%s_" % hx_

    def expected_term(i):
        return "[" + "; ".join(outcome_term(r, tok) for r in impl[i]) + "]"

    exprs = ["agree_many_v P [%s]" % "; ".join("(%s, %s, %s)" % (cq(cases[i][0]), cq(cases[i][1]), expected_term(i))
                                               for i in g) for g in g1]
    sexprs = ["agree_spec_many P [%s]" % "; ".join("(%s, %s)" % (cq(cases[i][0]), cq(cases[i][1])) for i in g)
              for g in g2]
    model_ok = [None] * len(cases)
    spec_ok = [None] * len(spec_idx)
    model_text = {}
    try:
        # one coqc process per core: the definitions (pool, powf table, named leaves) are read once each
        per = max(10, -(-(len(exprs) + len(sexprs)) // c.NCPU))
        mouts = c.coq_eval_batch(REQ, "\n".join(defs), exprs + sexprs, "c11", shard=per)
        for i, f in zip(all_idx, flags(mouts[:len(exprs)], g1)):
            model_ok[i] = f
        spec_ok = flags(mouts[len(exprs):], g2)
        bad = [i for i in all_idx if model_ok[i] is False][:40]
        bad += [i for i, ok in zip(spec_idx, spec_ok) if ok is False][:10]
        if bad:                       # second pass: the model's own text for the differing pairs
            t = c.coq_eval_batch(REQ, "\n".join(defs),
                                 ["show_all P %s %s" % (cq(cases[i][0]), cq(cases[i][1])) for i in bad] +
                                 ["show_all_spec P %s %s" % (cq(cases[i][0]), cq(cases[i][1])) for i in bad], "c11b")
            for k, i in enumerate(bad):
                model_text[i] = (t[k], t[len(bad) + k])
    except c.BrokenTie as e:
        res.tie_broken(e.what, e.detail)
    if any(model_ok[i] is None for i in all_idx) and not res.broken:
        res.tie_broken("model evaluation for c11 returned no answer for %d operand pairs"
                       % sum(1 for i in all_idx if model_ok[i] is None))
    c.log("model runs done %.1fs" % (time.time() - t0))
    mism = [i for i in all_idx if model_ok[i] is False]
    unmodelled = 0
    if mism:
        i = mism[0]
        a, b, g = cases[i]
        ms = ((model_text.get(i) or ("",))[0] or "").split("|")
        ops = [OPS[j] for j in range(len(OPS)) if j >= len(ms) or j >= len(impl[i]) or ms[j] != impl[i][j]]
        j = OPS.index(ops[0]) if ops else 0
        res.tie_broken("correspondence C11/c11-binop: model (coq/Binop.v) and implementation disagree on %d of %d "
                       "operand pairs" % (len(mism), len(all_idx)),
                       "first: (%s) %s (%s) ; model=%s impl=%s ; operators differing on this pair: %s"
                       % (a.src(), ops[0] if ops else "?", b.src(),
                          (ms + ["?"] * len(OPS))[j], (impl[i] + ["?"] * len(OPS))[j], " ".join(ops)))
    smism = [i for i, ok in zip(spec_idx, spec_ok) if ok is False]
    if smism:
        i = smism[0]
        mt = model_text.get(i) or ("?", "?")
        res.tie_broken("the spec (broadcast_spec/scalar_op) and the transcription (eval_binop) disagree when run: the "
                       "transcription does not refine the spec on this input, or a hypothesis of the theorems "
                       "(symmetry of equals on the operands) does not hold on it",
                       "first: a = %s ; b = %s ; spec=%s ; transcription=%s"
                       % (cases[i][0].src(), cases[i][1].src(), mt[1], mt[0]))

    # ---- the property on the implementation alone
    law_checked = 0
    law_fail = 0
    hist = {op: {"OK": 0, "ERR": 0} for op in OPS}
    shapes = {}
    lens = {}
    nontrivial = set()
    for (a, b, g), rs in zip(cases, impl):
        if len(rs) != len(OPS):
            continue
        sh = shape_of(a, b)
        shapes[sh] = shapes.get(sh, 0) + 1
        for v in (a, b):
            if v.k == "list":
                lens[len(v.p)] = lens.get(len(v.p), 0) + 1
        for opi, op in enumerate(OPS):
            hist[op]["OK" if rs[opi].startswith("OK:") else "ERR"] += 1
            if opi < NB:
                if sh != "scalar-scalar":
                    nontrivial.add((a.src(), b.src(), op))
                exp = law_expected(T, opi, a, b)
                law_checked += 1
                if rs[opi] != exp:
                    law_fail += 1
                    if law_fail <= 5:
                        res.violation("broadcasting law fails on the implementation: `a %s b` is not the list of "
                                      "element results (in order, scalar kept on its side, first failure wins)" % op,
                                      {"kind": "impl-law", "a": a.src(), "b": b.src(), "op": op, "shape": sh,
                                       "observed": rs[opi], "expected": exp,
                                       "expected_from": "the implementation's own answers for each element pair",
                                       "rerun": rerun_hint(a, b, op)})
            else:
                # dot operators never broadcast: one boolean or an error, never a list
                law_checked += 1
                r = rs[opi]
                ok = r in ("OK:T", "OK:F", "ERR")
                if ok and (a.k == "list") != (b.k == "list"):
                    ok = r == {".==": "OK:F", ".!=": "OK:T"}.get(op, "ERR")
                if not ok:
                    law_fail += 1
                    if law_fail <= 5:
                        res.violation("a dot operator broadcast (or compared a list with a non-list as equal/ordered)",
                                      {"kind": "impl-dot", "a": a.src(), "b": b.src(), "op": op, "observed": r,
                                       "expected": "OK:F" if op == ".==" else ("OK:T" if op == ".!=" else "ERR"),
                                       "rerun": rerun_hint(a, b, op)})
    # scalar semantics against the python reference (IEEE doubles of the host, fmod, string +, ...)
    sc_checked = 0
    sc_fail = 0
    for x, y in tpairs:
        if x.k == "list" or y.k == "list":
            continue
        row = T[(x.src(), y.src())]
        if len(row) != len(OPS):
            continue
        for opi, op in enumerate(OPS):
            exp = py_scalar(op, x, y, powf)
            sc_checked += 1
            if row[opi] != exp:
                sc_fail += 1
                if sc_fail <= 5:
                    res.violation("scalar operator semantics: `a %s b` on two non-list values is not the "
                                  "IEEE-754 / ordering / boolean / ?? result" % op,
                                  {"kind": "impl-scalar", "a": x.src(), "b": y.src(), "op": op,
                                   "observed": row[opi], "expected": exp,
                                   "expected_from": "reference semantics in checks/c11.py:py_scalar",
                                   "rerun": rerun_hint(x, y, op)})
    c.log("law search done %.1fs" % (time.time() - t0))
    # ---- known findings (none open for C11 at the time of writing)
    for k in c.open_known(PID):
        w = k.get("witness", {})
        try:
            out = c.harness_lines_resilient(h, "c11-binop",
                                            ["\t".join([c.hexs(w["a"]), c.hexs(w["b"])])])[0].split("|")
            got = out[OPS.index(w["op"])]
            still = got != w["expected"]
        except Exception:
            still = True
        res.known("%s %s%s" % (k.get("id", "?"), k.get("what", ""), "" if still else " (no longer reproduces)"))

    groups = {}
    for _, _, g in cases:
        groups[g] = groups.get(g, 0) + 1
    res.coverage["evaluations"] = evaluations
    res.coverage["distinct_nontrivial"] = len(nontrivial)
    res.coverage["rule"] = ("one evaluation = one `a OP b` statement run by the real parser+evaluator; non-trivial = "
                            "distinct (a, b, OP) with OP one of the 17 broadcasting operators and at least one operand "
                            "a list (reaches a broadcasting arm of evaluate_binary_op_ast)")
    res.coverage["samples"] = [{"a": cases[i][0].src(), "b": cases[i][1].src(),
                                "impl": dict(zip(OPS, impl[i])) if len(impl[i]) == len(OPS) else couts[i]}
                               for i in [rng.below(len(cases)) for _ in range(4)]]
    res.coverage["traces_validated_against_impl"] = sum(1 for x in model_ok if x is True) * len(OPS)
    res.streams["c11-binop"] = {
        "operand_pairs": len(cases), "operand_pairs_run_on_model": len(all_idx),
        "operators_per_pair": len(OPS), "mismatching_pairs": len(mism),
        "model_unmodelled": unmodelled, "groups": groups, "shapes": shapes,
        "list_lengths": {str(k): v for k, v in sorted(lens.items())},
        "outcomes_per_operator": hist,
        "element_pool": len(E), "scalar_pool": len(SC), "core_pool": len(CORE),
        "powf_table_entries": len(powf),
        "spec_cross_run_pairs": len(spec_idx), "spec_vs_transcription_mismatches": len(smism),
        "literal_form_pairs": len(lit_idx),
    }
    # ---- aliasing: an operator applied to ONE binding on both sides gives what it gives on the same value
    # written out twice (a shortcut on heap identity is wrong as soon as a NaN sits inside)
    ALIAS_VALUES = ["[[0 / 0], [1]]", "[0 / 0]", "[1, [2, 0 / 0]]", "[{a: 0 / 0}]", "[1, 2, 3]", "[[1], [2]]", "[null, 1]",
                    '["a", [0 / 0]]', "[[]]", "[]", "{k: 0 / 0}", "0 / 0", "[0, -0]"]
    ALIAS_OPS = ["==", "!=", ".==", ".!=", "<=", ">=", "+", "&&", "??"]
    alines, ameta = [], []
    for vs in ALIAS_VALUES:
        for op in ALIAS_OPS:
            alines.append(c.hexs("%s %s %s" % (vs, op, vs)))
            alines.append(c.hexs("x9 = %s\nx9 %s x9" % (vs, op)))
            alines.append(c.hexs("x9 = %s\n((p9) => p9 %s p9)(x9)" % (vs, op)))
            ameta.append((vs, op))
    aouts = c.harness_lines_resilient(h, "eval", alines)
    alias_fail = 0
    for k, (vs, op) in enumerate(ameta):
        ref = aouts[3 * k].split(";ENV:")[0].split("|")[-1]
        for j, how in ((1, "x9 = %s\nx9 %s x9" % (vs, op)), (2, "x9 = %s\n((p9) => p9 %s p9)(x9)" % (vs, op))):
            got = aouts[3 * k + j].split(";ENV:")[0].split("|")[-1]
            if got != ref:
                alias_fail += 1
                if alias_fail <= 3:
                    res.violation("an operator gives a different result when both operands are the same binding than "
                                  "for the same value written twice",
                                  {"kind": "impl-law", "program": how, "reference_program": "%s %s %s" % (vs, op, vs),
                                   "observed": got, "expected": ref})
    res.streams["alias"] = {"values": len(ALIAS_VALUES), "operators": len(ALIAS_OPS), "failures": alias_fail}
    res.streams["impl-law-search"] = {
        "element_table_pairs": len(tpairs), "law_instances_checked": law_checked, "law_failures": law_fail,
        "scalar_reference_checked": sc_checked, "scalar_reference_failures": sc_fail, "crashes": crashes,
        "corpus_cases": corpus_n,
    }
    res.assumptions = [
        "f64::powf (libm) is an oracle: the theorems hold for every powf; the stream compares against a table "
        "produced by the same std function through the harness (operand order is what is checked for ^)",
        "all NaNs are one value (bit patterns compared after canonicalising NaN)",
        "broadcasting is one level deep: an element that is itself a list is operated on as a whole value",
        "and/or check the left operand first and do not inspect the right one when the left decides "
        "(`false && 1` is false): transcribed and specified so",
        "host Python floats are IEEE-754 binary64 (reference for + - * / %)",
    ]
    return res.finish()


if __name__ == "__main__":
    sys.exit(main(sys.argv[1:]))
