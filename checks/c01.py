"""C01 — no input crashes the parse / evaluate / serialise / format pipeline; reported error
locations lie inside their text.  DESIGN.md section 6 (C01), notes/C01.md.

Proof part (coq/proofs/NoPanic.v, coq/Properties/C01.v): the evaluator model has an explicit
Panic outcome for every partial Rust operation on a modelled path; theorems: evaluation never
returns Panic from a configuration whose innermost frame is Owned (invariant preserved), for
every operator / built-in implementation that does not panic itself, with those hypotheses
discharged for the transcribed operators (Binop.v) and built-ins (EvalInst.v).
Tie: the EVAL correspondence (release AND debug overflow semantics) on typed programs, operator
x boundary-pool pairs and the transcribed built-ins x boundary-pool tuples.
Search part (the larger half; library stages are not modelled): harness stream `c01`
(harness/src/s_c01.rs) runs every stage a user can invoke under its own catch_unwind, on both
the release and the debug build of the harness, over grammar-generated, corpus-mutated, raw
UTF-8, built-in x boundary-pool, JSON-input and unit-identifier inputs; the real `blots`
binary (debug and release) is run out of process on the same inputs; every crash is classified
by (stage, source file, message class) so that a NEW class is a violation."""
import json
import os
import re
import sys
import time

import common as c
import c01_gen as g
import c01_run as r
import evalstream as es
import textstream as ts

PID = "C01"
MANIFEST = {
    "text": "38 + 5 (text layer) + 10 (Pratt fuel / Panic arms) Coq theorems over the evaluator model (explicit Panic outcome for every partial Rust operation on a "
            "modelled path): evaluation at any call-depth budget from any configuration whose innermost frame is Owned "
            "never returns Panic and keeps that invariant — for every operator/built-in implementation that does not "
            "panic itself; hypotheses discharged for the transcribed operators (26 ops x 3 broadcasting arms: no "
            "list[idx] out of range, no unreachable!() arm reached), the built-ins wired into the model (arity check "
            "precedes every args[i]; arities regenerated from the built crate) and the factorial, for BOTH overflow "
            "semantics; whole programs (statement loop) never panic.  COMPLETE BUILT-IN SET (coq/EvalAll.v): a dispatcher "
            "with an arm for every row of the regenerated table (69) and `^`, library behaviour (libm x 9, powf, Unicode "
            "trim/upper/lower, lambda text, the std functions under the number display, the clock) as fields of an ORACLE "
            "record; for EVERY oracle: C01_builtin_call_no_panic_all — after the arity check no arm panics (every args[i], "
            "`&args[1..]`, dyn-fmt's state machine incl. its unreachable_unchecked() arm) under two named side conditions "
            "that are each necessary in the model (percentile: p a genuine double and <= 2^53 elements; format: the display "
            "of the numbers does not overflow its i32/i64 arithmetic, proved for every valid double when floor(log10) is "
            "within +-2000; the third, time_now's clock, is gone: the arm is total since repo fix bf56486 and so is the model's); "
            "C01_eval_never_unmodelled_all / C01_program_never_unmodelled_all — no evaluation, call or program is "
            "Unmodelled any more (the evaluator induction replayed for that outcome).  EVALUATOR-LEVEL never-Panic FOR THE "
            "COMPLETE SET (coq/Valid.v, proofs/AllValid*.v): the validity invariant `every number is a valid binary64` "
            "(SpecFloat.valid_binary 53 1024; hereditary over lists, records, closures' bodies and captured values, frames) is "
            "preserved by every Num.v operation (Flocq), every operator (26 x 3 arms), every one of the 69 built-in arms and by "
            "evaluation (all expression forms, every depth): C01_eval_no_panic_all / C01_call_no_panic_all / "
            "C01_program_no_panic_all — for every oracle with oracle_valid o (numbers in, numbers out; PROVED of the table oracle "
            "the ALL stream runs, for every table: C01_table_oracle_valid) and oracle_display_safe o (two sufficient conditions: "
            "log10 range, or C20's log10_sane_pos with C20's executable display library), every valid program on valid inputs, every "
            "depth, both build profiles: never Panic, values valid, invariant kept; C01_eval_no_panic_valid_generic is the axiom-free "
            "core (any valid-in/valid-out panic-free operators and built-ins).  PARTIAL / explicit side condition: percentile's list "
            "length <= 2^53 is NOT discharged (no resource bound of the model rules such a list out): the evaluator-level theorems "
            "are stated for builtin_all_fit o = builtin_all o except that percentile of a longer list is an error "
            "(C01_percentile_guard_is_the_only_difference); valid_expr of parsed programs is PROVED over the whole of PegToItems + Pratt (round 7, PF2): C01_parsed_items_valid "
            "(every item conv builds, any pair tree), C01_pratt_preserves_valid (any operator table, any fuel), "
            "C01_parsed_statements_valid / C01_parsed_program_valid (EVERY text); END TO END FROM BYTES: "
            "C01_text_run_no_panic_all / C01_text_run_panic_only_from_glue - every valid oracle, valid inputs, both profiles, "
            "every accepted text: the evaluator run over the statements parsed from the bytes never shows a Panic except the "
            "parse-side glue panic of a statement (pairs_to_expr's own unreachable!), which is reduced to the decidable "
            "text_streams_ok (C01_text_run_no_panic_streams; C01_text_streams_ok_full - the grammar only produces alternating "
            "operand / operator streams - is a Prop, counted 0 by the TEXT-EVAL stream, NOT proved); the ALL stream still "
            "evaluates valid_progb on every parsed program.  "
            "C01_builtin_call_no_panic_full (stated over EvalInst.builtin_impl, which answers Unmodelled for 50 built-ins) stays a "
            "Definition; its content is the _all theorems.  "
            "parser, formatter, printer, JSON and error-rendering stages and all error spans are library/string code "
            "decided by SEARCH: per-stage catch_unwind harness on release+debug builds and exit status of the real "
            "binary over grammar-generated (nesting <= 64), corpus-mutated, raw UTF-8, every built-in x boundary-pool "
            "tuples (arity -1..+2), JSON inputs incl. __blots_function objects, unit identifiers; crashes classified by "
            "(stage, file, message class); 7 crash/hang classes found on the original tree, all fixed in /repo now and "
            "kept as regression inputs (time_now with the clock before the epoch: fixed bf56486).  TEXT LAYER (coq/TextRun.v: "
            "program text -> PEG pairs -> Pratt items -> AST -> statement loop -> outputs as ONE Gallina function, tied to the "
            "real parse+evaluate+outputs and to the real binary by the TEXT-EVAL stream, which hands the model only the "
            "bytes): C01_text_parse_total — the parser stage of the model never runs out of fuel, for EVERY text (from "
            "C10_peg_total: machine-checked termination of the PEG interpreter on the regenerated grammar with fuel "
            "128 + 48*bytes, via a termination certificate recomputed and re-checked on every build), so acceptance is a "
            "total function of the text; C01_text_run_fuel_independent; C01_text_run_never_unmodelled; "
            "C01_text_run_is_program_run; C01_text_statement_spans_inside.  PRATT FUEL (+10 theorems, proofs/PrattFuelAll*.v): "
            "C01_pratt_fuel_sufficient — on EVERY item list (nested groups, also the ones the glue rejects or panics on) the "
            "Pratt model run with the fuel the text layer gives it (4*items_size+4) never returns its out-of-fuel outcome; "
            "hence C01_text_run_never_unmodelled_total — for EVERY byte string, inputs object and oracle the text run is TRun "
            "(no Unmodelled result) / TReject / TParsePanic, no hypothesis left; C01_text_parse_never_fuel; "
            "C01_text_statement_arms_unreachable — the statement loop's unreachable!() and no-inner-pair arms are not reachable "
            "on parsed texts; C01_pratt_table_total / C01_pratt_closure_arms_unreachable / C01_pratt_postfix_rules — the Pratt arms "
            "that depend on the regenerated operator table only (rule missing from the table or from the closure maps) are "
            "excluded for every token stream, exhaustively over the 34 rules.  PARTIAL: the remaining Panic arms inside Pratt.v "
            "(operator in operand position, operand in operator position, empty stream: C01_text_pratt_no_panic_on_parsed_full) and the "
            "PEG engine's empty-stack expect (TParsePanic) are not excluded by a theorem — counted 0 by the TEXT-EVAL / PARSE-text streams",
    "note": "trusted: Coq kernel + vm_compute; transcription of evaluate_ast / FunctionDef::call / evaluate_binary_op_ast "
            "and of every built-in arm (validated by the EVAL correspondence in both overflow semantics and by the ALL "
            "correspondence: model with oracle tables dumped by the harness vs implementation, plus the real binary's "
            "stderr for print); the args_ok form of the percentile condition and the validity-invariant theorems (Flocq's correctness lemmas "
            "for + - * / sqrt and rounding) use the standard library's four real-number axioms, the *_axiom_free / *_generic forms none; the search half is testing, not proof; resource exhaustion "
            "(allocation failure under a 12 GiB address-space cap, stack overflow beyond nesting 64) is counted and excluded",
    "category": "proof",
    "design_ref": "DESIGN.md section 6 C01; notes/C01.md",
}

NPROC = 6


# ------------------------------------------------------------------ events and classes
def norm_msg(m):
    m = re.sub(r"`[^`]*`", "`_`", m)
    m = re.sub(r"'[^']*'", "'_'", m)
    m = re.sub(r'"[^"]*"', '"_"', m)
    m = re.sub(r"\d+", "N", m)
    return m.strip()[:160]


def loc_file(loc):
    """/repo/blots-core/src/functions.rs:607 -> blots-core/functions.rs ; registry crate -> crate name/file"""
    p = loc.rsplit(":", 1)[0]
    m = re.search(r"(blots-core|blots-wasm|blots)/src/(.*)$", p)
    if m:
        return "%s/%s" % (m.group(1), m.group(2))
    m = re.search(r"/([A-Za-z0-9_\-]+)-\d+\.\d+[^/]*/src/(.*)$", p)
    if m:
        return "%s/%s" % (m.group(1), m.group(2))
    m = re.search(r"/library/(.*)$", p)
    if m:
        return "std/" + m.group(1)
    return os.path.basename(p)


def parse_events(result):
    """result line -> list of dicts {type, stage, file, msg, raw}"""
    evs = []
    if result is None:
        return [{"type": "LOST", "stage": "-", "file": "-", "msg": "no result recorded", "raw": ""}]
    if result.startswith("TIMEOUT"):
        st = re.search(r"stage=(\S+)", result)
        return [{"type": "TIMEOUT", "stage": st.group(1) if st else "-", "file": "-", "msg": "time limit", "raw": result}]
    if result.startswith("ABORT"):
        st = re.search(r"stage=(\S+)", result)
        why = result.split(" ")[2] if len(result.split(" ")) > 2 else "abort"
        tail = ""
        try:
            tail = bytes.fromhex(result.split(" ")[-1]).decode("utf-8", "replace")
        except ValueError:
            pass
        return [{"type": "ABORT", "stage": st.group(1) if st else "-", "file": "-", "msg": why, "raw": result[:80] + " " + tail[-200:]}]
    if ";EV:" not in result:
        return evs
    for e in result.split(";EV:", 1)[1].split("|"):
        q = e.split("/")
        if q[0] == "PANIC":
            try:
                txt = bytes.fromhex(q[2]).decode("utf-8", "replace") if len(q) > 2 else ""
            except ValueError:
                txt = "?"
            msg, _, loc = txt.rpartition(" @ ")
            evs.append({"type": "PANIC", "stage": q[1], "file": loc_file(loc), "msg": norm_msg(msg), "raw": txt})
        elif q[0] == "SPAN":
            evs.append({"type": "SPAN", "stage": q[1], "file": "-", "msg": q[4] if len(q) > 4 else "?", "raw": e})
        else:
            evs.append({"type": q[0], "stage": "-", "file": "-", "msg": e, "raw": e})
    return evs


def stage_group(stage):
    if stage.startswith("format_expr"):
        return "format_expr"
    return re.sub(r"^(inputs|value|output)_", "", stage)


def class_key(ev):
    return "%s | %s | %s | %s" % (ev["type"], stage_group(ev["stage"]), ev["file"], ev["msg"])


def text_of_case(case):
    return (case.get("src") or "") + "\n" + (case.get("inputs") or "")


OPEN_KEYS = None


def known_class(ev, case, build):
    """The decidable exclusions: one clause per entry of known/C01.json (key = entry["key"]); a clause only
    applies while its entry is OPEN — once the entry is `fixed`, the same crash is a violation again."""
    global OPEN_KEYS
    if OPEN_KEYS is None:
        OPEN_KEYS = {e.get("key") for e in open_known_here()}
    k = _known_class(ev, case, build)
    return k if k in OPEN_KEYS else None


def open_known_here():
    """the open entries of known_findings.json (generated by tools/mkmanifest.py) plus the open entries of
    known/C01.json that the generated file does not list yet"""
    out = list(c.open_known(PID))
    have = {e.get("id") for e in c.load_known(PID)}
    try:
        with open(os.path.join(c.VERIF, "known", "C01.json")) as f:
            for e in json.load(f):
                if e.get("status") == "open" and e.get("id") not in have:
                    out.append(e)
    except (OSError, ValueError):
        pass
    return out


def _known_class(ev, case, build):
    t = text_of_case(case)
    msg, f, typ = ev["msg"], ev["file"], ev["type"]
    if typ == "SPAN" and msg == "report-omits-located-line-nonascii":
        # decided exactly by the harness: the attached text has multi-byte characters at or before the location
        return "report-location-counted-in-characters"
    if typ == "PANIC" and f == "blots-core/functions.rs" and "Option::unwrap" in ev["raw"] and "None" in ev["raw"] \
            and re.search(r"\b(median|percentile)\b", t):
        return "median-percentile-nan"
    if typ == "PANIC" and f == "blots-core/functions.rs" and re.search(r"\bpercentile\b", t) and \
            ("subtract with overflow" in msg or "index out of bounds" in msg):
        return "percentile-empty"
    if typ == "PANIC" and re.search(r"\brange\b", t) and \
            ((f == "blots-core/functions.rs" and "subtract with overflow" in msg) or "capacity overflow" in msg):
        return "range-length-overflow"
    if typ == "PANIC" and "does not correctly implement a total order" in ev["raw"] and re.search(r"\bsort(_by)?\b", t):
        return "sort-not-total-order"
    if typ == "PANIC" and build.endswith("debug") and f == "blots-core/expressions.rs" and "add with overflow" in msg and "!" in t:
        return "factorial-large"
    if typ == "TIMEOUT" and ev["stage"] in ("evaluate", "cli") and re.search(r"!(?!=)", t):
        return "factorial-large"      # n! loops n times
    if typ == "SPAN" and ev["msg"] == "empty-source" and "__blots_function" in t:
        return "reloaded-function-span"
    if typ == "SPAN" and "__blots_function" in t and ev["msg"] in ("end>len", "not-char-boundary"):
        return "reloaded-function-span"
    if typ == "TIMEOUT" and (ev["stage"].startswith("format_expr") or ev["stage"] in ("reparse_formatted", "join_statements_with_spacing")):
        return "formatter-exponential"
    if typ == "PANIC" and f == "blots-core/functions.rs" and "SystemTimeError" in ev["raw"] and re.search(r"\btime_now\b", t):
        return "time-now-before-epoch"   # only with the system clock before 1970 (never in the streams)
    return None


def clock_before_epoch_witness(cli, src):
    """Known finding C01-time-now-clock-before-epoch: run the real binary with CLOCK_REALTIME reading -1000 s
    (LD_PRELOAD of checks/c01_clock_shim.c).  -> (reproduces?, note)"""
    import subprocess
    import tempfile
    shim_c = os.path.join(os.path.dirname(os.path.abspath(__file__)), "c01_clock_shim.c")
    tmp = tempfile.mkdtemp(prefix="c01clock_")
    try:
        so = os.path.join(tmp, "shim.so")
        try:
            p = subprocess.run(["cc", "-shared", "-fPIC", "-o", so, shim_c], capture_output=True, timeout=120)
        except (OSError, subprocess.TimeoutExpired):
            return False, "not re-run: no C compiler for the clock shim"
        if p.returncode != 0:
            return False, "not re-run: the clock shim did not compile"
        path = os.path.join(tmp, "t.blots")
        with open(path, "w") as f:
            f.write(src + "\n")
        env = dict(os.environ)
        env["LD_PRELOAD"] = so
        env["RUST_BACKTRACE"] = "0"
        q = subprocess.run([cli, path], stdin=subprocess.DEVNULL, capture_output=True, timeout=60, env=env)
        hit = q.returncode == 101 and b"SystemTimeError" in q.stderr
        return hit, "no longer reproduces"
    finally:
        import shutil
        shutil.rmtree(tmp, ignore_errors=True)


def out_of_scope(ev, case):
    """Resource limits outside the property's quantifier (counted, never a violation)."""
    t = text_of_case(case)
    if ev["type"] == "ABORT" and ev["msg"] == "stack-overflow" and nesting_of_case(case) > 64:
        return "nesting>64"
    if ev["type"] == "ABORT" and ev["msg"] == "alloc-failure":
        return "allocation-failure"
    if ev["type"] == "TIMEOUT" and ev["stage"] in ("evaluate", "cli") and re.search(r"\brange\b", t):
        return "large-range"
    return None


def nesting_of_case(case):
    m = g.nesting_measure(case.get("src") or "")
    for fs in re.findall(r'__blots_function"\s*:\s*"((?:[^"\\]|\\.)*)"', case.get("inputs") or ""):
        m = max(m, g.nesting_measure(fs))
    return m


# ------------------------------------------------------------------ running one batch
def to_line(case):
    if case["kind"] == "U":
        return r.case_line("U", case["src"], case.get("inputs") or "", "%016x" % case["bits"])
    return r.case_line(case["kind"], case["src"], case.get("inputs"))


def run_batch(binary, cases, timeout, env_extra=None):
    res, st = r.run_cases(binary, [to_line(cs) for cs in cases], nproc=NPROC, case_timeout=timeout, env_extra=env_extra)
    return res, st


class Tally:
    def __init__(self):
        self.classes = {}         # class key -> {count, known, scope, example}
        self.violations = []      # (case, ev, build)
        self.known_hits = {}
        self.scope_hits = {}

    def add(self, case, result, build):
        evs = parse_events(result)
        for ev in evs:
            k = known_class(ev, case, build)
            sc = None if k else out_of_scope(ev, case)
            ck = class_key(ev)
            d = self.classes.setdefault("%s [%s]" % (ck, build), {"count": 0, "known": k, "out_of_scope": sc,
                                                                  "example": {"src": (case.get("src") or "")[:400],
                                                                              "inputs": (case.get("inputs") or "")[:400]}})
            d["count"] += 1
            if k:
                self.known_hits[k] = self.known_hits.get(k, 0) + 1
            elif sc:
                self.scope_hits[sc] = self.scope_hits.get(sc, 0) + 1
            else:
                self.violations.append((case, ev, build))
        return evs


# ------------------------------------------------------------------ replay
def do_replay(path, harn, clis):
    with open(path) as f:
        rp = json.load(f)
    print(json.dumps(rp, indent=1)[:3000])
    if rp.get("no_failing_input_found"):
        return 0
    if rp.get("repl_lines"):
        import c18 as c18mod
        import c01_sessions as c01s
        k = rp["repl_lines"].index(rp["failing_line"])
        sc = [(l, "fail" if i == k else "def") for i, l in enumerate(rp["repl_lines"])]
        fails, st = c01s.run_repl_law(clis["release"], [sc], c18mod.repl_session, nproc=1)
        print("interactive session now: %s %s" % (st, "REPORTS DIFFER" if fails else "reports agree"))
        return 1 if fails else 0
    case = rp.get("case")
    if not case:
        return 0
    bad = 0
    for build, h in harn.items():
        res, _ = run_batch(h, [case], 60)
        evs = parse_events(res[0])
        print("harness[%s] now: %s" % (build, res[0][:300] if res[0] else None))
        for ev in evs:
            if not known_class(ev, case, build) and not out_of_scope(ev, case):
                bad += 1
    if case["kind"] not in ("U", "S"):
        for build, cli in clis.items():
            rc, msg = r.run_cli(cli, case["src"], case.get("inputs"))
            print("blots[%s] now: exit %s %s" % (build, rc, msg[:200]))
            if rc not in (0, 1, "notrun") and not rp.get("cli_known"):
                bad += 1
    return 1 if bad else 0


# ------------------------------------------------------------------ main
def unit_names(repo):
    try:
        src = open(os.path.join(repo, "blots-core/src/units.rs"), encoding="utf-8").read()
    except OSError:
        return ["m", "km", "kg"]
    i = src.find("pub fn get_all_units")
    j = src.find("pub fn resolve_unit")
    names = re.findall(r'"([^"\\\n]{1,40})"', src[i:j])
    return sorted(set(names)) or ["m", "km", "kg"]


def formatter_is_exponential(h):
    """measured, so that the generator stops avoiding the class once the repair is in"""
    e = "xxxxxxxxxxxxxxxxxxxxxxxxx"
    for _ in range(17):
        e = "y => " + e
    t = time.time()
    res, _ = r.run_cases(h, [r.case_line("P", e)], nproc=1, case_timeout=30)
    return (time.time() - t) > 0.25, res[0]


def main(argv):
    tier, seed, replay = c.tier_and_seed(argv)
    res = c.Result(PID, tier, seed)
    quick = tier == "quick"
    try:
        h = c.build_harness("release")
        c.regen_all(h)
        hd = c.build_harness("debug")
        cli_r = c.build_cli("release")
        cli_d = c.build_cli("debug")
    except c.BrokenTie as e:
        res.tie_broken(e.what, e.detail)
        return res.finish()
    harn = {"release": h, "debug": hd}
    clis = {"release": cli_r, "debug": cli_d}
    if replay:
        return do_replay(replay, harn, clis)

    dump = c.harness_oneshot(h, "dump-builtins")
    builtins = g.load_builtin_names(dump)
    arities = {l.split("\t")[0]: (l.split("\t")[1], int(l.split("\t")[2]), int(l.split("\t")[3]))
               for l in dump.strip().split("\n")}
    rng = c.Rng(seed)

    # ---------------- proof obligations
    tp = time.time()
    c.proof_step(res, PID, extra_targets=["EvalInst.vo", "AllRun.vo"])
    c.log("proof step %.1fs" % (time.time() - tp))

    tally = Tally()
    streams = {}
    all_cases = []             # (stream, case, {build: result})
    timeout = 20 if quick else 40

    def run_stream(name, cases, builds=("release", "debug"), debug_fraction=1.0):
        t0 = time.time()
        info = {"cases": len(cases)}
        rows = [{} for _ in cases]
        for b in builds:
            sel = list(range(len(cases)))
            if b == "debug" and debug_fraction < 1.0:
                step = max(1, int(round(1 / debug_fraction)))
                sel = sel[::step]
            out, st = run_batch(harn[b], [cases[i] for i in sel], timeout)
            nev = 0
            dist = {}
            for i, o in zip(sel, out):
                rows[i][b] = o
                evs = tally.add(cases[i], o, b)
                nev += 1 if evs else 0
                key = "event" if evs else (o.split(",")[0] if o and "inputs=" not in o.split(",")[0] else
                                           (o.split(",")[1] if o and "," in o else str(o)))
                dist[key] = dist.get(key, 0) + 1
            info[b] = {"ran": len(sel), "with_events": nev, "outcomes": dist, **st}
        info["wall_s"] = round(time.time() - t0, 1)
        streams[name] = info
        c.log("stream %s: %d cases, %.1fs" % (name, len(cases), info["wall_s"]))
        for cs, row in zip(cases, rows):
            all_cases.append((name, cs, row))
        return rows

    # ---------------- corpus first
    corpus_dir = os.path.join(c.VERIF, "corpus", PID)
    corpus = []
    if os.path.isdir(corpus_dir):
        for fn in sorted(os.listdir(corpus_dir)):
            if fn.endswith(".json"):
                with open(os.path.join(corpus_dir, fn)) as f:
                    d = json.load(f)
                d["label"] = "corpus/" + fn
                corpus.append(d)
    run_stream("CORPUS", corpus)

    slow_fmt, _ = formatter_is_exponential(h)

    # ---------------- (d) every built-in x boundary pool; operators x pool
    bt = g.builtin_tuples(rng, builtins, arities, tier)
    cases_b = [{"kind": "E", "src": s, "label": lab} for lab, s in bt]
    run_stream("BUILTIN-POOL", cases_b)
    ot = g.operator_tuples()
    cases_o = [{"kind": "E", "src": s, "label": lab} for lab, s in ot]
    run_stream("OPERATOR-POOL", cases_o)

    # ---------------- (d') a bare Environment (no `inputs` binding), as blots-core's own tests and library
    # users create it: calls that bind nothing (parameterless, unnamed) evaluate their body in ... whatever
    # FunctionDef::call builds; assignments, do-blocks, nested calls, callbacks there
    BARE = [
        "base = 41\n(() => total = base + 1)()", "base = 41\nr = {init: () => total = base + 1}\nr.init()",
        "(() => t = 1)()", "k = 1\n(() => k)()", "k = 2\nf = () => [k, k]\nf()\n[f()] via (q => q)",
        "k = 2\n(() => do {\n  t = k\n  return t\n})()", "k = 2\ng = () => (() => w = k)()\ng()",
        "k = 2\n[() => k2 = k][0]()", "k = 2\nmap([1], (...r) => k3 = k)", "k = [1]\n(() => [k4 = k, k4])()",
        "k = 2\n(() => {a: k5 = k})()", "k = 2\n(() => if true then k6 = k else 0)()", "k = 2\n(() => (k7 = k) + 1)()",
        "k = 2\n(() => output_k = k)()", "f = () => f\nf()()", "k = 2\n(() => k = 3)()", "k = 2\n(() => (() => k8 = k)())()",
        "k = 2\nr = {f: () => [() => k9 = k]}\nr.f()[0]()", "k = 2\n0 into (() => 1)", "k = 2\n(() => inputs)()",
        "k = 2\n(() => #x)()", "inputs = 5\n(() => inputs)()", "k = 2\n(() => constants.pi + k)()",
    ]
    cases_bare = [{"kind": "EB", "src": sx, "label": "bare"} for sx in BARE]
    cases_bare += [{"kind": "PB", "src": g.typed_program(rng), "label": "bare-typed"} for _ in range(150 if quick else 3000)]
    run_stream("BARE-ENV", cases_bare)

    # ---------------- (d'') runaway and deep recursion through every call path (the shapes of C18's check):
    # a crash here is a C01 violation as much as a C18 one
    import c18 as c18mod
    cases_rec = []
    for kk in (1, 8):
        for name, defs, call in c18mod.shapes(kk):
            cases_rec.append({"kind": "E", "src": defs + "\n" + call, "label": "recursion/" + name})
    run_stream("RECURSION", cases_rec, builds=("release",))

    # ---------------- (d-sessions) several DIFFERENT source texts evaluated one after the other on one thread
    # against one heap / environment (REPL, wasm host, embedding loop), under four placements of the text in memory;
    # every other stream evaluates one text per thread, so state left behind by an evaluation is never seen by a
    # second text (checks/c01_sessions.py, harness kind "S").  Own generator state: the other streams keep theirs.
    import c01_sessions as c01s
    cases_s = c01s.sessions(c.Rng(seed ^ 0x5E5510), builtins, g.load_corpus(c.REPO), 1500 if quick else 30000)
    rows_s = run_stream("SESSIONS", cases_s)
    streams["SESSIONS"]["distribution"] = c01s.distribution(cases_s, [row.get("release") for row in rows_s])

    # ---------------- (a) grammar-based
    w = g.WildGen(rng, builtins, 64)
    w.avoid_slow = slow_fmt
    n_wild = 2500 if quick else 40000
    cases_w = [{"kind": "P", "src": w.program(), "label": "wild"} for _ in range(n_wild)]
    n_typed = 800 if quick else 10000
    cases_t = [{"kind": "P", "src": g.typed_program(rng), "inputs": es.DEFAULT_INPUTS_JSON, "label": "typed"}
               for _ in range(n_typed)]
    rows_w = run_stream("GRAMMAR", cases_w + cases_t, debug_fraction=0.34 if quick else 0.25)
    depths = [int(m.group(1)) for row in rows_w for m in [re.search(r"depth=(\d+)", row.get("release") or "")] if m]
    hist = {}
    for d in depths:
        b = "1-4" if d <= 4 else "5-8" if d <= 8 else "9-16" if d <= 16 else "17-32" if d <= 32 else "33-64" if d <= 64 else ">64"
        hist[b] = hist.get(b, 0) + 1
    streams["GRAMMAR"]["ast_depth_histogram"] = hist
    streams["GRAMMAR"]["productions"] = dict(sorted(w.stats.items()))

    # ---------------- (b) corpus mutation
    texts = g.load_corpus(c.REPO)
    n_mut = 2500 if quick else 40000
    cases_m = []
    for _ in range(n_mut):
        t = rng.choice(texts)
        cases_m.append({"kind": "P", "src": g.mutate(rng, t, rng.choice(texts)), "label": "mutation"})
    cases_m += [{"kind": "P", "src": t, "label": "corpus-original"} for t in texts]
    run_stream("MUTATION", cases_m, debug_fraction=0.25)
    streams["MUTATION"]["corpus_texts"] = len(texts)

    # ---------------- (c) raw UTF-8 / token soup
    n_raw = 1500 if quick else 20000
    cases_r = [{"kind": "P", "src": g.raw_text(rng, builtins), "label": "raw"} for _ in range(n_raw)]
    run_stream("RAW", cases_r, debug_fraction=0.25)

    # ---------------- JSON inputs incl. function objects
    n_json = 2500 if quick else 30000
    cases_j = []
    for _ in range(n_json):
        jt, prog = g.json_inputs(rng, builtins)
        cases_j.append({"kind": "P" if rng.chance(1, 4) else "E", "src": prog, "inputs": jt, "label": "json"})
    run_stream("JSON", cases_j, debug_fraction=0.34)

    # ---------------- units
    un = unit_names(c.REPO)
    n_units = 3000 if quick else 40000
    cases_u = []
    for _ in range(n_units):
        a, b, bits = g.unit_cases(rng, un)
        cases_u.append({"kind": "U", "src": a, "inputs": b, "bits": bits, "label": "units"})
    run_stream("UNITS", cases_u, debug_fraction=0.34)
    streams["UNITS"]["identifiers_read_from_units_rs"] = len(un)

    # ---------------- out of process: the real binary, both builds
    t0 = time.time()
    jobs = []          # (stream, case, fmt)
    per = 60 if quick else 600
    bystream = {}
    per_class = {}
    for name, cs, row in all_cases:
        if cs["kind"] in ("U", "S"):
            continue
        evs = [e for o in row.values() for e in parse_events(o)]
        interesting = False
        for e in evs:               # at most 12 inputs per crash class go to the real binary
            k = class_key(e)
            if per_class.get(k, 0) < 12:
                per_class[k] = per_class.get(k, 0) + 1
                interesting = True
        bystream.setdefault(name, [0])
        if interesting or name == "CORPUS" or (not evs and bystream[name][0] < per):
            if not interesting and name != "CORPUS":
                bystream[name][0] += 1
            jobs.append((name, cs, False))
    fmt_src = [cs for name, cs, row in all_cases if cs["kind"] == "P" and name in ("GRAMMAR", "MUTATION")][:: (40 if quick else 8)]
    jobs += [("FORMAT", cs, True) for cs in fmt_src]
    cli_dist = {}
    cli_runs = 0
    for build, cli in clis.items():
        out = r.run_cli_many(cli, [(cs["src"], cs.get("inputs") if not f else None, f) for _, cs, f in jobs], nproc=NPROC,
                             timeout=timeout)
        for (name, cs, f), (rc, msg) in zip(jobs, out):
            cli_runs += 1
            k = "%s exit %s" % (build, rc)
            cli_dist[k] = cli_dist.get(k, 0) + 1
            if rc in (0, 1, 2, "notrun"):
                continue
            if rc == "timeout":
                ev = {"type": "TIMEOUT", "stage": "format_expr" if f else "cli", "file": "-", "msg": "time limit", "raw": "cli"}
            elif msg.startswith("panicked at"):
                m = re.match(r"panicked at ([^\n]*?):(\d+):\d+:\n?(.*)", msg, re.S)
                loc = (m.group(1) + ":" + m.group(2)) if m else "?"
                txt = (m.group(3) if m else msg).strip().split("\n")[0]
                ev = {"type": "PANIC", "stage": "cli", "file": loc_file(loc), "msg": norm_msg(txt), "raw": msg[:300]}
            elif msg == "stack overflow":
                ev = {"type": "ABORT", "stage": "cli", "file": "-", "msg": "stack-overflow", "raw": "cli exit %s" % rc}
            elif msg == "alloc failure":
                ev = {"type": "ABORT", "stage": "cli", "file": "-", "msg": "alloc-failure", "raw": "cli exit %s" % rc}
            else:
                ev = {"type": "ABORT", "stage": "cli", "file": "-", "msg": "exit %s" % rc, "raw": "cli exit %s %s" % (rc, msg[:100])}
            kcl = known_class(ev, cs, build)
            sc = None if kcl else out_of_scope(ev, cs)
            ck = "%s [cli-%s]" % (class_key(ev), build)
            d = tally.classes.setdefault(ck, {"count": 0, "known": kcl, "out_of_scope": sc,
                                              "example": {"src": cs["src"][:400], "inputs": (cs.get("inputs") or "")[:400]}})
            d["count"] += 1
            if kcl:
                tally.known_hits[kcl] = tally.known_hits.get(kcl, 0) + 1
            elif sc:
                tally.scope_hits[sc] = tally.scope_hits.get(sc, 0) + 1
            else:
                tally.violations.append((dict(cs, cli_format=f), ev, "cli-" + build))
    c.log("cli %.1fs" % (time.time() - t0))
    streams["CLI"] = {"runs": cli_runs, "programs": len(jobs), "format_runs_per_build": len(fmt_src), "outcomes": cli_dist,
                      "wall_s": round(time.time() - t0, 1)}

    # ---------------- the real binary's interactive session (its only entry point that evaluates several texts in one
    # process; stdin on a pseudo-terminal): a failing line that uses nothing defined earlier prints the same report
    # as `blots <file>` prints for that line alone
    t0 = time.time()
    scripts = c01s.repl_scripts(c.Rng(seed ^ 0x5E5511), 6 if quick else 60)
    repl_fails, repl_stats = c01s.run_repl_law(cli_r, scripts, c18mod.repl_session, nproc=NPROC)
    repl_stats["wall_s"] = round(time.time() - t0, 1)
    streams["REPL-SESSIONS"] = repl_stats
    c.log("repl sessions %.1fs %s" % (time.time() - t0, repl_stats))
    for sc, idx, obs, exp in repl_fails[:2]:
        res.violation("interactive session of the real binary: the error report of line %d differs from the report `blots <file>` "
                      "prints for the same line alone (the report depends on what was typed before)" % (idx + 1),
                      {"kind": "repl", "repl_lines": [l for l, _ in sc], "failing_line": sc[idx][0], "observed": obs, "expected": exp,
                       "rerun": "./check C01 --replay <this file>  (types repl_lines into `blots` on a pseudo-terminal)"})

    # ---------------- correspondence: model vs implementation, both overflow semantics
    try:
        tp = time.time()
        corr = correspondence(h, hd, rng, quick, res)
        streams.update(corr)
        c.log("correspondence %.1fs" % (time.time() - tp))
        # the complete built-in set (coq/EvalAll.v, oracle tables from the harness): its own generator state
        tp = time.time()
        streams["ALL"] = es.run_all_stream(h, c.Rng(seed + 0x0A11), quick, res, cli=cli_r, tag="c01all")
        c.log("ALL correspondence %.1fs" % (time.time() - tp))
        streams["TEXT-EVAL"] = ts.run_text_stream(h, c.Rng(seed + 0x7E87), quick, res, cli=cli_r, tag="c01text")
    except c.BrokenTie as e:
        res.tie_broken(e.what, e.detail)

    # ---------------- verdict
    seen = set()
    slow_but_finished = 0
    for case, ev, build in tally.violations:
        ck = class_key(ev)
        if ck in seen:
            continue
        if ev["type"] == "TIMEOUT":
            # a time limit is not evidence of non-termination on a shared machine: confirm alone, with 4x the limit
            if build.startswith("cli"):
                rc2, _ = r.run_cli(clis[build[4:]], case["src"], case.get("inputs"), timeout=4 * timeout, fmt=case.get("cli_format", False))
                again = rc2 == "timeout"
            else:
                o2, _ = run_batch(harn[build], [case], 4 * timeout)
                again = bool(o2[0]) and o2[0].startswith("TIMEOUT")
            if not again:
                slow_but_finished += 1
                continue
        seen.add(ck)
        if len(seen) > 8:
            break
        what = {"PANIC": "panic in stage %s (%s): %s" % (ev["stage"], ev["file"], ev["msg"]),
                "SPAN": "a reported error location lies outside the text it refers to (%s, stage %s)" % (ev["msg"], ev["stage"]),
                "ABORT": "the process aborted (%s) in stage %s" % (ev["msg"], ev["stage"]),
                "TIMEOUT": "stage %s did not finish within %ds" % (ev["stage"], timeout),
                "LOST": "a worker lost a case"}.get(ev["type"], ev["type"])
        if ev["type"] == "SPAN" and ev["msg"] in SESSION_WHAT:
            what = SESSION_WHAT[ev["msg"]] % ev["stage"]
        small = shrink(harn, case, ev, build) if not build.startswith("cli") else case
        res.violation("%s [%s build]" % (what, build),
                      {"kind": "impl", "case": {k: v for k, v in small.items() if k in ("kind", "src", "inputs", "bits")},
                       "original_case": {k: v for k, v in case.items() if k in ("kind", "src", "inputs", "bits", "label")},
                       "build": build, "class": ck, "observed": ev["raw"][:400],
                       "expected": "every stage returns a result or a reported error whose span lies inside its source",
                       "rerun": "./check C01 --replay <this file>"})

    total = sum(len(row) for _, _, row in all_cases)
    res.coverage["evaluations"] = total + cli_runs
    nontrivial = set()
    for name, cs, row in all_cases:
        o = row.get("release") or ""
        if cs["kind"] == "U" or "parse=ok" in o:
            nontrivial.add((cs["kind"], cs["src"], cs.get("inputs")))
    res.coverage["distinct_nontrivial"] = len(nontrivial)
    res.coverage["rule"] = ("inputs: (a) grammar-directed text over the whole surface syntax with nesting budget <= 64 + typed "
                            "programs, (b) token deletion/duplication/swap/splice over %d repository sources, (c) raw UTF-8 / "
                            "token soup, (d) all %d built-ins x boundary pool (%d values; all 1-tuples, all 2-tuples over %d core "
                            "values, 3-tuples %s, 4/5-tuples sampled, spread/via/into/where forms) and every operator x core "
                            "pairs, JSON inputs incl. function objects, unit identifiers; each case runs every stage under "
                            "its own catch_unwind on the release harness (and the debug harness: all of (d), a fraction of the "
                            "rest); non-trivial = distinct cases the parser accepted (all later stages ran) or unit conversions"
                            % (len(texts), len(builtins), len(g.POOL), len(g.POOL_CORE),
                               "sampled" if quick else "exhaustive over the core values"))
    res.coverage["samples"] = [{"stream": n, "case": {k: v for k, v in cs.items() if k != "label"}, "result": row.get("release")}
                               for n, cs, row in (all_cases[:1] + all_cases[len(corpus) + 5000:len(corpus) + 5002] +
                                                  [x for x in all_cases if x[0] == "GRAMMAR"][:2] +
                                                  [x for x in all_cases if x[0] == "JSON"][:2])][:8]
    res.coverage["crash_classes"] = tally.classes
    res.coverage["known_class_hits"] = tally.known_hits
    res.coverage["out_of_scope_hits"] = tally.scope_hits
    res.coverage["formatter_exponential_measured"] = slow_fmt
    res.coverage["slow_but_finished_on_confirmation"] = slow_but_finished
    res.streams.update(streams)
    res.assumptions = [
        "stages run on a thread with a 1 GiB stack, like the CLI's interpreter thread; stack exhaustion is only judged for nesting <= 64",
        "workers run under a 12 GiB address-space cap; an allocation failure is counted as resource exhaustion, not as a crash",
        "pest, ariadne, serde_json, dyn-fmt are exercised by the search only (library code)",
    ]

    # ---------------- known findings: re-run every witness
    for e in open_known_here():
        wit = e.get("witness") or {}
        if wit.get("kind") == "ENV-CLOCK":
            hit, why = clock_before_epoch_witness(clis[wit.get("build", "release")], wit.get("src", "time_now()"))
            res.known("%s %s%s" % (e["id"], e["what"], "" if hit else " (%s)" % why))
            continue
        case = {"kind": wit.get("kind", "E"), "src": wit.get("src", ""), "inputs": wit.get("inputs")}
        build = wit.get("build", "release")
        if wit.get("stage_timeout"):
            out, _ = run_batch(harn[build], [case], wit["stage_timeout"])
        else:
            out, _ = run_batch(harn[build], [case], 60)
        hit = any(known_class(ev, case, build) == e.get("key") for ev in parse_events(out[0]))
        res.known("%s %s%s" % (e["id"], e["what"], "" if hit else " (no longer reproduces)"))
    return res.finish()


SESSION_WHAT = {
    "report-omits-located-line": "the rendered report of an error does not show the source line its location starts in (the "
                                 "location lies outside, or elsewhere in, the text the report is drawn from) (stage %s)",
    "report-omits-located-line-nonascii": "the rendered report of an error located after multi-byte characters does not show the "
                                          "source line its location starts in (stage %s)",
    "foreign-source": "in a session of several source texts the text attached to a reported error is neither the text being "
                      "evaluated nor an earlier text of the session: the location refers to another text (stage %s)",
    "differs-from-separate-buffers": "a reported error (message / location / attached text / rendered report) depends on where the "
                                     "host keeps the source text: reused or re-allocated buffer vs separate live buffers (stage %s)",
    "differs-from-one-program": "the texts of a session joined into one program give another value, message or text under the "
                                "reported location than the session itself (stage %s)",
}


def shrink_session(harn, case, ev, build):
    """drop whole texts of a session while the same class is reported"""
    target = class_key(ev)
    try:
        texts = json.loads(case["src"])
    except ValueError:
        return case
    i = len(texts) - 1
    while i >= 0 and len(texts) > 1:
        cand = texts[:i] + texts[i + 1:]
        trial = dict(case, src=json.dumps(cand, ensure_ascii=False))
        outs, _ = run_batch(harn[build], [trial], 20)
        if any(class_key(e2) == target for e2 in parse_events(outs[0])):
            texts = cand
        i -= 1
    return dict(case, src=json.dumps(texts, ensure_ascii=False))


def shrink(harn, case, ev, build, budget=60):
    """greedy token deletion keeping the same crash class"""
    if case["kind"] == "S":
        return shrink_session(harn, case, ev, build)
    if case["kind"] == "U" or ev["type"] in ("TIMEOUT", "LOST"):
        return case
    target = class_key(ev)
    h = harn[build]
    cur = dict(case)
    toks = g.tokenize(cur["src"])
    t0 = time.time()
    step = max(1, len(toks) // 2)
    while step >= 1 and time.time() - t0 < budget:
        i = 0
        changed = False
        cands = []
        while i < len(toks):
            cands.append(toks[:i] + toks[i + step:])
            i += step
        if not cands:
            break
        outs, _ = run_batch(h, [dict(cur, src="".join(t)) for t in cands], 10)
        for t, o in zip(cands, outs):
            if any(class_key(e2) == target for e2 in parse_events(o)):
                toks = t
                cur = dict(cur, src="".join(t))
                changed = True
                break
        if not changed:
            step //= 2
    return cur


# ------------------------------------------------------------------ correspondence
def correspondence(h, hd, rng, quick, res):
    """EVAL stream, release model vs release harness and debug model vs debug harness."""
    import gen_programs as gp
    out = {}
    srcs = []
    gen = gp.Gen(rng, allow_fail=True, max_depth=3)
    for _ in range(250 if quick else 2500):
        srcs.append("\n".join(gen.program(2 + rng.below(5))))
    core = g.pool(g.POOL_CORE)
    modelled = ["map", "filter", "reduce", "every", "some", "abs", "floor", "ceil", "trunc", "sqrt", "typeof", "arity",
                "to_bool", "ugt", "ult", "ugte", "ulte", "any", "all"]
    pairs = [(a, b) for a in core for b in core]
    for bname in modelled:
        srcs.append("%s()" % bname)
        for n, s in core:
            srcs.append("%s(%s)" % (bname, s))
        for (n1, s1), (n2, s2) in (rng.shuffle(pairs)[: (60 if quick else 576)]):
            srcs.append("%s(%s, %s)" % (bname, s1, s2))
            if bname == "reduce":
                srcs.append("reduce(%s, %s, %s)" % (s1, s2, rng.choice(core)[1]))
    ops = [o for o in g.BINOPS + g.NATOPS if o != "^"]
    for op in ops:
        for (n1, s1), (n2, s2) in (rng.shuffle(pairs)[: (40 if quick else 576)]):
            srcs.append("%s %s %s" % (s1, op, s2))
    # overflow semantics: factorial around every boundary of the cast
    facts = ["0!", "1!", "5!", "170!", "171!", "200!", "201!", "(-1)!", "2.5!", "(0/0)!", "inf!", "18446744073709551616!",
             "36893488147419103232!", "1e30!", "(2^1)!", "x = 18446744073709551616\nx!", "f = n => n!\nf(18446744073709551616)",
             "[18446744073709551616] via (n => n!)", "map([3, 18446744073709551616], n => n!)"]
    srcs += facts
    coq, _ = es.parse_to_coq(h, srcs)
    extra = ("Definition run_program_dbg (inputs : list (string * value)) (prog : list stmt) : string := "
             "show_run (run eval_debug (init_session inputs) prog).")
    inp = "[" + "; ".join('((hx "%s"), %s)' % (c.hexs(k), v.coq()) for k, v in es.DEFAULT_INPUTS.p) + "]"
    idx = [i for i, p in enumerate(coq) if p is not None]
    exprs = ["(run_program_dbg INP %s)" % coq[i] for i in idx]
    outs = c.coq_eval_batch(es.REQUIRES, "Definition INP : list (string * value) := %s.\n%s" % (inp, extra), exprs,
                            "c01dbg", shard=250)
    model_dbg = [None] * len(coq)
    for i, o in zip(idx, outs):
        model_dbg[i] = o
    model_rel = es.model_eval(coq, tag="c01rel")
    # The only Panic of the instantiated model is the debug-build factorial overflow (theorems
    # C01_eval_release_no_panic, C01_factorial_debug_panics_only_in_known_class), so "the debug model panics"
    # IS membership in the open known-finding class factorial-large.  Such programs are counted and left out of
    # the diff (the positive theorems claim nothing about them; a repair of the defect must not raise an alarm).
    in_known = [m is not None and "PANIC" in m for m in model_dbg]
    if any(m is not None and "PANIC" in m for m in model_rel):
        res.tie_broken("the release model returned Panic, contradicting C01_eval_release_no_panic (model evaluation is broken)")
    for build, harness, model in (("release", h, model_rel), ("debug", hd, model_dbg)):
        rust = es.rust_eval(harness, srcs)
        agree, mism, skipped, rejected, known_n, known_confirmed, panics_impl = 0, [], 0, 0, 0, 0, 0
        for i, (s_, r_, m_) in enumerate(zip(srcs, rust, model)):
            if m_ is None:
                rejected += 1
                continue
            if "UNMODELLED" in m_:
                skipped += 1
                continue
            pi = "PANIC" in r_ or r_.startswith("ABORT")
            panics_impl += pi
            if in_known[i]:
                known_n += 1
                if build == "debug" and pi:
                    known_confirmed += 1      # the defect is still there and the model's Panic arm matches it
                continue
            if r_ == m_:
                agree += 1
            else:
                mism.append((s_, r_, m_))
        if mism:
            res.tie_broken("correspondence C01/EVAL-%s: model and implementation disagree on %d of %d programs"
                           % (build, len(mism), len(srcs)), "first: %r\nimpl : %s\nmodel: %s" % mism[0])
        out["EVAL-" + build] = {"programs": len(srcs), "agree": agree, "mismatches": len(mism), "skipped_unmodelled": skipped,
                                "parser_rejected": rejected, "in_open_known_class_excluded": known_n,
                                "known_class_panic_confirmed_on_impl": known_confirmed, "panic_in_impl": panics_impl}
        res.coverage["traces_validated_against_impl"] = res.coverage.get("traces_validated_against_impl", 0) + agree
    return out


if __name__ == "__main__":
    sys.exit(main(sys.argv[1:]))
