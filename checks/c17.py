"""C17 — unit conversion is consistent across the whole unit table.  See notes/C17.md."""
import json
import os
import struct
import sys

import common as c

PID = "C17"
MANIFEST = {
    "text": "41 Coq theorems over the unit table regenerated from the built crate on every run: exhaustive (vm_compute, "
            "bound = the table) identifier resolution / no duplicates / alias / ambiguity / category / prefix-ratio / "
            "well-formedness theorems; unbounded theorems on resolve_unit for every string and table; self-conversion "
            "identity in every arithmetic (bit-exact in binary64); exact-rational there-and-back and composition laws about "
            "the same conversion code that is run in binary64 against units::convert and the convert built-in; binary64 "
            "(Flocq) error bounds for EVERY conversion kind, stated down to the convert built-in on identifiers: "
            "there-and-back <= ((1+2^-53)^4-1)|v| linear, (qq^4-1)|v| with a reciprocal unit, absolute "
            "2^-53(1+1/1024)(A|v|+B) for the temperature kind (9 constant pairs), composition A>B>C vs A>C <= "
            "(qq^6-1)|fl(A>C)| linear/reciprocal and an absolute bound for temperature (27 constant pairs); the range "
            "hypotheses are a decidable exponent condition proved sufficient and proved by vm_compute for every pair / "
            "triple of linear or reciprocal units of one category of the table, for all valid v with 2^-40 <= |v| <= 2^40 and, "
            "as separate _wide theorems, 2^-800 <= |v| <= 2^800 "
            "(temperature: every finite |v| <= 2^1000); the implementation-level search uses exactly the proved bounds as "
            "tolerances (exact rational comparison; the temperature constants are compared with the Coq tables every run); round 7: SESSIONS stream (sequences ok / rejected-on-target / rejected-on-source / category mismatch / ok again in ONE process, each conversion compared with the same conversion alone: history independence of convert) after seed C17-11",
    "note": "trusted: Coq kernel + vm_compute; harness dump-units (reflective dump of get_all_units()); the hand "
            "transcription of resolve_unit/convert (validated by the UNITS/RESOLVE/LOWER/BUILTIN correspondence streams); "
            "Rust to_lowercase modelled only on ASCII + the dumped non-ASCII characters; PARTIAL: the float theorems for "
            "the linear/reciprocal kinds cover 2^-800 <= |v| <= 2^800 (zero: exact over Q only; outside the window the search "
            "falls back to 4/6 ulp, counted in the evidence); mixed-kind categories do not exist in the table (proved "
            "exhaustively) and are not covered; the prefix-ratio law is tested at 2 ulp, its binary64 bound is not proved; "
            "axioms: none except the allow-listed real-number/classical axioms under the Flocq theorems",
    "design_ref": "notes/C17.md (DESIGN.md section 6 C17)",
}

GEN_FILE = os.path.join(c.GEN, "UnitsTable.v")


# ----------------------------------------------------------------------------- helpers
def f2b(x):
    return struct.unpack(">Q", struct.pack(">d", x))[0]


def b2f(b):
    return struct.unpack(">d", struct.pack(">Q", b))[0]


def bits_hex(x):
    if x != x:
        return "7ff8000000000000"
    return "%016x" % f2b(x)


def coq_str(b):
    """Coq string literal for a byte string (Coq strings are byte sequences; UTF-8 source bytes map 1:1)."""
    if all((32 <= x < 127 and x != 34) or x >= 128 for x in b):
        try:
            return '"%s"' % b.decode("utf-8")
        except UnicodeDecodeError:
            pass
    return '(hx "%s")' % b.hex()


def parse_decimal(txt):
    """Rust Display of a finite f64 (never exponent notation) -> (m, e) with value m * 10^e."""
    neg = txt.startswith("-")
    t = txt[1:] if neg else txt
    if not t or any(ch not in "0123456789." for ch in t) or t.count(".") > 1:
        raise c.BrokenTie("dump-units translator: coefficient %r is not a finite decimal" % txt)
    ip, _, fp = t.partition(".")
    m = int(ip + fp)
    e = -len(fp)
    while m != 0 and m % 10 == 0:
        m //= 10
        e += 1
    return (-m if neg else m), e


TEMP_FUNCS = {
    "TF_celsius_to_kelvin": lambda x: x + 273.15,
    "TF_kelvin_to_celsius": lambda x: x - 273.15,
    "TF_fahrenheit_to_kelvin": lambda x: (x - 32.0) * 5.0 / 9.0 + 273.15,
    "TF_kelvin_to_fahrenheit": lambda x: (x - 273.15) * 9.0 / 5.0 + 32.0,
    "TF_kelvin_to_kelvin": lambda x: x,
}


class Table:
    """The dumped unit table."""

    def __init__(self, text):
        self.units = []
        self.chars = []
        self.probes = []
        self.errors = []
        for line in text.split("\n"):
            if not line:
                continue
            r = line.split("\t")
            if r[0] == "P":
                self.probes = [int(x, 16) for x in r[1].split(",")]
            elif r[0] == "C":
                self.chars.append(tuple(bytes.fromhex(x) for x in r[1:4]))
            elif r[0] == "U":
                u = {"idx": int(r[1]), "cat": r[2], "catname": bytes.fromhex(r[3]).decode(), "kind": r[4],
                     "ids": [bytes.fromhex(x) for x in r[7].split(",")] if r[7] else [],
                     "lower": [bytes.fromhex(x) for x in r[8].split(",")] if r[8] else []}
                if r[4] in ("linear", "reciprocal"):
                    u["bits"] = int(r[5], 16)
                    u["dec"] = parse_decimal(r[6])
                    u["disp"] = r[6]
                elif r[4] == "temperature":
                    u["to_probe"] = [int(x, 16) for x in r[9].split(",")]
                    u["from_probe"] = [int(x, 16) for x in r[10].split(",")]
                    for key in ("to", "from"):
                        hit = [n for n, f in TEMP_FUNCS.items()
                               if [f2b(f(b2f(p))) for p in self.probes] == u[key + "_probe"]]
                        if len(hit) != 1:
                            self.errors.append("dump-units translator: temperature function (%s_kelvin of unit %d %s) "
                                               "is none of the five functions transcribed in Units.v"
                                               % (key, u["idx"], u["ids"][:1]))
                            u[key] = None
                        else:
                            u[key] = hit[0]
                else:
                    raise c.BrokenTie("dump-units translator: unknown conversion kind %r" % r[4])
                self.units.append(u)
        if not self.units or not self.probes:
            raise c.BrokenTie("dump-units translator: empty dump")
        self.digest = __import__("hashlib").sha1(text.encode()).hexdigest()[:12]

    # ---- a Python mirror of resolve_unit used only to classify inputs (not an oracle)
    def exact_units(self, s):
        return [u for u in self.units if s in u["ids"]]


def gen_table_v(tb):
    o = []
    o.append("(* GENERATED by checks/c17.py:regen_units from `harness dump-units`\n"
             "   (blots_core::units::get_all_units() of the built crate; identifiers as bytes, lower-cased\n"
             "   identifiers as Rust's to_lowercase computes them, coefficient bits and Display decimal,\n"
             "   temperature function pointers identified by their values at the probe points).  Do not edit. *)")
    o.append("From Coq Require Import ZArith String List.\nRequire Import Blots.Num Blots.UnitsBase.\n"
             "Import ListNotations.\nOpen Scope Z_scope.\nOpen Scope string_scope.")
    rows = []
    for u in tb.units:
        if u["kind"] == "temperature":
            conv = "Temperature %s %s" % (u["to"], u["from"])
        else:
            m, e = u["dec"]
            conv = "%s (Lit 0x%016x (%d) (%d))" % ("Linear" if u["kind"] == "linear" else "Reciprocal",
                                                   u["bits"], m, e)
        rows.append("  Unit %d \"%s\" [%s]\n       [%s]\n       (%s)"
                    % (u["idx"], u["cat"], "; ".join(coq_str(i) for i in u["ids"]),
                       "; ".join(coq_str(i) for i in u["lower"]), conv))
    o.append("Definition all_units : list unit := [\n" + ";\n".join(rows) + "\n].")
    o.append("(* non-ASCII characters of the table closed under to_lowercase/to_uppercase: (char, lower) where they differ *)")
    o.append("Definition lower_map : list (string * string) := [" +
             "; ".join("(%s, %s)" % (coq_str(ch), coq_str(lo)) for ch, lo, up in tb.chars if ch != lo) + "].")
    o.append("Definition known_chars : list string := [" + "; ".join(coq_str(ch) for ch, lo, up in tb.chars) + "].")
    o.append("(* probe points and what the temperature function pointers of each temperature unit returned there *)")
    o.append("Definition temp_probes : list Z := [" + "; ".join("0x%016x" % p for p in tb.probes) + "].")
    o.append("Definition temp_probe_results : list (Z * list Z * list Z) := [" + ";\n  ".join(
        "(%d, [%s], [%s])" % (u["idx"], "; ".join("0x%016x" % x for x in u["to_probe"]),
                              "; ".join("0x%016x" % x for x in u["from_probe"]))
        for u in tb.units if u["kind"] == "temperature") + "].")
    return "\n\n".join(o) + "\n"


def regen_units(h):
    txt = c.harness_oneshot(h, "dump-units")
    tb = Table(txt)
    if tb.errors:
        e = c.BrokenTie(tb.errors[0], "; ".join(tb.errors[1:4]))
        e.table = tb            # the implementation-level search can still run without the model
        raise e
    changed = c.write_if_changed(GEN_FILE, gen_table_v(tb))
    if changed:
        c.log("coq/gen/UnitsTable.v regenerated (%d units, digest %s)" % (len(tb.units), tb.digest))
    return tb



# ----------------------------------------------------------------------------- floats as ordered integers
def ordkey(bits):
    """monotone map of a non-NaN f64 bit pattern to an integer; -0 and +0 both map to 0"""
    return -(bits & 0x7FFFFFFFFFFFFFFF) if bits >> 63 else bits


def ulp_dist(b1, b2):
    f1, f2 = b2f(b1), b2f(b2)
    if f1 != f1 or f2 != f2:
        return 0 if (f1 != f1 and f2 != f2) else float("inf")
    return abs(ordkey(b1) - ordkey(b2))


def ulp_of(x):
    x = abs(x)
    if x == 0 or x != x or x == float("inf"):
        return 0.0
    import math
    return math.ulp(x)


MAG_FIXED = [10.0 ** k for k in range(-12, 13)] + [0.0, -0.0, -1.0, -1e-12, -1e12, -273.15, -40.0,
                                                    123456.789, 0.1, 1.0 / 3.0, 98.6, 7.5, -2.5e-7]


TEMP_SPECIAL = [-273.15, -459.67, 0.0, -0.0, 32.0, 273.15, 255.3722222222222, -40.0, 100.0, 212.0, 373.15, 1e-300, -1e-300,
                5e-324, 1e300, -1e300, 0.01, -273.15000000000003, -273.14999999999998, 31.999999999999996]


def special_magnitude(rng, temperature):
    """magnitudes for the reciprocal / temperature kinds: temperature takes any finite |v| <= 2^1000 (offsets, zero,
    subnormal, huge); the others a random mantissa times 2^e, e mostly in [-40, 39], else in the wide proved window [-790, 789]"""
    if temperature and rng.chance(1, 4):
        return rng.choice(TEMP_SPECIAL)
    mant = 1.0 + rng.below(1 << 52) / float(1 << 52)
    if temperature:
        e = rng.below(41) - 20 if rng.chance(2, 3) else rng.below(1901) - 950
    else:
        e = rng.below(80) - 40 if rng.chance(9, 10) else rng.below(1580) - 790
    x = mant * 2.0 ** e
    return -x if rng.chance(1, 3) else x


def magnitudes(rng, n):
    """n magnitudes: fixed interesting ones first in rotation + random mantissas with decimal exponent in [-12, 12]"""
    out = []
    for _ in range(n):
        if rng.chance(1, 2):
            out.append(rng.choice(MAG_FIXED))
        else:
            mant = 1.0 + rng.below(1 << 52) / float(1 << 52) * 9.0
            x = mant * 10.0 ** (rng.below(25) - 12)
            if x > 1e12:
                x = 1e12
            out.append(-x if rng.chance(1, 4) else x)
    return out


# ----------------------------------------------------------------------------- identifier generators
def model_alphabet_ok(tb, s):
    """the model's to_lowercase is claimed only for ASCII + the dumped non-ASCII characters"""
    known = {ch.decode("utf-8") for ch, lo, up in tb.chars}
    return all(ord(ch) < 128 or ch in known for ch in s) and "\n" not in s and "\t" not in s


def case_variants(rng, s, k):
    out = {s.upper(), s.lower(), s.title(), s.swapcase()}
    for _ in range(k):
        out.add("".join(ch.upper() if rng.chance(1, 2) else ch.lower() for ch in s))
    return out


def unknown_variants(rng, s):
    out = set()
    if len(s) > 1:
        i = rng.below(len(s))
        out.add(s[:i] + s[i + 1:])
    out.add(s + "s")
    out.add(" " + s)
    out.add(s + " ")
    out.add(s + "x")
    out.add("x" + s)
    return out


def ident_pool(tb, rng, tier):
    """identifier strings for the RESOLVE / LOWER streams: every listed identifier, case variants of each,
    near-miss (mostly unknown) strings, and a few fixed odd ones"""
    listed = []
    for u in tb.units:
        for i in u["ids"]:
            listed.append(i.decode("utf-8"))
    pool = dict.fromkeys(listed)
    nvar = 2 if tier == "quick" else 8
    for s in listed:
        for v in case_variants(rng, s, nvar):
            pool.setdefault(v)
    for s in listed:
        if tier == "thorough" or rng.chance(1, 3):
            for v in unknown_variants(rng, s):
                pool.setdefault(v)
    for s in ["", " ", "foobar", "K", "C", "F", "°C", "°F", "MA", "Ma", "mA", "ma", "MB", "Mb", "mb", "mB", "ΜM", "µm",
              "μM", "Ω", "ω", "KΩ", "kω", "µΩ", "μΩ", "ΜΩ", "M²", "KM²", "′", "″", "meters ", "Meters", "METRES",
              "kelvin", "Kelvin", "PA", "Pa", "HZ", "hz", "cal", "Cal", "CAL", "l", "L", "ML", "Ml", "ml", "mL"]:
        pool.setdefault(s)
    return [s for s in pool if model_alphabet_ok(tb, s)]


def cq(s):
    """Coq term for a string"""
    return coq_str(s.encode("utf-8"))


REQS = ["Blots.Num", "Blots.UnitsBase", "Blots.gen.UnitsTable", "Blots.Units"]


# ----------------------------------------------------------------------------- implementation access
class Impl:
    """units::convert + the convert built-in (harness `units --builtin`), with a cache"""

    def __init__(self, h):
        self.h = h
        self.cache = {}
        self.calls = 0

    def prefetch(self, reqs):
        """reqs: iterable of (from, to, bits)"""
        by_pair = {}
        for a, b, v in reqs:
            if (a, b, v) not in self.cache:
                by_pair.setdefault((a, b), set()).add(v)
        pairs = sorted(by_pair)
        lines = ["%s\t%s\t%s" % (c.hexs(a), c.hexs(b), ",".join("%016x" % v for v in sorted(by_pair[(a, b)])))
                 for a, b in pairs]
        outs = c.harness_lines_resilient(self.h, "units", lines, ["--builtin"])
        for (a, b), o in zip(pairs, outs):
            vs = sorted(by_pair[(a, b)])
            rs = o.split(",")
            if len(rs) != len(vs):
                rs = [o] * len(vs)
            for v, r in zip(vs, rs):
                self.cache[(a, b, v)] = r
                self.calls += 1

    def get(self, a, b, v):
        if (a, b, v) not in self.cache:
            self.prefetch([(a, b, v)])
        return self.cache[(a, b, v)]


def ok_bits(r):
    return int(r[3:], 16) if r.startswith("OK:") and len(r) == 19 else None


def resolve_impl(h, idents):
    outs = c.harness_lines_resilient(h, "units-resolve", [c.hexs(s) for s in idents])
    return dict(zip(idents, outs))


# ----------------------------------------------------------------------------- table introspection (Python side)
METRIC = [("yotta", 24), ("zetta", 21), ("exa", 18), ("peta", 15), ("tera", 12), ("giga", 9), ("mega", 6),
          ("kilo", 3), ("hecto", 2), ("hect", 2), ("deca", 1), ("deka", 1), ("deci", -1), ("centi", -2), ("milli", -3),
          ("micro", -6), ("nano", -9), ("pico", -12), ("femto", -15), ("atto", -18), ("zepto", -21), ("yocto", -24)]
BINARY = [("kibi", 10), ("mebi", 20), ("gibi", 30), ("tebi", 40), ("pebi", 50), ("exbi", 60), ("zebi", 70), ("yobi", 80)]
DIMS = [("", 1), ("square ", 2), ("cubic ", 3)]


def prefix_pairs(tb):
    """(prefixed identifier, base identifier, base, exponent, same linear category?) for every identifier
    `dim ++ prefix ++ rest` (rest >= 3 bytes) of a unit such that `dim ++ rest` is an identifier of another unit.
    Mirrors Units.v:prefix_hits (the Coq theorem is the authority; the counts are cross-checked on every run);
    this list drives the implementation-level law."""
    out = []
    for u in tb.units:
        for ib in u["ids"]:
            i = ib.decode("utf-8")
            for dim, d in DIMS:
                if not i.startswith(dim):
                    continue
                tail = i[len(dim):]
                for table, base in ((METRIC, 10), (BINARY, 2)):
                    for p, k in table:
                        if tail.startswith(p) and len(tail[len(p):].encode("utf-8")) >= 3:
                            rest = (dim + tail[len(p):]).encode("utf-8")
                            for b in tb.units:
                                if b is not u and rest in b["ids"]:
                                    ok = b["cat"] == u["cat"] and b["kind"] == "linear" and u["kind"] == "linear"
                                    out.append((i, rest.decode("utf-8"), base, k * d, ok))
    return out


def temperature_tolerance(vals):
    """absolute tolerance for a chain of temperature conversions touching the given magnitudes: each of the <= 8
    operations rounds at a magnitude <= 9 * max(|x|, 273.15 + 459.67); see notes/C17.md"""
    m = max([abs(x) for x in vals if x == x and abs(x) != float("inf")] + [1000.0])
    return 8 * ulp_of(9.0 * m)


# ----------------------------------------------------------------------------- the PROVED binary64 bounds
# (coq/Properties/C17.v; the implementation-level search uses exactly these, compared in exact rational arithmetic)
from fractions import Fraction as _Fr

U53 = _Fr(1, 2 ** 53)                       # u53
QQ = 1 / (1 - U53)                          # qq = 1/(1 - 2^-53)
BOUND_TAB_LINEAR = (1 + U53) ** 4 - 1       # C17_there_and_back_float_linear_table: |r - v| <= this * |v|
BOUND_TAB_LR = QQ ** 4 - 1                  # C17_there_and_back_float_table (linear/reciprocal mix)
BOUND_COMP_LR = QQ ** 6 - 1                 # C17_composition_float_table: |fl(A>B>C) - fl(A>C)| <= this * |fl(A>C)|
KV = 40                                     # hypothesis of those theorems: 2^-40 <= |v| <= 2^40
KW = 800                                    # ... and of their _wide forms: 2^-800 <= |v| <= 2^800
# C17_there_and_back_float_temperature: |r - v| <= 2^-53 * (1 + 1/1024) * (A*|v| + B), (A, B) by the to_kelvin functions
TEMP_AB = {
    ("TF_kelvin_to_kelvin", "TF_kelvin_to_kelvin"): (0, 0),
    ("TF_kelvin_to_kelvin", "TF_celsius_to_kelvin"): (2, 274), ("TF_celsius_to_kelvin", "TF_kelvin_to_kelvin"): (2, 274),
    ("TF_kelvin_to_kelvin", "TF_fahrenheit_to_kelvin"): (8, 2037), ("TF_fahrenheit_to_kelvin", "TF_kelvin_to_kelvin"): (8, 3666),
    ("TF_celsius_to_kelvin", "TF_celsius_to_kelvin"): (4, 1093),
    ("TF_celsius_to_kelvin", "TF_fahrenheit_to_kelvin"): (10, 4495), ("TF_fahrenheit_to_kelvin", "TF_celsius_to_kelvin"): (10, 5205),
    ("TF_fahrenheit_to_kelvin", "TF_fahrenheit_to_kelvin"): (16, 11521),
}
TEMP_VMAX = _Fr(2) ** 1000
# C17_composition_float_temperature: |fl(A>B>C) - fl(A>C)| <= 2^-53 * (1 + 1/1024) * (A*|v| + B), by (A, B, C) kinds
_TK = {"K": "TF_kelvin_to_kelvin", "C": "TF_celsius_to_kelvin", "F": "TF_fahrenheit_to_kelvin"}
TCOMP_AB = {(_TK[k[0]], _TK[k[1]], _TK[k[2]]): ab for k, ab in {
    "KKK": (0, 1), "KKC": (2, 547), "KKF": (15, 3998),
    "KCK": (2, 274), "KCC": (4, 820), "KCF": (18, 4490),
    "KFK": (8, 2037), "KFC": (10, 2584), "KFF": (29, 7664),
    "CKK": (2, 547), "CKC": (4, 1640), "CKF": (18, 8915),
    "CCK": (4, 1367), "CCC": (6, 2459), "CCF": (22, 10390),
    "CFK": (10, 4769), "CFC": (12, 5861), "CFF": (33, 16514),
    "FKK": (5, 689), "FKC": (6, 1817), "FKF": (16, 9427),
    "FCK": (6, 1544), "FCC": (7, 2672), "FCF": (18, 10966),
    "FFK": (9, 5053), "FFC": (10, 6181), "FFF": (24, 17282),
}.items()}


def _finite(bits):
    return (bits >> 52) & 0x7FF != 0x7FF


def _exact(bits):
    return _Fr(b2f(bits))


def _window(av):
    """"" inside [2^-40, 2^40], "_wide" inside [2^-800, 2^800], None outside"""
    if _Fr(1, 2 ** KV) <= av <= _Fr(2 ** KV):
        return ""
    if _Fr(1, 2 ** KW) <= av <= _Fr(2 ** KW):
        return "_wide"
    return None


_FROM_TO = {"TF_kelvin_to_celsius": "TF_celsius_to_kelvin", "TF_kelvin_to_fahrenheit": "TF_fahrenheit_to_kelvin",
            "TF_kelvin_to_kelvin": "TF_kelvin_to_kelvin"}


def temp_key(u):
    """the to_kelvin function a temperature unit is SUPPOSED to have (when a mutation makes one of its two function
    pointers unrecognisable, the other one still says which unit it is, so the proved bound still applies)"""
    return u.get("to") or _FROM_TO.get(u.get("from"))


def proved_tab_bound(u, x, vbits):
    """(absolute bound as a Fraction, which theorem) for there-and-back u -> x -> u on value v, or (None, why) when
    (u, x, v) is outside the hypotheses of every proved float theorem"""
    if not _finite(vbits):
        return None, "non-finite value"
    av = abs(_exact(vbits))
    ku, kx = u["kind"], x["kind"]
    if ku == "temperature" and kx == "temperature":
        ab = TEMP_AB.get((temp_key(u), temp_key(x)))
        if ab is None or av > TEMP_VMAX:
            return None, "temperature function not identified"
        return U53 * (1 + _Fr(1, 1024)) * (ab[0] * av + ab[1]), "C17_there_and_back_float_temperature"
    if ku == "temperature" or kx == "temperature":
        return None, "temperature mixed with another kind"
    if av == 0:
        return _Fr(0), "zero (exact: 0*c/c = 0, c/inf = 0; C17_there_and_back_Q)"
    w = _window(av)
    if w is None:
        return None, "|v| outside [2^-800, 2^800]"
    if ku == "linear" and kx == "linear":
        return BOUND_TAB_LINEAR * av, "C17_there_and_back_float_linear_table" + w
    return BOUND_TAB_LR * av, ("C17_there_and_back_float_table" if w == "" else "C17_builtin_there_and_back_float_wide")


def proved_comp_bound(us, vbits, r3bits):
    """bound on |fl(A>B>C) - fl(A>C)| (C17_composition_float_table), or (None, why)"""
    if not _finite(vbits) or not _finite(r3bits):
        return None, "non-finite value"
    if all(u["kind"] == "temperature" for u in us):
        ab = TCOMP_AB.get(tuple(temp_key(u) for u in us))
        if ab is None or abs(_exact(vbits)) > TEMP_VMAX:
            return None, "temperature function not identified"
        return U53 * (1 + _Fr(1, 1024)) * (ab[0] * abs(_exact(vbits)) + ab[1]), "C17_composition_float_temperature"
    if any(u["kind"] == "temperature" for u in us):
        return None, "temperature mixed with another kind"
    av = abs(_exact(vbits))
    if av == 0:
        return _Fr(0), "zero (exact)"
    w = _window(av)
    if w is None:
        return None, "|v| outside [2^-800, 2^800]"
    return BOUND_COMP_LR * abs(_exact(r3bits)), ("C17_composition_float_table" if w == "" else "C17_builtin_composition_float_wide")


# ----------------------------------------------------------------------------- laws on the implementation
class Laws:
    def __init__(self, tb, impl, res, known_ids):
        self.tb = tb
        self.impl = impl
        self.res = res
        self.known_ids = known_ids          # ids of open known findings
        self.known_dups = set()             # identifiers covered by the open finding C17-dup-ident
        self.counts = {}
        self.known_hits = {"C17-self-float": 0, "C17-dup-ident": 0}
        self.fail_count = 0
        self.tol = {}                       # which tolerance decided each float comparison
        self.tol_ratio = {}                 # largest observed error / proved bound, per theorem

    def ratio(self, which, err, bound):
        if bound > 0:
            r = float(err / bound)
            if r > self.tol_ratio.get(which, -1.0):
                self.tol_ratio[which] = r

    def tol_count(self, which):
        self.tol[which] = self.tol.get(which, 0) + 1

    def count(self, law, n=1):
        self.counts[law] = self.counts.get(law, 0) + n

    def fail(self, law, detail, calls):
        self.fail_count += 1
        if self.fail_count > 8:
            return
        self.res.violation(law, {"kind": "units-law", "law": law, "detail": detail,
                                 "calls": [[a, b, "%016x" % v, repr(b2f(v))] for a, b, v in calls],
                                 "observed": [self.impl.get(a, b, v) for a, b, v in calls],
                                 "rerun": "./check C17 --replay <this file>"})


def unit_of(tb):
    m = {}
    for u in tb.units:
        for i in u["ids"]:
            m.setdefault(i.decode("utf-8"), []).append(u)
    return m


def close_enough(tb, ua_list, got_bits, want_bits, tol_ulp, temp_vals):
    """within tol_ulp ulps, or (temperature chains) within the absolute tolerance"""
    if ulp_dist(got_bits, want_bits) <= tol_ulp:
        return True
    if any(u["kind"] == "temperature" for u in ua_list):
        g, w = b2f(got_bits), b2f(want_bits)
        return abs(g - w) <= temperature_tolerance(temp_vals + [g, w])
    return False


def law_search(tb, impl, res, rng, tier, known, pool=None):
    known_ids = {e["id"] for e in known}
    L = Laws(tb, impl, res, known_ids)
    for e in known:
        if e["id"] == "C17-dup-ident":
            L.known_dups = set(e.get("identifiers", []))
    uo = unit_of(tb)
    cats = {}
    for u in tb.units:
        cats.setdefault(u["cat"], []).append(u)
    canon = lambda u: u["ids"][0].decode("utf-8")
    dup = {i for i, us in uo.items() if len(us) > 1}
    nmag = 6 if tier == "quick" else 14

    # ---- L1 resolution of every listed identifier (impl index = table position)
    idents = sorted(uo)
    rimpl = resolve_impl(impl.h, idents)
    for i in idents:
        for u in uo[i]:
            L.count("identifier-resolves")
            got = rimpl[i].split("|")[0]
            if got != "OK:%d" % u["idx"]:
                if i in dup and i in L.known_dups:
                    L.known_hits["C17-dup-ident"] += 1
                    if not got.startswith("ERR:ambig"):
                        L.fail("an identifier listed for two units must be an ambiguity error, not a guess",
                               {"identifier": i, "resolve": rimpl[i]}, [])
                elif i in dup:
                    L.fail("an identifier is listed for more than one unit (neither is reachable through it)",
                           {"identifier": i, "units": [canon(x) for x in uo[i]], "resolve": rimpl[i]},
                           [(i, i, f2b(1.0))])
                else:
                    L.fail("a listed identifier does not resolve to its own unit",
                           {"identifier": i, "unit": canon(u), "resolve": rimpl[i], "expected": "OK:%d" % u["idx"]}, [])

    # ---- L8/L9 spellings that are not listed: the unique case-insensitive match, else an error (never a guess).
    #      Lower-casing is the implementation's own (harness units-lower) on both sides.
    if pool:
        unlisted = [s0 for s0 in pool if s0 not in uo]
        lows = c.harness_lines_resilient(impl.h, "units-lower", [c.hexs(s0) for s0 in unlisted])
        rr = resolve_impl(impl.h, unlisted)
        by_lower = {}
        for u in tb.units:
            for lo in set(u["lower"]):
                by_lower.setdefault(lo.hex(), []).append(u)
        for s0, lo in zip(unlisted, lows):
            cands = by_lower.get(lo, [])
            got = rr[s0].split("|")[0]
            L.count("spelling-resolution")
            if len(cands) == 1:
                if got != "OK:%d" % cands[0]["idx"]:
                    L.fail("a spelling that matches one unit only (case-insensitively) does not resolve to it",
                           {"identifier": s0, "unit": canon(cands[0]), "resolve": rr[s0]}, [])
            elif len(cands) == 0:
                if got != "ERR:unknown":
                    L.fail("an unknown identifier is not reported as unknown", {"identifier": s0, "resolve": rr[s0]}, [])
            elif not got.startswith("ERR:ambig"):
                L.fail("an ambiguous identifier (matches several units case-insensitively, none exactly) is guessed",
                       {"identifier": s0, "candidates": [canon(x) for x in cands], "resolve": rr[s0]}, [])

    # ---- plan the conversion laws
    usable = lambda u: [i.decode("utf-8") for i in u["ids"] if i.decode("utf-8") not in dup]
    plan_self, plan_alias, plan_pair, plan_triple, plan_cross = [], [], [], [], []
    for cat, us in cats.items():
        for u in us:
            ids = usable(u)
            if not ids:
                continue
            for v in magnitudes(rng, nmag):
                a = rng.choice(ids)
                b = rng.choice(ids)
                plan_self.append((u, a, b, f2b(v)))
            others = [x for x in us if x is not u and usable(x)]
            for al in ids[1:]:
                if others:
                    x = rng.choice(others)
                    for v in magnitudes(rng, 2):
                        plan_alias.append((u, ids[0], al, rng.choice(usable(x)), f2b(v)))
            for x in others:
                if tier == "thorough" or rng.chance(1, 2) or len(us) <= 6:
                    for v in magnitudes(rng, 2 if tier == "quick" else 4):
                        plan_pair.append((u, x, rng.choice(ids), rng.choice(usable(x)), f2b(v)))
            for _ in range(3 if tier == "quick" else 12):
                if len(others) >= 2:
                    x, y = rng.choice(others), rng.choice(others)
                    plan_triple.append((u, x, y, rng.choice(ids), rng.choice(usable(x)), rng.choice(usable(y)),
                                        f2b(rng.choice(magnitudes(rng, 1)))))
            oc = rng.choice([k for k in cats if k != cat])
            ou = rng.choice(cats[oc])
            if usable(ou):
                plan_cross.append((rng.choice(ids), rng.choice(usable(ou)), f2b(1.0)))
                plan_cross.append((rng.choice(usable(ou)), rng.choice(ids), f2b(-2.5)))
    # ---- extra density on the kinds whose binary64 bounds are proved separately (reciprocal: 2 units, temperature: 3)
    for cat, us in sorted(cats.items()):
        if all(u["kind"] == "linear" for u in us):
            continue
        nx = 120 if tier == "quick" else 1500
        for u in us:
            for x in us:
                if x is u or not usable(u) or not usable(x):
                    continue
                for _ in range(nx):
                    v = special_magnitude(rng, u["kind"] == "temperature" and x["kind"] == "temperature")
                    plan_pair.append((u, x, rng.choice(usable(u)), rng.choice(usable(x)), f2b(v)))
        for u in us:
            for x in us:
                for y in us:
                    if x is u or y is x or not (usable(u) and usable(x) and usable(y)):
                        continue
                    for _ in range(max(1, nx // 6)):
                        v = special_magnitude(rng, all(z["kind"] == "temperature" for z in (u, x, y)))
                        plan_triple.append((u, x, y, rng.choice(usable(u)), rng.choice(usable(x)), rng.choice(usable(y)), f2b(v)))
    L.kind_pairs = {}
    for u, x, _a, _b, _v in plan_pair:
        k = "%s>%s" % (u["kind"], x["kind"])
        L.kind_pairs[k] = L.kind_pairs.get(k, 0) + 1
    # phase 1
    reqs = [(a, b, v) for _, a, b, v in plan_self]
    for u, c0, al, x, v in plan_alias:
        reqs += [(c0, x, v), (al, x, v), (x, c0, v), (x, al, v)]
    reqs += [(a, b, v) for _, _, a, b, v in plan_pair]
    for u, x, y, a, b, cc, v in plan_triple:
        reqs += [(a, b, v), (a, cc, v)]
    reqs += plan_cross
    impl.prefetch(reqs)
    # phase 2 (results of phase 1 fed back)
    reqs2 = []
    for _, _, a, b, v in plan_pair:
        r = ok_bits(impl.get(a, b, v))
        if r is not None:
            reqs2.append((b, a, r))
    for u, x, y, a, b, cc, v in plan_triple:
        r = ok_bits(impl.get(a, b, v))
        if r is not None:
            reqs2.append((b, cc, r))
    impl.prefetch(reqs2)

    # ---- L3 self conversion is the identity (bit-exact up to the sign of zero... no: exact value)
    for u, a, b, v in plan_self:
        L.count("self-identity")
        r = impl.get(a, b, v)
        rb = ok_bits(r)
        if rb is None:
            L.fail("converting a unit to itself fails", {"unit": canon(u)}, [(a, b, v)])
        elif rb != v and not (b2f(v) != b2f(v)):
            if "C17-self-float" in known_ids and close_enough(tb, [u], rb, v, 2, [b2f(v)]):
                L.known_hits["C17-self-float"] += 1
            else:
                L.fail("converting a unit to itself is not the identity", {"unit": canon(u)}, [(a, b, v)])
    # ---- L2 aliases behave identically
    for u, c0, al, x, v in plan_alias:
        L.count("alias-identical")
        if impl.get(c0, x, v) != impl.get(al, x, v):
            L.fail("two identifiers of one unit convert differently (as source)", {"unit": canon(u)},
                   [(c0, x, v), (al, x, v)])
        if impl.get(x, c0, v) != impl.get(x, al, v):
            L.fail("two identifiers of one unit convert differently (as target)", {"unit": canon(u)},
                   [(x, c0, v), (x, al, v)])
    # ---- L4 there and back within rounding: the tolerance IS the proved bound (exact rational comparison);
    #      outside the hypotheses of the float theorems (never with today's magnitudes) the old 4-ulp rule
    for u, x, a, b, v in plan_pair:
        L.count("there-and-back")
        r1 = ok_bits(impl.get(a, b, v))
        if r1 is None:
            L.fail("units of one category do not convert", {"from": canon(u), "to": canon(x)}, [(a, b, v)])
            continue
        r2 = ok_bits(impl.get(b, a, r1))
        bound, why = proved_tab_bound(u, x, v)
        if r2 is not None and bound is not None and _finite(r2):
            L.tol_count("proved: " + why)
            err = abs(_exact(r2) - _exact(v))
            good = err <= bound
            L.ratio(why, err, bound)
        elif r2 is not None and bound is not None:
            L.tol_count("proved: " + why)
            err, good = None, False
        else:
            L.tol_count("unproved (4 ulp / old absolute temperature tolerance): " + why)
            err = None
            good = r2 is not None and close_enough(tb, [u, x], r2, v, 4, [b2f(v), b2f(r1)])
        if not good:
            L.fail("converting there and back does not return the original value within the proved rounding bound",
                   {"from": canon(u), "to": canon(x), "ulps": None if r2 is None else ulp_dist(r2, v),
                    "bound": None if bound is None else float(bound), "error": None if err is None else float(err),
                    "theorem": why},
                   [(a, b, v), (b, a, r1)])
    # ---- L5 composition A->B->C = A->C: proved bound (qq^6 - 1) * |fl(A->C)| for linear/reciprocal units;
    #      temperature triples: proved absolute bound tcomp_bound
    for u, x, y, a, b, cc, v in plan_triple:
        L.count("composition")
        r1 = ok_bits(impl.get(a, b, v))
        r3 = ok_bits(impl.get(a, cc, v))
        r2 = ok_bits(impl.get(b, cc, r1)) if r1 is not None else None
        bound, why, err = None, "a conversion failed", None
        if None not in (r1, r2, r3):
            bound, why = proved_comp_bound([u, x, y], v, r3)
        if bound is not None and _finite(r2):
            L.tol_count("proved: " + why)
            err = abs(_exact(r2) - _exact(r3))
            good = err <= bound
            L.ratio(why, err, bound)
        elif None not in (r1, r2, r3):
            L.tol_count("unproved (6 ulp / old absolute temperature tolerance): " + why)
            good = close_enough(tb, [u, x, y], r2, r3, 6, [b2f(v), b2f(r1), b2f(r3)])
        else:
            good = False
        if not good:
            L.fail("converting A to B to C differs from converting A to C beyond the proved rounding bound",
                   {"A": canon(u), "B": canon(x), "C": canon(y),
                    "ulps": None if None in (r2, r3) else ulp_dist(r2, r3),
                    "bound": None if bound is None else float(bound), "error": None if err is None else float(err),
                    "theorem": why},
                   [(a, b, v), (a, cc, v)] + ([(b, cc, r1)] if r1 is not None else []))
    # ---- L7 different categories never convert
    for a, b, v in plan_cross:
        L.count("cross-category-error")
        if impl.get(a, b, v) != "ERR:category":
            L.fail("units of different categories must not convert", {}, [(a, b, v)])
    # ---- L8' an identifier that does not resolve is an error of `convert` too, on either side and
    #      against ITSELF (no shortcut may answer before both identifiers are resolved)
    if pool:
        bad = [(s0, rr[s0].split("|")[0]) for s0 in unlisted if rr[s0].startswith("ERR:")][:400]
        good = "m"
        one_ = f2b(1.0)
        impl.prefetch([(s0, s0, one_) for s0, _ in bad] + [(s0, good, one_) for s0, _ in bad] + [(good, s0, one_) for s0, _ in bad])
        for s0, kind in bad:
            for a, b in ((s0, s0), (s0, good), (good, s0)):
                L.count("convert-unresolvable-error")
                got = impl.get(a, b, one_)
                want = "ERR:ambig" if kind.startswith("ERR:ambig") else "ERR:unknown"
                if not got.startswith(want):
                    L.fail("convert answered although an identifier does not resolve (it must report the error, not guess)",
                           {"identifier": s0, "resolve": kind, "convert": got}, [(a, b, one_)])
    # ---- L6 prefix ratios: a prefixed name converts to its base name, and convert(1, prefixed, base) = base^k
    #      within 2 ulp (two roundings)
    pp = prefix_pairs(tb)
    one = f2b(1.0)
    impl.prefetch([(i, r, one) for i, r, base, k, ok in pp if i not in dup and r not in dup])
    for i, r, base, k, ok in pp:
        if i in dup or r in dup:
            continue
        L.count("prefix-ratio")
        got = ok_bits(impl.get(i, r, one))
        want = f2b(float(base) ** k) if base == 2 else f2b(float("1e%d" % k))
        if got is None:
            L.fail("a prefixed name and its base name do not convert (different categories?)",
                   {"prefixed": i, "base": r}, [(i, r, one)])
        elif ulp_dist(got, want) > 2:
            L.fail("ratio between a prefixed name and its base name is not the prefix's power",
                   {"prefixed": i, "base": r, "expected": "%d^%d" % (base, k)}, [(i, r, one)])
    L.prefix_pairs = len(pp)
    return L


# ----------------------------------------------------------------------------- correspondence
def units_stream_pairs(tb, rng, tier):
    """identifier pairs for the UNITS stream, with a tag each"""
    uo = unit_of(tb)
    cats = {}
    for u in tb.units:
        cats.setdefault(u["cat"], []).append(u)
    canon = lambda u: u["ids"][0].decode("utf-8")
    pairs = {}
    if tier == "thorough":
        ids = sorted(uo)
        for a in ids:
            for b in ids:
                pairs[(a, b)] = "all-identifiers"
        return pairs
    for cat, us in cats.items():
        for u in us:
            for x in us:
                pairs[(canon(u), canon(x))] = "canonical-in-category"
            for al in u["ids"][1:]:
                al = al.decode("utf-8")
                pairs.setdefault((al, canon(u)), "alias-canonical")
                pairs.setdefault((canon(u), al), "alias-canonical")
                x = rng.choice(us)
                pairs.setdefault((al, canon(x)), "alias-other")
                pairs.setdefault((canon(x), al), "alias-other")
            for _ in range(2):
                oc = rng.choice([k for k in cats if k != cat])
                pairs.setdefault((canon(u), canon(rng.choice(cats[oc]))), "cross-category")
    # spellings: case variants, unknown, ambiguous
    listed = sorted(uo)
    for _ in range(400):
        s = rng.choice(listed)
        v = rng.choice(sorted(case_variants(rng, s, 2) | (unknown_variants(rng, s) if rng.chance(1, 4) else set())))
        if not model_alphabet_ok(tb, v):
            continue
        u = rng.choice(uo[s])
        t = canon(rng.choice(cats[u["cat"]]))
        if rng.chance(1, 2):
            pairs.setdefault((v, t), "spelling")
        else:
            pairs.setdefault((t, v), "spelling")
    return pairs


def run_units_stream(tb, h, res, rng, tier):
    pairs = units_stream_pairs(tb, rng, tier)
    keys = sorted(pairs)
    nm = 6 if tier == "quick" else 2
    mags = {}
    for k in keys:
        if pairs[k] == "cross-category":
            mags[k] = [f2b(1.0)]
        elif tier == "quick" and pairs[k] == "canonical-in-category":
            mags[k] = [f2b(x) for x in magnitudes(rng, nm)]
        else:
            mags[k] = [f2b(x) for x in magnitudes(rng, 2)]
    lines = ["%s\t%s\t%s" % (c.hexs(a), c.hexs(b), ",".join("%016x" % v for v in mags[(a, b)])) for a, b in keys]
    impl_out = c.harness_lines_resilient(h, "units", lines, ["--builtin"])

    exprs = ["show_units_line %s %s [%s]" % (cq(a), cq(b), "; ".join("0x%016x" % v for v in mags[(a, b)])) for a, b in keys]
    mism, evals, bad = [], 0, []
    try:
        mout = c.coq_eval_batch(REQS, "", exprs, "c17u")
    except c.BrokenTie as e:
        res.tie_broken(e.what, e.detail)
        mout = [None] * len(keys)
    by_tag = {}
    for k, m, i in zip(keys, mout, impl_out):
        by_tag.setdefault(pairs[k], [0, 0])
        by_tag[pairs[k]][0] += 1
        evals += len(mags[k])
        if "PANIC" in i or "ABORT" in i or "DIFF(" in i or "BAD" in i:
            bad.append((k, i))
        if m is None:
            continue
        if m == i:
            by_tag[pairs[k]][1] += 1
        else:
            mism.append((k, m, i))
    return {"keys": keys, "pairs": pairs, "mags": mags, "impl": dict(zip(keys, impl_out)), "mism": mism,
            "evals": evals, "bad": bad, "by_tag": by_tag}


def run_resolve_stream(tb, h, res, rng, tier):
    pool = ident_pool(tb, rng, tier)
    r_impl = c.harness_lines_resilient(h, "units-resolve", [c.hexs(s) for s in pool])
    l_impl = c.harness_lines_resilient(h, "units-lower", [c.hexs(s) for s in pool])
    try:
        mo = c.coq_eval_batch(REQS, "", ['show_resolve %s ++ "/" ++ show_lower %s' % (cq(s), cq(s)) for s in pool], "c17r")
    except c.BrokenTie as e:
        res.tie_broken(e.what, e.detail)
        mo = [None] * len(pool)
    mism = [(s, m, ri + "/" + li) for s, m, ri, li in zip(pool, mo, r_impl, l_impl) if m is not None and m != ri + "/" + li]
    kinds = {}
    for ri in r_impl:
        k = ri.split("|")[0]
        k = "OK" if k.startswith("OK:") else k
        kinds[k] = kinds.get(k, 0) + 1
    return {"pool": pool, "impl": dict(zip(pool, r_impl)), "mism": mism, "kinds": kinds,
            "find_unit_disagrees": [s for s, ri in zip(pool, r_impl) if not ri.endswith("|1")]}


BUILTIN_ARGS = [("N3ff0000000000000", "ANum (num_of_bits 0x3ff0000000000000)"), ("S" + c.hexs("km"), 'AStr "km"'),
                ("S" + c.hexs("m"), 'AStr "m"'), ("B1", "AOther"), ("U", "AOther"), ("S" + c.hexs("1"), 'AStr "1"'),
                ("N7ff8000000000000", "ANum (num_of_bits 0x7ff8000000000000)")]


def run_builtin_stream(h, res, tb):
    cases = [(a, b, d) for a in BUILTIN_ARGS for b in BUILTIN_ARGS for d in BUILTIN_ARGS]
    outs = c.harness_lines_resilient(h, "units-builtin", ["\t".join(x[0] for x in cs) for cs in cases])
    scans = ["show_Z (Z.of_nat (List.length (prefix_hits metric_prefixes)))",
             "show_Z (Z.of_nat (List.length (prefix_hits binary_prefixes)))",
             "show_Z (Z.of_nat (List.length dup_idents))",
             'join_comma (map hex_of_string dup_idents)']
    try:
        mo = c.coq_eval_batch(REQS, "", ["show_builtin (%s) (%s) (%s)" % tuple(x[1] for x in cs) for cs in cases] + scans,
                              "c17b")
    except c.BrokenTie as e:
        res.tie_broken(e.what, e.detail)
        mo = [None] * (len(cases) + len(scans))
    mism = [(cs, m, o) for cs, m, o in zip(cases, mo, outs) if m is not None and m != o]
    sc = mo[len(cases):]
    out = {"cases": len(cases), "mism": mism, "coq_prefix_pairs": None, "coq_dup_idents": None}
    if all(x is not None for x in sc):
        out["coq_prefix_pairs"] = int(sc[0]) + int(sc[1])
        out["coq_dup_idents"] = sorted(bytes.fromhex(x).decode("utf-8") for x in sc[3].split(",") if x)
        py_dup = sorted(i for i, us in unit_of(tb).items() if len(us) > 1)
        if out["coq_prefix_pairs"] != len(prefix_pairs(tb)):
            res.tie_broken("the Python mirror of Units.v:prefix_hits (drives the implementation-level prefix law) counts %d "
                           "pairs, Coq counts %d" % (len(prefix_pairs(tb)), out["coq_prefix_pairs"]))
        if out["coq_prefix_pairs"] == 0:
            res.tie_broken("C17_prefix_ratio_* are vacuous: no prefixed/base identifier pair found in the table")
        if out["coq_dup_idents"] != py_dup:
            res.tie_broken("Python and Coq disagree on the identifiers listed for two units", "%r vs %r" % (py_dup, out["coq_dup_idents"]))
    return out


def run_session_stream(tb, h, res, rng, tier):
    """SESSIONS (round 7, after seed C17-11: a per-thread cache of the last resolved units is left inconsistent by a
    conversion that FAILS on its target): sequences of conversions in ONE harness process / thread —
    ok(A, B); rejected(C, bad target) or rejected(bad source, C) or category mismatch; ok(A, B) again; ok(A, B2) —
    law: a conversion's result does not depend on what was converted (or rejected) before it."""
    cats = {}
    for u in tb.units:
        if u["ids"]:
            cats.setdefault(u["cat"], []).append(u)
    name = lambda u: rng.choice(u["ids"]).decode("utf-8")
    big = [us for us in cats.values() if len(us) >= 3]
    nseq = 120 if tier == "quick" else 3000
    v = "%016x" % f2b(5.0)
    lines, seqs = [], []
    for k in range(nseq):
        us = rng.choice(big)
        ua, ub, ub2 = rng.choice(us), rng.choice(us), rng.choice(us)
        uc = rng.choice(rng.choice(list(cats.values())))
        a, b, b2, cc = name(ua), name(ub), name(ub2), name(uc)
        kind = k % 4
        if kind == 0:
            mid = (cc, rng.choice(sorted(unknown_variants(rng, b))))          # unknown target
        elif kind == 1:
            mid = (rng.choice(sorted(unknown_variants(rng, a))), cc)          # unknown source
        elif kind == 2:
            other = rng.choice([x for x in cats.values() if x is not us and x[0]["cat"] != uc["cat"]] or [us])
            mid = (cc, name(rng.choice(other)))                               # category mismatch (or a success)
        else:
            mid = (cc, cc.lower() + " s")                                     # unknown target, source spelled like a unit
        seq = [(a, b), mid, (a, b), (a, b2), mid, (a, b2)]
        seqs.append((len(lines), seq))
        for x, y in seq:
            lines.append("%s\t%s\t%s" % (c.hexs(x), c.hexs(y), v))
    outs = c.harness_lines_resilient(h, "units", lines, ["--builtin"])
    # every line alone, in a different order (fresh cache state): the reference
    uniq = sorted(set(lines), reverse=True)
    ref = dict(zip(uniq, c.harness_lines_resilient(h, "units", uniq, ["--builtin"])))
    viol = 0
    for start, seq in seqs:
        got = outs[start:start + len(seq)]
        for j, (pair, o) in enumerate(zip(seq, got)):
            r = ref[lines[start + j]]
            if o != r and not (o.startswith("ERR") and r.startswith("ERR")):
                viol += 1
                if viol <= 3:
                    res.violation("a conversion's result depends on the conversions evaluated (or rejected) before it in the same process",
                                  {"kind": "units-law", "law": "history independence of convert (SESSIONS)",
                                   "detail": {"sequence": [list(p) for p in seq[:j + 1]], "value": 5.0,
                                              "position": j, "in_sequence": o, "alone": r},
                                   "calls": [[x, y, v, "5.0"] for x, y in seq[:j + 1]], "observed": got[:j + 1]})
                break
    res.streams["SESSIONS"] = {"sequences": len(seqs), "conversions": len(lines), "distinct": len(uniq),
                               "rejected_in_sequence": sum(1 for o in outs if not o.startswith("OK")),
                               "violations": viol}


def check_bound_tables(res):
    """the constants of the proved temperature bounds, printed by Coq (UnitsFloat2.v temp_tables / tcomp_tables), must be
    the tolerances this check uses (TEMP_AB / TCOMP_AB)"""
    order = ["TF_kelvin_to_kelvin", "TF_celsius_to_kelvin", "TF_fahrenheit_to_kelvin"]
    want1 = [str(x) for a in order for b in order for x in TEMP_AB[(a, b)]]
    want2 = [str(x) for a in order for b in order for d in order for x in TCOMP_AB[(a, b, d)]]
    try:
        mo = c.coq_eval_batch(REQS + ["Blots.proofs.UnitsFloat", "Blots.proofs.UnitsFloat2"], "",
                              ["join_comma (map show_Z temp_tables)", "join_comma (map show_Z tcomp_tables)"], "c17t")
    except c.BrokenTie as e:
        res.tie_broken(e.what, e.detail)
        return None
    ok = mo[0] == ",".join(want1) and mo[1] == ",".join(want2)
    if not ok:
        res.tie_broken("the temperature tolerances of the implementation-level search (checks/c17.py TEMP_AB / TCOMP_AB) are "
                       "not the constants of the proved bounds (UnitsFloat2.v temp_AZ/temp_BZ/tcomp_AZ/tcomp_BZ)",
                       "coq: %r / %r" % (mo[0], mo[1]))
    return ok


# ----------------------------------------------------------------------------- known findings
def replay_known(e, impl, h):
    """re-run the witness of an open known finding on the implementation; True = still reproduces"""
    w = e.get("witness", {})
    if e["id"] == "C17-self-float":
        v = int(w["value_bits"], 16)
        r = impl.get(w["from"], w["to"], v)
        return ok_bits(r) != v, "convert(%s, %r, %r) = %s" % (w["value"], w["from"], w["to"], r)
    if e["id"] == "C17-dup-ident":
        r = impl.get(w["from"], w["to"], f2b(1.0))
        return r.startswith("ERR:ambig"), "convert(1, %r, %r) = %s" % (w["from"], w["to"], r)
    return True, "unknown witness kind"


def run_corpus(impl, res):
    """regression cases of fixed findings (corpus/C17/*.json): run first; a failure is a violation"""
    d = os.path.join(c.VERIF, "corpus", PID)
    n = 0
    for fn in sorted(os.listdir(d)) if os.path.isdir(d) else []:
        if not fn.endswith(".json"):
            continue
        with open(os.path.join(d, fn)) as f:
            doc = json.load(f)
        for cs in doc.get("cases", []):
            n += 1
            v = int(cs["value_bits"], 16)
            got = impl.get(cs["from"], cs["to"], v)
            if got != cs["expect"]:
                res.violation("regression of a fixed finding (corpus/C17/%s): %s" % (fn, doc.get("comment", "")),
                              {"kind": "units-law", "law": "corpus", "detail": {"expected": cs["expect"]},
                               "calls": [[cs["from"], cs["to"], cs["value_bits"], repr(b2f(v))]], "observed": [got],
                               "rerun": "./check C17 --replay <this file>"})
    return n


def do_replay(h, path):
    with open(path) as f:
        rp = json.load(f)
    print(json.dumps(rp, indent=1, ensure_ascii=False))
    impl = Impl(h)
    rc = 0
    if rp.get("kind") == "units-law":
        now = [impl.get(a, b, int(v, 16)) for a, b, v, _ in rp.get("calls", [])]
        print("implementation now returns:", now)
        if rp.get("detail", {}).get("identifier") is not None:
            print("resolve now:", resolve_impl(h, [rp["detail"]["identifier"]]))
        rc = 1 if now == rp.get("observed") else 0
        print("same as recorded (still failing)" if rc else "differs from the recorded failing observation")
    return rc


def main(argv):
    tier, seed, replay = c.tier_and_seed(argv)
    res = c.Result(PID, tier, seed)
    rng = c.Rng(seed)
    try:
        h = c.build_harness()
    except c.BrokenTie as e:
        res.tie_broken(e.what, e.detail)
        return res.finish()
    if replay:
        return do_replay(h, replay)
    known = c.open_known(PID)
    impl = Impl(h)
    ncorpus = run_corpus(impl, res)
    try:
        tb = regen_units(h)
    except c.BrokenTie as e:
        res.tie_broken(e.what, e.detail)
        tb = getattr(e, "table", None)
        if tb is not None:
            # the model cannot be generated: look for a concrete failing input on the implementation alone
            L = law_search(tb, impl, res, rng, tier, known, ident_pool(tb, rng, tier))
            res.coverage["evaluations"] = impl.calls
            res.streams["IMPL-LAWS"] = {"checked": L.counts, "failures": L.fail_count}
        return res.finish()

    import time
    t0 = time.time()
    c.proof_step(res, PID)
    c.log("proof step %.1fs" % (time.time() - t0)); t0 = time.time()

    # ---- correspondence
    rs = run_resolve_stream(tb, h, res, rng, tier)
    c.log("RESOLVE+LOWER stream %.1fs" % (time.time() - t0)); t0 = time.time()
    if rs["mism"]:
        s0, m, i = rs["mism"][0]
        res.tie_broken("correspondence C17/RESOLVE+LOWER: model and implementation disagree on %d of %d identifiers"
                       % (len(rs["mism"]), len(rs["pool"])),
                       "first: identifier %r (hex %s): model=%s impl=%s (resolve|find_unit agrees/to_lowercase hex)"
                       % (s0, c.hexs(s0), m, i))
    for s0 in rs["find_unit_disagrees"][:3]:
        res.violation("find_unit disagrees with resolve_unit", {"kind": "units-law", "law": "find_unit = resolve_unit.ok()",
                                                                "detail": {"identifier": s0}, "calls": [], "observed": []})
    us = run_units_stream(tb, h, res, rng, tier)
    if us["mism"]:
        (a, b), m, i = us["mism"][0]
        res.tie_broken("correspondence C17/UNITS: model and implementation disagree on %d of %d identifier pairs"
                       % (len(us["mism"]), len(us["keys"])),
                       "first: convert(v, %r, %r) for v bits %s: model=%s impl=%s"
                       % (a, b, ",".join("%016x" % v for v in us["mags"][(a, b)]), m, i))
    for (a, b), i in us["bad"][:3]:
        res.violation("convert panics, or the convert built-in disagrees with units::convert",
                      {"kind": "units-law", "law": "no panic; built-in = units::convert", "detail": {"raw": i},
                       "calls": [[a, b, "%016x" % v, repr(b2f(v))] for v in us["mags"][(a, b)]], "observed": [i]})
    c.log("UNITS stream %.1fs" % (time.time() - t0)); t0 = time.time()
    bs = run_builtin_stream(h, res, tb)
    if bs["mism"]:
        cs, m, o = bs["mism"][0]
        res.tie_broken("correspondence C17/BUILTIN: model and implementation disagree on %d of %d argument tuples"
                       % (len(bs["mism"]), bs["cases"]), "first: %s model=%s impl=%s" % ([x[0] for x in cs], m, o))

    run_session_stream(tb, h, res, c.Rng(seed + 1711), tier)
    tables_ok = check_bound_tables(res)
    # ---- the laws on the implementation alone (always run)
    L = law_search(tb, impl, res, rng, tier, known, rs["pool"])
    c.log("BUILTIN stream + law search %.1fs" % (time.time() - t0))

    # ---- known findings: re-run each witness
    for e in known:
        still, what = replay_known(e, impl, h)
        res.known("%s %s [%s]%s" % (e["id"], e["what"], what, "" if still else " (no longer reproduces)"))

    nontrivial = sum(1 for k in us["keys"] if us["impl"][k].startswith("OK:")) \
        + sum(1 for s0 in rs["pool"] if rs["impl"][s0].startswith("OK:"))
    res.coverage["evaluations"] = us["evals"] + 2 * len(rs["pool"]) + bs["cases"] + impl.calls
    res.coverage["distinct_nontrivial"] = nontrivial
    res.coverage["rule"] = ("UNITS: distinct ordered identifier pairs (%s) x magnitudes 1e-12..1e12, 0, -0, negatives, random "
                            "mantissas, each run through units::convert AND the convert built-in and compared bit for bit "
                            "with the model; RESOLVE/LOWER: every listed identifier, case variants, near-miss spellings; "
                            "non-trivial = distinct identifier pairs that convert (reach convert_to_base/convert_from_base) "
                            "plus distinct identifier strings that resolve to a unit"
                            % ("all ordered pairs of listed identifiers" if tier == "thorough" else
                               "all canonical-name pairs within each category, every alias against its canonical name and "
                               "another unit, cross-category and misspelt samples"))
    smp = [us["keys"][rng.below(len(us["keys"]))] for _ in range(5)]
    res.coverage["samples"] = [{"from": a, "to": b, "values": [repr(b2f(v)) for v in us["mags"][(a, b)][:3]],
                                "impl": us["impl"][(a, b)].split(",")[:3], "tag": us["pairs"][(a, b)]} for a, b in smp]
    res.coverage["traces_validated_against_impl"] = (len(us["keys"]) - len(us["mism"])) + (len(rs["pool"]) - len(rs["mism"])) \
        + (bs["cases"] - len(bs["mism"]))
    res.coverage["exhaustive_table_theorems"] = {"units": len(tb.units), "identifiers": sum(len(u["ids"]) for u in tb.units),
                                                 "table_digest": tb.digest}
    res.streams["UNITS"] = {"pairs": len(us["keys"]), "conversions": us["evals"], "mismatches": len(us["mism"]),
                            "by_kind(pairs,agree)": us["by_tag"]}
    res.streams["RESOLVE+LOWER"] = {"identifiers": len(rs["pool"]), "mismatches": len(rs["mism"]), "impl_answers": rs["kinds"]}
    res.streams["CORPUS"] = {"cases": ncorpus}
    res.streams["BUILTIN"] = {"argument_tuples": bs["cases"], "mismatches": len(bs["mism"])}
    res.coverage["exhaustive_table_theorems"]["prefix_pairs_in_theorems"] = bs["coq_prefix_pairs"]
    res.coverage["exhaustive_table_theorems"]["identifiers_listed_for_two_units"] = bs["coq_dup_idents"]
    res.streams["IMPL-LAWS"] = {"checked": L.counts, "known_finding_hits": L.known_hits, "prefix_pairs": L.prefix_pairs,
                                "impl_calls": impl.calls, "failures": L.fail_count,
                                "float_tolerances": {
                                    "rule": "there-and-back and composition are compared in exact rational arithmetic against "
                                            "the bounds PROVED in coq/Properties/C17.v (tolerance = proved bound)",
                                    "there-and-back linear/linear": "|r-v| <= ((1+2^-53)^4 - 1)|v|  (C17_there_and_back_float_linear_table)",
                                    "there-and-back with a reciprocal unit": "|r-v| <= (qq^4 - 1)|v|, qq = 1/(1-2^-53)  (C17_there_and_back_float_table)",
                                    "there-and-back temperature": "|r-v| <= 2^-53 (1+1/1024)(A|v|+B), (A,B) = " +
                                        ", ".join("%s>%s:%s" % (k[0][3:4].upper(), k[1][3:4].upper(), v) for k, v in sorted(TEMP_AB.items())) +
                                        "  (C17_there_and_back_float_temperature)",
                                    "composition linear/reciprocal": "|fl(A>B>C)-fl(A>C)| <= (qq^6 - 1)|fl(A>C)|  (C17_composition_float_table)",
                                    "composition temperature": "|fl(A>B>C)-fl(A>C)| <= 2^-53 (1+1/1024)(A|v|+B), 27 (A,B) pairs "
                                                               "(checks/c17.py TCOMP_AB = UnitsFloat2.v tcomp_A/tcomp_B)  (C17_composition_float_temperature)",
                                    "temperature constants equal the Coq tables (checked by vm_compute this run)": tables_ok,
                                    "decided_by": L.tol,
                                    "largest observed error / proved bound": L.tol_ratio,
                                    "there-and-back pairs by kind": getattr(L, "kind_pairs", {})}}
    res.assumptions = [
        "Rust str::to_lowercase is modelled on ASCII plus the non-ASCII characters of the table (dumped map); the table's "
        "own lower-cased identifiers are dumped from Rust and proved equal to the model's (lower_consistent)",
        "temperature function pointers are identified by their values on 12 probe points (re-validated in Coq: "
        "C17_table_wellformed) and by the UNITS stream",
        "exact-rational laws use the shortest decimal that rounds to each f64 coefficient (Rust Display), checked in Coq "
        "to round back to the dumped bits (rn_decimal)",
    ]
    return res.finish()


if __name__ == "__main__":
    sys.exit(main(sys.argv[1:]))
