"""C15 — aggregates equal their mathematical definitions in both calling conventions.
See notes/C15.md (DESIGN.md section 6, C15)."""
import json
import math
import sys
from fractions import Fraction

import common as c
from gen_values import V, N, S, B, L, R, NULL, f2bits, bits2f

PID = "C15"
MANIFEST = {
    "text": "37 Coq theorems over the transcribed aggregate built-ins (BuiltinsAgg.v: min max avg sum prod median "
            "percentile any all dot, incl. the six list-or-varargs argument-collection copies and every partial "
            "operation as an explicit Panic): the calling conventions agree for ALL argument vectors (length-1 "
            "disambiguation stated exactly); sum/prod are Rust's left folds from -0.0/1.0, avg = sum/count; min/max "
            "are bounding elements; median/percentile are order statistics defined by rank counting; the nearest-rank "
            "index is in range and monotone in p, percentile(0)=min, percentile(100)=max (Flocq); exact permutation "
            "invariance up to +-0; Higham-style rounding bounds for sum, prod and avg and permutation invariance up to "
            "rounding; no arity-respecting call aborts (C15_checked_call_total; the two panics this check found, NaN in "
            "the sort and percentile of an empty list, were repaired in /repo 710ac9a and the model transcribes the "
            "repaired code).  Model tied to the code on every run by a BUILTIN correspondence "
            "stream (raw and arity-checked calls, bit-exact arguments, lists of length 0..50 incl. NaN/inf/+-0/huge/"
            "tiny, wrong-typed and missing arguments) and an EVAL stream (list / separate / spread calls through the "
            "real parser and evaluator), plus an implementation-level law search against exact rational references.",
    "note": "trusted: Coq kernel + vm_compute; the hand transcription of the ten match arms (validated by the "
            "correspondence on every run); Rust std facts (Sum/Product initial elements, f64::min/max NaN and +-0 "
            "handling, stable sort_by whose comparator runs on every element once the slice has >= 2 elements, "
            "saturating as-casts, f64::round) are modelled and pinned by the correspondence, not verified; Flocq 4.1 "
            "and the four allow-listed classical/real axioms under the percentile-index, panic-characterisation and "
            "rounding theorems only (conventions, folds, min/max, sort, order statistics, median, exact permutation "
            "invariance are closed under the global context); hypotheses: NaN-free non-empty lists for the order "
            "theorems (the property's quantifier), list length <= 2^53, p a valid double, no overflow of partial "
            "sums/products and no underflow of partial products for the rounding bounds",
    "design_ref": "DESIGN.md section 6 C15; notes/C15.md",
}

AGGS6 = ["min", "max", "avg", "sum", "prod", "median"]
COQ_AGG = {"min": "AMin", "max": "AMax", "avg": "AAvg", "sum": "ASum", "prod": "AProd", "median": "AMedian",
           "percentile": "APercentile", "any": "AAny", "all": "AAll", "dot": "ADot"}
ARITY = {"min": (1, None), "max": (1, None), "avg": (1, None), "sum": (1, None), "prod": (1, None),
         "median": (1, None), "percentile": (2, 2), "any": (1, 1), "all": (1, 1), "dot": (2, 2)}
REQ = ["Blots.Num", "Blots.gen.Builtins", "Blots.Ast", "Blots.Value", "Blots.Show", "Blots.Outcome",
       "Blots.BuiltinsAgg"]

INF = math.inf
NAN = math.nan
U = Fraction(1, 2 ** 53)          # unit roundoff of binary64


# ----------------------------------------------------------------------------- generators
def gen_num(rng, profile):
    """one f64; `profile` biases the mix"""
    r = rng.below(100)
    if profile == "ints":
        return float(rng.below(21) - 10)
    if profile == "dups":
        return rng.choice([0.0, -0.0, 1.0, 1.0, 2.0, 2.5, -3.0, 7.0])
    if profile == "fracs":
        k = rng.below(401) - 200
        return rng.choice([k / 8.0, k / 10.0, k * 0.1, k / 3.0])
    if profile == "huge":
        return rng.choice([1e300, -1e300, 1.7976931348623157e308, -1.7976931348623157e308, 2.0 ** 53,
                           2.0 ** 53 + 2, 1e16, -1e16, 1e308, 3.0, -1.0, 0.5, 1e154, 1e155])
    if profile == "tiny":
        return rng.choice([5e-324, -5e-324, 1e-310, 2.2250738585072014e-308, 1e-300, -1e-300, 1e-162, 0.0, -0.0,
                           1.0, 0.5, 3e-320])
    if profile == "bits":
        while True:
            x = bits2f(rng.next())
            if x == x and abs(x) != INF:
                return x
    # mixed
    if r < 30:
        return float(rng.below(21) - 10)
    if r < 50:
        return (rng.below(2001) - 1000) / 16.0
    if r < 60:
        return (rng.below(2001) - 1000) * 0.1
    if r < 66:
        return rng.choice([0.0, -0.0])
    if r < 72:
        return rng.choice([INF, -INF])
    if r < 80:
        return rng.choice([1e300, -1e300, 1.7976931348623157e308, 2.0 ** 53, 2.0 ** 53 + 2, 1e16])
    if r < 88:
        return rng.choice([5e-324, 1e-310, 2.2250738585072014e-308, -1e-300])
    x = bits2f(rng.next())
    return x if x == x else 1.5


PROFILES = ["ints", "dups", "fracs", "huge", "tiny", "bits", "mixed", "mixed"]


def gen_len(rng):
    r = rng.below(100)
    if r < 4:
        return 0
    if r < 12:
        return 1
    if r < 22:
        return 2
    if r < 32:
        return 3
    if r < 60:
        return 4 + rng.below(7)
    if r < 90:
        return 11 + rng.below(20)
    return 31 + rng.below(20)          # .. 50


LONG_LENGTHS = [64, 18, 100, 17, 65, 128, 33, 256, 63, 129, 200, 21, 20, 300, 1000]


def gen_list(rng, nan_pct=8):
    profile = rng.choice(PROFILES)
    n = gen_len(rng)
    xs = [gen_num(rng, profile) for _ in range(n)]
    if n and rng.below(100) < nan_pct:
        for _ in range(1 + rng.below(2)):
            xs[rng.below(n)] = NAN
    return xs, profile


P_FIXED = [0.0, 100.0, 50.0, 25.0, 75.0, -0.0, 33.3, 99.9, 0.1, 1e-300, 99.99999999999999, 5e-324, 12.5, 66.66666666666667,
           1.0, 99.0, 10.0, 90.0, 49.99999999999999, 50.00000000000001]
P_OUT = [-1.0, 100.00000000000001, 101.0, INF, -INF, NAN, -5e-324, 1e300, -0.1]


def gen_p(rng):
    r = rng.below(100)
    if r < 45:
        return rng.choice(P_FIXED)
    if r < 65:
        return float(rng.below(101))
    if r < 88:
        return rng.below(1000001) / 10000.0
    return rng.choice(P_OUT)


def junk_value(rng):
    return rng.choice([S("a"), S(""), B(True), B(False), NULL, L(), L(N(1)), L(N(1), N(2)), R(), R(("a", N(1))),
                       V("builtin", "sum"), L(S("x")), L(L(N(1)))])


def nlist(xs):
    return L(*[N(x) for x in xs])


class Case:
    __slots__ = ("name", "mode", "args", "tag", "nums")

    def __init__(self, name, mode, args, tag, nums=None):
        self.name, self.mode, self.args, self.tag, self.nums = name, mode, args, tag, nums

    def line(self):
        return "%s\t%s\t%s" % (self.name, self.mode, V("list", self.args).show())

    def coq(self):
        return "(show_case %s %s [%s])" % ("true" if self.mode == "checked" else "false", COQ_AGG[self.name],
                                           "; ".join(a.coq() for a in self.args))

    def key(self):
        return self.line()

    def arity_ok(self):
        lo, hi = ARITY[self.name]
        n = len(self.args)
        return n >= lo and (hi is None or n <= hi)


def gen_cases(rng, nlists, njunk):
    cases = []
    for _ in range(nlists):
        xs, profile = gen_list(rng)
        mode = "checked" if rng.chance(1, 3) else "raw"
        aggs = AGGS6 if rng.chance(1, 2) else [rng.choice(AGGS6), rng.choice(AGGS6)]
        for a in dict.fromkeys(aggs):
            cases.append(Case(a, mode, [nlist(xs)], "list", xs))
            cases.append(Case(a, mode, [N(x) for x in xs], "separate", xs))
        for _ in range(2):
            p = gen_p(rng)
            cases.append(Case("percentile", mode, [nlist(xs), N(p)], "percentile", xs))
        if rng.chance(1, 6):
            ys = [gen_num(rng, profile) for _ in xs]
            cases.append(Case("dot", mode, [nlist(xs), nlist(ys)], "dot", xs))
    for _ in range(njunk):
        mode = "checked" if rng.chance(1, 2) else "raw"
        name = rng.choice(AGGS6 + ["percentile", "percentile", "any", "all", "dot"])
        r = rng.below(10)
        xs, _p = gen_list(rng)
        xs = xs[:6]
        vals = [N(x) for x in xs]
        if r == 0:
            args = []
        elif r == 1:
            args = [junk_value(rng)]
        elif r == 2:                      # a wrong-typed element somewhere in the list argument
            vals.insert(rng.below(len(vals) + 1), junk_value(rng))
            args = [V("list", vals)]
        elif r == 3:                      # ... or among separate arguments
            vals.insert(rng.below(len(vals) + 1), junk_value(rng))
            args = vals
        elif r == 4:                      # list plus extra arguments
            args = [nlist(xs)] + [rng.choice([N(gen_p(rng)), junk_value(rng)]) for _ in range(1 + rng.below(2))]
        elif r == 5:                      # nested single list
            args = [L(nlist(xs))]
        elif r == 6:                      # percentile-like with swapped / wrong arguments
            args = rng.choice([[N(gen_p(rng)), nlist(xs)], [nlist(xs)], [nlist(xs), junk_value(rng)],
                               [junk_value(rng), N(50.0)], [nlist(xs), N(50.0), N(1.0)]])
        elif r == 7:                      # any / all / dot shapes
            bl = [rng.choice([B(True), B(False), B(True), NULL, N(1), S("t")]) for _ in range(rng.below(5))]
            args = rng.choice([[V("list", bl)], [V("list", [B(True)] * rng.below(4))],
                               [V("list", [B(False)] * rng.below(4))], [nlist(xs), nlist(xs[:-1])],
                               [nlist(xs), V("list", vals[:-1] + [S("q")])] if vals else [L(), L()],
                               [V("list", [S("q")] + vals[1:]), nlist(xs)] if vals else [L()]])
        elif r == 8:
            args = [N(gen_num(rng, "mixed"))]            # a single bare number
        else:
            args = [junk_value(rng), junk_value(rng)]
        cases.append(Case(name, mode, args, "junk"))
    cases = corpus_cases() + corner_cases() + cases
    # de-duplicate, keep order
    seen = set()
    out = []
    for cs in cases:
        k = cs.key()
        if k not in seen:
            seen.add(k)
            out.append(cs)
    return out


def parse_value(t, i=0):
    """canonical value text -> (V, next index)"""
    ch = t[i]
    if ch == "N":
        return V("num", bits2f(int(t[i + 1:i + 17], 16))), i + 17
    if ch in "TF":
        return B(ch == "T"), i + 1
    if ch == "U":
        return NULL, i + 1
    if ch == "S":
        j = t.index(";", i)
        return S(bytes.fromhex(t[i + 1:j]).decode("utf-8")), j + 1
    if ch == "B":
        j = t.index(";", i)
        return V("builtin", t[i + 1:j]), j + 1
    if ch == "L":
        items = []
        i += 2
        if t[i] == "]":
            return V("list", items), i + 1
        while True:
            v, i = parse_value(t, i)
            items.append(v)
            if t[i] == "]":
                return V("list", items), i + 1
            i += 1
    raise ValueError("corpus value: " + t[i:i + 20])


def corpus_cases():
    import os
    out = []
    path = os.path.join(c.VERIF, "corpus", "C15", "builtin.tsv")
    if not os.path.exists(path):
        return out
    for line in open(path):
        line = line.rstrip("\n")
        if not line or line.startswith("#"):
            continue
        name, mode, args = line.split("\t")
        v, _ = parse_value(args)
        out.append(Case(name, mode, v.p, "corpus"))
    return out


def corner_cases():
    """systematic shapes, every run: empty / singleton / wrong-typed / nested, both modes"""
    out = []
    one, two, nanv = N(1.0), N(2.0), N(NAN)
    shapes = [[], [L()], [L(S("a"))], [S("a")], [one, S("a")], [L(one, S("a"))], [L(S("a"), one)], [L(L(one))],
              [L(L())], [one], [nanv], [L(nanv)], [L(nanv, one)], [nanv, one], [one, nanv, two], [L(one), two],
              [L(), one], [NULL], [B(True)], [L(B(True))], [R()], [V("builtin", "sum")], [L(N(-0.0))], [N(-0.0)],
              [L(N(-0.0), N(0.0))], [L(N(0.0), N(-0.0))], [N(INF), N(-INF)], [L(N(INF), N(-INF))]]
    for a in AGGS6:
        for mode in ("raw", "checked"):
            for sh in shapes:
                out.append(Case(a, mode, sh, "junk"))
    pshapes = [[], [L()], [L(), N(50.0)], [L(), N(0.0)], [L(), N(100.0)], [L(), N(101.0)], [L(), N(NAN)],
               [L(one), N(50.0)], [L(nanv), N(50.0)], [L(nanv, one), N(50.0)], [L(one, nanv), N(0.0)],
               [L(one, two), N(NAN)], [L(one, two), N(-0.0)], [L(one, two), N(100.0)], [L(one, two), N(50.0)],
               [L(one, two), N(49.99999999999999)], [L(one, S("a")), N(50.0)], [L(one), S("a")], [one, N(50.0)],
               [N(50.0), L(one)], [L(one, two), N(50.0), N(1.0)], [L(nanv, one), N(101.0)], [L(S("a")), N(101.0)],
               [L(one, two), N(-1.0)], [L(one, two), N(100.00000000000001)]]
    for mode in ("raw", "checked"):
        for sh in pshapes:
            out.append(Case("percentile", mode, sh, "junk"))
        for a in ("any", "all"):
            for sh in [[], [L()], [L(B(True))], [L(B(False))], [L(B(True), B(False))], [L(B(True), one)], [L(one)],
                       [B(True)], [L(NULL)], [L(B(False), B(True))], [L(B(True), B(True))], [L(), L()]]:
                out.append(Case(a, mode, sh, "junk"))
        for sh in [[], [L()], [L(), L()], [L(one), L(two)], [L(one, two), L(two)], [L(one), L(S("a"))],
                   [L(S("a")), L(one)], [L(S("a")), L(S("b"))], [one, two], [L(one), two], [L(one, two), L(two, one)],
                   [L(N(-0.0)), L(one)], [L(N(INF)), L(N(0.0))], [L(one), L(two), L(one)]]:
            out.append(Case("dot", mode, sh, "junk"))
    return out


RUNTIME_ARITY = {}


def load_arity(h):
    """arity table as the built crate reports it (harness dump-builtins), not a constant"""
    for row in c.harness_oneshot(h, "dump-builtins").strip().split("\n"):
        f = row.split("\t")
        RUNTIME_ARITY[f[0]] = (f[1], int(f[2]), int(f[3]))


def arity_holds(name, n):
    kind, a, b = RUNTIME_ARITY[name]
    if kind == "exact":
        return n == a
    if kind == "atleast":
        return n >= a
    return a <= n <= b


def norm_impl(o):
    return "PANIC" if o.startswith("PANIC") or o.startswith("ABORT") else o


# ----------------------------------------------------------------------------- EVAL stream
def eval_result(o):
    body = o.split(";ENV:")[0]
    return norm_impl(body.split("|")[-1]) if body else body


def gen_eval_cases(rng, count):
    """program text through the real parser + evaluator: list / separate / spread conventions.
    Returns (program, agg name, flattened argument vector as V list, tag)."""
    out = []
    for _ in range(count):
        xs, _p = gen_list(rng, nan_pct=5)
        xs = xs[:12]
        a = rng.choice(AGGS6)
        form = rng.below(6)
        vals = [N(x) for x in xs]
        if form == 0:
            prog, args, tag = "%s(%s)" % (a, nlist(xs).src()), [nlist(xs)], "list"
        elif form == 1:
            prog, args, tag = "%s(%s)" % (a, ", ".join(v.src() for v in vals)), vals, "separate"
        elif form == 2:
            prog, args, tag = "%s(...%s)" % (a, nlist(xs).src()), vals, "spread"
        elif form == 3:
            k = rng.below(len(xs) + 1)
            prog = "l = %s\nm = %s\n%s(...l, ...m)" % (nlist(xs[:k]).src(), nlist(xs[k:]).src(), a)
            args, tag = vals, "spread2"
        elif form == 4:
            extra = gen_num(rng, "ints")
            prog = "%s(%s, ...%s)" % (a, N(extra).src(), nlist(xs).src())
            args, tag = [N(extra)] + vals, "mixed-spread"
        else:
            p = gen_p(rng)
            if rng.chance(1, 2):
                prog, tag = "percentile(%s, %s)" % (nlist(xs).src(), N(p).src()), "percentile"
            else:
                prog, tag = "percentile(...[%s, %s])" % (nlist(xs).src(), N(p).src()), "percentile-spread"
            a, args = "percentile", [nlist(xs), N(p)]
        out.append((prog, a, args, tag, xs))
    return out


# ----------------------------------------------------------------------------- exact references
def fr(x):
    return Fraction(x)


def num_eq(a, b):
    return a == b            # python float ==: +-0 identified, NaN never equal


def parse_ok_num(o):
    """'OK:N<hex>' -> float, else None"""
    if o.startswith("OK:N") and len(o) == 4 + 16:
        return bits2f(int(o[4:], 16))
    return None


def fold_sum(xs):
    s = -0.0
    for x in xs:
        s = s + x
    return s


def fold_prod(xs):
    s = 1.0
    for x in xs:
        s = s * x
    return s


def gamma_bound(k):
    """(1+u)^k - 1 exactly"""
    return (1 + U) ** k - 1


MIN_NORMAL = Fraction(2) ** -1022


def check_laws(xs, res, ps, pres):
    """xs: NaN-free non-empty list of floats; res: dict (agg, convention) -> impl outcome text;
    ps/pres: sorted percentile arguments in [0,100] and their outcomes.  Returns list of failure texts."""
    fails = []
    n = len(xs)
    vals = {}
    for a in AGGS6:
        outs = {cv: res[(a, cv)] for cv in ("list", "separate") if (a, cv) in res}
        if len(set(outs.values())) > 1:
            fails.append("%s: the two calling conventions disagree: %s" % (a, outs))
        o = outs.get("list")
        v = parse_ok_num(o) if o else None
        if o is not None and v is None:
            fails.append("%s: not a number result on a non-empty NaN-free list: %s" % (a, o))
        vals[a] = v
    finite = all(abs(x) != INF for x in xs)
    srt = sorted(xs)
    # min / max
    for a, pick in (("min", min), ("max", max)):
        v = vals.get(a)
        if v is None:
            continue
        if not any(num_eq(v, x) for x in xs):
            fails.append("%s result %r is not an element of the list" % (a, v))
        if a == "min" and not all(v <= x for x in xs):
            fails.append("min result %r does not bound all elements from below" % v)
        if a == "max" and not all(v >= x for x in xs):
            fails.append("max result %r does not bound all elements from above" % v)
    # sum / avg: Rust reference fold on the same doubles, and the exact rational bound
    s = vals.get("sum")
    if s is not None:
        ref = fold_sum(xs)
        if f2bits(s) != f2bits(ref):
            fails.append("sum %r differs from the left fold from -0.0 (%r)" % (s, ref))
        partial_ok = finite and abs(ref) != INF and ref == ref
        t = -0.0
        for x in xs:
            t = t + x
            if t != t or abs(t) == INF:
                partial_ok = False
        if partial_ok:
            exact = sum((fr(x) for x in xs), Fraction(0))
            bound = gamma_bound(n - 1) * sum((abs(fr(x)) for x in xs), Fraction(0))
            if abs(fr(s) - exact) > bound:
                fails.append("sum %r is farther from the exact sum than ((1+u)^(n-1)-1)*sum|x|" % s)
    av = vals.get("avg")
    if av is not None:
        ref = fold_sum(xs) / float(n)
        if f2bits(av) != f2bits(ref):
            fails.append("avg %r differs from sum/count (%r)" % (av, ref))
        if s is not None and f2bits(av) != f2bits(s / float(n)):
            fails.append("avg %r is not the implementation's own sum %r divided by the count" % (av, s))
    pr = vals.get("prod")
    if pr is not None:
        ref = fold_prod(xs)
        if f2bits(pr) != f2bits(ref):
            fails.append("prod %r differs from the left fold from 1.0 (%r)" % (pr, ref))
        if finite:
            ok = True
            t = 1.0
            for x in xs:
                t = t * x
                if t != t or abs(t) == INF or (t != 0 and abs(fr(t)) < MIN_NORMAL):
                    ok = False
                if t == 0 and x != 0:
                    ok = False                       # underflow to zero
            if ok:
                exact = Fraction(1)
                for x in xs:
                    exact *= fr(x)
                if abs(fr(pr) - exact) > gamma_bound(n) * abs(exact):
                    fails.append("prod %r is farther from the exact product than ((1+u)^n-1)*|prod|" % pr)
    # median
    md = vals.get("median")
    if md is not None:
        if n % 2 == 1:
            ref = srt[n // 2]
        else:
            ref = (srt[n // 2 - 1] + srt[n // 2]) / 2.0
        ok = num_eq(md, ref) or (md != md and ref != ref)
        if not ok and n % 2 == 0 and abs(srt[n // 2 - 1]) != INF and abs(srt[n // 2]) != INF and md == md \
                and abs(md) != INF:
            # another correctly rounded way of taking the mean of the two middle elements is also a mean
            mu = (fr(srt[n // 2 - 1]) + fr(srt[n // 2])) / 2
            ok = abs(fr(md) - mu) <= 2 * U * abs(mu) + Fraction(1, 2 ** 1074)
        if not ok:
            fails.append("median %r is not the middle order statistic / mean of the two middle ones (%r)" % (md, ref))
    # percentile: element, nearest rank, monotone, end points
    prev = None
    for p, o in zip(ps, pres):
        v = parse_ok_num(o)
        if v is None:
            fails.append("percentile(l, %r) is not a number: %s" % (p, o))
            continue
        if not any(num_eq(v, x) for x in xs):
            fails.append("percentile(l, %r) = %r is not an element of the list" % (p, v))
        t = fr(p) / 100 * (n - 1)
        ks = {math.floor(t + Fraction(1, 2))}
        if abs((t - math.floor(t)) - Fraction(1, 2)) < Fraction(1, 10 ** 9):
            ks |= {math.floor(t), math.floor(t) + 1}
        ks = {k for k in ks if 0 <= k < n}
        less = sum(1 for x in xs if x < v)
        leq = sum(1 for x in xs if x <= v)
        if not any(less <= k < leq for k in ks):
            fails.append("percentile(l, %r) = %r is not the nearest-rank order statistic (rank %s)" % (p, v, sorted(ks)))
        if prev is not None and not (prev[1] <= v):
            fails.append("percentile not monotone: p=%r gives %r but p=%r gives %r" % (prev[0], prev[1], p, v))
        prev = (p, v)
        if p == 0 and vals.get("min") is not None and not num_eq(v, vals["min"]):
            fails.append("percentile(l, 0) = %r differs from min = %r" % (v, vals["min"]))
        if p == 100 and vals.get("max") is not None and not num_eq(v, vals["max"]):
            fails.append("percentile(l, 100) = %r differs from max = %r" % (v, vals["max"]))
    return fails


def perm_laws(xs, res1, res2, ps, pres1, pres2):
    """same list in two orders: exact invariance (numeric) of min/max/median/percentile; sum/prod/avg
    are each checked against the exact value by check_laws, so both lie within the rounding bound."""
    fails = []
    for a in ("min", "max", "median"):
        v1, v2 = parse_ok_num(res1[(a, "list")]), parse_ok_num(res2[(a, "list")])
        if v1 is None or v2 is None or not (num_eq(v1, v2) or (v1 != v1 and v2 != v2)):
            fails.append("%s is not permutation invariant: %r vs %r" % (a, v1, v2))
    for p, o1, o2 in zip(ps, pres1, pres2):
        v1, v2 = parse_ok_num(o1), parse_ok_num(o2)
        if v1 is None or v2 is None or not num_eq(v1, v2):
            fails.append("percentile(l, %r) is not permutation invariant: %r vs %r" % (p, v1, v2))
    return fails


def law_search(h, rng, nlists, res, targets=()):
    """The property itself on the implementation only (exact rational / Python-float references)."""
    jobs = []
    lines = []

    def ask(name, args):
        lines.append("%s\tchecked\t%s" % (name, V("list", args).show()))
        return len(lines) - 1

    todo = [(list(xs), p, "target") for xs, p in list(targets)[:200]]
    for _ in range(nlists):
        while True:
            xs, profile = gen_list(rng, nan_pct=0)
            if xs:
                break
        todo.append((xs, None, profile))
    # long lists (a sort, selection or cache may switch algorithm with the size: insertion sort up to ~20,
    # selection cut-offs at 16/64, small-vector capacities), several DIFFERENT lists of one length in a row in
    # this one process (a cache keyed by anything but the contents answers for the previous list; round 4,
    # seeds C15-7 / C15-8: both needed more than 16 resp. 64 elements, the generator stopped at 50)
    for n in LONG_LENGTHS[:max(4, nlists // 40)]:
        for _k in range(3):
            profile = rng.choice(PROFILES)
            xs = [gen_num(rng, profile) for _ in range(n)]
            if _k == 2:
                xs = sorted(xs, reverse=True)
            todo.append((xs, None, profile + "/long"))
    for xs, p0, profile in todo:
        extra = [p0] if (p0 is not None and p0 == p0) else []
        ps = sorted(set(p for p in [0.0, 100.0] + extra + [gen_p(rng) for _ in range(4)] if 0 <= p <= 100))
        perm = rng.shuffle(xs)
        job = {"xs": xs, "perm": perm, "ps": ps, "profile": profile, "idx": {}, "pidx": [], "idx2": {}, "pidx2": []}
        for a in AGGS6:
            job["idx"][(a, "list")] = ask(a, [nlist(xs)])
            job["idx"][(a, "separate")] = ask(a, [N(x) for x in xs])
            job["idx2"][(a, "list")] = ask(a, [nlist(perm)])
        for p in ps:
            job["pidx"].append(ask("percentile", [nlist(xs), N(p)]))
            job["pidx2"].append(ask("percentile", [nlist(perm), N(p)]))
        jobs.append(job)
    outs = [norm_impl(o) for o in c.harness_lines_resilient(h, "c15-builtin", lines)]
    nfail = 0
    checked = 0
    for job in jobs:
        xs = job["xs"]
        r1 = {k: outs[i] for k, i in job["idx"].items()}
        r2 = {k: outs[i] for k, i in job["idx2"].items()}
        p1 = [outs[i] for i in job["pidx"]]
        p2 = [outs[i] for i in job["pidx2"]]
        fails = check_laws(xs, r1, job["ps"], p1)
        fails += ["(permuted list) " + f for f in check_laws(job["perm"], r2, job["ps"], p2)]
        fails += perm_laws(xs, r1, r2, job["ps"], p1, p2)
        checked += len(r1) + len(r2) + len(p1) + len(p2)
        if fails:
            nfail += 1
            if nfail <= 3:
                res.violation("aggregate law fails on the implementation: " + fails[0],
                              {"kind": "law", "list_bits": ["%016x" % f2bits(x) for x in xs],
                               "list": [repr(x) for x in xs],
                               "perm_bits": ["%016x" % f2bits(x) for x in job["perm"]],
                               "ps": [repr(p) for p in job["ps"]], "ps_bits": ["%016x" % f2bits(p) for p in job["ps"]],
                               "failures": fails[:10], "observed": {"%s/%s" % k: v for k, v in r1.items()},
                               "observed_percentiles": p1,
                               "rerun": "./check C15 --replay <this file>"})
    # ---- the spread / separate conventions through the real parser and evaluator
    nspread = min(len(jobs), len(list(targets)[:200]) + max(60, nlists // 4))
    progs = []
    for job in jobs[:nspread]:
        progs.append(spread_program(job["xs"]))
    pouts = [eval_result(o) for o in c.harness_lines_resilient(h, "eval", [c.hexs(p) for p in progs])]
    nsp_fail = 0
    for job, prog, o in zip(jobs[:nspread], progs, pouts):
        f = spread_law(o)
        checked += 1
        if f:
            nfail += 1
            nsp_fail += 1
            if nsp_fail <= 3:
                res.violation("list / spread / separate calling conventions disagree on the implementation: " + f,
                              {"kind": "spread-law", "program": prog, "observed": o, "failure": f,
                               "rerun": "./check C15 --replay <this file>"})
    return len(jobs), len(lines) + len(progs), checked, nfail


def spread_program(xs):
    l = nlist(xs).src()
    items = []
    for a in AGGS6:
        items += ["%s(l)" % a, "%s(...l)" % a]
        if len(xs) <= 8:
            items.append("%s(%s)" % (a, ", ".join(N(x).src() for x in xs)))
        k = len(xs) // 2
        items.append("%s(...%s, ...%s)" % (a, nlist(xs[:k]).src(), nlist(xs[k:]).src()))
    return "l = %s\n[%s]" % (l, ", ".join(items))


def spread_law(o):
    """o: eval outcome of spread_program; every aggregate's variants must be bit-equal"""
    if not (o.startswith("OK:L[") and o.endswith("]")):
        return "not a list of numbers: %s" % o[:200]
    vals = o[len("OK:L["):-1].split(",")
    per = len(vals) // len(AGGS6)
    if per * len(AGGS6) != len(vals) or per < 3:
        return "unexpected result shape: %s" % o[:200]
    for i, a in enumerate(AGGS6):
        grp = vals[i * per:(i + 1) * per]
        if len(set(grp)) != 1:
            return "%s: list / spread / separate / double-spread give %s" % (a, grp)
    return None


def replay_law(h, rp):
    xs = [bits2f(int(b, 16)) for b in rp["list_bits"]]
    perm = [bits2f(int(b, 16)) for b in rp["perm_bits"]]
    ps = [bits2f(int(b, 16)) for b in rp["ps_bits"]]
    lines = []
    keys = []
    for a in AGGS6:
        for cv, args in (("list", [nlist(xs)]), ("separate", [N(x) for x in xs])):
            lines.append("%s\tchecked\t%s" % (a, V("list", args).show()))
            keys.append(("r1", a, cv))
        lines.append("%s\tchecked\t%s" % (a, V("list", [nlist(perm)]).show()))
        keys.append(("r2", a, "list"))
    for p in ps:
        lines.append("percentile\tchecked\t%s" % V("list", [nlist(xs), N(p)]).show())
        keys.append(("p1", p, None))
        lines.append("percentile\tchecked\t%s" % V("list", [nlist(perm), N(p)]).show())
        keys.append(("p2", p, None))
    outs = [norm_impl(o) for o in c.harness_lines_resilient(h, "c15-builtin", lines)]
    r1, r2, p1, p2 = {}, {}, [], []
    for k, o in zip(keys, outs):
        if k[0] == "r1":
            r1[(k[1], k[2])] = o
        elif k[0] == "r2":
            r2[(k[1], k[2])] = o
        elif k[0] == "p1":
            p1.append(o)
        else:
            p2.append(o)
    fails = check_laws(xs, r1, ps, p1) + check_laws(perm, r2, ps, p2) + perm_laws(xs, r1, r2, ps, p1, p2)
    print("implementation now returns:", {"%s/%s" % k: v for k, v in r1.items()}, p1)
    print("laws failing now:", fails if fails else "none")
    return 1 if fails else 0


def replay(h, path):
    with open(path) as f:
        rp = json.load(f)
    print(json.dumps(rp, indent=1))
    kind = rp.get("kind")
    if kind == "law":
        return replay_law(h, rp)
    if kind == "spread-law":
        out = eval_result(c.harness_lines_resilient(h, "eval", [c.hexs(rp["program"])])[0])
        f = spread_law(out)
        print("implementation now returns:", out)
        print("law failing now:", f if f else "none")
        return 1 if f else 0
    if kind in ("builtin", "panic"):
        out = norm_impl(c.harness_lines_resilient(h, "c15-builtin", [rp["line"]])[0])
        print("implementation now returns:", out)
        exp = rp.get("expected")
        if kind == "panic":
            return 1 if out == "PANIC" else 0
        return 0 if out in (exp if isinstance(exp, list) else [exp]) else 1
    if kind == "eval":
        out = eval_result(c.harness_lines_resilient(h, "eval", [c.hexs(rp["program"])])[0])
        print("implementation now returns:", out)
        exp = rp.get("expected")
        if exp is None:
            return 1 if out == "PANIC" else 0
        return 0 if out in (exp if isinstance(exp, list) else [exp]) else 1
    return c.generic_replay(h, path)


# ----------------------------------------------------------------------------- known findings
def known_class(name, model_text):
    """mirror of the Coq predicate known_C15: an arity-respecting call on which the code as it is
    panics.  Returns the finding id or None.  (model_text = show_case output, 'PANIC|<repaired>')"""
    if not model_text.startswith("PANIC|"):
        return None
    fixed = model_text.split("|", 1)[1]
    if fixed == "PANIC":
        return None          # an abort the repair does not remove (e.g. a missing argument): not a known class
    if name == "median":
        return "C15-F1-nan-sort"
    if name == "percentile":
        return "C15-F2-percentile-empty" if fixed == "ERR" else "C15-F1-nan-sort"
    return None


WITNESS = {
    "C15-F1-nan-sort": ["median(0/0, 1)", "percentile([0/0, 1], 50)"],
    "C15-F2-percentile-empty": ["percentile([], 50)"],
}


def main(argv):
    tier, seed, replay_path = c.tier_and_seed(argv)
    res = c.Result(PID, tier, seed)
    rng = c.Rng(seed ^ 0xC15)
    try:
        h = c.build_harness()
        c.regen_builtins(h)
        load_arity(h)
    except c.BrokenTie as e:
        res.tie_broken(e.what, e.detail)
        return res.finish()
    if replay_path:
        return replay(h, replay_path)

    c.proof_step(res, PID)
    known = {e["id"]: e for e in c.open_known(PID)}
    known_hits = {k: 0 for k in known}

    # ---------------- BUILTIN correspondence
    quick = tier == "quick"
    cases = gen_cases(rng, 260 if quick else 10000, 500 if quick else 15000)
    impl = [norm_impl(o) for o in c.harness_lines_resilient(h, "c15-builtin", [cs.line() for cs in cases])]
    try:
        model = c.coq_eval_batch(REQ, "", [cs.coq() for cs in cases], "c15")
    except c.BrokenTie as e:
        res.tie_broken(e.what, e.detail)
        model = [None] * len(cases)
    mism = []
    npanic = [0]

    def panic_violation(what, replay):
        npanic[0] += 1
        if npanic[0] <= 3:
            res.violation(what, replay)
    hist = {}
    per_agg = {}
    lens = {}
    validated = 0
    nontrivial = set()
    for cs, m, r in zip(cases, model, impl):
        per_agg[cs.name] = per_agg.get(cs.name, 0) + 1
        kind = r.split(":")[0]
        hist[kind] = hist.get(kind, 0) + 1
        if cs.nums is not None:
            b = min(len(cs.nums), 50) // 10 * 10
            lens["%d-%d" % (b, b + 9)] = lens.get("%d-%d" % (b, b + 9), 0) + 1
        if m is None:
            continue
        if r.startswith("OK:"):
            nontrivial.add(cs.key())
        if m.startswith("PANIC|"):
            cur, fixed = "PANIC", m.split("|", 1)[1]
        else:
            cur, fixed = m, None
        arity_ok = arity_holds(cs.name, len(cs.args))
        kid = known_class(cs.name, m) if arity_ok else None
        call = "%s(%s)" % (cs.name, ", ".join(a.src() for a in cs.args))
        if r == "PANIC" and arity_ok:
            # an abort on a call the language can make: only the open known-finding classes are tolerated
            if kid is not None and kid in known:
                known_hits[kid] += 1
                validated += 1
            else:
                panic_violation("the implementation panics (C01 class) on an arity-respecting aggregate call",
                                {"kind": "panic", "line": cs.line(), "call": call, "observed": r,
                                 "finding_class": kid})
                if r != cur:
                    mism.append((cs, m, r))
        elif r == cur or (fixed is not None and fixed != "PANIC" and r == fixed):
            # second disjunct: an input on which the code as it is aborts in the sort / on the empty list;
            # the repaired code (fixes/C15-*.diff) no longer aborts there and must behave exactly like
            # the repaired model
            validated += 1
        else:
            mism.append((cs, m, r))
    targets = []
    if mism:
        cs, m, r = mism[0]
        res.tie_broken("correspondence C15/BUILTIN: model and implementation disagree on %d of %d cases"
                       % (len(mism), len(cases)),
                       "first: %s mode=%s args=%s ; model=%s impl=%s"
                       % (cs.name, cs.mode, V("list", cs.args).src(), m, r))
        # the disagreeing inputs that lie in the property's domain (non-empty NaN-free number lists) are
        # handed to the law search: if the property itself fails there, that is the concrete violation
        for cs, m, r in mism:
            if cs.nums and all(x == x for x in cs.nums):
                p = cs.args[1].p if (cs.name == "percentile" and len(cs.args) == 2 and cs.args[1].k == "num") else None
                targets.append((cs.nums, p))

    # ---------------- EVAL correspondence (parser + evaluator: list / separate / spread)
    ecases = gen_eval_cases(rng, 300 if quick else 6000)
    eimpl = [eval_result(o) for o in c.harness_lines_resilient(h, "eval", [c.hexs(e[0]) for e in ecases])]
    try:
        emodel = c.coq_eval_batch(REQ, "", ["(show_case true %s [%s])" % (COQ_AGG[a], "; ".join(x.coq() for x in args))
                                            for _, a, args, _, _ in ecases], "c15e")
    except c.BrokenTie as e:
        res.tie_broken(e.what, e.detail)
        emodel = [None] * len(ecases)
    emism = []
    etags = {}
    for (prog, a, args, tag, exs), m, r in zip(ecases, emodel, eimpl):
        etags[tag] = etags.get(tag, 0) + 1
        if m is None:
            continue
        if r == "PANIC":
            kid = known_class(a, m) if m.startswith("PANIC|") else None
            if kid is not None and kid in known:
                known_hits[kid] += 1
                validated += 1
            else:
                panic_violation("the implementation panics (C01 class) on an aggregate call",
                                {"kind": "eval", "program": prog, "observed": r})
                if not m.startswith("PANIC|"):
                    emism.append((prog, m, r))
        elif m.startswith("PANIC|"):
            if r == m.split("|", 1)[1]:
                validated += 1
            else:
                emism.append((prog, m, r))
        elif r == m:
            validated += 1
            if r.startswith("OK:"):
                nontrivial.add(prog)
        else:
            emism.append((prog, m, r))
            if exs and all(x == x for x in exs):
                targets.append((exs, args[1].p if a == "percentile" else None))
    if emism:
        prog, m, r = emism[0]
        res.tie_broken("correspondence C15/EVAL: model and implementation disagree on %d of %d programs"
                       % (len(emism), len(ecases)), "first: %r ; model=%s impl=%s" % (prog, m, r))

    # ---------------- the laws on the implementation alone
    broken = bool(res.broken)
    nl = (400 if quick else 15000) * (3 if broken else 1)
    njobs, nlines, nchecked, nfail = law_search(h, rng, nl, res, targets)

    # ---------------- known findings: re-run the witnesses
    for kid, e in known.items():
        progs = WITNESS.get(kid, [e.get("witness")])
        outs = [eval_result(o) for o in c.harness_lines_resilient(h, "eval", [c.hexs(p) for p in progs])]
        still = [p for p, o in zip(progs, outs) if o == "PANIC"]
        txt = "%s %s" % (kid, e["what"])
        if not still:
            txt += " (no longer reproduces)"
        res.known(txt)

    res.coverage["evaluations"] = len(cases) + len(ecases) + nlines
    res.coverage["distinct_nontrivial"] = len(nontrivial)
    res.coverage["rule"] = (
        "BUILTIN: number lists of length 0..50 from 7 profiles (small ints, duplicates, fractions, huge, tiny, random "
        "bits, mixed with +-0/+-inf; 8 percent with NaN) x {min,max,avg,sum,prod,median} x {one list argument, separate "
        "arguments} x {raw BuiltInFunction::call, arity-checked FunctionDef::call}, percentile x p (fixed points, "
        "integers, 4-decimal fractions, out of range, NaN), dot, plus a malformed stream (wrong-typed elements, missing/"
        "extra arguments, nested single lists, any/all shapes); EVAL: program text with list / separate / spread / "
        "double-spread / mixed-spread calls through the real parser and evaluator.  Both compared with the Coq model "
        "under vm_compute (outcome kind and result bits).  non-trivial = distinct cases whose implementation outcome "
        "is a value (the reduction code ran).  Law search: %d NaN-free non-empty lists x 6 aggregates x 2 conventions "
        "x a permutation + percentile grids, checked against exact rational / order-statistic references." % njobs)
    k = min(5, len(cases))
    res.coverage["samples"] = [{"call": "%s(%s)" % (cs.name, ", ".join(a.src() for a in cs.args))[:300], "mode": cs.mode,
                                "impl": r, "model": m}
                               for cs, m, r in [(cases[i], model[i], impl[i])
                                                for i in [rng.below(len(cases)) for _ in range(k)]]]
    res.coverage["samples"] += [{"program": ecases[i][0][:300], "impl": eimpl[i], "model": emodel[i]}
                                for i in [rng.below(len(ecases)) for _ in range(2)]]
    res.coverage["traces_validated_against_impl"] = validated
    res.streams["BUILTIN"] = {"cases": len(cases), "mismatches": len(mism), "per_builtin": per_agg,
                              "impl_outcomes": hist, "list_lengths": lens,
                              "tags": {t: sum(1 for cs in cases if cs.tag == t) for t in
                                       ("corpus", "list", "separate", "percentile", "dot", "junk")},
                              "modes": {m_: sum(1 for cs in cases if cs.mode == m_) for m_ in ("raw", "checked")},
                              "with_nan": sum(1 for cs in cases if cs.nums and any(x != x for x in cs.nums)),
                              "known_class_hits": known_hits}
    res.streams["EVAL"] = {"programs": len(ecases), "mismatches": len(emism), "forms": etags}
    res.streams["LAW-SEARCH"] = {"lists": njobs, "calls": nlines, "results_checked": nchecked, "failing_lists": nfail}
    res.assumptions = [
        "positive order-statistic theorems assume NaN-free lists (the property's quantifier has no NaN); NaN inputs are "
        "covered by the panic characterisation (known findings) and by the correspondence",
        "list length < 2^53 in the percentile index theorems (a longer Vec<f64> cannot exist)",
        "numeric equality identifies +0 and -0 (stable sort keeps their input order, so bit patterns may differ under "
        "permutation)"]
    return res.finish()


if __name__ == "__main__":
    sys.exit(main(sys.argv[1:]))
