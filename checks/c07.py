"""C07 — the formatter preserves program meaning.  See notes/C07.md and DESIGN.md section 6 (C07)."""
import json
import os
import re
import subprocess
import sys
import tempfile

import common as c
import c07_gen as g
import c10                     # regen_prec (gen/PrecTable.v), owned by property C10
from gen_programs import Gen

PID = "C07"
MANIFEST = {
    "text": "Coq theorems over a transcription of expr_to_source / needs_parens_in_binop (pinned and repaired "
            "versions) and pest's Pratt parser on the precedence table regenerated from precedence.rs: for every "
            "tree the parser can produce, the repaired printer's token stream is parsed back to the same tree "
            "(unbounded induction) and no lambda body / conditional / assignment absorbs what follows it; the printed "
            "text is exactly the text of that token stream; the pinned printer agrees with the repaired one outside "
            "the listed finding classes and is refuted (witness theorems) inside each; model tied to the code by a "
            "PRINT correspondence (text, predicted round trip, finding classes) exhaustive over all parent/child "
            "combinations of depth 2 and sampled deeper, and the property itself searched on the real parser / "
            "formatter / CLI binary (all depth-3 combinations, random programs with comments, widths 1..120). "
            "The multi-line layouts of formatter.rs are inside the theorems at the token-stream level: for every tree, "
            "every max_columns and indentation, every layout of the formatter model (coq/Formatter.v) denotes the same "
            "pest token stream as the one-line printer (C07_layout_preserves_items, also for any oracle record with the "
            "stated interface), hence the Pratt parser returns the tree from the formatter's token stream at every width "
            "(C07_format_roundtrip_items); the lexical view's character automaton toks composes (C07_toks_compose; "
            "C07_toks_boundary with a decidable boundary condition; C07_toks_separator / _layout_separators for blanks, "
            "line breaks, indentation and comments; C07_toks_string_literal, C07_toks_comment for the two states that "
            "swallow separators), the chunks of a document whose seams are boundaries are the chunks of its pieces "
            "(C07_doc_toks), and EVERY layout function at every width and indentation, for any oracle record, builds "
            "such a document (C07_layout_tokens_are_pieces_partial, for trees without comment annotations whose "
            "one-line texts / names / keys stop in code state: the decidable tok_ok); for the binary-operator, conditional "
            "(else-if chain) and assignment layouts the laid-out TEXT has exactly the chunks of the one-line text, for any "
            "printer version (C07_layout_view_operators_conditionals_partial), likewise for do-blocks "
            "(C07_layout_view_do_block_partial: protect_leading_minus agrees with the one-line do-block rule) and for the "
            "whole recursive fragment without list / record / call / lambda in a laid-out position "
            "(C07_layout_view_flat_partial: same chunks, hence same view, every width and indentation); canon ignores a "
            "trailing comma before a final closer (C07_canon_trailing_comma), which closes the list and call layouts for elements / "
            "callee and arguments with chunk-equal layouts (C07_layout_view_list_partial, C07_layout_view_call_partial); PARTIAL: the statement "
            "C07_layout_preserves_tokens_full as first written is refuted by the model (missing lexical hypothesis: an "
            "identifier spelled `//`; C07_layout_preserves_tokens_full_refuted — not a defect of the code); restated with "
            "tok_ok and without cr_free as C07_layout_view_full, of which the record / lambda families and lists / calls nested in lists / calls (the "
            "general canon congruence: trailing commas, `x =>` vs `(x) =>`) and tok_ok from wf + lexical sanity of names / number texts remain open; that the layout's line breaks are where grammar.pest admits NEWLINE "
            "(C07_layout_parses_full) is stated, not proved: both decided on every run by the FORMAT-items stream (real "
            "format_expr output at the widths where the layout changes, under the lexical view toks/canon evaluated by "
            "vm_compute and by a Python twin) and by the re-parse search; finding F55 (CRLF dropped by the via/into/where layout) was "
            "repaired in /repo 5eeeb29 (C07_relined_identity, C07_layout_crlf_repaired). "
            "Character level, first step (C07_atoms_relex, over the PEG model of the regenerated grammar that C10 "
            "compares pair-for-pair with pest's parser): the text of every atom the printer emits — string literal in "
            "the quote style quote_string chooses (any UTF-8-shaped content, any continuation), identifier, true / false "
            "/ null, any text of the number rule's language — re-lexes to exactly that atom's pair with the full span",
    "note": "trusted: Coq kernel + vm_compute; translate/prec_table.py; hand transcription of ast_to_source.rs and of "
            "pest's Pratt parser (both validated by correspondence on every run); the character level of the grammar "
            "(token lexing, NEWLINE admission in the multi-line layouts of formatter.rs) is decided by search on the "
            "real parser, not by proof; number text is an oracle (property C16); no axioms",
    "design_ref": "DESIGN.md section 6 C07; notes/C07.md",
}
REQ = ["Blots.Num", "Blots.gen.Builtins", "Blots.Ast", "Blots.Outcome", "Blots.PrattTypes", "Blots.gen.PrecTable",
       "Blots.Pratt", "Blots.PrattRender", "Blots.Printer"]

# class -> (stream, source, width): the witness of each known-finding class
PROBES = {
    "unary-operand": ("print", "y = -(x + k)", 0),
    "postfix-operand": ("print", "(x + 1)!", 0),
    "open-left": ("print", "(if c then 1 else 2) + 1", 0),
    "binary-right": ("print", "a and (b or c)", 0),
    "binary-left": ("print", "(a ^ b) ?? c", 0),
    "lambda-body": ("print", "f = x => (a via g)", 0),
    "quote": ("print", "s = 'a\"b'", 0),
    "do-minus": ("print", "do {\n  a; -b\n  return 1\n}", 0),
    "if-newline": ("format", "x = if aaaaaaaaaa then 1 else 2", 10),
    "do-comment": ("format", "do {\n  q = 1// c2\n  return q\n}", 0),
    "crlf-lines": ("format", "xs = [1]\nr = xs via x => \"a\r\nb\"", 0),
    "inf-literal": ("format", "x = 1e999", 0),
}
PARENS_CLASSES = ["unary-operand", "postfix-operand", "open-left", "binary-right", "binary-left", "lambda-body"]
WIDTHS_QUICK = [0, 1, 8, 20, 40]

# NUMBER-LEAVES family (round 7, after seed C07-11: integral literals >= 2^63 printed through `as i64`): number
# literals from the boundary classes of the printer's integer / decimal / exponent branches, in every position a
# number can take.  The literals of NUMLEAF_OVERFLOW denote +-infinity (class "inf-literal").
NUMLEAF_POOL = [
    "9007199254740991", "9007199254740992", "9007199254740993", "999999999999999", "1000000000000000",
    "1e15", "1e16", "9223372036854775807", "9223372036854775808", "9223372036854777856", "1e19",
    "18446744073709551615", "18446744073709551616", "36893488147419103232", "1e21", "1e22", "1e23",
    "123456789012345678901234567890", "602214076000000000000000", "1.5e300", "1e308", "1.7976931348623157e308",
    "0xFFFFFFFFFFFFFFFF", "0x8000000000000000", "0x7FFFFFFFFFFFFFFF", "0x10000000000000000",
    "0b1" + "0" * 63, "0b1" + "0" * 64, "0b" + "1" * 64,
    "4.9e-324", "5e-324", "2.2250738585072014e-308", "1e-7", "0.000001", "1.0000000000000002", "0.1",
    "0.30000000000000004", "123456.789e3", "4503599627370496.5", "4503599627370497.5", "0.5", "2.5e-10",
    "1_000_000_000_000_000_000_000", "100000000000000000000.0", "0.0", "00012", "1.e3" ]
NUMLEAF_OVERFLOW = ["1e999", "1e309", "1.8e308", "2e308"]
NUMLEAF_CONTEXTS = ["x = %s", "%s", "x = -%s", "x = [%s, 1]", "x = {k: %s}", "x = f(%s)", "x = a + %s * 2",
                    "g = y => y + %s", "x = if c then %s else 0", "x = %s / %s",
                    "x = do {\n  t = %s\n  return t\n}", "x = [1, 2] via (e => e + %s)", "x = l[%s]", "x = %s!"]


def numleaf_family():
    out = []
    for lit in NUMLEAF_POOL + NUMLEAF_OVERFLOW:
        for ctx in NUMLEAF_CONTEXTS:
            out.append(ctx.replace("%s", lit))
    return out


_OVERFLOW_LIT = re.compile(r"(?<![\w.])(\d[\d_]*(?:\.\d*)?(?:[eE][+-]?\d+)?)")


def has_overflow_literal(src):
    """a decimal number token whose value is +-infinity (1e999): printed as the identifier `inf`"""
    for m in _OVERFLOW_LIT.finditer(src):
        t = m.group(1).replace("_", "")
        try:
            if float(t) == float("inf"):
                return True
        except ValueError:
            pass
    return False


def hx(s):
    return c.hexs(s)


def run_print(h, srcs, comments=False):
    outs = c.harness_lines_resilient(h, "print07", [hx(s) for s in srcs], ["--comments"] if comments else [])
    res = []
    for o in outs:
        if o in ("REJECT", "GLUEERR", "BADUTF8", "") or o.startswith("PANIC") or o.startswith("ABORT"):
            res.append(o or "EMPTY")
            continue
        stmts = []
        for st in o.split(" ;; "):
            f = st.split(" | ")
            if len(f) != 4:
                stmts = None
                break
            kind, term = f[0][0], f[0][2:]
            stmts.append({"kind": kind, "term": term, "text": bytes.fromhex(f[1]).decode("utf-8", "replace"),
                          "hex": f[1], "rt": f[2], "classes": [] if f[3] == "-" else f[3].split(",")})
        res.append(stmts if stmts is not None else "BADLINE " + o[:200])
    return res


def wasm_loop_args():
    """the harness copy of the blots-wasm statement loop follows the tree under test"""
    try:
        with open(os.path.join(c.REPO, "blots-wasm", "src", "lib.rs")) as f:
            return ["--leading-minus"] if "protect_leading_minus" in f.read() else []
    except OSError:
        return []


def run_format(h, cases):
    """cases: list of (src, width) -> list of dict / error string"""
    outs = c.harness_lines_resilient(h, "format07", ["%s\t%d" % (hx(s), w) for s, w in cases], wasm_loop_args())
    res = []
    for o in outs:
        parts = o.split(" ")
        if len(parts) != 2 or not parts[0].startswith("L:"):
            res.append(o or "EMPTY")
            continue
        lf = parts[0].split(":")
        res.append({"L": lf[1], "Ltext": bytes.fromhex(lf[2]).decode("utf-8", "replace"),
                    "EV": parts[1].split(":")[1]})
    return res


def format_classes(src, r):
    """known-finding classes of a FORMAT case that are decided at the layout level"""
    cl = set()
    if if_newline(r["Ltext"]):
        cl.add("if-newline")
    if crlf_lines(src):
        cl.add("crlf-lines")
    if has_overflow_literal(src):
        cl.add("inf-literal")
    return cl


def crlf_lines(src):
    """the inputs of finding F55: a "\\r\\n" (only possible inside a string literal once parsed) in a program that
    uses via / into / where (format_binary_op_multiline re-assembles a lambda right operand from str::lines())"""
    return "\r\n" in src and re.search(r"\b(via|into|where)\b", src) is not None


# CR / CRLF inside string literals of via / into / where right-hand lambdas (and controls elsewhere)
CRLF_FAMILY = [
    'xs = [1]\nr = xs via x => "a\r\nb"',
    'xs via x => "a\r\nb"',
    'xs into x => "a\r\n\r\nb" + x',
    'xs where (x, i) => x == "p\r\nq"',
    'xs via x => do {\n  y = "l1\r\nl2"\n  return y + x\n}',
    'xs via x => {k: "a\r\nb", j: [x, "c\rd"]}',
    '(xs via x => "a\r\nb") via y => y',
    'f(xs via x => "a\r\nb", 2)',
    '[xs into x => \'q\r\n"r\', 1]',
    's = "a\r\nb"',
    '["a\r\nb", "c\rd"] via x => x',
    'xs via x => "a\rb"',
    'xs via x => "a\nb"',
]


def if_newline(text):
    """the layout of finding F18: a line that ends with the keyword `if`"""
    return any(re.search(r"(^|[^A-Za-z0-9_#.])if$", line.rstrip()) for line in text.split("\n"))


def has_do_trailing_comment(h, srcs):
    """per source: does a do-block statement carry a trailing comment (class do-comment)?"""
    outs = c.harness_lines_resilient(h, "parse", [hx(s) for s in srcs], ["--comments"])
    return ["(EDo " in o and _do_trailing(o) for o in outs]


def _do_trailing(term):
    # (EDo [(Cm [..] e (Some ..)); ...] ...): look for a statement-level `(Some (hx` inside an EDo list.
    # Lists and records carry the same wrapper, so this over-approximates; it is only used to classify
    # failures, and the class is reported only while its witness still fails.
    return "(Some (hx" in term


def probe(h, cls):
    stream, src, w = PROBES[cls]
    if stream == "print":
        r = run_print(h, [src])[0]
        if isinstance(r, str):
            return True
        return any(s["rt"] != "SAME" for s in r)
    r = run_format(h, [(src, w)])[0]
    if isinstance(r, str):
        return True
    return r["L"] != "SAME"


def modelled_numbers(term):
    """the Coq-side number text (PrattRender.num_text) covers non-negative integers below 10^15"""
    import struct
    for m in re.finditer(r"\(nb 0x([0-9A-Fa-f]{16})\)", term):
        x = struct.unpack(">d", bytes.fromhex(m.group(1)))[0]
        if not (x == x and 0 <= x < 1e15 and x == int(x)) or (x == 0 and m.group(1)[0] in "89abcdefABCDEF"):
            return False
    return True


def coq_fx(flags):
    return "(Fx %s %s %s)" % tuple("true" if flags[k] else "false" for k in ("parens", "quote", "dominus"))


def cli_format(cli, src, workdir, idx):
    """the real binary: blots --format IN OUT (stdin closed)"""
    fin = os.path.join(workdir, "in%d.blots" % idx)
    fout = os.path.join(workdir, "out%d.blots" % idx)
    with open(fin, "w") as f:
        f.write(src)
    if os.path.exists(fout):
        os.remove(fout)
    p = subprocess.run([cli, "--format", fin, fout], stdin=subprocess.DEVNULL, capture_output=True, text=True,
                       timeout=60)
    if p.returncode != 0 or not os.path.exists(fout):
        return None, p.returncode
    with open(fout) as f:
        return f.read(), 0


def replay_case(h, cli, path):
    with open(path) as f:
        rp = json.load(f)
    if rp.get("no_failing_input_found"):
        print("replay: nothing to re-run (no failing input was found): %s" % json.dumps(rp.get("no_longer_checks"))[:2000])
        return 1
    src = rp["source"]
    w = rp.get("width", 0)
    bad = False
    if rp.get("stream") == "format-items":
        r = run_fmtitems(h, [(src, w)])[0]
        bad = isinstance(r, str)
        for st in ([] if bad else r):
            a, b = py_view(st["out"]), py_view(st["one"])
            print("format_expr (width %s): %r\n  view %r\nexpr_to_source: %r\n  view %r" % (w or "default", st["out"], a, st["one"], b))
            bad = bad or a != b
        print("REPRODUCED" if bad else "not reproduced")
        return 1 if bad else 0
    if rp.get("stream") == "print":
        r = run_print(h, [src])[0]
        print("expr_to_source round trip:", r if isinstance(r, str) else [(s["text"], s["rt"]) for s in r])
        bad = isinstance(r, str) or any(s["rt"] != "SAME" for s in r)
    else:
        r = run_format(h, [(src, w)])[0]
        print("format round trip (width %s):" % (w or "default"), r)
        bad = isinstance(r, str) or r["L"] != "SAME" or r["EV"] == "diff"
        if rp.get("driver") == "cli-binary":
            with tempfile.TemporaryDirectory(dir=c.BUILD) as td:
                t, rc = cli_format(cli, src, td, 0)
                if t is None:
                    print("blots --format failed rc=%s" % rc)
                    bad = True
                else:
                    v = c.harness_lines_resilient(h, "ast07eq", ["%s\t%s" % (hx(src), hx(t))])[0]
                    print("blots --format output re-parsed:", v)
                    bad = bad or v != "SAME"
    print("REPRODUCED" if bad else "not reproduced")
    return 1 if bad else 0


# ---------------------------------------------------------------------- FORMAT-items (C07L)
REQ_L = REQ + ["Blots.Formatter", "Blots.FmtTokens"]
_DELIMS = "()[]{},:"


def py_toks(s):
    """twin of FmtTokens.toks (over the UTF-8 bytes, like the Coq string)"""
    b = s.encode("utf-8") if isinstance(s, str) else s
    out, cur, mode, q = [], bytearray(), "code", 0

    def flush():
        if cur:
            out.append(bytes(cur))
            cur.clear()
    for ch in b:
        if mode == "code":
            if ch in (32, 9, 10, 13):
                flush()
            elif ch in _DELIMS.encode():
                flush()
                out.append(bytes([ch]))
            elif ch in (34, 39):
                flush()
                cur.append(ch)
                mode, q = "str", ch
            elif ch == 47 and cur and cur[-1] == 47:
                cur.pop()
                flush()
                mode = "com"
            else:
                cur.append(ch)
        elif mode == "str":
            cur.append(ch)
            if ch == q:
                out.append(bytes(cur))
                cur.clear()
                mode = "code"
        else:
            if ch == 10:
                mode = "code"
    flush()
    return out


def _is_name(t):
    return len(t) > 0 and all(48 <= ch <= 57 or 65 <= ch <= 90 or 97 <= ch <= 122 or ch == 95 for ch in t)


def py_canon(l):
    """twin of FmtTokens.canon"""
    out, i = [], 0
    while i < len(l):
        t = l[i]
        if t == b"," and i + 1 < len(l) and l[i + 1] in (b")", b"]", b"}"):
            i += 1
        elif t == b"(" and i + 3 < len(l) and _is_name(l[i + 1]) and l[i + 2] == b")" and l[i + 3] == b"=>":
            out += [l[i + 1], l[i + 3]]
            i += 4
        else:
            out.append(t)
            i += 1
    return out


def py_view(s):
    return py_canon(py_toks(s))


def run_fmtitems(h, cases):
    outs = c.harness_lines_resilient(h, "fmtitems07", ["%s\t%d" % (hx(s), w) for s, w in cases])
    res = []
    for o in outs:
        if o in ("REJECT", "GLUEERR", "BADUTF8", "") or o.startswith("PANIC") or o.startswith("ABORT"):
            res.append(o or "EMPTY")
            continue
        stmts = []
        for st in o.split(" ;; "):
            f = st.split(" | ")
            if len(f) != 3:
                stmts = None
                break
            stmts.append({"kind": f[0][0], "term": f[0][2:], "outhex": f[1],
                          "out": bytes.fromhex(f[1]).decode("utf-8", "replace"),
                          "one": bytes.fromhex(f[2]).decode("utf-8", "replace")})
        res.append(stmts if stmts is not None else "BADLINE " + o[:200])
    return res


def format_items_stream(h, res, rng, tier, flags, sources, crlf_open, failures):
    """FORMAT-items: what format_expr really outputs, at the widths where its layout changes, under the
    layout-erasing view of coq/FmtTokens.v.  Per statement:
      (impl)  view(format_expr(ast, w)) == view(expr_to_source(ast))           [Python twin of toks/canon]
      (model) lview(real output) evaluated by vm_compute == lview(print_text FX ast) (the model's one-line
              text, = items_text7 o print_items by C07_items_render), and the Coq view == the twin's view."""
    sources = list(dict.fromkeys(sources))
    wide = run_fmtitems(h, [(s, 100000) for s in sources])
    cases = []
    for s, r in zip(sources, wide):
        if isinstance(r, str) or not r:
            continue
        L = max(max(len(line) for line in st["out"].split("\n")) for st in r)
        for w in sorted({L, max(1, L - 1), max(1, L // 2), max(1, (2 * L) // 3), 1, 1 + rng.below(max(2, L))}):
            cases.append((s, w))
    got = run_fmtitems(h, cases)
    exprs, index = [], []
    n_stmt = n_multi = impl_diff = covered = skipped_num = 0
    kinds = {}
    for ci, r in enumerate(got):
        if isinstance(r, str):
            if r.startswith("PANIC") or r.startswith("ABORT") or r.startswith("BADLINE"):
                res.violation("format_expr aborts on a generated program",
                              {"stream": "format-items", "source": cases[ci][0], "width": cases[ci][1], "observed": r})
            continue
        for j, st in enumerate(r):
            n_stmt += 1
            multi = "\n" in st["out"]
            m = re.match(r"\(?(E[A-Za-z]+)", st["term"])
            root = m.group(1) if m else "?"
            if root == "EOutput":
                m2 = re.match(r"\(EOutput \(?(E[A-Za-z]+)", st["term"])
                root = "EOutput/" + (m2.group(1) if m2 else "?")
            k = kinds.setdefault(root, {"statements": 0, "multi_line": 0})
            k["statements"] += 1
            k["multi_line"] += multi
            n_multi += multi
            va, vb = py_view(st["out"]), py_view(st["one"])
            if va != vb:
                impl_diff += 1
                src, w = cases[ci]
                if crlf_open and crlf_lines(src):
                    covered += 1
                    failures["crlf-lines"] = failures.get("crlf-lines", 0) + 1
                elif len(res.violations) < 5:
                    res.violation("a layout of format_expr changes the token stream of the expression (other than blanks, "
                                  "line breaks, trailing commas, single-parameter parentheses)",
                                  {"stream": "format-items", "driver": "format_expr", "source": src, "width": w,
                                   "observed": {"formatted": st["out"][:2000],
                                                "view": [t.decode("utf-8", "replace") for t in va][:400]},
                                   "expected": {"expr_to_source": st["one"][:2000],
                                                "view": [t.decode("utf-8", "replace") for t in vb][:400]},
                                   "rerun": "./check C07 --replay <this file>"})
            if not modelled_numbers(st["term"]):
                skipped_num += 1
                continue
            exprs.append('show_fmtview %s %d%%nat %s (hx "%s")' % (coq_fx(flags), cases[ci][1], st["term"], st["outhex"]))
            index.append((ci, j))
    try:
        model = c.coq_eval_batch(REQ_L, "", exprs, "c07fmtitems")
    except c.BrokenTie as e:
        res.tie_broken(e.what, e.detail)
        model = [None] * len(exprs)
    mism, validated, model_diff = [], 0, 0
    for (ci, j), m in zip(index, model):
        st = got[ci][j]
        src, w = cases[ci]
        if m is None:
            mism.append((src, w, "model evaluation failed"))
            continue
        verdict, _, vhex = m.partition(" ")
        twin = ",".join(t.hex() for t in py_view(st["out"]))
        impl_same = py_view(st["out"]) == py_view(st["one"])
        if vhex.lower() != twin:
            mism.append((src, w, "toks/canon: Coq view and twin view of the real output differ: %r" % st["out"][:300]))
        elif (verdict == "SAME") != impl_same:
            mism.append((src, w, "the model says %s (lview of the real output vs lview of print_text), the implementation "
                                 "texts say %s: %r" % (verdict, "SAME" if impl_same else "DIFF", st["out"][:300])))
        else:
            validated += 1
            model_diff += verdict != "SAME"
    if mism:
        res.tie_broken("correspondence C07/FORMAT-items: %d of %d statements" % (len(mism), len(exprs)),
                       "first: source %r width %d: %s" % mism[0])
    res.streams["FORMAT-items"] = {
        "programs": len(sources), "cases_program_x_width": len(cases), "statements": n_stmt,
        "multi_line_outputs": n_multi, "by_root_node_kind": dict(sorted(kinds.items())),
        "widths": "per program: L = longest line of the widest layout; {L, L-1, 2L/3, L/2, 1, one random below L}",
        "impl_view_differs": impl_diff, "covered_by_open_finding_crlf_lines": covered,
        "model_statements": len(exprs), "model_validated": validated, "model_view_differs": model_diff,
        "mismatches": len(mism), "skipped_number_text_oracle": skipped_num}
    return len(cases)


# ---------------------------------------------------------------------- statement sequences (both drivers + model)
def cli_eval(cli, path):
    """the real binary evaluating a file (stdin closed): what `blots FILE` prints"""
    try:
        p = subprocess.run([cli, path], stdin=subprocess.DEVNULL, capture_output=True, text=True, timeout=60)
    except subprocess.TimeoutExpired:
        return "TIMEOUT"
    plain = lambda t: re.sub(r"\x1b\[[0-9;]*m", "", t).strip()
    return "rc=%d stdout=%s stderr=%s" % (p.returncode, plain(p.stdout)[:600], plain(p.stderr)[:300])


def sequence_stream(h, cli, res, seed, tier, open_classes, failures):
    """SEQUENCES: the statement loops (blots --format binary, library loop, do-block layouts) on enumerated
    statement sequences (checks/c07_gen.py::statement_sequences): a statement by the first token of its formatted
    text x the kind of statement before it x what stands between them (line break, blank lines, comment lines,
    end-of-line comment, CRLF) x what follows, at the top level and inside a do-block.
      (impl, binary)  parse(blots --format output) == parse(source)                    [every case]
      (impl, library) the same through the format_blots loop at several widths + equal evaluation outcomes
      (model)         the text of coq/Formatter.v::format_cli (run_cli, vm_compute) == the binary's output text
    -> number of evaluations"""
    import c0809_lib as L08
    rng = c.Rng(seed ^ 0x5E0C07)
    quick = tier == "quick"
    fam = g.statement_sequences(rng, not quick)
    if not quick:
        # the full product is run through the library loop; the binary (one process per file) gets a sample of it
        cli_idx = sorted({rng.below(len(fam)) for _ in range(6000)})
    else:
        cli_idx = list(range(len(fam)))
    dist = {}
    for _, tg in fam:
        for k in ("container", "first_token", "sep", "prev", "tail"):
            d = dist.setdefault(k, {})
            d[tg[k]] = d.get(tg[k], 0) + 1

    def classes_of(srcs, outs):
        cls_p = run_print(h, srcs, comments=True)
        dtr = has_do_trailing_comment(h, srcs)
        res_ = []
        for k, src in enumerate(srcs):
            cl = set()
            if not isinstance(cls_p[k], str):
                for st in cls_p[k]:
                    cl |= set(st["classes"])
            if dtr[k]:
                cl.add("do-comment")
            if if_newline(outs[k]):
                cl.add("if-newline")
            if crlf_lines(src):
                cl.add("crlf-lines")
            res_.append(cl)
        return res_

    reported = set()

    def report(src, tg, width, cl, observed, driver):
        covered = sorted(cl & open_classes)
        if covered:
            for k in covered:
                failures[k] = failures.get(k, 0) + 1
            return
        # at most two reports per driver and one per source, so that each entry point can surface under the cap
        if (driver, src) in reported or sum(1 for d, _ in reported if d == driver) >= 2:
            return
        if len(res.violations) < 6:
            reported.add((driver, src))
            res.violation("a statement sequence is formatted into a program with other statements (%s)" % driver,
                          {"stream": "format", "driver": driver, "family": "statement-sequences", "case": tg,
                           "source": src, "width": width, "observed": observed,
                           "finding_classes_of_input": sorted(cl),
                           "expected": "parse(output) == parse(source): the same number of statements with the same "
                                       "trees (span-blind, comments ignored), hence the same evaluation",
                           "rerun": "./check C07 --replay <this file>"})

    # (library loop; the do-block layouts are reached through it at every width)
    lcases = []
    for s, tg in fam:
        for w in sorted({0, 1, 30, 1 + rng.below(120)}):
            lcases.append((s, w, tg))
    lr = run_format(h, [(s, w) for s, w, _ in lcases])
    lverd = {}
    lbad = []
    for k, r in enumerate(lr):
        key = r[:8] if isinstance(r, str) else "L:%s EV:%s" % (r["L"], r["EV"])
        lverd[key] = lverd.get(key, 0) + 1
        if isinstance(r, str) or r["L"] != "SAME" or r["EV"] == "diff":
            lbad.append(k)
    lcl = classes_of([lcases[k][0] for k in lbad], [lr[k]["Ltext"] if not isinstance(lr[k], str) else "" for k in lbad])
    for k, cl in zip(lbad, lcl):
        s, w, tg = lcases[k]
        r = lr[k]
        report(s, tg, w, cl, r if isinstance(r, str) else
               {"library_loop": r["L"], "evaluation": r["EV"], "formatted": r["Ltext"][:2000]}, "format_expr")

    # (the one-line printer on the trees WITH their comments: the do-block arm of expr_to_source)
    psrcs = [s for s, _ in fam]
    pr = run_print(h, psrcs, comments=True)
    pverd = {}
    for (s, tg), r in zip(fam, pr):
        if isinstance(r, str):
            pverd[r[:8]] = pverd.get(r[:8], 0) + 1
            if r.startswith("PANIC") or r.startswith("ABORT"):
                report(s, tg, 0, set(), r, "expr_to_source")
            continue
        for st in r:
            pverd[st["rt"]] = pverd.get(st["rt"], 0) + 1
            if st["rt"] != "SAME":
                cl = set(st["classes"]) | ({"crlf-lines"} if crlf_lines(s) else set())
                if len(res.violations) < 6 and not (cl & open_classes) and not any(d == "expr_to_source" for d, _ in reported):
                    reported.add(("expr_to_source", s))
                    res.violation("a statement sequence (do-block with comments) is printed by expr_to_source into another program",
                                  {"stream": "print", "driver": "expr_to_source", "family": "statement-sequences", "case": tg,
                                   "source": s, "observed": "%s: %r" % (st["rt"], st["text"][:2000]),
                                   "finding_classes_of_input": sorted(cl),
                                   "rerun": "./check C07 --replay <this file>"})
                else:
                    for k in sorted(cl & open_classes):
                        failures[k] = failures.get(k, 0) + 1

    # (the real binary)
    cli_same = cli_diff = cli_rej = protected = 0
    texts = {}
    os.makedirs(c.BUILD, exist_ok=True)
    with tempfile.TemporaryDirectory(dir=c.BUILD) as td:
        for i in cli_idx:
            t, rc = cli_format(cli, fam[i][0], td, 0)
            texts[i] = t
        ok_idx = [i for i in cli_idx if texts[i] is not None]
        cli_rej = len(cli_idx) - len(ok_idx)
        eqs = c.harness_lines_resilient(h, "ast07eq", ["%s\t%s" % (hx(fam[i][0]), hx(texts[i])) for i in ok_idx])
        bad = [(i, v) for i, v in zip(ok_idx, eqs) if v != "SAME"]
        cli_diff = len(bad)
        cli_same = len(ok_idx) - cli_diff
        protected = sum(1 for i in ok_idx if any(l.lstrip().startswith("(-") for l in texts[i].split("\n")))
        bcl = classes_of([fam[i][0] for i, _ in bad], [texts[i] for i, _ in bad])
        # what the binary evaluates for the source and for its own output (first 60 failures; the ones whose
        # results differ are reported first)
        evs = {}
        for (i, v), cl in list(zip(bad, bcl))[:60]:
            if cl & open_classes:
                continue
            fin, fout = os.path.join(td, "ev_in.blots"), os.path.join(td, "ev_out.blots")
            with open(fin, "w") as f:
                f.write(fam[i][0])
            with open(fout, "w") as f:
                f.write(texts[i])
            evs[i] = (cli_eval(cli, fin), cli_eval(cli, fout))
        order = sorted(range(len(bad)), key=lambda k: 0 if bad[k][0] in evs and evs[bad[k][0]][0] != evs[bad[k][0]][1] else 1)
        for k in order:
            (i, v), cl = bad[k], bcl[k]
            src, tg = fam[i]
            obs = {"binary_output": texts[i][:2000], "reparse": v}
            if i in evs:
                obs["blots_source"], obs["blots_formatted"] = evs[i]
            report(src, tg, 0, cl, obs, "cli-binary")
    if cli_rej * 50 > len(cli_idx):
        res.tie_broken("SEQUENCES: blots --format rejects %d of %d generated statement sequences (the grammar admits "
                       "all of them on the pinned tree)" % (cli_rej, len(cli_idx)),
                       "first: %r" % [fam[i][0] for i in cli_idx if texts[i] is None][0])

    # (model: the CLI driver of coq/Formatter.v against the binary's text, on the same sequences)
    midx = [i for i in ok_idx if rng.chance(1, 3 if fam[i][1]["first_token"] == "-" else 10)]
    if not quick:
        midx = midx[:3000]
    mism, validated = [], 0
    try:
        ok, log = c.coq_make(["gen/ParensTable.vo", "Formatter.vo"])
        if not ok:
            raise c.BrokenTie("coq build of the formatter model (gen/ParensTable.vo, Formatter.vo)", log[-3000:])
        mod = L08.model_format(h, [(fam[i][0], None, "cli") for i in midx], "c07seq")
    except c.BrokenTie as e:
        res.tie_broken(e.what, e.detail)
        mod = None
    if mod is not None:
        for i, m in zip(midx, mod):
            if m is None:
                mism.append((fam[i][0], texts[i], "model evaluation failed"))
            elif m[0] != "OK" or m[1] != texts[i]:
                mism.append((fam[i][0], texts[i], m[1] if m[0] == "OK" else m[0]))
            else:
                validated += 1
        if mism:
            res.tie_broken("correspondence C07/SEQUENCES: the model of the --format loop (Formatter.v format_cli) and the "
                           "binary disagree on %d of %d statement sequences" % (len(mism), len(midx)),
                           "first: source=%r binary=%r model=%r" % mism[0])
    res.streams["SEQUENCES"] = {
        "programs": len(fam), "enumeration": "full product" if not quick else
        "every (separator, statement), (earlier statement, statement), (head, statement) pair in each container",
        "distribution": {k: dict(sorted(v.items())) for k, v in dist.items()},
        "library_loop_cases": len(lcases), "library_widths": "default, 1, 30, one random in 1..120",
        "library_verdicts": dict(sorted(lverd.items())),
        "expr_to_source_with_comments_statements": dict(sorted(pverd.items())),
        "cli_binary_cases": len(cli_idx), "cli_same": cli_same, "cli_diff": cli_diff, "cli_input_rejected": cli_rej,
        "cli_outputs_with_a_protected_leading_minus": protected,
        "model_cases": len(midx), "model_validated": validated, "model_mismatches": len(mism)}
    return len(lcases) + len(cli_idx) + len(midx) + len(psrcs)


def main(argv):
    tier, seed, replay = c.tier_and_seed(argv)
    res = c.Result(PID, tier, seed)
    rng = c.Rng(seed)
    try:
        h = c.build_harness()
        cli = c.build_cli("release")
        c.regen_builtins(h)
        c10.regen_prec(h)
        c.regen_all(h)            # Properties/C07.v (AtomLayer) also needs gen/Grammar.v, IdentRules.v, NumGrammar.v
    except c.BrokenTie as e:
        res.tie_broken(e.what, e.detail)
        return res.finish()
    if replay:
        return replay_case(h, cli, replay)

    c.proof_step(res, PID)

    known = {e.get("class_tag"): e for e in c.open_known(PID)}
    reproduces = {cls: probe(h, cls) for cls in PROBES}
    # which proposed repairs are present in the tree under test (decides which version of the model is compared)
    # A repair that is recorded as fixed (no open entry) is compared strictly against the repaired model;
    # while an entry is open, the probes decide (so a tree with or without the proposed patch both check).
    def repaired(classes):
        if not any(k in known for k in classes):
            return True
        return not any(reproduces[k] for k in classes)
    flags = {"parens": repaired(PARENS_CLASSES), "quote": repaired(["quote"]), "dominus": repaired(["do-minus"])}
    open_classes = {cls for cls in PROBES if reproduces[cls] and cls in known}
    unlisted = [cls for cls in PROBES if reproduces[cls] and cls not in known]

    # ------------------------------------------------------------------ PRINT correspondence
    ex2 = g.exhaustive(2)
    ex3 = g.exhaustive(3)
    tg = g.TreeGen(rng)
    n_ex3 = 1500 if tier == "quick" else 20000
    n_rand = 600 if tier == "quick" else 6000
    sample3 = [ex3[rng.below(len(ex3))] for _ in range(n_ex3)]
    rand = [("random", tg.tree(2 + rng.below(3))) for _ in range(n_rand)]
    corr_cases = ex2 + sample3 + rand
    pr = run_print(h, [s for _, s in corr_cases])
    exprs, index = [], []
    rejected = num_skipped = 0
    for i, r in enumerate(pr):
        if isinstance(r, str):
            rejected += 1
            if r.startswith("PANIC") or r.startswith("ABORT") or r.startswith("BADLINE"):
                res.violation("the parser / printer aborts on a generated program",
                              {"stream": "print", "source": corr_cases[i][1], "observed": r})
            continue
        for j, st in enumerate(r):
            if not modelled_numbers(st["term"]):
                num_skipped += 1
                continue
            exprs.append("show_print %s %d%%nat %s" % (coq_fx(flags), j, st["term"]))
            index.append((i, j))
    try:
        model = c.coq_eval_batch(REQ, "", exprs, "c07print")
    except c.BrokenTie as e:
        res.tie_broken(e.what, e.detail)
        model = [None] * len(exprs)
    mism = []
    validated = 0
    rt_hist = {}
    for (i, j), m in zip(index, model):
        st = pr[i][j]
        rt_hist[st["rt"]] = rt_hist.get(st["rt"], 0) + 1
        if m is None:
            mism.append((i, j, "model evaluation failed", ""))
            continue
        mh, mrt, mcl = m.split("|")
        want_rt = "SAME" if st["rt"] == "SAME" else "NOTSAME"
        got_cl = ",".join(st["classes"]) or "-"
        if mh != st["hex"]:
            mism.append((i, j, "text", "model %r impl %r" % (bytes.fromhex(mh).decode("utf-8", "replace"), st["text"])))
        elif mrt != want_rt:
            mism.append((i, j, "round trip", "model predicts %s, implementation %s (text %r)" % (mrt, st["rt"], st["text"])))
        elif mcl != got_cl:
            mism.append((i, j, "finding classes", "model %s harness %s" % (mcl, got_cl)))
        else:
            validated += 1
    if mism:
        i, j, what, det = mism[0]
        res.tie_broken("correspondence C07/PRINT: model and implementation disagree on %d of %d statements "
                       "(model version: parens=%s quote=%s dominus=%s)" % (len(mism), len(exprs), flags["parens"],
                                                                            flags["quote"], flags["dominus"]),
                       "first (%s): source %r: %s" % (what, corr_cases[i][1], det))
    res.streams["PRINT"] = {"cases": len(corr_cases), "statements": len(exprs), "mismatches": len(mism),
                            "exhaustive_depth2": len(ex2), "sampled_depth3": len(sample3), "random": len(rand),
                            "rejected_inputs": rejected, "skipped_number_text_oracle": num_skipped, "impl_round_trip": rt_hist,
                            "model_version": flags}

    # ------------------------------------------------------------------ search: the property on the real code
    failures = {}           # class-set key -> count
    n_eval = 0
    distinct = set()

    def classify_and_report(stream, src, width, classes, observed, driver):
        covered = sorted(set(classes) & open_classes)
        if covered:
            for k in covered:
                failures[k] = failures.get(k, 0) + 1
            return
        if len(res.violations) < 5:
            res.violation("formatted / printed program does not parse back to the same program",
                          {"stream": stream, "driver": driver, "source": src, "width": width,
                           "observed": observed, "finding_classes_of_input": sorted(classes),
                           "expected": "parse(output) == parse(source) (span-blind AST equality, comments ignored)",
                           "rerun": "./check C07 --replay <this file>"})

    # (a) expr_to_source on every depth-3 combination
    pr3 = run_print(h, [s for _, s in ex3])
    n_eval += len(ex3)
    for (lab, src), r in zip(ex3, pr3):
        if isinstance(r, str):
            if r.startswith("PANIC") or r.startswith("ABORT"):
                classify_and_report("print", src, 0, [], r, "expr_to_source")
            continue
        distinct.add(src)
        for st in r:
            if st["rt"] != "SAME":
                classify_and_report("print", src, 0, st["classes"], "%s: %r" % (st["rt"], st["text"]), "expr_to_source")
    # (b) format_expr through both statement loops
    fam = [s for _, s in ex2]
    n3f = 4000 if tier == "quick" else 60000
    fam3 = [ex3[rng.below(len(ex3))][1] for _ in range(n3f)]
    nprog = 1500 if tier == "quick" else 20000
    progs = [g.random_program(rng, tg, 1 + rng.below(4)) for _ in range(nprog)]
    evgen = Gen(rng, allow_fail=False)
    evprogs = ["\n".join(evgen.program(3 + rng.below(6))) for _ in range(300 if tier == "quick" else 4000)]
    fcases = []
    # corpus: minimized cases of every finding and of earlier failures of proposed fixes (run first)
    cdir = os.path.join(c.VERIF, "corpus", PID)
    for fn in sorted(os.listdir(cdir)) if os.path.isdir(cdir) else []:
        if fn.endswith(".json"):
            with open(os.path.join(cdir, fn)) as f:
                cc = json.load(f)
            fcases.append((cc["source"], cc.get("width", 0)))
    n_corpus = len(fcases)
    for s in fam:
        for w in WIDTHS_QUICK:
            fcases.append((s, w))
    for s in fam3 + progs + evprogs:
        fcases.append((s, rng.choice([0, 0, 1 + rng.below(120), 1 + rng.below(30)])))
    # commented containers under every parent shape and pair of parents (checks/c09_contexts.py): the layouts
    # that are only taken when a comment is present must preserve the meaning too
    import c09_contexts as X
    ctx_progs = [sx for sx, _, _ in X.programs(rng, 200 if tier == "quick" else 20000)]
    for sx in ctx_progs:
        fcases.append((sx, rng.choice([0, 0, 40, 1 + rng.below(120)])))
    for sx in CRLF_FAMILY:
        for w in WIDTHS_QUICK + [30, 1 + rng.below(120)]:
            fcases.append((sx, w))
    numleaf = numleaf_family()
    for sx in numleaf:
        for w in (0, 12):
            fcases.append((sx, w))
    fr = run_format(h, fcases)
    n_eval += len(fcases)
    # classes of the inputs (from the AST, by the harness twin of Printer.v known_classes)
    need_cls = [i for i, r in enumerate(fr) if not isinstance(r, str) and (r["L"] != "SAME" or r["EV"] == "diff")]
    cls_pr = run_print(h, [fcases[i][0] for i in need_cls], comments=True)
    do_tr = has_do_trailing_comment(h, [fcases[i][0] for i in need_cls])
    verdicts = {}
    ev_same = ev_diff = 0
    for r in fr:
        if isinstance(r, str):
            verdicts[r[:8]] = verdicts.get(r[:8], 0) + 1
        else:
            verdicts["L:" + r["L"]] = verdicts.get("L:" + r["L"], 0) + 1
            ev_same += r["EV"] == "same"
            ev_diff += r["EV"] == "diff"
            distinct.add(r["Ltext"])
    for pos, i in enumerate(need_cls):
        src, w = fcases[i]
        r = fr[i]
        cl = set(format_classes(src, r))
        if not isinstance(cls_pr[pos], str):
            for st in cls_pr[pos]:
                cl |= set(st["classes"])
        if do_tr[pos]:
            cl.add("do-comment")
        if r["L"] in ("EMPTY",):
            continue
        classify_and_report("format", src, w, cl,
                            {"library_loop": r["L"], "evaluation": r["EV"],
                             "formatted": r["Ltext"][:2000]}, "format_expr")
    for i, r in enumerate(fr):
        if isinstance(r, str) and (r.startswith("PANIC") or r.startswith("ABORT")):
            classify_and_report("format", fcases[i][0], fcases[i][1], [], r, "format_expr")
    # (c) the real binary on a sample (one process per file)
    ncli = 1200 if tier == "quick" else 12000
    cli_cases = ([fam[rng.below(len(fam))] for _ in range(ncli // 4)] + fam3[: ncli // 4] + progs[: ncli // 4]
                 + evprogs[: ncli // 4] + ctx_progs[:: (3 if tier == "quick" else 1)]
                 + numleaf[:: (4 if tier == "quick" else 1)])
    cli_ok = cli_bad = cli_rej = 0
    os.makedirs(c.BUILD, exist_ok=True)
    with tempfile.TemporaryDirectory(dir=c.BUILD) as td:
        outs = []
        for k, src in enumerate(cli_cases):
            t, rc = cli_format(cli, src, td, k % 8)
            outs.append(t)
        pairs = [(s, t) for s, t in zip(cli_cases, outs) if t is not None]
        cli_rej = len(cli_cases) - len(pairs)
        eqs = c.harness_lines_resilient(h, "ast07eq", ["%s\t%s" % (hx(s), hx(t)) for s, t in pairs])
        bad_idx = []
        for k, v in enumerate(eqs):
            if v == "SAME":
                cli_ok += 1
            else:
                cli_bad += 1
                bad_idx.append(k)
        cls_b = run_print(h, [pairs[k][0] for k in bad_idx], comments=True)
        dtr = has_do_trailing_comment(h, [pairs[k][0] for k in bad_idx])
        for pos, k in enumerate(bad_idx):
            cl = set()
            if not isinstance(cls_b[pos], str):
                for st in cls_b[pos]:
                    cl |= set(st["classes"])
            if dtr[pos]:
                cl.add("do-comment")
            if if_newline(pairs[k][1]):
                cl.add("if-newline")
            if crlf_lines(pairs[k][0]):
                cl.add("crlf-lines")
            if has_overflow_literal(pairs[k][0]):
                cl.add("inf-literal")
            classify_and_report("format", pairs[k][0], 0, cl, {"binary_output": pairs[k][1][:2000], "reparse": eqs[k]},
                                "cli-binary")
    n_eval += len(cli_cases)
    res.streams["FORMAT-search"] = {"print_depth3_all": len(ex3), "format_cases": len(fcases), "corpus_cases": n_corpus, "verdicts": verdicts,
                                    "evaluation_same": ev_same, "evaluation_diff": ev_diff,
                                    "cli_binary_cases": len(cli_cases), "cli_same": cli_ok, "cli_diff": cli_bad,
                                    "cli_input_rejected": cli_rej,
                                    "number_leaves_family": {"programs": len(numleaf), "literals": len(NUMLEAF_POOL) + len(NUMLEAF_OVERFLOW),
                                                             "overflow_literals": len(NUMLEAF_OVERFLOW), "contexts": len(NUMLEAF_CONTEXTS)},
                                    "failures_covered_by_open_findings": failures,
                                    "tree_kinds": dict(sorted(tg.stats.items())[:60]),
                                    "eval_program_stats": evgen.stats}
    # ------------------------------------------------------------------ FORMAT-items (the layouts, C07L)
    fi_sources = ([fam[rng.below(len(fam))] for _ in range(500 if tier == "quick" else 4212)]
                  + fam3[: (300 if tier == "quick" else 6000)] + progs[: (150 if tier == "quick" else 3000)]
                  + evprogs[: (60 if tier == "quick" else 1000)] + ctx_progs[: (60 if tier == "quick" else 2000)]
                  + CRLF_FAMILY)
    n_fi = format_items_stream(h, res, rng, tier, flags, fi_sources,
                               "crlf-lines" in open_classes, failures)
    n_eval += n_fi
    # statement sequences through both statement loops and the model of the --format loop
    n_eval += sequence_stream(h, cli, res, seed, tier, open_classes, failures)
    res.coverage["evaluations"] = n_eval + len(corr_cases)
    res.coverage["distinct_nontrivial"] = len(distinct)
    res.coverage["rule"] = ("distinct parsed programs whose printed / formatted text was produced and re-parsed "
                            "(inputs the parser rejects are not counted); the depth-3 family is every context "
                            "(26 binary operators x 2 sides, prefix, postfix, call, index, field, conditional, lambda, "
                            "assignment, do-block, list, record, spread) around every context around every depth-1 child")
    res.coverage["samples"] = [{"source": corr_cases[i][1][:200], "printed": pr[i][0]["text"][:200], "rt": pr[i][0]["rt"]}
                               for i in [rng.below(len(corr_cases)) for _ in range(8)] if not isinstance(pr[i], str)][:5]
    res.coverage["traces_validated_against_impl"] = validated
    res.assumptions = ["number literals in the Coq-side correspondence are non-negative integers below 10^15 (number text "
                       "is property C16's subject); the search uses decimal / hex / binary literals as well",
                       "comments are ignored by the comparison (parse with pairs_to_expr); where they end up is "
                       "properties C08/C09"]
    # ------------------------------------------------------------------ known findings
    for cls in unlisted:
        stream, src, w = PROBES[cls]
        res.violation("a defect class reproduces that is not listed as an open known finding: %s" % cls,
                      {"stream": stream, "source": src, "width": w, "driver": "format_expr",
                       "rerun": "./check C07 --replay <this file>"})
    for e in c.open_known(PID):
        cls = e.get("class_tag")
        tail = "" if reproduces.get(cls, True) else " (no longer reproduces)"
        res.known("%s %s%s" % (e["id"], e["what"], tail))
    return res.finish()


if __name__ == "__main__":
    sys.exit(main(sys.argv[1:]))
