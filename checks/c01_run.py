"""Process-level runner for the C01 crash search: feeds cases to `verif-harness c01` worker
processes, reads the crash journal they write, and identifies exactly the case that killed a
worker (abort, stack overflow, allocation failure) or exceeded the time limit; runs the real
`blots` binary out of process."""
import os
import resource
import subprocess
import tempfile
import threading
import time

import common as c

TMP = os.path.join(c.BUILD, "c01tmp")
AS_LIMIT = 12 << 30          # address-space cap of a worker: allocation failure instead of swapping the box


def _limits():
    try:
        resource.setrlimit(resource.RLIMIT_AS, (AS_LIMIT, AS_LIMIT))
        resource.setrlimit(resource.RLIMIT_CORE, (0, 0))
    except (ValueError, OSError):
        pass


def case_line(kind, a, b=None, cc=None):
    parts = [kind, c.hexs(a)]
    if b is not None or cc is not None:
        parts.append(c.hexs(b if b is not None else ""))
    if cc is not None:
        parts.append(cc if kind == "U" else c.hexs(cc))
    return "\t".join(parts)


def _run_shard(binary, lines, results, offset, case_timeout, env_extra, stats):
    os.makedirs(TMP, exist_ok=True)
    i = 0
    n = len(lines)
    while i < n:
        fd, jpath = tempfile.mkstemp(prefix="j_", dir=TMP)
        os.close(fd)
        fd, ipath = tempfile.mkstemp(prefix="i_", dir=TMP)
        with os.fdopen(fd, "w") as f:
            f.write("\n".join(lines[i:]) + "\n")
        fd, epath = tempfile.mkstemp(prefix="e_", dir=TMP)
        os.close(fd)
        env = dict(os.environ)
        env["C01_JOURNAL"] = jpath
        env["RUST_BACKTRACE"] = "0"
        env.update(env_extra or {})
        with open(ipath) as fin, open(epath, "w") as ferr:
            p = subprocess.Popen([binary, "c01"], stdin=fin, stdout=subprocess.DEVNULL, stderr=ferr, env=env,
                                 preexec_fn=_limits)
            pos = 0
            begun = 0
            ended = 0
            last_begin_t = time.time()
            buf = ""
            killed = False
            last_stage = "-"
            with open(jpath, "r", errors="replace") as jf:
                while True:
                    rc = p.poll()
                    chunk = jf.read()
                    if chunk:
                        buf += chunk
                        while True:
                            k = buf.find("\n")
                            if k < 0:
                                break
                            ln, buf = buf[:k], buf[k + 1:]
                            if ln.startswith("S "):
                                last_stage = ln[2:]
                            elif ln.startswith("B "):
                                begun += 1
                                last_begin_t = time.time()
                                last_stage = "-"
                            elif ln.startswith("E "):
                                sp = ln.split(" ", 2)
                                idx = int(sp[1]) - 1
                                results[offset + i + idx] = sp[2] if len(sp) > 2 else ""
                                ended += 1
                    if rc is not None:
                        if not chunk:
                            break
                        continue
                    if begun > ended and time.time() - last_begin_t > case_timeout:
                        p.kill()
                        p.wait()
                        killed = True
                        # drain what is left
                        continue
                    if not chunk:
                        time.sleep(0.02)
            rc = p.returncode
        with open(epath, "r", errors="replace") as f:
            errtxt = f.read()[-4000:]
        for pth in (jpath, ipath, epath):
            try:
                os.remove(pth)
            except OSError:
                pass
        remaining = n - i
        if begun > ended:
            # cases complete in order, so the one that was running when the worker died is number `ended`
            idx = ended
            if killed:
                results[offset + i + idx] = "TIMEOUT %ds stage=%s" % (case_timeout, last_stage)
                stats["timeouts"] = stats.get("timeouts", 0) + 1
            else:
                why = "stack-overflow" if "overflowed its stack" in errtxt else \
                      "alloc-failure" if "memory allocation of" in errtxt else "abort"
                results[offset + i + idx] = "ABORT rc=%s %s stage=%s %s" % (rc, why, last_stage, c.hexs(errtxt[-300:]))
                stats["aborts"] = stats.get("aborts", 0) + 1
            i += idx + 1
        elif ended >= remaining:
            i = n
        elif ended > 0:
            i += ended
        else:
            # the worker produced nothing at all (could not start): do not loop forever
            results[offset + i] = "ABORT rc=%s startup %s" % (rc, c.hexs(errtxt[-300:]))
            stats["startup_failures"] = stats.get("startup_failures", 0) + 1
            i += 1
            if stats["startup_failures"] > 20:
                break


def run_cases(binary, lines, nproc=6, case_timeout=30, env_extra=None):
    """-> (results parallel to lines, stats)."""
    results = [None] * len(lines)
    stats = {}
    if not lines:
        return results, stats
    nproc = max(1, min(nproc, (len(lines) + 199) // 200))
    per = (len(lines) + nproc - 1) // nproc
    threads = []
    for k in range(nproc):
        chunk = lines[k * per:(k + 1) * per]
        if not chunk:
            continue
        t = threading.Thread(target=_run_shard, args=(binary, chunk, results, k * per, case_timeout, env_extra, stats))
        t.start()
        threads.append(t)
    for t in threads:
        t.join()
    return results, stats


# ------------------------------------------------------------------ the real binary
def run_cli(cli, src, inputs_json=None, timeout=60, fmt=False):
    """blots <file> [-i json]  (or  blots --format in out) with stdin closed.
    -> (exit status | 'timeout', panic text or '')"""
    os.makedirs(TMP, exist_ok=True)
    fd, path = tempfile.mkstemp(prefix="p_", suffix=".blots", dir=TMP)
    with os.fdopen(fd, "wb") as f:
        f.write(src.encode("utf-8"))
    out_path = path + ".out"
    env = dict(os.environ)
    env["RUST_BACKTRACE"] = "0"
    try:
        if fmt:
            cmd = [cli, "--format", path, out_path]
        else:
            cmd = [cli, path] + (["-i", inputs_json] if inputs_json is not None else [])
        try:
            p = subprocess.run(cmd, stdin=subprocess.DEVNULL, stdout=subprocess.PIPE, stderr=subprocess.PIPE,
                               timeout=timeout, env=env, preexec_fn=_limits)
        except subprocess.TimeoutExpired:
            return "timeout", ""
        except (OSError, ValueError) as e:       # e.g. NUL byte in an argument: not an execution
            return "notrun", str(e)
        err = p.stderr.decode("utf-8", "replace")
        msg = ""
        k = err.find("panicked at")
        if k >= 0:
            msg = err[k:k + 400]
        elif "overflowed its stack" in err:
            msg = "stack overflow"
        elif "memory allocation of" in err:
            msg = "alloc failure"
        return p.returncode, msg
    finally:
        for pth in (path, out_path):
            try:
                os.remove(pth)
            except OSError:
                pass


def run_cli_many(cli, jobs, nproc=6, timeout=60):
    """jobs: list of (src, inputs_json|None, fmt) -> list of (rc, msg)"""
    res = [None] * len(jobs)
    lock = threading.Lock()
    nxt = [0]

    def worker():
        while True:
            with lock:
                k = nxt[0]
                nxt[0] += 1
            if k >= len(jobs):
                return
            s, j, f = jobs[k]
            res[k] = run_cli(cli, s, j, timeout, f)
    ts = [threading.Thread(target=worker) for _ in range(min(nproc, max(1, len(jobs))))]
    for t in ts:
        t.start()
    for t in ts:
        t.join()
    return res
