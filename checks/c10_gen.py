"""Generators and renderers for the C10 check (trees, token streams, layout, identifiers).

Trees are tuples mirroring coq/Ast.v:
  ("num", n) ("str", s) ("bool", b) ("null",) ("id", x) ("inref", x) ("builtin", name)
  ("list", [t]) ("rec", [(kind, key, value)])  kind in static|dyn|short|spread
  ("lam", [(kind, name)], body)  kind in req|opt|rest
  ("cond", c, t, e) ("do", [stmts], ret) ("assign", x, v)
  ("call", f, [args]) ("idx", e, i) ("dot", e, f) ("bin", Op, l, r) ("un", Negate|Not, e)
  ("fact", e) ("spread", e)
"""
import struct

BINOPS = ["Add", "Subtract", "Multiply", "Divide", "Modulo", "Power", "Equal", "NotEqual", "Less", "LessEq",
          "Greater", "GreaterEq", "DotEqual", "DotNotEqual", "DotLess", "DotLessEq", "DotGreater",
          "DotGreaterEq", "And", "NaturalAnd", "Or", "NaturalOr", "Via", "Into", "Where", "Coalesce"]
BIN_TEXT = {"Add": "+", "Subtract": "-", "Multiply": "*", "Divide": "/", "Modulo": "%", "Power": "^",
            "Equal": "==", "NotEqual": "!=", "Less": "<", "LessEq": "<=", "Greater": ">", "GreaterEq": ">=",
            "DotEqual": ".==", "DotNotEqual": ".!=", "DotLess": ".<", "DotLessEq": ".<=", "DotGreater": ".>",
            "DotGreaterEq": ".>=", "And": "&&", "NaturalAnd": "and", "Or": "||", "NaturalOr": "or",
            "Via": "via", "Into": "into", "Where": "where", "Coalesce": "??"}
BIN_RULE = {"Add": "R_add", "Subtract": "R_subtract", "Multiply": "R_multiply", "Divide": "R_divide",
            "Modulo": "R_modulo", "Power": "R_power", "Equal": "R_equal", "NotEqual": "R_not_equal",
            "Less": "R_less", "LessEq": "R_less_eq", "Greater": "R_greater", "GreaterEq": "R_greater_eq",
            "DotEqual": "R_dot_equal", "DotNotEqual": "R_dot_not_equal", "DotLess": "R_dot_less",
            "DotLessEq": "R_dot_less_eq", "DotGreater": "R_dot_greater", "DotGreaterEq": "R_dot_greater_eq",
            "And": "R_and", "NaturalAnd": "R_natural_and", "Or": "R_or", "NaturalOr": "R_natural_or",
            "Via": "R_via", "Into": "R_into", "Where": "R_where_", "Coalesce": "R_coalesce"}
WORD_OPS = {"NaturalAnd", "NaturalOr", "Via", "Into", "Where"}

# The table of the property text (the search oracle's own copy; compared with the Coq rendering
# under spec_table on every tree case, so a slip here shows up as "renderers disagree").
SPEC_LEVEL = {}
for _o in ("And", "NaturalAnd", "Or", "NaturalOr", "Via", "Into", "Where"):
    SPEC_LEVEL[_o] = 1
for _o in ("Equal", "NotEqual", "Less", "LessEq", "Greater", "GreaterEq", "DotEqual", "DotNotEqual", "DotLess",
           "DotLessEq", "DotGreater", "DotGreaterEq"):
    SPEC_LEVEL[_o] = 2
SPEC_LEVEL.update({"Add": 3, "Subtract": 3, "Multiply": 4, "Divide": 4, "Modulo": 4, "Power": 5, "Coalesce": 6})
RIGHT_ASSOC = {"Power"}
P_PRE, P_FACT, P_POST = 7, 8, 9
INF = 2 + P_PRE + P_FACT + P_POST

RESERVED = ["if", "then", "else", "true", "false", "null", "and", "or", "not", "do", "return", "output"]


def hexs(s):
    return s.encode("utf-8").hex()


def num_bits(x):
    return "%016x" % struct.unpack(">Q", struct.pack(">d", float(x)))[0]


# ---------------------------------------------------------------- Coq terms / expected show strings
def cstr(s):
    return '(hx "%s")' % hexs(s)


def coq_list(xs):
    return "[" + "; ".join(xs) + "]"


def show(t):
    """The string harness show.rs::coq_expr prints for the AST t (also a valid Coq term)."""
    k = t[0]
    if k == "num":
        return "(ENum (nb 0x%s))" % num_bits(t[1])
    if k == "str":
        return "(EStr %s)" % cstr(t[1])
    if k == "bool":
        return "(EBool %s)" % ("true" if t[1] else "false")
    if k == "null":
        return "ENull"
    if k == "id":
        return "(EId %s)" % cstr(t[1])
    if k == "inref":
        return "(EInRef %s)" % cstr(t[1])
    if k == "builtin":
        return "(EBuiltin B_%s)" % t[1]
    if k == "list":
        return "(EList %s)" % coq_list(["(Cm [] %s None)" % show(x) for x in t[1]])
    if k == "rec":
        ents = []
        for kind, key, val in t[1]:
            if kind == "static":
                ents.append("(Cm [] (REntry (KStatic %s) %s) None)" % (cstr(key), show(val)))
            elif kind == "dyn":
                ents.append("(Cm [] (REntry (KDyn %s) %s) None)" % (show(key), show(val)))
            elif kind == "short":
                ents.append("(Cm [] (REntry (KShort %s) ENull) None)" % cstr(key))
            else:
                ents.append("(Cm [] (REntry (KSpread %s) ENull) None)" % show(key))
        return "(ERec %s)" % coq_list(ents)
    if k == "lam":
        args = ["(%s %s)" % ({"req": "AReq", "opt": "AOpt", "rest": "ARest"}[a], cstr(n)) for a, n in t[1]]
        return "(ELam %s %s)" % (coq_list(args), show(t[2]))
    if k == "cond":
        return "(ECond %s %s %s)" % (show(t[1]), show(t[2]), show(t[3]))
    if k == "do":
        return "(EDo %s (Cm [] %s None))" % (coq_list(["(Cm [] %s None)" % show(x) for x in t[1]]), show(t[2]))
    if k == "assign":
        return "(EAssign %s %s)" % (cstr(t[1]), show(t[2]))
    if k == "call":
        return "(ECall %s %s)" % (show(t[1]), coq_list([show(a) for a in t[2]]))
    if k == "idx":
        return "(EAccess %s %s)" % (show(t[1]), show(t[2]))
    if k == "dot":
        return "(EDot %s %s)" % (show(t[1]), cstr(t[2]))
    if k == "bin":
        return "(EBin %s %s %s)" % (t[1], show(t[2]), show(t[3]))
    if k == "un":
        return "(EUn %s %s)" % (t[1], show(t[2]))
    if k == "fact":
        return "(EFact %s)" % show(t[1])
    if k == "spread":
        return "(ESpread %s)" % show(t[1])
    raise ValueError(k)


def coq_path(p):
    return "[" + "; ".join(str(i) for i in p) + "]"


def coq_par(par, dflt):
    return "(par_of [%s] %d)%%nat" % ("; ".join("(%s, %d)" % (coq_path(p), n) for p, n in sorted(par.items())), dflt)


def coq_wn(wn):
    return "(wn_of [%s])%%nat" % "; ".join(coq_path(p) for p in sorted(wn))


def coq_render(t, par, dflt, wn):
    return "(spec_render %s %s %s)" % (coq_par(par, dflt), coq_wn(wn), show(t))


# ---------------------------------------------------------------- Python twin of PrattRender.pr
def lvl(t):
    k = t[0]
    if k == "bin":
        return SPEC_LEVEL[t[1]]
    if k in ("un", "spread"):
        return P_PRE
    if k == "fact":
        return P_FACT
    if k in ("call", "idx", "dot"):
        return P_POST
    return INF


def need_l(o):
    return SPEC_LEVEL[o] + 1 if o in RIGHT_ASSOC else SPEC_LEVEL[o]


def need_r(o):
    return SPEC_LEVEL[o] if o in RIGHT_ASSOC else SPEC_LEVEL[o] + 1


class Gap:
    """A place where the grammar admits optional layout.  kind:
       none  nothing may stand here
       opt   (WHITESPACE | NEWLINE)*      (NEWLINE may carry an inline comment)
       req   (WHITESPACE | NEWLINE)+
       ws1   WHITESPACE+                  ws0   WHITESPACE*
       nl0   NEWLINE*   (no blanks: access brackets inside the atomic expression)
       lst   (comment (WS|nl)+ | WS | nl)*      after "[" "{" "," of lists / records
       lend  the same before the closing bracket, optionally with a trailing comma
       wsn1  (WHITESPACE | plain_newline)+      after `do`
       sep   do-block statement separator: WS* (nl+ | ";") then comment lines / blanks
       cend  before ")" of a call / parameter list: optional `,` NEWLINE, then NEWLINE* and blanks"""
    __slots__ = ("kind", "canon")

    def __init__(self, kind, canon):
        self.kind = kind
        self.canon = canon


FILL = {
    "none": [""],
    "opt": ["", " ", "  ", "\t", "\n", " \n  ", " // note\n", "\n\n", " //\n "],
    "req": [" ", "  ", "\t", "\n", " \n  ", " // note\n", "\n\n"],
    "ws1": [" ", "  ", "\t", " \t "],
    "ws0": ["", " ", "  ", "\t"],
    "nl0": ["", "\n", "\n\n", "// note\n"],
    "lst": ["", " ", "\n", "\n  ", " // item note\n  ", "\n// a\n// b\n", "  "],
    "lend": ["", " ", "\n", ",", ", ", ",\n", " // last\n", ",\n// end\n", "\n// end\n"],
    "wsn1": [" ", "  ", "\n", " \n "],
    "sep": ["\n", ";", " ;\n", "\n\n", "\n  // step\n", "; ", " \n"],
    "cend": ["", " ", "\n", ",\n", ", // last\n", "\n\n", " \n "],
}


class Renderer:
    """Mirror of PrattRender.pr / items_text: par(path)->extra layers, wn(path)->bool.  Paths are
    tuples, innermost index first (as in Coq).  pr() returns a list of strings and Gaps; text()
    fills the gaps canonically (identical to items_text of the Coq rendering) or, given an rng,
    with random layout admitted by the grammar."""

    def __init__(self, par=None, dflt=0, wn=None):
        self.par = par or {}
        self.dflt = dflt
        self.wn = wn or set()

    def extra(self, q):
        return self.par.get(q, self.dflt)

    def wrap(self, m, q, c, in_lambda=False):
        n = (0 if m <= lvl(c) else 1) + (0 if c[0] == "spread" else self.extra(q))
        inner = self.pr(q, c, in_lambda and n == 0)
        out = []
        for _ in range(n):
            out += ["(", Gap("opt", "")]
        out += inner
        for _ in range(n):
            out += [Gap("opt", ""), ")"]
        return out

    def pr(self, p, t, in_lambda=False):
        k = t[0]
        w = self.wrap
        if k == "num":
            return ["%d" % t[1]]
        if k == "str":
            return ['"%s"' % t[1]]
        if k == "bool":
            return ["true" if t[1] else "false"]
        if k == "null":
            return ["null"]
        if k in ("id", "builtin"):
            return [t[1]]
        if k == "inref":
            return ["#" + t[1]]
        if k == "list":
            if not t[1]:
                return ["[]"]
            out = ["[", Gap("lst", "")]
            for i, e in enumerate(t[1]):
                if i:
                    out += [Gap("ws0", ""), ",", Gap("lst", " ")]
                out += w(0, (i,) + p, e)
            return out + [Gap("lend", ""), "]"]
        if k == "rec":
            if not t[1]:
                return ["{}"]
            out = ["{", Gap("lst", "")]
            for i, (kind, key, val) in enumerate(t[1]):
                if i:
                    out += [Gap("ws0", ""), ",", Gap("lst", " ")]
                if kind == "static":
                    out += ['"%s"' % key, Gap("ws0", ""), ":", Gap("opt", " ")] + w(0, (2 * i + 1,) + p, val)
                elif kind == "dyn":
                    out += (["[", Gap("ws0", "")] + w(0, (2 * i,) + p, key) + [Gap("ws0", ""), "]", Gap("ws0", ""), ":",
                                                                               Gap("opt", " ")]
                            + w(0, (2 * i + 1,) + p, val))
                elif kind == "short":
                    out += [key]
                else:
                    out += w(0, (2 * i,) + p, key)
            return out + [Gap("lend", ""), "}"]
        if k == "lam":
            out = ["(", Gap("opt", "")]
            for i, (a, n) in enumerate(t[1]):
                if i:
                    out += [Gap("ws0", ""), ",", Gap("opt", " ")]
                out += [{"req": "%s", "opt": "%s?", "rest": "...%s"}[a] % n]
            out += [Gap("cend" if t[1] else "opt", ""), ")", Gap("ws0", " "), "=>", Gap("opt", " ")]
            return out + w(0, (0,) + p, t[2], True)
        if k == "cond":
            return (["if", Gap("ws1", " ")] + w(0, (0,) + p, t[1]) + [Gap("req", " "), "then", Gap("req", " ")]
                    + w(0, (1,) + p, t[2]) + [Gap("req", " "), "else", Gap("req", " ")] + w(0, (2,) + p, t[3]))
        if k == "do":
            out = ["do", Gap("wsn1", " "), "{", Gap("sep0", "\n")]
            for i, e in enumerate(t[1]):
                out += [Gap("ws0", "  ")] + w(0, (i,) + p, e) + [Gap("sep", "\n")]
            out += [Gap("ws0", "  "), "return", Gap("ws1", " ")] + w(0, (len(t[1]),) + p, t[2])
            return out + [Gap("wsn0", "\n"), "}"]
        if k == "assign":
            return [t[1], Gap("ws0", " "), "=", Gap("ws0", " ")] + w(0, (0,) + p, t[2])
        if k == "call":
            out = w(P_PRE + 1, (0,) + p, t[1], in_lambda) + ["(", Gap("opt", "")]
            for i, a in enumerate(t[2]):
                if i:
                    out += [Gap("ws0", ""), ",", Gap("opt", " ")]
                out += w(0, (i + 1,) + p, a)
            return out + [Gap("cend" if t[2] else "opt", ""), ")"]
        if k == "idx":
            return w(P_PRE + 1, (0,) + p, t[1], in_lambda) + ["[", Gap("nl0", "")] + w(0, (1,) + p, t[2]) + [
                Gap("nl0", ""), "]"]
        if k == "dot":
            return w(P_PRE + 1, (0,) + p, t[1], in_lambda) + ["." + t[2]]
        if k == "bin":
            o = t[1]
            if o in WORD_OPS:
                mid = [Gap("req", " "), BIN_TEXT[o], Gap("ws1", " ")]
            else:
                mid = [Gap("opt", " "), BIN_TEXT[o], Gap("opt", " ")]
            return w(need_l(o), (0,) + p, t[2], in_lambda) + mid + w(need_r(o), (1,) + p, t[3], in_lambda)
        if k == "un":
            if t[1] == "Negate":
                op = ["-"]
            elif p in self.wn:
                op = ["not", Gap("ws1", " ")]
            else:
                op = ["!"]
            return op + w(P_PRE, (0,) + p, t[2], in_lambda)
        if k == "fact":
            return w(P_PRE + 1, (0,) + p, t[1], in_lambda) + ["!"]
        if k == "spread":
            return ["..."] + w(0, (0,) + p, t[1])
        raise ValueError(k)

    def parts(self, t):
        return self.wrap(0, (), t)

    def render(self, t):
        return fill(self.parts(t), None)


EXTRA_FILL = {"sep0": ["\n", " ", "\n\n", "\n  // first\n", " \n  "], "wsn0": ["\n", " ", "\n\n", ""]}


def fill(parts, rng, keep_num=2, keep_den=3):
    out = []
    for x in parts:
        if isinstance(x, Gap):
            if rng is None or rng.chance(keep_num, keep_den):
                out.append(x.canon)
            else:
                out.append(rng.choice(FILL.get(x.kind) or EXTRA_FILL[x.kind]))
        else:
            out.append(x)
    return "".join(out)


def children(t):
    """(index, child) pairs with the path numbering of PrattRender.pr"""
    k = t[0]
    if k == "list":
        return list(enumerate(t[1]))
    if k == "rec":
        out = []
        for i, (kind, key, val) in enumerate(t[1]):
            if kind in ("dyn", "spread"):
                out.append((2 * i, key))
            if kind in ("static", "dyn"):
                out.append((2 * i + 1, val))
        return out
    if k == "lam":
        return [(0, t[2])]
    if k == "cond":
        return [(0, t[1]), (1, t[2]), (2, t[3])]
    if k == "do":
        return list(enumerate(t[1])) + [(len(t[1]), t[2])]
    if k == "assign":
        return [(0, t[2])]
    if k == "call":
        return [(0, t[1])] + [(i + 1, a) for i, a in enumerate(t[2])]
    if k == "idx":
        return [(0, t[1]), (1, t[2])]
    if k == "un":
        return [(0, t[2])]
    if k in ("dot", "fact", "spread"):
        return [(0, t[1])]
    if k == "bin":
        return [(0, t[2]), (1, t[3])]
    return []


def nodes(t, p=()):
    yield p, t
    for i, c in children(t):
        yield from nodes(c, (i,) + p)


OPEN_ENDED = ("lam", "cond", "assign")


def exposed_ops(t, par, p):
    """binary operators of t that appear unparenthesised at the top level of t's rendering"""
    out = []
    if t[0] == "bin":
        out.append(t[1])
        for i, c in ((0, t[2]), (1, t[3])):
            q = (i,) + p
            need = need_l(t[1]) if i == 0 else need_r(t[1])
            if need <= lvl(c) and par.get(q, 0) == 0:
                out += exposed_ops(c, par, q)
    elif t[0] in ("un",):
        q = (0,) + p
        if P_PRE <= lvl(t[1 + 1]) and par.get(q, 0) == 0:
            out += exposed_ops(t[2], par, q)
    return out


def starts_with_minus(t, par, p):
    k = t[0]
    if k == "un":
        return t[1] == "Negate"
    if k == "bin":
        c, need = t[2], need_l(t[1])
    elif k in ("call", "idx", "dot", "fact"):
        c, need = t[1], P_PRE + 1
    else:
        return False
    q = (0,) + p
    if need <= lvl(c) and par.get(q, 0) == 0:
        return starts_with_minus(c, par, q)
    return False


def text_level_parens(t):
    """Extra parenthesis layers that the TEXT grammar needs beyond the Pratt levels:
       * lambda / conditional / assignment are open to the right (their last expression swallows
         what follows): parenthesised whenever they are an operand of an operator;
       * a lambda body (lambda_expression) admits only and/or among the word operators: a body that
         exposes via/into/where is parenthesised."""
    par = {}
    for p, n in nodes(t):
        k = n[0]
        if k in ("bin", "un", "fact", "call", "idx", "dot"):
            for i, c in children(n):
                if k in ("call", "idx") and i >= 1:
                    continue
                if c[0] in OPEN_ENDED:
                    par[(i,) + p] = 1
    # a do-block statement that starts with `-` would continue the previous statement
    # (`a NEWLINE - b` is one expression): parenthesised
    for p, n in nodes(t):
        if n[0] == "do":
            for i, st in enumerate(n[1]):
                q = (i,) + p
                if i >= 1 and par.get(q, 0) == 0 and starts_with_minus(st, par, q):
                    par[q] = 1
    for p, n in nodes(t):
        if n[0] == "lam":
            q = (0,) + p
            if par.get(q, 0) == 0 and any(o in ("Via", "Into", "Where") for o in exposed_ops(n[2], par, q)):
                par[q] = 1
    return par


# ---------------------------------------------------------------- random trees
IDENTS = ["a", "b", "c", "x", "y", "zed", "foo", "bar_1", "_t", "k2"]
FIELDS = ["f", "len_", "x1", "name"]


class TreeGen:
    def __init__(self, rng):
        self.rng = rng
        self.hist = {}

    def count(self, k):
        self.hist[k] = self.hist.get(k, 0) + 1

    def atom(self):
        r = self.rng.below(100)
        if r < 55:
            self.count("id")
            return ("id", self.rng.choice(IDENTS))
        if r < 70:
            self.count("num")
            return ("num", self.rng.below(10))
        if r < 76:
            self.count("str")
            return ("str", self.rng.choice(["", "s", "a b", "x+y", "it's"]))
        if r < 82:
            self.count("bool")
            return ("bool", self.rng.chance(1, 2))
        if r < 86:
            self.count("null")
            return ("null",)
        if r < 92:
            self.count("inref")
            return ("inref", self.rng.choice(IDENTS))
        self.count("builtin")
        return ("builtin", self.rng.choice(["sum", "map", "len", "sqrt", "max"]))

    def tree(self, d):
        if d <= 0:
            return self.atom()
        r = self.rng.below(100)
        if r < 12:
            return self.atom()
        if r < 52:
            self.count("bin")
            return ("bin", self.rng.choice(BINOPS), self.tree(d - 1), self.tree(d - 1))
        if r < 62:
            self.count("un")
            return ("un", self.rng.choice(["Negate", "Not", "Not"]), self.tree(d - 1))
        if r < 68:
            self.count("fact")
            return ("fact", self.tree(d - 1))
        if r < 75:
            self.count("call")
            n = self.rng.below(4)
            return ("call", self.tree(d - 1), [self.arg(d - 1) for _ in range(n)])
        if r < 80:
            self.count("idx")
            return ("idx", self.tree(d - 1), self.tree(d - 1))
        if r < 85:
            self.count("dot")
            return ("dot", self.tree(d - 1), self.rng.choice(FIELDS))
        if r < 89:
            self.count("list")
            return ("list", [self.arg(d - 1) for _ in range(self.rng.below(4))])
        if r < 92:
            self.count("rec")
            ents = []
            for _ in range(self.rng.below(4)):
                kk = self.rng.below(4)
                if kk == 0:
                    ents.append(("static", self.rng.choice(["k", "key two", "n1"]), self.tree(d - 1)))
                elif kk == 1:
                    ents.append(("dyn", self.tree(d - 1), self.tree(d - 1)))
                elif kk == 2:
                    ents.append(("short", self.rng.choice(IDENTS), None))
                else:
                    ents.append(("spread", ("spread", self.tree(d - 1)), None))
            return ("rec", ents)
        if r < 95:
            self.count("lam")
            n = self.rng.below(3)
            args = [("req", "p%d" % i) for i in range(n)]
            if n and self.rng.chance(1, 4):
                args[-1] = (self.rng.choice(["opt", "rest"]), args[-1][1])
            return ("lam", args, self.tree(d - 1))
        if r < 97:
            self.count("cond")
            return ("cond", self.tree(d - 1), self.tree(d - 1), self.tree(d - 1))
        if r < 99:
            self.count("assign")
            return ("assign", self.rng.choice(IDENTS), self.tree(d - 1))
        self.count("do")
        return ("do", [self.tree(d - 1) for _ in range(self.rng.below(3))], self.tree(d - 1))

    def arg(self, d):
        if self.rng.chance(1, 6):
            self.count("spread")
            return ("spread", self.tree(d))
        return self.tree(d)


def random_oracles(rng, t, extra_prob_num=1, extra_prob_den=5):
    """text-level required layers + random redundant ones + random not spellings"""
    par = text_level_parens(t)
    wn = set()
    for p, n in nodes(t):
        if n[0] != "spread" and rng.chance(extra_prob_num, extra_prob_den):
            par[p] = par.get(p, 0) + 1 + (1 if rng.chance(1, 6) else 0)
        if n[0] == "un" and n[1] == "Not" and rng.chance(1, 2):
            wn.add(p)
    return par, wn
