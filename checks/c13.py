"""C13 — via / where / into agree with map / filter / application.  DESIGN.md section 6 (C13)."""
import sys

import common as c
import evalstream as es
import c13_bindcb as bindcb

PID = "C13"
MANIFEST = {
    "text": "11 Coq theorems: for EVERY callback (the callback is a parameter: lambdas of any parameter shape, named, "
            "recursive, built-ins) the transcribed `via`/`where` arms run exactly the loops of the transcribed map/filter "
            "built-ins, `into` is the same FunctionDef::call as application; in the evaluator the built-in forms are "
            "either the depth error or exactly the operator forms (two extra depth levels: open finding F23); "
            "map/filter/every/some/reduce meet their definitions (mapi, conjunction, disjunction, left fold, (item,index) "
            "in list order) whenever the callback succeeds on all elements.  Transcriptions tied to the code by the "
            "EVAL stream on pairs of equivalent programs; the equalities re-checked on the implementation alone",
    "note": "trusted: Coq kernel + vm_compute; transcriptions of evaluate_binary_op_ast (Binop.v), the HOF built-ins "
            "(BuiltinsHof.v) and FunctionDef::call (Eval.v), validated by correspondence; no axioms",
    "design_ref": "DESIGN.md section 6 C13",
}

# function definitions (name, source, kind) — arity 1, 2, optional, rest, closures, self-/mutually recursive, built-ins
FUNS = [
    ("f1", "f1 = x => x * 2 + 1", "num"),
    ("f2", "f2 = (x, i) => x * 10 + i", "num"),
    ("fo", "fo = (x, j?) => [x, j]", "any"),
    ("fr", "fr = (x, ...rest) => [x, rest]", "any"),
    ("fc", "k0 = 7\nfc = x => x + k0", "num"),
    ("fact", "fact = n => if n <= 1 then 1 else n * fact(n - 1)", "num"),
    ("ev", "ev = n => if n <= 0 then true else od(n - 1)\nod = n => if n <= 0 then false else ev(n - 1)", "bool"),
    ("fe", "fe = x => x + \"a\"", "err"),
    ("fb", "fb = x => x > 2", "bool"),
    ("fb2", "fb2 = (x, i) => i < 2", "bool"),
    ("fnb", "fnb = x => if x > 3 then 1 else true", "mixed"),
    ("abs", None, "num"), ("floor", None, "num"), ("typeof", None, "any"), ("to_bool", None, "boolerr"),
    ("ugt", None, "bool2"), ("sqrt", None, "num"), ("arity", None, "err"), ("all", None, "err"),
    ("f0", "f0 = () => 1", "arityerr"), ("f3", "f3 = (a, b, c) => a", "arityerr"),
    ("fd", "fd = do {\n  h = n => if n <= 0 then 0 else 1 + h(n - 1)\n  return h\n}", "num"),
    ("lam", None, "num"),       # anonymous lambda literal inline
    ("fri", "fri = (x, i, ...r) => [x, i, r]", "any"),      # rest after two required: index must be passed
    ("fr1", "fr1 = (...r) => r", "any"),
    ("fxo", "fxo = (x, i?, j?) => [x, i, j]", "any"),
    # callbacks that tell apart elements which `==` identifies (0 and -0): a form that reuses the result
    # for "equal" neighbours, or visits equal elements once, differs from the other form (round 4, seed C13-8)
    ("to_string", None, "any"), ("finv", "finv = x => 1 / x", "num"), ("fpos", "fpos = x => 1 / x > 0", "bool"),
    ("fti", "fti = (x, i) => [to_string(x), i]", "any"),
]
# which functions take (item, index): declared from their parameter lists / arities, independently of the code
TAKES_INDEX = {"to_string": False, "finv": False, "fti": True, "f1": False, "f2": True, "fo": True, "fr": True, "fc": False, "fact": False, "fb": False, "fb2": True,
               "fri": True, "fr1": True, "fxo": True, "abs": False, "floor": False, "typeof": False, "sqrt": False,
               "ugt": True}
LISTS = ["[]", "[1]", "[3, 1, 2]", "[0, 1, 2, 3, 4, 5, 6, 7, 8, 9]", "[4, 4, 0.5, -2]", "[1, \"a\", null]",
         "[true, false]", "[[1], [2, 3]]",
         # neighbours that are == but distinguishable, and repeated elements
         "[0, -0]", "[-0, 0, 0, -0, 5]", "[2, 2, 2]", "[[0], [-0]]",
         # lengths where a chunked / parallel / pre-sized implementation of one form would switch strategy
         "range(17)", "range(33)", "range(65)", "[...range(63), -0, 0, 0.5]", "range(130)"]
SCALARS = ["5", "\"s\"", "null", "[1, 2]", "{a: 1}"]


def fexpr(name):
    return "(x => x - 1)" if name == "lam" else name


def pair_programs():
    """(description, defs, left expr, right expr) — equivalent forms by the property"""
    out = []
    for name, src, kind in FUNS:
        defs = src + "\n" if src else ""
        f = fexpr(name)
        for l in LISTS:
            out.append(("via=map", defs, "%s via %s" % (l, f), "map(%s, %s)" % (l, f)))
            out.append(("where=filter", defs, "%s where %s" % (l, f), "filter(%s, %s)" % (l, f)))
        for s in SCALARS + LISTS[:3]:
            out.append(("into=apply", defs, "%s into %s" % (s, f), "%s(%s)" % (f, s)))
    return out


def composed_programs():
    """the operand of a form is itself a form (written inline, parenthesised, or through a binding): the
    composition must equal the composition of the built-ins — a fused or specialised evaluation of
    `xs where p via f` must still hand `f` the index in the FILTERED list (round 4, seed C13-7)"""
    out = []
    defs = ("f1 = x => x * 2 + 1\nf2 = (x, i) => x * 10 + i\nfri = (x, i, ...r) => [x, i, r]\nfb = x => x > 2\n"
            "fb2 = (x, i) => i < 2\nfodd = x => x % 2 == 1\nfti = (x, i) => [to_string(x), i]\n")
    maps = ["f1", "f2", "fri", "fti", "to_string", "(x => x - 1)", "((x, i) => i)"]
    preds = ["fb", "fb2", "fodd", "(x => x != 3)", "((x, i) => i != 1)"]
    for l in ("[3, 1, 4, 1, 5, 9, 2, 6]", "[5, 0, 7]", "[]", "[0, -0, 3]"):
        for f in maps:
            for p in preds:
                out.append(("where-via=map-filter", defs, "%s where %s via %s" % (l, p, f), "map(filter(%s, %s), %s)" % (l, p, f)))
                out.append(("(where)-via=map-filter", defs, "(%s where %s) via %s" % (l, p, f), "map(filter(%s, %s), %s)" % (l, p, f)))
                out.append(("bound-where-via=map-filter", defs, "do {\n  t9 = %s where %s\n  return t9 via %s\n}" % (l, p, f),
                            "map(filter(%s, %s), %s)" % (l, p, f)))
                out.append(("via-where=filter-map", defs, "%s via %s where %s" % (l, f, p) if f in ("f1", "f2") else "(%s via f1) where %s" % (l, p),
                            "filter(map(%s, %s), %s)" % (l, f if f in ("f1", "f2") else "f1", p)))
                out.append(("map(where)=map-filter", defs, "map(%s where %s, %s)" % (l, p, f), "map(filter(%s, %s), %s)" % (l, p, f)))
                out.append(("filter-via=map-filter", defs, "filter(%s, %s) via %s" % (l, p, f), "map(filter(%s, %s), %s)" % (l, p, f)))
            for g in maps[:4]:
                out.append(("via-via=map-map", defs, "%s via %s via %s" % (l, f, g), "map(map(%s, %s), %s)" % (l, f, g)))
            out.append(("via-into=apply-map", defs, "%s via %s into len" % (l, f), "len(map(%s, %s))" % (l, f)))
        for p in preds:
            for q in preds[:3]:
                out.append(("where-where=filter-filter", defs, "%s where %s where %s" % (l, p, q), "filter(filter(%s, %s), %s)" % (l, p, q)))
            out.append(("where-into=apply-filter", defs, "%s where %s into len" % (l, p), "len(filter(%s, %s))" % (l, p)))
    return out


def definitional_programs():
    """every/some/reduce against their definitions, computed by the implementation element-wise"""
    out = []
    for name, src, kind in FUNS:
        if kind not in ("bool",):
            continue
        defs = src + "\n" if src else ""
        f = fexpr(name)
        for l in LISTS[:5]:
            # conjunction / disjunction of the per-element results (via map, then all/any)
            out.append(("every=conj", defs, "every(%s, %s)" % (l, f), "all(map(%s, %s))" % (l, f)))
            out.append(("some=disj", defs, "some(%s, %s)" % (l, f), "any(map(%s, %s))" % (l, f)))
    # the callback receives (item) or (item, index) in list order: explicit element-wise reference
    for name, src, kind in FUNS:
        if name not in TAKES_INDEX:
            continue
        defs = src + "\n" if src else ""
        for l in ("[7, 8, 9]", "[5]", "[]", "[3, 1, 2, 0]"):
            items = [x for x in l.strip("[]").split(", ") if x]
            if TAKES_INDEX[name]:
                ref = "[" + ", ".join("%s(%s, %d)" % (name, it, i) for i, it in enumerate(items)) + "]"
            else:
                ref = "[" + ", ".join("%s(%s)" % (name, it) for it in items) + "]"
            out.append(("via=elementwise", defs, "%s via %s" % (l, name), ref))
            out.append(("map=elementwise", defs, "map(%s, %s)" % (l, name), ref))
    out.append(("reduce=foldl-rest", "g4 = (a, x, i, ...r) => [a, x, i, r]\n", "reduce([7, 8], g4, 0)", "g4(g4(0, 7, 0), 8, 1)"))
    out.append(("reduce=foldl-rest", "g5 = (a, x, ...r) => [a, x, r]\n", "reduce([7, 8], g5, 0)", "g5(g5(0, 7, 0), 8, 1)"))
    for l, n in (("[1, 2, 3, 4]", 4), ("[]", 0), ("[5]", 1), ("[2, 2, 2]", 3)):
        items = l.strip("[]").split(", ") if n else []
        acc = "100"
        for it in items:
            acc = "g(%s, %s)" % (acc, it)
        out.append(("reduce=foldl", "g = (a, x) => a * 2 - x\n", "reduce(%s, g, 100)" % l, acc))
        acc = "\"s\""
        for i, it in enumerate(items):
            acc = "g3(%s, %s, %d)" % (acc, it, i)
        out.append(("reduce=foldl-index", "g3 = (a, x, i) => [a, x, i]\n", "reduce(%s, g3, \"s\")" % l, acc))
    return out


def last(o):
    body = o.split(";ENV:")[0]
    return body.split("|")[-1]


def main(argv):
    tier, seed, replay = c.tier_and_seed(argv)
    res = c.Result(PID, tier, seed)
    try:
        h = c.build_harness()
        c.regen_all(h)
    except c.BrokenTie as e:
        res.tie_broken(e.what, e.detail)
        return res.finish()
    if replay:
        import json
        rp = json.load(open(replay))
        print(json.dumps(rp, indent=1))
        if rp.get("family") == "binding-callback":
            return bindcb.replay(h, rp)
        if rp.get("left") and rp.get("right"):
            o = es.rust_eval(h, [rp["defs"] + rp["left"], rp["defs"] + rp["right"]])
            print("implementation now returns:", last(o[0]), "vs", last(o[1]))
            return 0 if last(o[0]) == last(o[1]) else 1
        return 0

    c.proof_step(res, PID, extra_targets=["EvalInst.vo"])

    pairs = pair_programs() + definitional_programs() + composed_programs()
    # near the depth limit the forms are known to differ (F23): recursion THROUGH the form
    depth_pairs = []
    for n in (100, 300, 330, 340, 400, 900):
        depth_pairs.append(("via=map@depth", "", "g = n => if n <= 0 then 0 else ([n - 1] via g)[0]\ng(%d)" % n,
                            "g = n => if n <= 0 then 0 else map([n - 1], g)[0]\ng(%d)" % n))
    # generated (list, function) pairs
    from gen_programs import Gen, Scope
    rngg = c.Rng(seed + 13)
    gg = Gen(rngg, allow_fail=False, max_depth=2)
    gen_pairs = []
    for _ in range(60 if tier == "quick" else 4000):
        sc = Scope()
        sc.vars["inputs"] = "rec"
        l = gg.numlist(sc, 2)
        if rngg.chance(1, 2):
            f = gg.fn1(sc, 2)
            gen_pairs.append(("via=map", "", "%s via %s" % (l, f), "map(%s, %s)" % (l, f)))
            gen_pairs.append(("into=apply", "", "%s into %s" % (gg.num(sc, 1), f), "%s(%s)" % (f, gg.num(sc, 0)) if False else "(%s)" % ("%s into %s" % ("0", f))))
        else:
            f = gg.pred(sc, 1)
            gen_pairs.append(("where=filter", "", "%s where %s" % (l, f), "filter(%s, %s)" % (l, f)))
            gen_pairs.append(("every=conj", "", "every(%s, %s)" % (l, f), "all(map(%s, %s))" % (l, f)))
            gen_pairs.append(("some=disj", "", "some(%s, %s)" % (l, f), "any(map(%s, %s))" % (l, f)))
    gen_pairs = [g_ for g_ in gen_pairs if g_[0] != "into=apply"]
    pairs = pairs + gen_pairs
    known = c.open_known(PID)
    progs = []
    for d, defs, a, b in pairs + depth_pairs:
        progs.append(defs + a)
        progs.append(defs + b)
    rust = es.rust_eval(h, progs)
    kinds = {}
    viol = 0
    f23 = 0
    for i, (d, defs, a, b) in enumerate(pairs + depth_pairs):
        ra, rb = last(rust[2 * i]), last(rust[2 * i + 1])
        kinds[d] = kinds.get(d, 0) + 1
        for r_ in (ra, rb):
            if "PANIC" in r_ or r_.startswith("ABORT"):
                res.violation("the evaluator panicked/aborted", {"kind": "impl", "program": defs + a, "observed": r_})
        if ra == rb:
            continue
        # every / some stop at the first deciding element; all(map(..)) / any(map(..)) evaluate every
        # element first.  The definitional law (HigherOrder.every_loop_spec: callback total on the list)
        # applies when the element-wise reference itself succeeds.
        if d in ("every=conj", "some=disj") and rb.startswith("ERR") and ra.startswith("OK"):
            kinds[d + "/short-circuit"] = kinds.get(d + "/short-circuit", 0) + 1
            continue
        # the open finding F23: one form hits the depth limit, the other does not
        if "ERRDEPTH" in (ra, rb) and any(k["id"] == "F23" for k in known):
            f23 += 1
            continue
        viol += 1
        if viol <= 5:
            res.violation("equivalent forms disagree: %s" % d,
                          {"kind": "impl-law", "law": d, "defs": defs, "left": a, "right": b,
                           "observed": {"left": ra, "right": rb}, "rerun": "./check C13 --replay <this file>"})
    # model vs implementation on the same programs (sample in quick tier)
    rng = c.Rng(seed)
    idx = list(range(len(progs)))
    n_model = 500 if tier == "quick" else len(progs)
    if len(idx) > n_model:
        idx = sorted(rng.shuffle(idx)[:n_model])
    # always include the depth pairs (the boundary is where the guard arithmetic shows)
    idx = sorted(set(idx) | set(range(2 * len(pairs), len(progs))))
    sub = [progs[i] for i in idx]
    agree, mism, skipped = 0, [], 0
    try:
        coq, _ = es.parse_to_coq(h, sub)
        model = es.model_eval(coq, tag="c13")
        for j, i in enumerate(idx):
            if model[j] is None:
                continue
            if "UNMODELLED" in model[j]:
                skipped += 1
                continue
            if model[j] == rust[i]:
                agree += 1
            else:
                mism.append((progs[i], rust[i], model[j]))
    except c.BrokenTie as e:
        res.tie_broken(e.what, e.detail)
    if mism:
        res.tie_broken("correspondence C13/EVAL: model and implementation disagree on %d of %d programs" % (len(mism), len(idx)),
                       "first: %r\nimpl : %s\nmodel: %s" % mism[0])
    res.streams["EVAL-pairs"] = {"pairs": len(pairs), "depth_pairs": len(depth_pairs), "by_law": kinds,
                                 "functions": len(FUNS), "lists": len(LISTS), "model_compared": len(idx),
                                 "model_agree": agree, "model_skipped_unmodelled": skipped, "mismatches": len(mism),
                                 "f23_depth_disagreements": f23}
    res.coverage["evaluations"] = len(progs)
    res.coverage["distinct_nontrivial"] = len({(last(rust[2 * i]), pairs[i][2]) for i in range(len(pairs))
                                               if last(rust[2 * i]).startswith("OK")})
    res.coverage["rule"] = ("every (function, list/scalar) pair from %d functions (arity 1, 2, optional, rest, closure, "
                            "self-/mutually recursive named, escaped from a do-block, failing, non-boolean predicates, "
                            "built-ins of each arity class, wrong arity) x %d lists x {via/map, where/filter, into/apply}, "
                            "every/some vs all/any of map, reduce vs explicit left fold (with and without index), plus "
                            "recursion through the form at depths 100..900; non-trivial = pairs whose operator form "
                            "succeeds" % (len(FUNS), len(LISTS)))
    res.coverage["samples"] = [{"left": pairs[i][1] + pairs[i][2], "right": pairs[i][1] + pairs[i][3],
                                "impl": [last(rust[2 * i]), last(rust[2 * i + 1])]} for i in (0, 57, len(pairs) - 1)]
    res.coverage["traces_validated_against_impl"] = agree
    # callbacks whose body binds names of its own, in every presentation / context (checks/c13_bindcb.py)
    res.coverage["evaluations"] += bindcb.run(res, h, tier, seed, known, last)
    for e in known:
        if e["id"] == "F23":
            res.known("F23 %s%s" % (e["what"], "" if f23 else " (no longer reproduces)"))
        else:
            res.known("%s %s" % (e["id"], e["what"]))
    return res.finish()


if __name__ == "__main__":
    sys.exit(main(sys.argv[1:]))
