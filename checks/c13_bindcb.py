"""C13 — the BINDING-CALLBACK family (round 5, seed C13-1 of the strengthening round).

A real call gives the callback a FRESH local scope per element (captured free variables + parameters),
whichever form makes the call.  Every callback the check built so far had a pure body, so nothing could
tell a per-element scope from a scope that is shared between the elements, between two evaluations of the
same form, or with the scope the form is written in.  An assignment is an expression in blots and may be
(a sub-expression of) a lambda body; it is the one construct that OBSERVES the scope it runs in (the
immutability check `t is already defined`, and what is still bound afterwards).

The family is an enumerated grid, not random nesting (DESIGN.md F.1: a scope decision is taken per
(form, callback presentation, body shape) triple):

    body shape     where the body binds: nowhere (control), whole body, sub-expression, condition, call
                   argument, list element, record value, two names, a function, only for some elements, a
                   name bound in the enclosing scope or the parameter itself (a failure in a real call too: the
                   forms must fail alike), a closure returned by the body, inside a nested in-place callback, a do-block (own scope: control)
    presentation   how the function is written: in place bare / parenthesised, through a name, assigned in
                   place, with an index / optional / rest parameter, under another parameter name, made by a
                   function call, chosen by a conditional
    list           lengths 0, 1, 2, 4, repeated elements, a bound list, range(n)
    context        statement; inside a do-block; inside a function body; the form written twice in one
                   expression; an enclosing scope that already binds the names the body binds

Oracles (implementation only; each disagreement is a concrete replayable pair of programs):
    form law          `l via F` = map(l, F), `l where P` = filter(l, P), `v into F` = F(v): same result or failure
                      AND the same bindings left behind (a body evaluated in the caller's scope leaks its names)
    presentation law  every presentation of one body gives the result of the element-wise reference
                      [cb(e0), cb(e1), ...] over the NAMED presentation (so that both forms changed alike are
                      still noticed); every / some against all(map) / any(map), reduce against the explicit fold
A sample of the same programs goes through the model (EVAL correspondence)."""
import time

import common as c
import evalstream as es

# (tag, body over parameter {x}; names t / u / g / h are bound by the body; k0 is bound by the enclosing scope)
MAP_BODIES = [
    ("pure", "{x} * {x} + 1"),
    ("whole", "t = {x} * 2"),
    ("sub", "(t = {x} * {x}) + t"),
    ("cond", "if (t = {x} % 2) == 0 then t else 0 - t"),
    ("arg", "abs(t = {x} - 3) + t"),
    ("list", "[t = {x}, t + 1]"),
    ("record", "{{k: t = {x}}}"),
    ("two", "(t = {x}) + (u = t * 2) + u"),
    ("fn", "(g = y => y + {x})(1)"),
    ("some-elements", "if {x} > 1 then (t = {x}) else 0"),
    ("outer-unread", "(k0 = {x}) + 1"),
    ("outer-read", "(k0 = {x}) + k0"),
    ("param", "({x} = 1) + 1"),
    # (a lambda body with via / where / into at its top needs parentheses: `x => l via f` is `(x => l) via f`)
    ("nested-cb", "([{x}, {x} + 1] via y => (t = y) + {x})"),
    ("nested-both", "(t = {x}) + sum([1, 2] via y => (u = y) * t)"),
    ("do-block", "do {{\n  t = {x} * {x}\n  return t + t\n}}"),
    # the result is a function made by the body (capturing the element and a name the body bound): observed by
    # the "call-results" context
    ("returns-closure", "(y => y + {x})"),
    ("returns-closure-bound", "(y => y + (t = {x} * 2) - t + {x})"),
    ("bound-then-closure", "[t = {x} * 3, y => y + t][1]"),
]
PRED_BODIES = [
    ("pure", "{x} > 2"),
    ("whole", "t = {x} > 1"),
    ("sub", "(h = {x} / 2) == floor(h)"),
    ("cond", "if (t = {x} % 2) == 0 then t == 0 else false"),
    ("and", "(t = {x}) > 1 and t < 4"),
    ("outer-unread", "(k0 = {x}) > 1"),
    ("non-boolean", "(t = {x}) + 1"),
    ("nested-cb", "len([{x}] where y => (t = y) > 1) == 1"),
    ("do-block", "do {{\n  t = {x} % 2\n  return t == 1\n}}"),
]
# (tag, template over {b} = body text, parameter name).  "named"/"made" need a definition line first.
PRESENTATIONS = [
    ("in-place", "{p} => {b}", "x"),
    ("in-place-paren", "({p} => {b})", "x"),
    ("named", "cb", "x"),
    ("assigned-in-place", "(cb = {p} => {b})", "x"),
    ("index", "({p}, i) => {b}", "x"),
    ("optional", "({p}, j?) => {b}", "x"),
    ("rest", "({p}, ...r) => {b}", "x"),
    ("other-param", "{p} => {b}", "item"),
    ("made-by-call", "mk()", "x"),
    ("conditional", "(if true then ({p} => {b}) else ({p} => 0))", "x"),
]
LISTS = [("len0", "[]", []), ("len1", "[4]", ["4"]), ("len2", "[1, 2]", ["1", "2"]), ("len4", "[3, 1, 2, 0]", ["3", "1", "2", "0"]),
         ("repeated", "[2, 2, 2]", ["2", "2", "2"]), ("bound", "xs", ["5", "6", "7"]), ("range", "range(4)", ["0", "1", "2", "3"]),
         # long enough for a form that switches strategy by length (chunks, pre-sized buffers)
         ("long", "range(40)", [str(i) for i in range(40)])]
CONTEXTS = ["statement", "do-block", "function-body", "twice", "names-bound-outside", "leak-probe", "call-results"]
BASE_DEFS = "k0 = 7\nxs = [5, 6, 7]\n"


def present(ptag, tmpl, param, body_t):
    """-> (definition lines, function expression)"""
    b = body_t.format(x=param)
    if ptag == "named":
        return "cb = %s => %s\n" % (param, b), "cb"
    if ptag == "made-by-call":
        return "mk = () => %s => %s\n" % (param, b), "mk()"
    return "", tmpl.format(p=param, b=b)


def in_context(ctx, expr):
    """-> (extra definition lines, statement text)"""
    if ctx == "statement":
        return "", expr
    if ctx == "do-block":
        return "", "do {\n  r9 = %s\n  return [r9, 1]\n}" % expr
    if ctx == "function-body":
        return "", "w9 = z => [z, %s]\nw9(0)" % expr
    if ctx == "twice":
        return "", "[%s, %s]" % (expr, expr)
    if ctx == "names-bound-outside":
        return "t = 100\nu = 200\nh = 300\ng = 400\n", expr
    if ctx == "leak-probe":
        # reads, after the form, the names the callback bodies bind: unbound unless the body ran in this scope
        return "", "do {\n  r9 = %s\n  return [r9, t]\n}" % expr
    if ctx == "call-results":
        # calls the functions among the results (a callback may return a closure over its element / its own names)
        return ("cr9 = r => if typeof(r) == \"list\" then map(r, q => if typeof(q) == \"function\" then q(10) else q) "
                "else (if typeof(r) == \"function\" then r(10) else r)\n"), "cr9(%s)" % expr
    raise ValueError(ctx)


def cells(tier, rng):
    """the enumerated grid.  quick: every (body, presentation, list) triple as a statement, and every
    (body, presentation, context) triple on the 2- and 4-element lists"""
    out = []
    for kind, bodies in (("map", MAP_BODIES), ("pred", PRED_BODIES)):
        for btag, body in bodies:
            for ptag, tmpl, param in PRESENTATIONS:
                for ltag, l, items in LISTS:
                    out.append((kind, btag, body, ptag, tmpl, param, ltag, l, items, "statement"))
                for ctx in CONTEXTS[1:]:
                    for ltag, l, items in (LISTS[2], LISTS[3]) if tier == "quick" else LISTS:
                        if ptag == "assigned-in-place" and ctx == "twice":
                            continue        # `cb = ...` written twice in one expression fails by itself
                        out.append((kind, btag, body, ptag, tmpl, param, ltag, l, items, ctx))
    return out


def programs(tier, rng):
    """-> list of (law, cell-description dict, defs, left, right, compare_env)"""
    out = []
    for kind, btag, body, ptag, tmpl, param, ltag, l, items, ctx in cells(tier, rng):
        fdefs, f = present(ptag, tmpl, param, body)
        cell = {"body": btag, "presentation": ptag, "list": ltag, "context": ctx, "kind": kind}
        ndefs, _ = present("named", None, "x", body)      # the reference presentation: cb = x => body
        ref_items = "[" + ", ".join("cb(%s)" % it for it in items) + "]"
        if kind == "map":
            forms = [("via=map", "%s via %s" % (l, f), "map(%s, %s)" % (l, f))]
            refs = [("via=elementwise(named)", "%s via %s" % (l, f), ref_items),
                    ("map=elementwise(named)", "map(%s, %s)" % (l, f), ref_items)]
            if ltag in ("len1", "len2"):
                fa = f if f in ("cb", "mk()") else "(%s)" % f
                forms.append(("into=apply", "%s into %s" % (items[0], f), "%s(%s)" % (fa, items[0])))
                if ptag != "index":     # `into` passes the value only: a second REQUIRED parameter is an arity error
                    refs.append(("into=apply(named)", "%s into %s" % (items[0], f), "cb(%s)" % items[0]))
        else:
            forms = [("where=filter", "%s where %s" % (l, f), "filter(%s, %s)" % (l, f))]
            if btag != "non-boolean":       # conjunction / disjunction are defined for boolean results only
                forms += [("every=conj", "every(%s, %s)" % (l, f), "all(map(%s, %s))" % (l, f)),
                          ("some=disj", "some(%s, %s)" % (l, f), "any(map(%s, %s))" % (l, f))]
            refs = [("where=filter(named)", "%s where %s" % (l, f), "filter(%s, cb)" % l),
                    ("filter=elementwise(named)", "filter(%s, %s)" % (l, f),
                     "[" + ", ".join("...(if cb(%s) then [%s] else [])" % (it, it) for it in items) + "]")]
        for law, a, b in forms:
            xd, sa = in_context(ctx, a)
            _, sb = in_context(ctx, b)
            out.append((law, cell, BASE_DEFS + xd + fdefs, sa, sb, True))
        # the reference laws: only where the presentation does not itself define `cb` differently
        if ptag not in ("assigned-in-place",) and ctx in ("statement", "names-bound-outside", "twice"):
            for law, a, b in refs:
                xd, sa = in_context(ctx, a)
                _, sb = in_context(ctx, b)
                # both sides get the SAME definitions (cb is defined on both, used on the right only)
                d = BASE_DEFS + xd + (fdefs if ptag == "named" else ndefs + fdefs)
                out.append((law, cell, d, sa, sb, True))
    # reduce: no operator form, but the same scope decision (the accumulating callback binds a name)
    for btag, body in (("pure", "a + x"), ("whole", "t = a + x"), ("sub", "(t = a * 2) + x + t"), ("outer-unread", "(k0 = a) + x"),
                       ("do-block", "do {\n  t = a * 2\n  return t + x\n}")):
        for ptag, fx in (("in-place", "(a, x) => %s" % body), ("named", "rf"), ("index", "(a, x, i) => %s" % body),
                         ("rest", "(a, x, ...r) => %s" % body)):
            for ltag, l, items in LISTS:
                acc = "10"
                for it in items:
                    acc = "rf(%s, %s)" % (acc, it)
                cell = {"body": btag, "presentation": ptag, "list": ltag, "context": "statement", "kind": "reduce"}
                out.append(("reduce=foldl(named)", cell, BASE_DEFS + "rf = (a, x) => %s\n" % body, "reduce(%s, %s, 10)" % (l, fx), acc, True))
    # dedupe on the program texts
    seen, ded = set(), []
    for o in out:
        k = (o[0], o[2], o[3], o[4])
        if k not in seen:
            seen.add(k)
            ded.append(o)
    return ded


def _split(o):
    parts = o.split(";ENV:")
    body = parts[0]
    return body.split("|")[-1], (parts[1] if len(parts) > 1 else "")


def run(res, h, tier, seed, known, last):
    """evaluate the family on the implementation, report disagreements, tie a sample to the model"""
    t0 = time.time()
    rng = c.Rng(seed + 1313)
    fam = programs(tier, rng)
    progs = []
    for law, cell, defs, a, b, _ in fam:
        progs.append(defs + a)
        progs.append(defs + b)
    rust = es.rust_eval(h, progs)
    by_law, by_body, by_pres, by_ctx, by_list, outcomes = {}, {}, {}, {}, {}, {"OK": 0, "ERR": 0, "other": 0}
    viol, shortc, binds_seen, reported = 0, 0, 0, []
    for i, (law, cell, defs, a, b, cmp_env) in enumerate(fam):
        (ra, ea), (rb, eb) = _split(rust[2 * i]), _split(rust[2 * i + 1])
        for dct, key in ((by_law, law), (by_body, cell["kind"] + ":" + cell["body"]), (by_pres, cell["presentation"]),
                         (by_ctx, cell["context"]), (by_list, cell["list"])):
            dct[key] = dct.get(key, 0) + 1
        outcomes["OK" if ra.startswith("OK") else "ERR" if ra.startswith("ERR") else "other"] += 1
        if ra.startswith("OK") and cell["body"] not in ("pure", "do-block") and cell["list"] not in ("len0", "len1"):
            binds_seen += 1
        for r_ in (ra, rb):
            if "PANIC" in r_ or r_.startswith("ABORT"):
                res.violation("the evaluator panicked/aborted", {"kind": "impl", "program": defs + a, "observed": r_})
        if ra == rb and (not cmp_env or ea == eb):
            continue
        if law in ("every=conj", "some=disj") and rb.startswith("ERR") and ra.startswith("OK") :
            shortc += 1         # every / some stop at the deciding element (the law's own hypothesis)
            continue
        if "ERRDEPTH" in (ra, rb) and any(k["id"] == "F23" for k in known):
            continue
        viol += 1
        sig = (law, cell["presentation"])
        if len(reported) < 5 and sig not in reported:       # one concrete input per (law, presentation), at most 5
            reported.append(sig)
            what = "results" if ra != rb else "bindings left behind"
            res.violation("equivalent forms disagree (%s) on a callback whose body binds a name: %s" % (what, law),
                          {"kind": "impl-law", "family": "binding-callback", "law": law, "cell": cell, "defs": defs,
                           "left": a, "right": b, "observed": {"left": ra, "right": rb, "left_env": ea, "right_env": eb},
                           "rerun": "./check C13 --replay <this file>"})
    # model vs implementation on a sample of the family (all of it in the thorough tier)
    idx = list(range(len(progs)))
    n_model = 300 if tier == "quick" else len(progs)
    if len(idx) > n_model:
        idx = sorted(rng.shuffle(idx)[:n_model])
    agree, mism, skipped = 0, [], 0
    try:
        coq, _ = es.parse_to_coq(h, [progs[i] for i in idx])
        model = es.model_eval(coq, tag="c13bc")
        for j, i in enumerate(idx):
            if model[j] is None:
                continue
            if "UNMODELLED" in model[j]:
                skipped += 1
            elif model[j] == rust[i]:
                agree += 1
            else:
                mism.append((progs[i], rust[i], model[j]))
    except c.BrokenTie as e:
        res.tie_broken(e.what, e.detail)
    if mism:
        res.tie_broken("correspondence C13/EVAL (binding callbacks): model and implementation disagree on %d of %d programs"
                       % (len(mism), len(idx)), "first: %r\nimpl : %s\nmodel: %s" % mism[0])
    res.streams["EVAL-binding-callbacks"] = {
        "pairs": len(fam), "programs": len(progs), "distinct_programs": len(set(progs)), "by_law": by_law, "by_body": by_body,
        "by_presentation": by_pres, "by_context": by_ctx, "by_list": by_list, "left_outcomes": outcomes,
        "pairs_binding_on_2plus_elements_succeeding": binds_seen, "every_some_short_circuit": shortc,
        "disagreements": viol, "model_compared": len(idx), "model_agree": agree, "model_skipped_unmodelled": skipped,
        "model_mismatches": len(mism), "seconds": round(time.time() - t0, 1),
        "samples": [{"law": fam[i][0], "cell": fam[i][1], "left": fam[i][2] + fam[i][3], "right": fam[i][2] + fam[i][4],
                     "impl": [last(rust[2 * i]), last(rust[2 * i + 1])]} for i in (rng.below(len(fam)) for _ in range(4))]}
    res.coverage["binding_callback_pairs"] = len(fam)
    res.coverage["traces_validated_against_impl"] = res.coverage.get("traces_validated_against_impl", 0) + agree
    return len(progs)


def replay(h, rp):
    o = es.rust_eval(h, [rp["defs"] + rp["left"], rp["defs"] + rp["right"]])
    (ra, ea), (rb, eb) = _split(o[0]), _split(o[1])
    print("implementation now returns:", ra, "vs", rb)
    if ea != eb:
        print("bindings left behind differ:", ea, "vs", eb)
    return 0 if (ra == rb and ea == eb) else 1
