"""C05 — function outputs are portable: emitted source reloads to an equivalent function.
DESIGN.md section 6 (C05); notes/C05.md."""
import json
import os
import subprocess
import sys
import tempfile

import common as c

PID = "C05"
MANIFEST = {
    "text": "Coq theorems over the emission model (coq/Emit.v on top of the evaluator model): the literal written for "
            "a captured first-order value evaluates to exactly that value (all implementations of operators/calls), "
            "built-in names read back (exhaustive over the regenerated table), the repaired string literal is read back "
            "by the grammar's string rule, the inlining is independent of scope order, re-emission of a reloaded function "
            "is the identity, the emitted body is closed, and inlining preserves evaluation (outcome and store) for "
            "lambda-free bodies at every depth; HIGHER-ORDER captured values (proofs/EmitHO*.v): a value relation 'v' is v after emit + "
            "reload' and the simulation theorem — related functions on related arguments give related outcomes at every depth, from "
            "any scope chains and stores — for every operator / built-in implementation respecting the relation, discharged arm by arm "
            "for the transcribed operators (all but == != .== .!=) and the built-ins map filter reduce every some abs floor ceil trunc "
            "sqrt typeof arity to_bool ugt ult ugte ulte any all; corollaries: emission equivalence for closures capturing closures to "
            "any depth with first-order results equal and function results related, re-emission chains related to the original; "
            "REL round: the relation-respecting hypothesis is now PROVED for EVERY arm of EvalFull.builtin_full except unique / includes "
            "(C05_all_builtins_rel_full_proved; proofs/RelPure.v: one relation-generic lemma per arm — aggregates, list/string/record "
            "built-ins, convert round random to_number to_string join, sort_by group_by count_by —, proofs/EmitHOOpsFull.v), so the simulation "
            "and the emission equivalence hold for bodies mentioning any built-in but those two (C05_ho_simulation_full, "
            "C05_emit_equiv_higher_order_full); the exclusion is exact: unique / includes apply Value::equals to argument elements, refuted "
            "in the model and reproduced on the implementation (C05_includes_function_equality_refuted, C05_unique_function_equality_refuted, "
            "C05_all_builtins_unrestricted_refuted; finding F53), and exact with respect to the code: the excluded built-ins are "
            "the arms of BuiltInFunction::call whose source text applies Value::equals (table coq/gen/ArmObservers.v regenerated on "
            "every run, C05_equality_exclusion_matches_source); NaN / both-quote captured data are no longer PARTIAL: the literals `(0/0)` and the `+` chain "
            "of string literals (computed key for record keys) evaluate to exactly the value for EVERY string, in every configuration, for every operator "
            "implementation with 0/0 = NaN and string + string = concatenation (C05_lit_nan_evaluates, C05_lit_both_quote_evaluates, "
            "C05_lit_roundtrip_nan_quote; the transcribed operators satisfy it: C05_binop_lit_ok_inst), and the first-order and higher-order emission "
            "equivalences are re-proved with such data inside, nested at any depth (C05_emit_equiv_first_order_nan_quote[_generic|_all], "
            "C05_ho_simulation_nan_quote, C05_emit_equiv_higher_order_nan_quote; proofs/EmitNq*.v) — the only exclusion left is function equality (F53); the "
            "original C05_full statement is REFUTED (function equality, finding F53); current-code defects are refuted lemmas.  EMIT correspondence: for generated "
            "functions x captured value pool the AST the real parser returns for the real emitted text, and the body of the "
            "real reloaded function, equal the model's inlined AST; behaviour original vs reloaded-in-fresh-session vs "
            "re-emitted-and-reloaded (chains of length 3) on the implementation and through the real CLI binary, incl. closures capturing "
            "closures capturing closures and functions returned by reloaded functions and then called (capture-depth distribution in the evidence); "
            "EMIT-FULLBI: bodies using the full built-in set over captured data / closures / lists of closures, law on the implementation and "
            "the model run with the full dispatcher (coq/EmitRunFull.v)",
    "note": "trusted: Coq kernel + vm_compute; Emit.v / Eval.v transcriptions validated by the EMIT stream; the text layer "
            "(printer/parser round trip) is C07's and is exercised here only through the real parser; no axioms",
    "design_ref": "DESIGN.md section 6 C05; notes/C05.md",
}

REQ = ["Blots.Num", "Blots.gen.Builtins", "Blots.Ast", "Blots.Value", "Blots.Outcome", "Blots.Env", "Blots.Eval",
       "Blots.Program", "Blots.EvalInst", "Blots.Emit", "Blots.EmitRun"]

# --------------------------------------------------------------------------- generator
# captured value pool: (tag, statements defining k)
POOL = [
    ("num", "k = 5"), ("num", "k = 0"), ("num", "k = 2.5"), ("num", "k = 0.1 + 0.2"), ("big", "k = 1e21"),
    ("big", "k = 9007199254740993"), ("num", "k = 1e-7"), ("big", "k = 123456789012345680000"),
    ("neg", "k = -5"), ("neg", "k = -0"), ("neg", "k = -2.5"), ("neg", "k = -1e-7"), ("neg", "k = 0 - 3"),
    ("inf", "k = 1e300 * 1e10"), ("inf", "k = -1e300 * 1e10"), ("inf", "k = inf"),
    ("nan", "k = 0 / 0"), ("nan", "k = [1, 0 / 0]"),
    ("bool", "k = true"), ("bool", "k = false"), ("null", "k = null"),
    ("str", 'k = "abc"'), ("str", 'k = ""'), ("str", "k = \"a'b\""), ("str", 'k = "héllo ✓ \U0001F600"'),
    ("str", 'k = "two\nlines"'), ("str", 'k = "// not a comment"'),
    ("stresc", "k = 'a\"b'"), ("stresc", 'k = "a\\b"'), ("stresc", "k = 'say \"hi\"' + \" it's\""),
    # both quote kinds with a double quote at the start, at the end, doubled, and alone with a single quote
    ("stresc", "k = \"it's \" + '\"q\"'"), ("stresc", "k = '\"' + \"'\""), ("stresc", "k = '\"\"' + \"'\" + '\"'"),
    ("stresc", "k = \"'\" + '\"lead'"), ("stresc", "k = {[\"'\" + '\"k\"']: 1}"),
    ("stresc", "k = [\"x\\\\\", 1]"), ("stresc", "k = {'q\"': 1}"), ("stresc", 'k = {"a\\b": 2}'),
    ("list", "k = [1, 2, 3]"), ("list", "k = []"), ("list", 'k = [1, -2, [3, "x"], {a: null}]'),
    ("list", "k = [-1, -0, 1e300 * 1e10]"),
    # all-finite numeric containers holding the values a number printer is most likely to get wrong: -0, whole
    # values at and beyond the i64 / u64 range, both sides of the 1e15 notation split (cf. C16 CAPTURED)
    ("list", "k = [1, -0, 2.5]"), ("big", "k = [10000000000000000000, 18446744073709551616, -1e300, 6.02214076e23]"),
    ("big", "k = {a: [9223372036854775808, -0, 999999999999999, 1e15], b: -1e21}"), ("big", "k = [[-0], [1e19, -9223372036854775808]]"),
    ("rec", "k = {a: 1, b: 2}"), ("rec", "k = {}"), ("rec", 'k = {a: {a: [1, {a: -1}]}, "b c": [2], via: -3, "if": 4, "9x": 5, "": 6}'),
    ("rec", "k = {a: -1}"),
    ("builtin", "k = sin"), ("builtin", "k = map"), ("builtin", "k = len"), ("builtin", "k = [abs, floor]"),
    ("closure", "k = z => z * 2"), ("closure", "c0 = 3\nk = z => z + c0"), ("closure", "c0 = -3\nk = (z, w?) => [z, w, c0]"),
    ("closure", "c0 = \"s\"\ng = z => z + c0\nk = z => g(z) + g(z)"), ("closure", "k = (...r) => r"),
    ("closure", "c0 = [1, 2]\nk = {f: z => c0[z], n: -1}"), ("closure", "c0 = 2\nk = a => b => a + b + c0"),
    # capture depth 3 and more: closures capturing closures capturing closures (directly, through factories,
    # through a record, with a do-block local), and the F53 shape (two closures differing only in captured values)
    ("closure3", "c0 = 2\nh = z => z * c0\ng = y => h(y + c0)\nk = w => g(w) + h(w)"),
    ("closure3", "mk = a => b => c => a + b + c\nk = mk(1)(2)"),
    ("closure3", "c0 = [1, 2]\nh = z => c0[z]\ng = {f: y => h(y), d: -1}\nk = v => g.f(v)"),
    ("closure3", "c0 = \"s\"\nh = z => [z, c0]\ng = y => do {\n  t = h(y)\n  return (u => [t, u, h(u)])\n}\nk = w => g(w)(w)"),
    ("closure3", "c0 = 3\nh = z => z + c0\ng = y => map([y, h(y)], h)\nk = w => g(w) via h"),
    ("closureeq", "mk = a => (y => y + a)\nk1 = mk(1)\nk = {p: mk(2), q: k1, t: k1 == mk(2), u: [mk(1)] == [mk(2)]}"),
]

# bodies over parameters x (and y), captured k (and j = 2): (params, body) — "small shapes"
ARITH = ["+", "-", "*", "/", "%", "^", "==", "!=", "<", "<=", ">", ">=", ".==", ".!=", ".<", ".<=", ".>", ".>=",
         "&&", "||", "and", "or", "??"]


def small_bodies():
    out = []
    for op in ARITH:
        out.append(("x", "x %s k" % op))
        out.append(("x", "k %s x" % op))
    out += [("x", "(x via k)"), ("x", "(x where k)"), ("x", "(x into k)"), ("x", "(k via (z => z + x))"),
            ("x", "(k where (z => z .> x))"), ("x", "(k into (z => [z, x]))"), ("x", "[x via k]"), ("x", "[k where (z => z .> x)][0]"),
            ("x", "-k"), ("x", "!k"), ("x", "not k"), ("x", "-k + x"), ("x", "x - -k"),
            ("x", "k!"), ("x", "k[0]"), ("x", "k[x]"), ("x", "k.a"), ("x", "k(x)"), ("x", "k(x)(1)"), ("x", "k.f(1)"),
            ("x", "k[0]!"), ("x", "k.a.a"), ("x", "x[k]"), ("x", "x(k)"),
            ("x", "if k then x else 0"), ("x", "if x == k then 1 else 2"), ("x", "if x then k else j"),
            ("x", "[k, x]"), ("x", "[k]"), ("x", "{a: k, b: x}"), ("x", "{k}"), ("x", "{k, x}"), ("x", "{[k]: x}"),
            ("x", "{\"k\": k}"), ("x", "[...k]"), ("x", "{...k}"), ("x", "[...k, ...x]"), ("x", "k(...x)"),
            ("x", "(z => z + k)(x)"), ("x", "(k => k + 1)(x)"), ("x", "((k, x) => [k, x])(1, 2)"),
            ("x", "(k? => k)()"), ("x", "((...k) => k)(x)"),
            # k is captured (used outside) AND an inner lambda has a parameter of that name, of every kind
            ("x", "[k, (k => k)(x)]"), ("x", "[k, (k? => k)()]"), ("x", "[k, ((k?) => k ?? 1)(x)]"),
            ("x", "[k, ((...k) => k)(x)]"), ("x", "[k, ((z, k?) => [z, k])(x)]"), ("x", "[k, ((z, ...k) => [z, k])(x, 1)]"),
            ("x", "[(k? => [k])(), k]"),
            ("x", "map([1, 2], z => z + k)"), ("x", "[[1, 2] via (z => [z, k])]"), ("x", "z => [z, k, x]"),
            ("x", "(z => k => [z, k])(x)(1)"), ("x", "(z => w => [z, w, k])(x)(1)"),
            ("x", "do {\n  t = k\n  return [t, x]\n}"), ("x", "do {\n  k = x\n  return k\n}"),
            ("x", "do {\n  y = k\n  k = x\n  return [k, y]\n}"),
            ("x", "do {\n  t = k\n  return (z => [z, t, k])(1)\n}"),
            ("x", "do {\n  t = do {\n    u = k\n    return [u]\n  }\n  return [t, k]\n}"),
            ("x", "do {\n  y = k\n  k = 1\n  return (z => [z, k, y])(x)\n}"),
            ("x", "do {\n  y = k; k = [y]; k = [k]\n  return k\n}"),
            ("x", "len(k)"), ("x", "abs(k)"), ("x", "typeof(k)"), ("x", "sum(k)"), ("x", "typeof(k(x))"),
            ("x", "[k, j]"), ("x", "k + j"), ("x", "j ^ k"), ("x", "k ^ j"), ("x", "x + k * j"), ("x", "(x + k) * j"),
            ("x", "-(x + k)"), ("x", "(x + k)!"), ("x", "x - (k - j)"), ("x", "x + (k - j)"), ("x", "(if x then k else j) + 1"),
            ("x", "k == (x < j)"), ("x", "x and (k or j)"), ("x", "(k ^ j) ?? x"),
            ("x, y", "[x, y, k]"), ("x, y?", "[x, y, k]"), ("x, ...y", "[x, y, k]"), ("", "k"), ("...x", "[x, k]"),
            ("k", "k"), ("x", "inputs"), ("x", "[constants.pi, inf, infinity, k]"),
            # results that are functions (called again by the argument form "1)(2"), closures created by the body
            # that capture the captured closure, and function equality (F53)
            ("x", "y => [k, x, y]"), ("x", "y => z => [k, x, y, z]"), ("x", "do {\n  t = k\n  return (y => [t, y, x])\n}"),
            ("x", "[y => k, k]"), ("x", "{f: y => [k, y], g: k}.f"), ("x", "map([x, 1], y => [k, y])"),
            ("x", "k.p == k.q"), ("x", "[k.t, k.u, k.p(x), k.q(x)]"), ("x", "k.p != x")]
    return out


ATOMS = ["x", "k", "j", "2", "\"s\"", "[1, 2]", "k", "k"]
DELIMS = ["[%s, %s]", "{a: %s, b: %s}", "if %s then %s else 0", "(z => [z, %s])(%s)", "do {\n  t = %s\n  return [t, %s]\n}",
          "[%s][0] + [%s][0]", "typeof(%s) + typeof(%s)", "{a: %s}.a == %s", "((a, b?) => [a, b])(%s, %s)",
          "do {\n  y = %s\n  k = %s\n  return [k, y]\n}", "(k => [k, %s])(%s)", "[...[%s], %s]", "[[%s] via (z => [z, %s])]",
          "(%s) * -(%s)", "(%s)! + %s", "not (%s) or %s"]


def rand_body(rng, depth):
    if depth == 0 or rng.chance(1, 5):
        return rng.choice(ATOMS)
    t = rng.choice(DELIMS)
    return t % (rand_body(rng, depth - 1), rand_body(rng, depth - 1))


# "1)(2": the call text becomes f(1)(2) — a function returned by the (reloaded) function is called
ARGS1 = ["1", "-2", "0", "\"s\"", "[1, 2, 3]", "null", "{a: 1}", "true", "false", "z => z", "1)(2", "z => z + 3"]
ARGSN = {"": [""], "x": ARGS1, "k": ["1", "\"s\""], "...x": ["", "1, 2"], "x, y": ["1, 2", "\"a\", [1]"],
         "x, y?": ["1", "1, 2"], "x, ...y": ["1", "1, 2, 3"]}


def has_factorial(body):
    """a postfix `!` (not `!=`, not prefix `!k`): the factorial loop runs n iterations, so it must not
    meet the huge captured numbers"""
    for i, ch in enumerate(body):
        if ch == "!" and body[i + 1:i + 2] != "=" and i > 0 and (body[i - 1].isalnum() or body[i - 1] in ")]"):
            return True
    return False


def program(defs, params, body):
    return "%s\nj = 2\nf = (%s) => %s" % (defs, params, body)


def gen_cases(rng, tier):
    cases = []          # (kind, program, [args])
    sb = small_bodies()
    for tag, defs in POOL:
        for params, body in sb:
            if tag == "big" and has_factorial(body):
                continue
            cases.append(("small/" + tag, program(defs, params, body), ARGSN[params]))
    n_rand = 400 if tier == "quick" else 6000
    for _ in range(n_rand):
        tag, defs = rng.choice(POOL)
        body = rand_body(rng, 3)
        if tag == "big" and has_factorial(body):
            continue
        cases.append(("deep/" + tag, program(defs, "x", body), [rng.choice(ARGS1), rng.choice(ARGS1)]))
    if tier == "quick":
        # quick: every pool value with a third of the small shapes (rotating with the seed) + all deep
        keep = []
        r = rng.below(3)
        for i, cs in enumerate(cases):
            if cs[0].startswith("deep") or i % 3 == r:
                keep.append(cs)
        cases = keep
    return cases



# --------------------------------------------------------------------------- generated table (REL round)
def regen_arm_observers():
    """coq/gen/ArmObservers.v — for every arm of BuiltInFunction::call (blots-core/src/functions.rs), read off its
    SOURCE TEXT: does it apply Value::equals, does it apply Value::compare, does it call a function value
    (FunctionDef::call).  Properties/C05.v proves that the arms applying Value::equals are exactly the built-ins that
    the emission-equivalence theorems exclude (biok_full, finding F53); Properties/C02.v that the arms calling back /
    comparing are the ones the renaming proofs treat as such."""
    import re
    path = os.path.join(c.REPO, "blots-core", "src", "functions.rs")
    try:
        src = open(path).read()
        m = re.search(r"pub fn name\(&self\)[^{]*\{\s*match self \{(.*?)\n        \}", src, re.S)
        names = dict(re.findall(r"Self::(\w+) => \"(\w+)\"", m.group(1)))
        i = src.index("    pub fn call(\n        &self,\n        args: Vec<Value>")
        j = src.index("\n        }\n    }\n", i)
        body = src[src.index("        match self {\n", i):j]
    except (OSError, ValueError, AttributeError) as e:
        raise c.BrokenTie("translator regen_arm_observers: BuiltInFunction::name / ::call not found in functions.rs as expected", repr(e))
    heads = list(re.finditer(r"^            ((?:Self::\w+)(?:\s*\|\s*Self::\w+)*) =>", body, re.M))
    if not heads:
        raise c.BrokenTie("translator regen_arm_observers: no match arms found in BuiltInFunction::call", body[:300])
    arms = {}
    for k, h_ in enumerate(heads):
        text = body[h_.end():heads[k + 1].start() if k + 1 < len(heads) else len(body)]
        text = re.sub(r"//[^\n]*", "", text)            # comments do not count
        for variant in re.findall(r"Self::(\w+)", h_.group(1)):
            arms[variant] = text
    missing = sorted(set(names) - set(arms))
    if missing:
        raise c.BrokenTie("translator regen_arm_observers: variants without an arm in BuiltInFunction::call", ", ".join(missing))

    def sel(pred):
        got = sorted(names[v] for v, t in arms.items() if v in names and pred(t))
        return " | ".join("B_" + n for n in got)
    rows = [("src_applies_equals", lambda t: ".equals(" in t),
            ("src_applies_compare", lambda t: ".compare(" in t),
            ("src_calls_function", lambda t: re.search(r"\b(func_def|fd|function_def)\s*\.\s*call\(", t) is not None
                                             or re.search(r"\.call\(\s*\*func\b", t) is not None)]
    out = ["(* GENERATED by checks/c05.py:regen_arm_observers from the source text of BuiltInFunction::call",
           "   (blots-core/src/functions.rs). Do not edit. *)", "From Coq Require Import Bool.",
           "Require Import Blots.gen.Builtins.", ""]
    for name, pred in rows:
        pats = sel(pred)
        out.append("Definition %s (b : builtin) : bool :=" % name)
        out.append("  match b with %s_ => false end." % (pats + " => true | " if pats else ""))
    out.append("Definition src_arm_count : nat := %d." % len(arms))
    c.write_if_changed(os.path.join(c.GEN, "ArmObservers.v"), "\n".join(out) + "\n")
    return {name: sel(pred) for name, pred in rows}

# --------------------------------------------------------------------------- running
def rust_emit(h, cases):
    lines = ["\t".join([c.hexs(p)] + [c.hexs(a) for a in args]) for _, p, args in cases]
    return c.harness_lines_resilient(h, "emit", lines)


def fields(line):
    d = {"R": []}
    for part in line.split(" | "):
        k, _, v = part.partition(" ")
        if k == "R":
            d["R"].append(v.split("/"))
        else:
            d[k] = v
    return d


def opt_term(s):
    return "None" if s in (None, "REJECT", "NOFUN", "-") else "(Some %s)" % s


def model_reports(parsed, tag):
    """emit_report for every case with a VAL field"""
    idx = [i for i, d in enumerate(parsed) if d.get("VAL")]
    exprs = []
    for i in idx:
        d = parsed[i]
        st, _, val = d["VAL"].partition("] ")
        exprs.append("(emit_report %s] %s %s %s)" % (st, val, opt_term(d.get("AST1")), opt_term(d.get("AST2"))))
    outs = c.coq_eval_batch(REQ, "", exprs, tag, shard=150)
    res = [None] * len(parsed)
    for i, o in zip(idx, outs):
        res[i] = o
    return res


def call_terms(h, argsrcs):
    """Gallina terms of the call expressions f__(args)"""
    outs = c.harness_lines_resilient(h, "parse", [c.hexs("f__(%s)" % a) for a in argsrcs])
    return [o[2:] if o.startswith("E ") else None for o in outs]


def model_behaviour(h, cases, parsed, idx, state, tag):
    allargs = sorted({a for i in idx for a in cases[i][2]})
    terms = dict(zip(allargs, call_terms(h, allargs)))
    exprs, keep = [], []
    for i in idx:
        d = parsed[i]
        st, _, val = d["VAL"].partition("] ")
        calls = [terms[a] for a in cases[i][2]]
        if any(t is None for t in calls):
            continue
        exprs.append("(emit_behaviour %s %s %s] %s [%s])" % (b(state["nan"]), b(state["do"]), st, val, "; ".join(calls)))
        keep.append(i)
    # in chunks, so that one failing shard (resource exhaustion in coqc) is located and reported,
    # not the whole sample lost
    res, failed = {}, []
    CH = 480
    for k in range(0, len(exprs), CH):
        try:
            outs = c.coq_eval_batch(REQ, "", exprs[k:k + CH], tag, shard=30)
            res.update(zip(keep[k:k + CH], outs))
        except c.BrokenTie as e:
            failed.append((k, e.detail[-300:]))
            for k2 in range(k, min(k + CH, len(exprs)), 15):
                try:
                    outs = c.coq_eval_batch(REQ, "", exprs[k2:k2 + 15], tag, shard=15)
                    res.update(zip(keep[k2:k2 + 15], outs))
                except c.BrokenTie as e2:
                    for k3 in range(k2, min(k2 + 15, len(exprs))):
                        try:
                            outs = c.coq_eval_batch(REQ, "", exprs[k3:k3 + 1], tag, shard=1)
                            res.update(zip(keep[k3:k3 + 1], outs))
                        except c.BrokenTie as e3:
                            res[keep[k3]] = "EVALFAIL " + e3.detail[-200:].replace("\n", " ")
    return res


def b(x):
    return "true" if x else "false"


# --------------------------------------------------------------------------- known classes
WITNESS = {
    "F10": ("k = 0 / 0\nf = x => [k, x]", ["1"]),
    "F11": ("k = 'a\"b'\nf = x => k + x", ["\"z\""]),
    "F11b": ("k = \"a\\b\"\nf = x => k + x", ["\"z\""]),
    "F15": ("k = -5\nf = x => k!", ["1"]),
    "F50": ("k = 5\nf = x => do {\n  y = k\n  k = x\n  return k + y\n}", ["1"]),
    "F8": ("g = 7\nf = do {\n  g = () => g\n  return g\n}", [""]),
    "F12-F14": ("k = 2\nf = x => -(x + k)", ["1"]),
    "F51": ("k = 5\nf = x => (k into (z => [z, x]))", ["1"]),
    "F53": ("mk = a => (y => y + a)\nk1 = mk(1)\nk2 = mk(2)\nf = x => k1 == k2", ["0"]),
}


def capture_depth(val):
    """nesting depth of VLam inside VLam in the Gallina term of a function value: 1 = captures data only"""
    depth = best = 0
    stack = []          # for every open parenthesis: does it open a VLam
    i, n = 0, len(val)
    while i < n:
        ch = val[i]
        if ch == '"':
            i = val.find('"', i + 1)
            if i < 0:
                break
        elif ch == "(":
            is_lam = val.startswith("(VLam ", i)
            stack.append(is_lam)
            if is_lam:
                depth += 1
                best = max(best, depth)
        elif ch == ")" and stack:
            if stack.pop():
                depth -= 1
        i += 1
    return best


EQ_TOKENS = ["==", "!=", "unique", "includes"]


def f52_class(prog, val, args):
    """mirror of the Coq exclusion for F53 (narrower: the theorems exclude every body with == != .== .!=):
    an equality operator / equality-using built-in occurs in the program AND a function value is around
    to be compared (a captured closure, or an argument that is a function)"""
    if not any(t in prog for t in EQ_TOKENS):
        return False
    return capture_depth(val) >= 2 or any("=>" in a for a in args)


def reproduces(h, wid):
    prog, args = WITNESS[wid]
    d = fields(rust_emit(h, [("w", prog, args)])[0])
    if wid == "F15":
        # the emission itself: the reloaded function still differs while the plain printer used by
        # the reload path drops the parentheses again (F12-F14)
        return "(-5)" not in c.unhex(d.get("SRC", "")), d
    return any(len(r) >= 3 and not (r[0] == r[1] == r[2] == r[-1]) for r in d["R"]), d


def repo_state(h):
    """which of the proposed repairs the working tree already contains (True = repaired)"""
    st = {}
    st["nan"] = not reproduces(h, "F10")[0]
    st["str"] = not (reproduces(h, "F11")[0] or reproduces(h, "F11b")[0])
    st["neg"] = not reproduces(h, "F15")[0]
    st["do"] = not reproduces(h, "F50")[0]
    st["self"] = not reproduces(h, "F8")[0]
    st["paren"] = not reproduces(h, "F12-F14")[0]
    st["body"] = not reproduces(h, "F51")[0]
    return st


def excuse(bits, state, what="law", open_ids=None):
    """the open known-finding class that covers a difference for a function with these class bits
    (mirrors the exclusions of the Coq statements: Emit.v v_has_nan / v_needs_escape / v_do_shadows /
    v_self_shadow / paren_lossy before and after inlining).  what = "ast1": the emitted text itself;
    "law": behaviour / body of the reloaded function — the reload path prints the parsed body once more
    with the plain printer, so a shape that needs parentheses only AFTER inlining (a negative literal or an
    inlined closure as an operand) is rendered correctly by the emission and then broken by F12-F14."""
    nan, esc, bothq, dosh, selfn, closed, lossy0, lossy1, topnat = [x == "1" for x in bits]
    ex = _excuse(nan, esc, dosh, selfn, lossy0, lossy1, topnat, state, what)
    # only OPEN known findings excuse anything: a class whose entry is "fixed" is a regression
    if ex is not None and open_ids is not None and ex not in open_ids:
        return None
    return ex


def _excuse(nan, esc, dosh, selfn, lossy0, lossy1, topnat, state, what):
    if nan and not state["nan"]:
        return "F10"
    if esc and not state["str"]:
        return "F11"
    if dosh and not state["do"]:
        return "F50"
    if selfn and not state["self"] and what == "law":
        return "F8"
    if topnat and not state["body"]:
        return "F51"
    if lossy0 and not state["paren"]:
        return "F12-F14"
    if lossy1 and not lossy0:
        if what == "ast1":
            return None if state["neg"] else "F15"
        if not state["paren"]:
            return "F12-F14"
        return None if state["neg"] else "F15"
    return None


# --------------------------------------------------------------------------- CLI chains
# functions that mention the session's `inputs` (by name, through #name, directly or inside a captured closure):
# `inputs` is an ordinary captured binding, so such a function is closed after capture and must carry the values
# it saw to a fresh program that has OTHER inputs (round 4, seed C05-7: `inputs` left as a bare name on emission;
# no in-process session of this check had a non-empty inputs record)
INPUTS_JSON = '{"rate": 2, "fees": [1, 10], "tag": "a\\"b", "cfg": {"deep": [null, -0.5]}, "if": 7, "return": [3, 4], "true": false}'
INPUTS_PROGS = [
    ("f = x => x * inputs.rate + inputs.fees[1]", ["1", "2.5"]),
    ("f = x => [x, #rate, #fees, #tag, #cfg.deep, #missing]", ["0"]),
    ("f = x => [x, inputs]", ["1"]),
    ("g = y => y + inputs.rate\nf = x => g(x) * 2", ["1", "-3"]),
    ("k = inputs.cfg\nf = x => [k.deep, inputs.cfg.deep, x]", ["7"]),
    ("f = (x, inputs?) => [x, inputs]", ["1", "1, 2"]),
    ("f = x => do {\n  r = #rate\n  return [r * x, keys(inputs)]\n}", ["3"]),
    ("mk = a => (x => [a, x, inputs.tag])\nf = mk(#fees)", ["1"]),
    ("f = x => map(inputs.fees, e => e * x + #rate)", ["2"]),
    # fields spelled like reserved words: `#if` parses but `{..}.if` does not, so emission writes the index form
    ("f = x => x * #if + #rate", ["5"]),
    ("f = x => [#return, #true, #not, #output, x]", ["1"]),
    ("f = x => #return[1] + x - #if!", ["1"]),
    ("f = x => {\"if\": #if, r: #return, t: not #true}", ["0"]),
    ("g = y => y + #if\nf = x => [g(x), (inputs => #if)({\"if\": x})]", ["2"]),
]


def cli_chain(cli, prog, args, inputs_json=None):
    """blots prog1 (outputs f and r_i = f(args_i)) | blots prog2 (r_i = inputs.f(args_i)) -> (r1 dict, r2 dict)"""
    with tempfile.TemporaryDirectory(prefix="c05cli") as td:
        p1 = os.path.join(td, "p1.blots")
        p2 = os.path.join(td, "p2.blots")
        lines = prog.split("\n")
        fi = max(i for i, l in enumerate(lines) if l.startswith("f = "))
        lines[fi] = "output " + lines[fi]
        with open(p1, "w") as f:
            f.write("\n".join(lines + ["output r%d = f(%s)" % (i, a) for i, a in enumerate(args)]) + "\n")
        with open(p2, "w") as f:
            f.write("\n".join(["output r%d = inputs.f(%s)" % (i, a) for i, a in enumerate(args)] + ["output f = inputs.f"]) + "\n")
        r1 = subprocess.run([cli] + (["-i", inputs_json] if inputs_json else []) + [p1], stdin=subprocess.DEVNULL,
                            capture_output=True, text=True, timeout=60)
        if r1.returncode != 0:
            return None, None, "prog1 rc=%d" % r1.returncode
        try:
            o1 = json.loads(r1.stdout)
        except ValueError:
            return None, None, "prog1 output is not JSON"
        r2 = subprocess.run([cli, p2], input=r1.stdout, capture_output=True, text=True, timeout=60)
        if r2.returncode != 0:
            return o1, None, "prog2 rc=%d" % r2.returncode
        try:
            o2 = json.loads(r2.stdout)
        except ValueError:
            return o1, None, "prog2 output is not JSON"
        # third hop: the function emitted by prog2, loaded again
        r3 = subprocess.run([cli, p2], input=r2.stdout, capture_output=True, text=True, timeout=60)
        o3 = None
        if r3.returncode == 0:
            try:
                o3 = json.loads(r3.stdout)
            except ValueError:
                o3 = None
        return o1, o2, o3


# --------------------------------------------------------------------------- main
def main(argv):
    tier, seed, replay = c.tier_and_seed(argv)
    res = c.Result(PID, tier, seed)
    try:
        h = c.build_harness()
        cli = c.build_cli("release")
        c.regen_all(h)
    except c.BrokenTie as e:
        res.tie_broken(e.what, e.detail)
        return res.finish()
    if replay:
        rp = json.load(open(replay))
        print(json.dumps(rp, indent=1))
        if rp.get("program") is not None:
            d = fields(rust_emit(h, [("replay", rp["program"], rp.get("args", []))])[0])
            print("implementation now returns (original/reloaded/re-reloaded/third re-emission):", d["R"])
            ok = all(len(r) == 4 and r[0] == r[1] == r[2] == r[3] for r in d["R"]) and bool(d["R"])
            if rp.get("family") in ("EMIT-KEYS", "EMIT-BINDERS") or rp.get("expect_accepted"):
                # closed by construction: must also be accepted as an output and emitted as text that parses as a function
                print("accepted as an output (validate_portable_value):", d.get("PORT"), "| emitted:",
                      c.unhex(d["SRC"]) if d.get("SRC", "-") != "-" else None, "| parses as:", d.get("AST1", "-")[:40])
                ok = ok and d.get("PORT") == "1" and d.get("AST1", "REJECT").startswith("(ELam")
            return 0 if ok else 1
        return 0

    c.proof_step(res, PID, extra_targets=["EmitRun.vo"])
    state = repo_state(h)
    open_ids = {e["id"] for e in c.open_known(PID)}
    rng = c.Rng(seed)
    cases = gen_cases(rng, tier)
    # corpus first
    corpus_dir = os.path.join(c.VERIF, "corpus", PID)
    corpus = []
    if os.path.isdir(corpus_dir):
        for fn in sorted(os.listdir(corpus_dir)):
            if fn.endswith(".json"):
                e = json.load(open(os.path.join(corpus_dir, fn)))
                corpus.append(("corpus/" + fn, e["program"], e.get("args", [])))
    cases = corpus + [("witness/" + k, p, a) for k, (p, a) in sorted(WITNESS.items())] + cases
    rust = rust_emit(h, cases)
    parsed = [fields(o) for o in rust]
    for (kind, prog, args), o in zip(cases, rust):
        if o.startswith("PANIC") or o.startswith("ABORT"):
            res.violation("emitting / reloading a function panicked or aborted",
                          {"kind": "impl", "program": prog, "args": args, "observed": o[:300]})
    try:
        reports = model_reports(parsed, "c05r")
    except c.BrokenTie as e:
        res.tie_broken(e.what, e.detail)
        reports = [None] * len(cases)

    # the model variant the implementation is compared with: the repaired emission, unless the
    # defect is an OPEN known finding and still reproduces
    nanfix = state["nan"] or "F10" not in open_ids
    dofix = state["do"] or "F50" not in open_ids
    want = (1 if nanfix else 0) + (2 if dofix else 0)
    stats = {"cases": len(cases), "errprog": 0, "not_closed": 0, "ast_agree": 0, "ast2_agree": 0, "ast_excused": {},
             "ast_mismatch": 0, "law_checked": 0, "law_ok": 0, "law_excused": {}, "law_violations": 0,
             "by_kind": {}, "ok_results": 0, "err_results": 0, "fn_results": 0, "capture_depth": {},
             "law_checked_by_capture_depth": {}, "calls_of_returned_functions": 0, "chains_len3_checked": 0}
    nontrivial = set()
    mism = []
    law_fail = []
    for i, ((kind, prog, args), d, rep) in enumerate(zip(cases, parsed, reports)):
        stats["by_kind"][kind.split("/")[0] + "/" + kind.split("/")[1][:7]] = stats["by_kind"].get(kind.split("/")[0] + "/" + kind.split("/")[1][:7], 0) + 1
        if "VAL" not in d:
            stats["errprog"] += 1
            continue
        if rep is None:
            continue
        bits = rep[1:10]
        a1 = rep.split(" A1")[1][:4]
        a2 = rep.split(" A2")[1][:4]
        closed = bits[5] == "1"
        ex = excuse(bits, state, "law", open_ids)
        ex1 = excuse(bits, state, "ast1", open_ids)
        cd = capture_depth(d["VAL"])
        stats["capture_depth"][str(cd)] = stats["capture_depth"].get(str(cd), 0) + 1
        is_f52 = "F53" in open_ids and f52_class(prog, d["VAL"], args)
        # --- (i) correspondence: emitted text parsed by the real parser == model AST
        if a1[want] == "1":
            stats["ast_agree"] += 1
            if a2[want] == "1":
                stats["ast2_agree"] += 1
            elif ex is None:
                mism.append((prog, "body of the reloaded function (AST2)", rep))
        elif ex1 is not None:
            stats["ast_excused"][ex1] = stats["ast_excused"].get(ex1, 0) + 1
        else:
            mism.append((prog, "parse of the emitted text (AST1)", rep))
        # --- (ii) the property on the implementation alone
        if closed and d.get("PORT") != "1" and ex is None and ex1 is None and a1[want] == "1":
            # closed after capture by the model (whose inlined AST is what the implementation emitted) but refused by
            # validate_portable_value: the clause "is emitted as a __blots_function source string"
            stats["closed_but_refused"] = stats.get("closed_but_refused", 0) + 1
            if stats["closed_but_refused"] <= 3:
                res.violation("a closed-after-capture function is refused as an output (validate_portable_value fails)",
                              {"kind": "impl-law", "expect_accepted": True, "program": prog, "args": args, "classes": rep,
                               "observed": {"validate_portable_value_ok": d.get("PORT")}, "expected": "accepted",
                               "rerun": "./check C05 --replay <this file>"})
        if not closed or d.get("PORT") != "1":
            stats["not_closed"] += 1
            continue
        for a, r in zip(args, d["R"]):
            stats["law_checked"] += 1
            if r[0].startswith("OK"):
                stats["ok_results"] += 1
                nontrivial.add((prog, a))
                if "FN(" in r[0]:
                    stats["fn_results"] += 1
            else:
                stats["err_results"] += 1
            stats["law_checked_by_capture_depth"][str(cd)] = stats["law_checked_by_capture_depth"].get(str(cd), 0) + 1
            if ")(" in a and r[0].startswith("OK"):
                stats["calls_of_returned_functions"] += 1
            if len(r) == 4 and "NOSESSION" not in r[3]:
                stats["chains_len3_checked"] += 1
            if len(r) == 4 and r[0] == r[1] == r[2] == r[3]:
                stats["law_ok"] += 1
            elif ex is not None:
                stats["law_excused"][ex] = stats["law_excused"].get(ex, 0) + 1
            elif is_f52:
                stats["law_excused"]["F53"] = stats["law_excused"].get("F53", 0) + 1
            else:
                stats["law_violations"] += 1
                law_fail.append((prog, a, r, rep))
    for prog, a, r, rep in law_fail[:5]:
        res.violation("a closed-after-capture function and its reloaded emission disagree",
                      {"kind": "impl-law", "program": prog, "args": [a],
                       "observed": {"original": r[0], "reloaded": r[1], "re-emitted and reloaded": r[2] if len(r) > 2 else None,
                                    "third re-emission": r[3] if len(r) > 3 else None},
                       "expected": "all four equal", "classes": rep,
                       "rerun": "./check C05 --replay <this file>"})
    if mism:
        stats["ast_mismatch"] = len(mism)
        res.tie_broken("correspondence C05/EMIT: the AST of the emitted text differs from the model's inlined AST on %d of %d functions"
                       % (len(mism), len(cases)), "first: %r\nwhat: %s\nreport: %s" % mism[0])

    # --- model behaviour vs implementation (sample)
    cand = [i for i, (d, rep) in enumerate(zip(parsed, reports)) if rep and "VAL" in d and excuse(rep[1:10], state, "law", open_ids) is None
            and rep.split(" A1")[1][:4][want] == "1"]
    n_beh = 300 if tier == "quick" else 1200
    if len(cand) > n_beh:
        cand = sorted(rng.shuffle(cand)[:n_beh])
    beh_agree = beh_skip = 0
    beh_mism = []
    beh_fail = []
    try:
        mb = model_behaviour(h, cases, parsed, cand, {"nan": nanfix, "do": dofix}, "c05b")
        for i, out in mb.items():
            if out is None:
                continue
            if out.startswith("EVALFAIL"):
                beh_fail.append((cases[i][1], out))
                continue
            pairs = out.split(" ")
            for (a, r, m) in zip(cases[i][2], parsed[i]["R"], pairs):
                if "UNMODELLED" in m:
                    beh_skip += 1
                    continue
                if m == r[0] + "/" + r[1]:
                    beh_agree += 1
                else:
                    beh_mism.append((cases[i][1], a, "/".join(r[:2]), m))
    except c.BrokenTie as e:
        res.tie_broken(e.what, e.detail)
    # coqc cannot run the model on a few inputs (Eval.index_from converts a huge index to a unary nat);
    # they are counted; more than 1% of the sample is a broken tie
    if len(beh_fail) * 100 > max(1, len(cand)):
        res.tie_broken("model evaluation (coqc vm_compute) failed on %d functions of the behaviour sample" % len(beh_fail),
                       "first: %r\n%s" % beh_fail[0])
    if beh_mism:
        res.tie_broken("correspondence C05/EMIT-behaviour: model and implementation disagree on %d calls" % len(beh_mism),
                       "first: %r args %r\nimpl : %s\nmodel: %s" % beh_mism[0])

    # --- (iii) chains through the real CLI binary
    chain_idx = [i for i, (d, rep) in enumerate(zip(parsed, reports)) if rep and "VAL" in d and rep[6] == "1" and d.get("PORT") == "1"
                 and d["R"] and all(r[0].startswith("OK") and "FN(" not in r[0] for r in d["R"])]
    n_chain = 40 if tier == "quick" else 400
    wit_idx = [i for i in chain_idx if cases[i][0].startswith("witness")]
    rest = [i for i in chain_idx if not cases[i][0].startswith("witness")]
    pick = wit_idx + rng.shuffle(rest)[:n_chain]
    chain_ok = chain_exc = 0
    for i in pick:
        kind, prog, args = cases[i]
        o1, o2, o3 = cli_chain(cli, prog, args)
        ex = excuse(reports[i][1:10], state, "law", open_ids)
        good = isinstance(o2, dict) and isinstance(o3, dict) and all(
            o1.get("r%d" % j) == o2.get("r%d" % j) == o3.get("r%d" % j) for j in range(len(args)))
        # the in-process result says whether this function reloads faithfully
        inproc = all(r[0] == r[1] == r[2] == r[-1] for r in parsed[i]["R"])
        if good:
            chain_ok += 1
        elif ex is not None or ("F53" in open_ids and f52_class(prog, parsed[i]["VAL"], args)):
            chain_exc += 1
        else:
            res.violation("blots prog1 | blots prog2 | blots prog2: the reloaded function gives different outputs",
                          {"kind": "cli-chain", "program": prog, "args": args, "prog1": o1, "prog2": o2,
                           "prog2_again": o3 if isinstance(o3, dict) else str(o3), "in_process_agrees": inproc})

    # --- (iv) REL round: EMIT-FULLBI — bodies that use the built-ins the simulation now covers
    # (Coq: C05_all_builtins_rel_full_proved, C05_emit_equiv_higher_order_full: every built-in but unique / includes):
    # aggregates, list / string / record built-ins, convert round random to_number to_string join, and the
    # callback-taking sort_by / group_by / count_by, over captured data, captured closures and lists of closures.
    # Law on the implementation (original == reloaded == re-emitted == third), and the model run with the FULL
    # dispatcher (coq/EmitRunFull.v) against the implementation.  unique / includes shapes are generated too and
    # counted under F53 when function values are around.
    FB_POOL = [("data", "k = [3, 1, 2]"), ("data", "k = {a: 1, b: [2, 3]}"), ("data", "k = \"b,a,c\""),
               ("closure", "c0 = 2\nk = z => z * c0"), ("closure", "c0 = \"s\"\nh = z => to_string(z) + c0\nk = z => h(z)"),
               ("closures", "c0 = 1\nk = [z => z + c0, z => z * 2, z => 0 - z]"),
               ("closures", "mk = a => (y => y + a)\nk = [mk(1), mk(2), mk(1)]")]
    FB_BODIES = ["sort_by(x, k)", "sort_by(k, z => 0 - z)", "group_by(x, z => to_string(k(z)))", "count_by(x, z => to_string(k(z)))",
                 "map(sort_by(k, g => 0 - g(j)), g => g(1))", "head(sort_by(k, g => 0 - g(j)))", "values(group_by(k, g => to_string(g(j))))",
                 "count_by(k, g => typeof(g))", "[sum(k), min(k), max(k), avg(k), prod(k), median(k), percentile(k, 50)]",
                 "zip(k, x)", "chunk(k, 2)", "flatten([k, x])", "concat(k, x)", "reverse(k)", "slice(k, 0, 2)", "head(k)", "tail(k)",
                 "len(k)", "keys(k)", "values(k)", "entries(k)", "split(k, \",\")", "replace(k, \",\", \"-\")",
                 "join(sort(split(k, \",\")), \"+\")", "to_string(k)", "to_number(to_string(len(k)))", "round(avg(k) / 3, 2)",
                 "dot(k, k)", "range(len(k))", "sort(k)", "sort(concat(k, x))", "convert(sum(k), \"km\", \"m\")", "random(len(k))",
                 "map(x, k)", "filter(map(k, g => g(j)), n => n > 0)", "typeof(head(k))",
                 "unique(k)", "includes(k, head(k))", "len(unique(concat(k, k)))", "includes(x, k)"]
    FB_ARGS = ["[3, 1, 2]", "2", "[\"b\", \"a\"]", "[z => z + 1, 5]"]
    fb_cases = [("fullbi/" + tag, program(defs, "x", body), FB_ARGS) for tag, defs in FB_POOL for body in FB_BODIES]
    fb_rust = rust_emit(h, fb_cases)
    fb_parsed = [fields(o) for o in fb_rust]
    for (kind, prog, args), o in zip(fb_cases, fb_rust):
        if o.startswith("PANIC") or o.startswith("ABORT"):
            res.violation("emitting / reloading a function panicked or aborted",
                          {"kind": "impl", "program": prog, "args": args, "observed": o[:300]})
    fb = {"cases": len(fb_cases), "law_checked": 0, "law_ok": 0, "law_excused": {}, "law_violations": 0, "ok_results": 0,
          "err_results": 0, "fn_results": 0, "by_pool": {}, "model_agree": 0, "model_skipped_unmodelled": 0, "model_mismatch": 0,
          "model_eval_failed": 0, "bodies": len(FB_BODIES), "pool": len(FB_POOL), "args": len(FB_ARGS)}
    try:
        fb_reports = model_reports(fb_parsed, "c05fr")
    except c.BrokenTie as e:
        res.tie_broken(e.what, e.detail)
        fb_reports = [None] * len(fb_cases)
    fb_fail, fb_ok_idx = [], []
    for i, ((kind, prog, args), d, rep) in enumerate(zip(fb_cases, fb_parsed, fb_reports)):
        if "VAL" not in d or rep is None:
            continue
        bits = rep[1:10]
        if bits[5] != "1" or d.get("PORT") != "1":
            continue
        ex = excuse(bits, state, "law", open_ids)
        is_f53 = "F53" in open_ids and f52_class(prog, d["VAL"], args)
        fb["by_pool"][kind] = fb["by_pool"].get(kind, 0) + 1
        if ex is None and rep.split(" A1")[1][:4][want] == "1":
            fb_ok_idx.append(i)
        for a, r in zip(args, d["R"]):
            fb["law_checked"] += 1
            if r[0].startswith("OK"):
                fb["ok_results"] += 1
                nontrivial.add((prog, a))
                if "FN(" in r[0]:
                    fb["fn_results"] += 1
            else:
                fb["err_results"] += 1
            if len(r) == 4 and r[0] == r[1] == r[2] == r[3]:
                fb["law_ok"] += 1
            elif ex is not None:
                fb["law_excused"][ex] = fb["law_excused"].get(ex, 0) + 1
            elif is_f53:
                fb["law_excused"]["F53"] = fb["law_excused"].get("F53", 0) + 1
            else:
                fb["law_violations"] += 1
                fb_fail.append((prog, a, r, rep))
    for prog, a, r, rep in fb_fail[:5]:
        res.violation("a closed-after-capture function and its reloaded emission disagree (body uses the full built-in set)",
                      {"kind": "impl-law", "program": prog, "args": [a],
                       "observed": {"original": r[0], "reloaded": r[1], "re-emitted and reloaded": r[2] if len(r) > 2 else None,
                                    "third re-emission": r[3] if len(r) > 3 else None},
                       "expected": "all four equal (Coq: C05_emit_equiv_higher_order_full)", "classes": rep,
                       "rerun": "./check C05 --replay <this file>"})
    n_fb = 90 if tier == "quick" else len(fb_ok_idx)
    fb_sel = sorted(rng.shuffle(list(fb_ok_idx))[:n_fb])
    fb_mism = []
    try:
        allargs = sorted({a for i in fb_sel for a in fb_cases[i][2]})
        terms = dict(zip(allargs, call_terms(h, allargs)))
        exprs, keep = [], []
        for i in fb_sel:
            st_, _, val_ = fb_parsed[i]["VAL"].partition("] ")
            calls_ = [terms[a] for a in fb_cases[i][2]]
            if any(t is None for t in calls_):
                continue
            exprs.append("(emit_behaviour_full %s %s %s] %s [%s])" % (b(nanfix), b(dofix), st_, val_, "; ".join(calls_)))
            keep.append(i)
        outs_ = c.coq_eval_batch(REQ + ["Blots.EvalFull", "Blots.EmitRunFull"], "", exprs, "c05fb", shard=30)
        for i, out in zip(keep, outs_):
            if out is None:
                fb["model_eval_failed"] += 1
                continue
            for (a, r, m) in zip(fb_cases[i][2], fb_parsed[i]["R"], out.split(" ")):
                if "UNMODELLED" in m:
                    fb["model_skipped_unmodelled"] += 1
                elif m == r[0] + "/" + r[1]:
                    fb["model_agree"] += 1
                else:
                    fb_mism.append((fb_cases[i][1], a, "/".join(r[:2]), m))
    except c.BrokenTie as e:
        res.tie_broken(e.what, e.detail)
    fb["model_mismatch"] = len(fb_mism)
    if fb_mism:
        res.tie_broken("correspondence C05/EMIT-FULLBI: model (full dispatcher) and implementation disagree on %d calls" % len(fb_mism),
                       "first: %r args %r\nimpl : %s\nmodel: %s" % fb_mism[0])
    res.streams["EMIT-FULLBI"] = fb
    # functions over a non-empty `inputs` record, through the real binary only (the fresh program's inputs are the
    # first program's OUTPUTS, so a name left unresolved at emission reads something else there)
    inp_ok = inp_f54 = 0
    for prog, args in INPUTS_PROGS:
        o1, o2, o3 = cli_chain(cli, prog, args, INPUTS_JSON)
        good = isinstance(o1, dict) and isinstance(o2, dict) and isinstance(o3, dict) and all(
            o1.get("r%d" % j) == o2.get("r%d" % j) == o3.get("r%d" % j) for j in range(len(args)))
        if good:
            inp_ok += 1
        elif "#" in prog and "F54" in open_ids:
            inp_f54 += 1          # open finding F54: an input reference #name is not resolved at emission
        else:
            res.violation("a function that mentions `inputs` does not carry the values it saw to a fresh program "
                          "(blots -i INPUTS prog1 | blots prog2 | blots prog2)",
                          {"kind": "cli-chain-inputs", "program": prog, "args": args, "inputs": INPUTS_JSON, "prog1": o1,
                           "prog2": o2 if isinstance(o2, dict) else str(o2), "prog2_again": o3 if isinstance(o3, dict) else str(o3)})
    # the same family IN PROCESS, with a non-empty inputs record (harness header `//#inputs <json>`): the emitted
    # text parsed by the real parser against the model's inlined AST (ties Emit.subst on `#name`), the four-generation
    # law, and the model's evaluation of original / reloaded with that inputs record.  `#` members are counted under F54
    # while it is open and strict once it is fixed.
    INP_ARGS = {"f = (x, inputs?) => [x, inputs]": ["1", "1, 2"]}
    inp_extra = [("f = x => #rate", ["0"]), ("f = x => [#rate, inputs.rate, x] ", ["1"]), ("f = x => -#rate + #fees[0]!", ["1"]),
                 ("f = x => (inputs => [#rate, x])({rate: 9})", ["1"]), ("f = x => do {\n  inputs = {rate: 7}\n  return [#rate, x]\n}", ["1"]),
                 ("f = x => do {\n  r = #rate\n  inputs = {rate: r + x}\n  return #rate\n}", ["1"]),
                 ("f = x => y => [#rate, x, y]", ["1)(2"]), ("g = y => #rate * y\nf = x => [g(x), g]", ["2"]),
                 ("f = x => {rate: #rate, t: #tag, m: #missing}", ["0"]), ("f = x => if #rate > x then #fees else #cfg.deep", ["1", "3"])]
    icases = [("inputs/%d" % k, "//#inputs " + INPUTS_JSON + "\n" + prog, args)
              for k, (prog, args) in enumerate(INPUTS_PROGS + inp_extra)]
    irust = rust_emit(h, icases)
    iparsed = [fields(o) for o in irust]
    istat = {"cases": len(icases), "with_inref": sum(1 for _, p_, _ in icases if "#rate" in p_ or "#fees" in p_ or "#tag" in p_ or "#cfg" in p_),
             "ast_agree": 0, "ast2_agree": 0, "law_checked": 0, "law_ok": 0, "in_known_class_F54": 0,
             "behaviour_agree": 0, "behaviour_skipped_unmodelled": 0}
    try:
        ireports = model_reports(iparsed, "c05i")
    except c.BrokenTie as e:
        res.tie_broken(e.what, e.detail)
        ireports = [None] * len(icases)
    imism, ibeh = [], []
    for (kind, prog, args), d, rep in zip(icases, iparsed, ireports):
        body_has_ref = "#" in prog.split("\n", 1)[1]
        f54_excused = body_has_ref and "F54" in open_ids
        if "VAL" not in d or rep is None:
            if not f54_excused:
                res.tie_broken("C05/EMIT-INPUTS: a program of the inputs family did not produce a function", "%r -> %s" % (prog, irust[icases.index((kind, prog, args))][:200]))
            continue
        a1 = rep.split(" A1")[1][:4]
        a2 = rep.split(" A2")[1][:4]
        if a1[want] == "1":
            istat["ast_agree"] += 1
            if a2[want] == "1":
                istat["ast2_agree"] += 1
            elif not f54_excused:
                imism.append((prog, "body of the reloaded function (AST2)", rep))
        elif f54_excused:
            istat["in_known_class_F54"] += 1
            continue
        else:
            imism.append((prog, "parse of the emitted text (AST1)", rep))
            continue
        if d.get("PORT") == "1":
            for a, r in zip(args, d["R"]):
                istat["law_checked"] += 1
                if len(r) == 4 and r[0] == r[1] == r[2] == r[3]:
                    istat["law_ok"] += 1
                elif f54_excused:
                    istat["in_known_class_F54"] += 1
                elif "FN(" in r[0]:
                    pass                  # a returned function prints its cell name; compared through its calls only
                else:
                    res.violation("a function that mentions `inputs` / #name and its reloaded emission disagree (in process, "
                                  "non-empty inputs record)",
                                  {"kind": "impl-law", "program": prog, "args": [a], "observed": r, "expected": "all four equal"})
        if "INP" in d and not f54_excused:
            ibeh.append((prog, args, d))
    if imism:
        res.tie_broken("correspondence C05/EMIT-INPUTS: the AST of the emitted text differs from the model's inlined AST on %d of %d functions"
                       % (len(imism), len(icases)), "first: %r\nwhat: %s\nreport: %s" % imism[0])
    if ibeh:
        try:
            allargs = sorted({a for _, args, _ in ibeh for a in args})
            terms = dict(zip(allargs, call_terms(h, allargs)))
            exprs, keep = [], []
            for prog, args, d in ibeh:
                st_, _, val_ = d["VAL"].partition("] ")
                calls = [terms[a] for a in args]
                if any(t is None for t in calls):
                    continue
                exprs.append("(emit_behaviour_in %s %s %s %s] %s [%s])" % (d["INP"], b(nanfix), b(dofix), st_, val_, "; ".join(calls)))
                keep.append((prog, args, d))
            outs = c.coq_eval_batch(REQ, "", exprs, "c05ib", shard=10)
            bm = []
            for (prog, args, d), out in zip(keep, outs):
                if out is None:
                    bm.append((prog, args, "-", "model evaluation failed"))
                    continue
                for a, r, m in zip(args, d["R"], out.split(" ")):
                    if "UNMODELLED" in m:
                        istat["behaviour_skipped_unmodelled"] += 1
                    elif m == r[0] + "/" + r[1]:
                        istat["behaviour_agree"] += 1
                    else:
                        bm.append((prog, a, "/".join(r[:2]), m))
            if bm:
                res.tie_broken("correspondence C05/EMIT-INPUTS-behaviour: model and implementation disagree on %d calls" % len(bm),
                               "first: %r args %r\nimpl : %s\nmodel: %s" % bm[0])
        except c.BrokenTie as e:
            res.tie_broken(e.what, e.detail)
    res.streams["EMIT-INPUTS"] = dict(istat, inputs=INPUTS_JSON, F54_open="F54" in open_ids)
    stats["cli_inputs_chains"] = len(INPUTS_PROGS)
    stats["cli_inputs_chains_ok"] = inp_ok
    stats["cli_inputs_chains_in_known_class_F54"] = inp_f54
    res.streams["EMIT"] = dict(stats, repo_state=state, model_variant="nanfix=%s dofix=%s" % (nanfix, dofix),
                               pool=len(POOL), small_shapes=len(small_bodies()),
                               behaviour_model_agree=beh_agree, behaviour_model_skipped_unmodelled=beh_skip,
                               behaviour_model_mismatch=len(beh_mism), behaviour_model_eval_failed=len(beh_fail), cli_chains=len(pick), cli_chains_ok=chain_ok,
                               cli_chains_in_known_class=chain_exc)
    res.coverage["evaluations"] = stats["law_checked"] * 3 + len(cases)
    res.coverage["distinct_nontrivial"] = len(nontrivial)
    res.coverage["rule"] = ("functions f = (params) => body over %d captured-value definitions (numbers incl. negative, -0, "
                            "huge, tiny, +-inf, NaN; strings incl. quotes, backslashes, non-ASCII, newline; nested lists/records "
                            "incl. keys needing quotes; built-ins; closures capturing values and closures) x %d small body shapes "
                            "(every binary operator on both sides, unary, postfix, call, index, field, conditional, list/record/"
                            "shorthand/dynamic key/spread, lambdas with shadowing parameters, do-blocks with shadowing locals, "
                            "parenthesised operands) + random nesting to depth 3 through delimited contexts; each applied to "
                            "argument tuples; non-trivial = distinct (program, argument tuple) whose ORIGINAL call succeeds for a "
                            "closed-after-capture function" % (len(POOL), len(small_bodies())))
    samp = [i for i in range(len(cases)) if "VAL" in parsed[i]][:: max(1, len(cases) // 3)][:3]
    res.coverage["samples"] = [{"program": cases[i][1], "args": cases[i][2],
                                "emitted": c.unhex(parsed[i].get("SRC", "")) if parsed[i].get("SRC", "-") != "-" else None,
                                "results": parsed[i]["R"]} for i in samp]
    res.coverage["traces_validated_against_impl"] = stats["ast_agree"] + beh_agree
    # --- (v) EMIT-KEYS / EMIT-BINDERS (checks/c05_binders.py): keys over the identifier boundary at every emission site;
    # the function's own parameter re-bound by an inner binder and used around it, under every defining environment
    import c05_binders
    c05_binders.run(sys.modules[__name__], h, cli, res, rng, tier, state, open_ids, want)

    # --- known findings
    wid = {"F10": ["F10"], "F11": ["F11", "F11b"], "F15": ["F15"], "F50": ["F50"], "F8": ["F8"], "F12-F14": ["F12-F14"],
           "F51": ["F51"], "F53": ["F53"]}
    for e in c.open_known(PID):
        if e["id"] == "F54":
            res.known("%s %s%s" % (e["id"], e["what"], "" if inp_f54 else " (no longer reproduces)"))
            continue
        rep_now = any(reproduces(h, w)[0] for w in wid.get(e["id"], []))
        res.known("%s %s%s" % (e["id"], e["what"], "" if rep_now else " (no longer reproduces)"))
    return res.finish()


if __name__ == "__main__":
    sys.exit(main(sys.argv[1:]))
