From Coq Require Import Floats.SpecFloat ZArith List.
Import ListNotations.
Open Scope Z_scope.
Definition prec := 53. Definition emax := 1024.
Definition fadd := SFadd prec emax. Definition fmul := SFmul prec emax. Definition fdiv := SFdiv prec emax.
Definition a := S754_finite false 7205759403792794 (-56).
Definition b := S754_finite false 7205759403792794 (-55).
Eval vm_compute in (fadd a b).
Eval vm_compute in (fmul a b, fdiv a b, SFcompare a b, SFeqb a a, SFltb a b).
Fixpoint iter (n:nat) (x:spec_float) := match n with O => x | S n' => iter n' (fadd (fmul x b) a) end.
Time Eval vm_compute in (iter 20000 a).
Print Assumptions fadd.
