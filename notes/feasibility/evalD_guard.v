From Coq Require Import List String ZArith.
Import ListNotations.
Inductive expr :=
| ENum (z : Z) | EVar (x : string) | EAdd (a b : expr)
| ELam (p : string) (body : expr) | ECall (f : expr) (args : list expr)
| EList (l : list expr) | EMap (l f : expr) | EAssign (x : string) (e : expr)
| EDo (stmts : list expr) (ret : expr) | EIf (c t e : expr).
Inductive value :=
| VNum (z : Z) | VList (l : list value)
| VLam (id : nat) (p : string) (body : expr) (scope : list (string * value)).
Inductive outcome (A : Type) := Ok (a : A) | Err (k : nat) | Panic.
Arguments Ok {A}. Arguments Err {A}. Arguments Panic {A}.
Definition frame := list (string * value).
Definition frames := list frame.
Fixpoint lookup_f (f : frame) (x : string) : option value :=
  match f with [] => None | (y,v)::r => if String.eqb x y then Some v else lookup_f r x end.
Fixpoint lookup (fr : frames) x := match fr with [] => None | f::r => match lookup_f f x with Some v => Some v | None => lookup r x end end.
Definition insert_head (fr : frames) x v : frames := match fr with [] => [[(x,v)]] | f::r => ((x,v)::f)::r end.

Fixpoint evalD (d : nat) : frames -> expr -> outcome value * frames :=
  fix evalE (fr : frames) (e : expr) {struct e} : outcome value * frames :=
    let call (fv : value) (args : list value) (fr : frames) : outcome value :=
      match fv with
      | VLam _ p body scope =>
        match d with
        | O => Err 7
        | S d' => match args with
                  | [a] => fst (evalD d' ([(p,a)] :: scope :: fr) body)
                  | _ => Err 2 end
        end
      | _ => Err 3 end in
    let evalL := fix evalL (fr : frames) (l : list expr) {struct l} : outcome (list value) * frames :=
      match l with
      | [] => (Ok [], fr)
      | x :: r => match evalE fr x with
                  | (Ok v, fr1) => match evalL fr1 r with (Ok vs, fr2) => (Ok (v::vs), fr2) | (Err k, fr2) => (Err k, fr2) | (Panic, fr2) => (Panic, fr2) end
                  | (Err k, fr1) => (Err k, fr1) | (Panic, fr1) => (Panic, fr1) end
      end in
    match e with
    | ENum z => (Ok (VNum z), fr)
    | EVar x => (match lookup fr x with Some v => Ok v | None => Err 1 end, fr)
    | EAdd a b => match evalE fr a with
                  | (Ok (VNum x), fr1) => match evalE fr1 b with (Ok (VNum y), fr2) => (Ok (VNum (x+y)), fr2) | (Ok _, fr2) => (Err 4, fr2) | (o, fr2) => (o, fr2) end
                  | (Ok _, fr1) => (Err 4, fr1) | (o, fr1) => (o, fr1) end
    | ELam p body => (Ok (VLam 0 p body (match fr with f::_ => f | [] => [] end)), fr)
    | ECall f args => match evalE fr f with
                      | (Ok fv, fr1) => match evalL fr1 args with
                                        | (Ok vs, fr2) => (call fv vs fr2, fr2)
                                        | (Err k, fr2) => (Err k, fr2) | (Panic, fr2) => (Panic, fr2) end
                      | (o, fr1) => (o, fr1) end
    | EList l => match evalL fr l with (Ok vs, fr1) => (Ok (VList vs), fr1) | (Err k, fr1) => (Err k, fr1) | (Panic, fr1) => (Panic, fr1) end
    | EMap l f => match evalE fr l with
                  | (Ok (VList vs), fr1) => match evalE fr1 f with
                      | (Ok fv, fr2) =>
                        (match (fix mapv (vs : list value) : outcome (list value) :=
                            match vs with [] => Ok []
                            | v :: r => match call fv [v] fr2 with
                                        | Ok w => match mapv r with Ok ws => Ok (w::ws) | Err k => Err k | Panic => Panic end
                                        | Err k => Err k | Panic => Panic end end) vs with Ok ws => Ok (VList ws) | Err k => Err k | Panic => Panic end, fr2)
                      | (o, fr2) => (o, fr2) end
                  | (Ok _, fr1) => (Err 5, fr1) | (o, fr1) => (o, fr1) end
    | EAssign x e1 => match lookup fr x with
                      | Some _ => (Err 6, fr)
                      | None => match evalE fr e1 with (Ok v, fr1) => (Ok v, insert_head fr1 x v) | (o, fr1) => (o, fr1) end end
    | EDo stmts ret => match evalL ([] :: fr) stmts with
                       | (Ok _, fr1) => (fst (evalE fr1 ret), fr) | (Err k, _) => (Err k, fr) | (Panic, _) => (Panic, fr) end
    | EIf c t e2 => match evalE fr c with
                    | (Ok (VNum 0%Z), fr1) => evalE fr1 e2 | (Ok _, fr1) => evalE fr1 t | (o, fr1) => (o, fr1) end
    end.

Open Scope string_scope. Open Scope Z_scope.
(* f = n => f(n+1) style runaway via self binding in frame; depth 50 *)
Definition prog := EDo [EAssign "f" (ELam "n" (EAdd (ENum 1) (ECall (EVar "f") [EAdd (EVar "n") (ENum 1)])))] (ECall (EVar "f") [ENum 0]).
Eval vm_compute in fst (evalD 50 [[]] prog).
Definition prog2 := EMap (EList [ENum 1; ENum 2]) (ELam "x" (EAdd (EVar "x") (ENum 10))).
Eval vm_compute in fst (evalD 50 [[]] prog2).
Print Assumptions evalD.
