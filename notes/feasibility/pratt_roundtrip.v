From Coq Require Import List Arith Lia Bool.
Import ListNotations.
Set Implicit Arguments.

Section Pratt.
Variable op : Type.
Variable prec : op -> nat.            (* infix levels *)
Variable rassoc : op -> bool.
Variable Ppre Ppost : nat.
Hypothesis prec_pos : forall o, 0 < prec o.
Hypothesis prec_lt_pre : forall o, prec o < Ppre.
Hypothesis pre_lt_post : Ppre < Ppost.
Hypothesis pre_pos : 0 < Ppre.
(* all ops of one level share associativity, as in pest's grouped table *)
Hypothesis level_assoc : forall o1 o2, prec o1 = prec o2 -> rassoc o1 = rassoc o2.

Inductive T := Leaf (n : nat) | Bin (o : op) (l r : T) | Pre (t : T) | Post (t : T).
Inductive item := IAtom (n : nat) | IGroup (g : list item) | IOp (o : op) | IPre | IPost.

Definition rbp_of (o : op) := if rassoc o then prec o - 1 else prec o.

(* relational transcription of pest's expr / nud / led / lbp *)
Inductive Expr : nat -> list item -> T -> list item -> Prop :=
| E_atom rbp n its t rest : Loop rbp (Leaf n) its t rest -> Expr rbp (IAtom n :: its) t rest
| E_group rbp g its tg t rest : Expr 0 g tg [] -> Loop rbp tg its t rest -> Expr rbp (IGroup g :: its) t rest
| E_pre rbp its x mid t rest : Expr (Ppre - 1) its x mid -> Loop rbp (Pre x) mid t rest -> Expr rbp (IPre :: its) t rest
with Loop : nat -> T -> list item -> T -> list item -> Prop :=
| L_end rbp lhs : Loop rbp lhs [] lhs []
| L_stop_op rbp lhs o its : prec o <= rbp -> Loop rbp lhs (IOp o :: its) lhs (IOp o :: its)
| L_stop_post rbp lhs its : Ppost <= rbp -> Loop rbp lhs (IPost :: its) lhs (IPost :: its)
| L_op rbp lhs o its rhs mid t rest : rbp < prec o -> Expr (rbp_of o) its rhs mid ->
     Loop rbp (Bin o lhs rhs) mid t rest -> Loop rbp lhs (IOp o :: its) t rest
| L_post rbp lhs its t rest : rbp < Ppost -> Loop rbp (Post lhs) its t rest -> Loop rbp lhs (IPost :: its) t rest.

Definition INF := S Ppost.
Definition lvl (t : T) : nat := match t with Leaf _ => INF | Bin o _ _ => prec o | Pre _ => Ppre | Post _ => Ppost end.
Definition wrap (m : nat) (t : T) (its : list item) := if m <=? lvl t then its else [IGroup its].
Definition needL (o : op) := if rassoc o then S (prec o) else prec o.
Definition needR (o : op) := if rassoc o then prec o else S (prec o).
Fixpoint pr (t : T) : list item :=
  match t with
  | Leaf n => [IAtom n]
  | Pre x => IPre :: wrap Ppre x (pr x)
  | Post x => wrap Ppost x (pr x) ++ [IPost]
  | Bin o l r => wrap (needL o) l (pr l) ++ IOp o :: wrap (needR o) r (pr r)
  end.

(* lbp of the first item of the continuation; 0 at end *)
Definition lbp1 (rest : list item) : option nat :=
  match rest with [] => Some 0 | IOp o :: _ => Some (prec o) | IPost :: _ => Some Ppost | _ => None end.
Definition follows (k : nat) (rest : list item) := exists b, lbp1 rest = Some b /\ b <= k.

(* how loosely the right edge of an ungrouped printing is open *)
Fixpoint rmin (t : T) : nat :=
  match t with
  | Leaf _ => INF
  | Post _ => INF
  | Pre x => if Ppre <=? lvl x then Nat.min (Ppre - 1) (rmin x) else Ppre - 1
  | Bin o _ r => if needR o <=? lvl r then Nat.min (rbp_of o) (rmin r) else rbp_of o
  end.

Lemma lvl_pos : forall t, 0 < lvl t.
Proof. destruct t; cbn; unfold INF; try lia. apply prec_pos. Qed.
Lemma rmin_ge : forall t, lvl t - 1 <= rmin t.
Proof.
  induction t as [n|o l IHl r IHr|x IHx|x IHx]; cbn [rmin lvl]; try (unfold INF; lia).
  - unfold needR, rbp_of. destruct (rassoc o);
      match goal with |- context [?a <=? ?b] => destruct (Nat.leb_spec a b) end; lia.
  - destruct (Nat.leb_spec Ppre (lvl x)); lia.
Qed.
Lemma rmin_ge_left : forall o l r, rassoc o = false -> prec o <= rmin (Bin o l r).
Proof.
  intros o l r H. cbn [rmin]. unfold needR, rbp_of. rewrite H.
  destruct (Nat.leb_spec (S (prec o)) (lvl r)); [|lia]. pose proof (rmin_ge r). lia.
Qed.

Lemma loop_stops : forall rbp lhs rest, follows rbp rest -> Loop rbp lhs rest lhs rest.
Proof.
  intros rbp lhs rest (b & Hb & Hle). destruct rest as [|[n|g|o| |] rest]; cbn in Hb; try discriminate; inversion Hb; subst.
  - constructor. - constructor; lia. - constructor; lia.
Qed.

(* main lemma: parsing the printing of t, then continuing the loop with lhs = t *)
Lemma roundtrip_gen : forall t rbp rest u rest',
  rbp < lvl t -> follows (rmin t) rest ->
  Loop rbp t rest u rest' -> Expr rbp (pr t ++ rest) u rest'.
Proof.
  induction t as [n|o l IHl r IHr|x IHx|x IHx]; intros rbp rest u rest' Hlvl Hf HL; cbn [pr app].
  - constructor; exact HL.
  - (* Bin *)
    cbn [lvl] in Hlvl. rewrite <- app_assoc. cbn [app].
    (* right operand parse *)
    assert (Hright : Expr (rbp_of o) (wrap (needR o) r (pr r) ++ rest) r rest).
    { unfold wrap. cbn [rmin] in Hf. destruct (Nat.leb_spec (needR o) (lvl r)) as [Hr|Hr].
      - apply IHr.
        + unfold needR, rbp_of in *. destruct (rassoc o); lia.
        + destruct Hf as (b & Hb & Hle). exists b; split; [exact Hb|lia].
        + apply loop_stops. destruct Hf as (b & Hb & Hle). exists b; split; [exact Hb|lia].
      - cbn [app]. eapply E_group.
        + rewrite <- (app_nil_r (pr r)). apply IHr; [apply lvl_pos | exists 0; split; [reflexivity|lia] | constructor].
        + apply loop_stops. destruct Hf as (b & Hb & Hle). exists b; split; [exact Hb|lia]. }
    assert (Hstep : Loop rbp l (IOp o :: wrap (needR o) r (pr r) ++ rest) u rest').
    { eapply L_op; [exact Hlvl | exact Hright | exact HL]. }
    unfold wrap at 1. destruct (Nat.leb_spec (needL o) (lvl l)) as [Hl|Hl].
    + apply IHl; [unfold needL in Hl; destruct (rassoc o); lia | | exact Hstep].
      exists (prec o); split; [reflexivity|].
      unfold needL in Hl. destruct (rassoc o) eqn:Ha.
      * pose proof (rmin_ge l). lia.
      * destruct l as [n|o2 l1 l2|y|y]; cbn [lvl] in Hl; try (pose proof (rmin_ge (Leaf n))); try (cbn [rmin]; unfold INF; pose proof (prec_lt_pre o); lia).
        -- destruct (Nat.eq_dec (prec o2) (prec o)) as [He|Hne].
           ++ pose proof (@level_assoc _ _ He) as Hsame. rewrite Ha in Hsame. pose proof (@rmin_ge_left o2 l1 l2 Hsame). lia.
           ++ pose proof (rmin_ge (Bin o2 l1 l2)). cbn [lvl] in *. lia.
        -- pose proof (rmin_ge (Pre y)). cbn [lvl] in *. pose proof (prec_lt_pre o). lia.
    + cbn [app]. eapply E_group; [|exact Hstep].
      rewrite <- (app_nil_r (pr l)). apply IHl; [apply lvl_pos | exists 0; split; [reflexivity|lia] | constructor].
  - (* Pre *)
    cbn [rmin] in Hf. unfold wrap. destruct (Nat.leb_spec Ppre (lvl x)) as [Hx|Hx].
    + eapply E_pre; [|exact HL]. apply IHx; [lia | destruct Hf as (b&Hb&Hle); exists b; split; [exact Hb|lia] |].
      apply loop_stops. destruct Hf as (b&Hb&Hle); exists b; split; [exact Hb|lia].
    + cbn [app]. eapply E_pre; [|exact HL]. eapply E_group.
      * rewrite <- (app_nil_r (pr x)). apply IHx; [apply lvl_pos | exists 0; split; [reflexivity|lia] | constructor].
      * apply loop_stops. destruct Hf as (b&Hb&Hle); exists b; split; [exact Hb|lia].
  - (* Post *)
    cbn [lvl] in Hlvl. rewrite <- app_assoc. cbn [app].
    assert (Hstep : Loop rbp x (IPost :: rest) u rest') by (apply L_post; [lia|exact HL]).
    unfold wrap. destruct (Nat.leb_spec Ppost (lvl x)) as [Hx|Hx].
    + apply IHx; [lia | | exact Hstep]. exists Ppost; split; [reflexivity|]. pose proof (rmin_ge x).
      destruct x; cbn [lvl rmin] in *; unfold INF in *; try lia. pose proof (prec_lt_pre o). lia.
    + cbn [app]. eapply E_group; [|exact Hstep].
      rewrite <- (app_nil_r (pr x)). apply IHx; [apply lvl_pos | exists 0; split; [reflexivity|lia] | constructor].
Qed.

Theorem pratt_print_roundtrip : forall t, Expr 0 (pr t) t [].
Proof.
  intro t. rewrite <- (app_nil_r (pr t)). apply roundtrip_gen.
  - apply lvl_pos.
  - exists 0; split; [reflexivity|lia].
  - constructor.
Qed.
End Pratt.
Print Assumptions pratt_print_roundtrip.
