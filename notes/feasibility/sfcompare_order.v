From Coq Require Import Floats.SpecFloat ZArith Lia Bool PArith.
Open Scope Z_scope.
(* key to a lexicographic order *)
Definition key (f : spec_float) : option (Z * Z * Z) :=   (* class rank, exponent-ish, mantissa-ish, all signed *)
  match f with
  | S754_nan => None
  | S754_infinity true => Some (-2, 0, 0)
  | S754_infinity false => Some (2, 0, 0)
  | S754_zero _ => Some (0, 0, 0)
  | S754_finite true m e => Some (-1, - e, - Zpos m)
  | S754_finite false m e => Some (1, e, Zpos m)
  end.
Definition lexcmp (a b : Z * Z * Z) : comparison :=
  let '(a1,a2,a3) := a in let '(b1,b2,b3) := b in
  match a1 ?= b1 with Eq => match a2 ?= b2 with Eq => a3 ?= b3 | c => c end | c => c end.
Lemma SFcompare_key : forall x y, SFcompare x y =
  match key x, key y with Some a, Some b => Some (lexcmp a b) | _, _ => None end.
Proof.
  intros [sx|sx| |sx mx ex] [sy|sy| |sy my ey]; try destruct sx; try destruct sy; cbn; try reflexivity.
  - (* neg, neg *)
    rewrite Z.compare_opp, (Z.compare_antisym ex ey).
    destruct (ex ?= ey); cbn; try reflexivity.
    all: try (rewrite Pos.compare_cont_spec; destruct (mx ?= my)%positive; reflexivity).
Qed.
Lemma lexcmp_trans_lt : forall a b c, lexcmp a b = Lt -> lexcmp b c = Lt -> lexcmp a c = Lt.
Proof.
  intros [[a1 a2] a3] [[b1 b2] b3] [[c1 c2] c3]; unfold lexcmp.
  destruct (Z.compare_spec a1 b1), (Z.compare_spec b1 c1), (Z.compare_spec a1 c1); try lia; try discriminate; auto;
  destruct (Z.compare_spec a2 b2), (Z.compare_spec b2 c2), (Z.compare_spec a2 c2); try lia; try discriminate; auto;
  rewrite !Z.compare_lt_iff; lia.
Qed.
Theorem SFcompare_trans_lt : forall x y z, SFcompare x y = Some Lt -> SFcompare y z = Some Lt -> SFcompare x z = Some Lt.
Proof.
  intros x y z. rewrite !SFcompare_key. destruct (key x), (key y), (key z); try discriminate.
  intros H1 H2. injection H1 as H1; injection H2 as H2. f_equal. eapply lexcmp_trans_lt; eauto.
Qed.
Print Assumptions SFcompare_trans_lt.
