#!/usr/bin/env python3
"""translate/pest2coq.py — coq/gen/Grammar.v from the SOURCE TEXT of blots-core/src/grammar.pest.

The output is the grammar *as pest 2.8.3 compiles it*: the text is parsed the way pest_meta's
parser.rs does (prefix operators outermost, postfix next, `~` binds tighter than `|`, both
left-associative), then the passes of pest_meta-2.8.3/src/optimizer/mod.rs::optimize are applied in
their order, each transcribed from its source file:

    rotater      (a ~ b) ~ c  ->  a ~ (b ~ c), same for |           (map_top_down)
    skipper      in @-rules: (!("s1" | "s2" | rule-of-strings) ~ ANY)*  ->  Skip [s1; s2; ...]
    unroller     e+ -> e ~ e*   (grammar-extras is OFF in this build: pest_derive default features);
                 e{n}, e{n,}, e{,m}, e{n,m} are NOT translated (TranslateError)
    concatenator in @-rules: "a" ~ "b" -> "ab"                       (map_bottom_up)
    factorizer   a ~ b | a ~ c -> a ~ (b | c);  in @/$: a ~ b | a -> a ~ b?;  a | a ~ b -> a
    lister       (a ~ b)* ~ a -> a ~ (b ~ a)*
    restorer     Opt / Choice branch / Rep whose child can reach PUSH / POP / DROP gets RestoreOnErr

so what Grammar.v holds is pest's `OptimizedRule` list, the input of pest_generator's generate_rule /
generate_expr / generate_expr_atomic, which coq/Peg.v transcribes.  Everything the translator does
not know (PEEK[a..b], PUSH_LITERAL, #tags, repeat counts, unicode property builtins, non-ASCII range
bounds or case-insensitive literals, an unknown builtin, an undefined rule) raises TranslateError ->
the check reports a broken tie.

Builtins: a name is a builtin only if the grammar does not define it (pest: `defaults`); this grammar
defines its own NEWLINE.  EOI is a *rule* in pest (`state.rule(Rule::EOI, |s| s.end_of_input())`), so it
is emitted as an extra rule PG_EOI = normal { <end of input> }.
"""
import hashlib
import os
import sys


class TranslateError(Exception):
    pass


# ----------------------------------------------------------------------------- lexer / parser
BUILTIN_ATOMS = {
    "ANY": "BAny", "SOI": "BSoi", "PEEK": "BPeek", "POP": "BPop", "DROP": "BDrop",
    "PEEK_ALL": None, "POP_ALL": None,
    "ASCII_DIGIT": ("0", "9"), "ASCII_NONZERO_DIGIT": ("1", "9"), "ASCII_BIN_DIGIT": ("0", "1"),
    "ASCII_OCT_DIGIT": ("0", "7"),
    "ASCII_HEX_DIGIT": [("0", "9"), ("a", "f"), ("A", "F")],
    "ASCII_ALPHA_LOWER": ("a", "z"), "ASCII_ALPHA_UPPER": ("A", "Z"),
    "ASCII_ALPHA": [("a", "z"), ("A", "Z")],
    "ASCII_ALPHANUMERIC": [("a", "z"), ("A", "Z"), ("0", "9")],
    "ASCII": ("\x00", "\x7f"),
    "NEWLINE": "NEWLINE",
}


class Lexer:
    def __init__(self, text):
        self.t = text
        self.i = 0

    def err(self, msg):
        line = self.t.count("\n", 0, self.i) + 1
        raise TranslateError("grammar.pest line %d: %s" % (line, msg))

    def ws(self):
        t = self.t
        while self.i < len(t):
            c = t[self.i]
            if c in " \t\r\n":
                self.i += 1
            elif t.startswith("//", self.i):
                j = t.find("\n", self.i)
                self.i = len(t) if j < 0 else j
            elif t.startswith("/*", self.i):
                depth = 0
                while self.i < len(t):
                    if t.startswith("/*", self.i):
                        depth += 1
                        self.i += 2
                    elif t.startswith("*/", self.i):
                        depth -= 1
                        self.i += 2
                        if depth == 0:
                            break
                    else:
                        self.i += 1
            else:
                break

    def peek(self):
        self.ws()
        return self.t[self.i] if self.i < len(self.t) else ""

    def eat(self, s):
        self.ws()
        if self.t.startswith(s, self.i):
            self.i += len(s)
            return True
        return False

    def expect(self, s):
        if not self.eat(s):
            self.err("expected %r at %r" % (s, self.t[self.i:self.i + 20]))

    def ident(self):
        self.ws()
        j = self.i
        t = self.t
        if j < len(t) and (t[j] == "_" or t[j].isascii() and t[j].isalpha()):
            j += 1
            while j < len(t) and (t[j] == "_" or t[j].isascii() and t[j].isalnum()):
                j += 1
            s = t[self.i:j]
            self.i = j
            return s
        return None

    def escape(self):
        # after a backslash
        t = self.t
        c = t[self.i]
        self.i += 1
        table = {'"': '"', "\\": "\\", "r": "\r", "n": "\n", "t": "\t", "0": "\0", "'": "'"}
        if c in table:
            return table[c]
        if c == "x":
            h = t[self.i:self.i + 2]
            self.i += 2
            return chr(int(h, 16))
        if c == "u":
            if t[self.i] != "{":
                self.err("bad \\u escape")
            j = t.index("}", self.i)
            h = t[self.i + 1:j]
            self.i = j + 1
            return chr(int(h, 16))
        self.err("unknown escape \\%s" % c)

    def string(self):
        # at the opening quote
        t = self.t
        assert t[self.i] == '"'
        self.i += 1
        out = []
        while True:
            if self.i >= len(t):
                self.err("unterminated string")
            c = t[self.i]
            if c == '"':
                self.i += 1
                return "".join(out)
            if c == "\\":
                self.i += 1
                out.append(self.escape())
            else:
                out.append(c)
                self.i += 1

    def char(self):
        t = self.t
        assert t[self.i] == "'"
        self.i += 1
        if t[self.i] == "\\":
            self.i += 1
            c = self.escape()
        else:
            c = t[self.i]
            self.i += 1
        if t[self.i] != "'":
            self.err("bad character literal")
        self.i += 1
        return c


def parse_grammar(text):
    """-> list of (name, modifier, expr) in source order; expr as nested tuples (pest_meta ast::Expr)."""
    lx = Lexer(text)
    rules = []
    while lx.peek() != "":
        name = lx.ident()
        if name is None:
            lx.err("rule name expected at %r" % lx.t[lx.i:lx.i + 20])
        lx.expect("=")
        lx.ws()
        mod = "normal"
        for ch, m in (("_", "silent"), ("@", "atomic"), ("$", "compound"), ("!", "nonatomic")):
            if lx.t.startswith(ch, lx.i):
                lx.i += 1
                mod = m
                break
        lx.expect("{")
        e = parse_expr(lx)
        lx.expect("}")
        rules.append((name, mod, e))
    return rules


def parse_expr(lx):
    """expression = choice_operator? ~ term ~ (infix_operator ~ term)*, climbed with
    `|` below `~`, both left-associative (pest_meta parser.rs: PrattParser, Op::infix(choice, Left) |
    Op::infix(sequence, Left))."""
    lx.eat("|")            # a leading choice operator is allowed and ignored
    alts = []
    seq = [parse_term(lx)]
    while True:
        if lx.eat("~"):
            seq.append(parse_term(lx))
        elif lx.peek() == "|":
            lx.eat("|")
            alts.append(seq)
            seq = [parse_term(lx)]
        else:
            break
    alts.append(seq)

    def left(tag, xs):
        acc = xs[0]
        for x in xs[1:]:
            acc = (tag, acc, x)
        return acc
    return left("Choice", [left("Seq", s) for s in alts])


def parse_term(lx):
    """term = node_tag? ~ prefix_operator* ~ node ~ postfix_operator*  (prefix applies to node+postfix)."""
    c = lx.peek()
    if c == "#":
        lx.err("node tags (#tag = e) are not translated")
    if c == "&":
        lx.eat("&")
        return ("PosPred", parse_term(lx))
    if c == "!":
        lx.eat("!")
        return ("NegPred", parse_term(lx))
    node = parse_node(lx)
    while True:
        c = lx.peek()
        if c == "?":
            lx.eat("?")
            node = ("Opt", node)
        elif c == "*":
            lx.eat("*")
            node = ("Rep", node)
        elif c == "+":
            lx.eat("+")
            node = ("RepOnce", node)
        elif c == "{":
            lx.err("repeat counts e{n} / e{n,} / e{,m} / e{n,m} are not translated")
        else:
            return node


def parse_node(lx):
    c = lx.peek()
    if c == "(":
        lx.eat("(")
        e = parse_expr(lx)
        lx.expect(")")
        return e
    if c == '"':
        return ("Str", lx.string())
    if c == "^":
        lx.eat("^")
        if lx.peek() != '"':
            lx.err("^ must be followed by a string")
        return ("Insens", lx.string())
    if c == "'":
        a = lx.char()
        lx.expect("..")
        lx.ws()
        b = lx.char()
        return ("Range", a, b)
    name = lx.ident()
    if name is None:
        lx.err("expression expected at %r" % lx.t[lx.i:lx.i + 20])
    if name == "PUSH":
        lx.expect("(")
        e = parse_expr(lx)
        lx.expect(")")
        return ("Push", e)
    if name == "PUSH_LITERAL":
        lx.err("PUSH_LITERAL is not translated")
    if name == "PEEK" and lx.peek() == "[":
        lx.err("PEEK[a..b] is not translated")
    return ("Ident", name)


# ----------------------------------------------------------------------------- optimizer (pest_meta 2.8.3)
UNARY = ("PosPred", "NegPred", "Opt", "Rep", "RepOnce", "Push", "RestoreOnErr")
BINARY = ("Seq", "Choice")


def map_top_down(e, f):
    e = f(e)
    if e[0] in UNARY:
        return (e[0], map_top_down(e[1], f))
    if e[0] in BINARY:
        return (e[0], map_top_down(e[1], f), map_top_down(e[2], f))
    return e


def map_bottom_up(e, f):
    if e[0] in UNARY:
        e = (e[0], map_bottom_up(e[1], f))
    elif e[0] in BINARY:
        e = (e[0], map_bottom_up(e[1], f), map_bottom_up(e[2], f))
    return f(e)


def iter_top_down(e):
    yield e
    if e[0] in UNARY:
        yield from iter_top_down(e[1])
    elif e[0] in BINARY:
        yield from iter_top_down(e[1])
        yield from iter_top_down(e[2])


def rotate(e):
    def rot(x):
        if x[0] in BINARY and x[1][0] == x[0]:
            return rot((x[0], x[1][1], (x[0], x[1][2], x[2])))
        return x
    return map_top_down(e, rot)


def skipper(e, ty, rmap, fired):
    def populate(x, choices):
        if x[0] == "Choice":
            l, r = x[1], x[2]
            if l[0] == "Str":
                return populate(r, choices + [l[1]])
            if l[0] == "Ident":
                if l[1] in rmap:
                    inl = populate(rmap[l[1]], [])
                    if inl is not None:
                        return populate(r, choices + inl)
                return None
            return None
        if x[0] == "Str":
            return choices + [x[1]]
        if x[0] == "Ident":
            if x[1] in rmap:
                return populate(rmap[x[1]], choices)
            return None
        return None

    def f(x):
        if x[0] == "Rep" and x[1][0] == "Seq":
            l, r = x[1][1], x[1][2]
            if l[0] == "NegPred" and r == ("Ident", "ANY"):
                ch = populate(l[1], [])
                if ch is not None:
                    fired.append("skipper")
                    return ("Skip", tuple(ch))
        return x
    if ty != "atomic":
        return e
    return map_top_down(e, f)


def unroll(e):
    def f(x):
        if x[0] == "RepOnce":
            return ("Seq", x[1], ("Rep", x[1]))
        return x
    return map_bottom_up(e, f)


def concatenate(e, ty, fired):
    def f(x):
        if ty == "atomic" and x[0] == "Seq":
            l, r = x[1], x[2]
            if l[0] == "Str" and r[0] == "Str":
                fired.append("concatenator")
                return ("Str", l[1] + r[1])
            if l[0] == "Insens" and r[0] == "Insens":
                fired.append("concatenator")
                return ("Insens", l[1] + r[1])
        return x
    return map_bottom_up(e, f)


def factor(e, ty, fired):
    def f(x):
        if x[0] != "Choice":
            return x
        l, r = x[1], x[2]
        if l[0] == "Seq" and r[0] == "Seq":
            if l[1] == r[1]:
                fired.append("factorizer")
                return ("Seq", l[1], ("Choice", l[2], r[2]))
            return x
        if l[0] == "Seq" and ty in ("atomic", "compound"):
            if l[1] == r:
                fired.append("factorizer")
                return ("Seq", l[1], ("Opt", l[2]))
            return x
        if r[0] == "Seq":
            if l == r[1]:
                fired.append("factorizer")
                return l
            return x
        return x
    return map_top_down(e, f)


def lister(e, fired):
    def f(x):
        if x[0] == "Seq" and x[1][0] == "Rep" and x[1][1][0] == "Seq":
            l1, l2, r = x[1][1][1], x[1][1][2], x[2]
            if l1 == r:
                fired.append("lister")
                return ("Seq", l1, ("Rep", ("Seq", l2, r)))
        return x
    return map_bottom_up(e, f)


def child_modifies_state(e, rules, cache):
    for x in iter_top_down(e):
        if x[0] == "Push":
            return True
        if x[0] == "Ident":
            name = x[1]
            if name in ("DROP", "POP"):
                return True
            if name in cache:
                if cache[name] is None:
                    cache[name] = False
                    hit = False
                else:
                    hit = cache[name]
            else:
                cache[name] = None
                hit = child_modifies_state(rules[name], rules, cache) if name in rules else False
                cache[name] = hit
            if hit:
                return True
    return False


def restorer(e, omap):
    def f(x):
        if x[0] in ("Opt", "Rep"):
            if child_modifies_state(x[1], omap, {}):
                return (x[0], ("RestoreOnErr", x[1]))
            return x
        if x[0] == "Choice":
            l, r = x[1], x[2]
            if child_modifies_state(l, omap, {}):
                l = ("RestoreOnErr", l)
            if child_modifies_state(r, omap, {}):
                r = ("RestoreOnErr", r)
            return ("Choice", l, r)
        return x
    return map_bottom_up(e, f)


def optimize(rules):
    rmap = {n: e for (n, _, e) in rules}
    fired = {}
    out = []
    for (n, ty, e) in rules:
        fl = []
        e = rotate(e)
        e = skipper(e, ty, rmap, fl)
        e = unroll(e)
        e = concatenate(e, ty, fl)
        e = factor(e, ty, fl)
        e = lister(e, fl)
        if fl:
            fired[n] = fl
        out.append((n, ty, e))
    omap = {n: e for (n, _, e) in out}
    out = [(n, ty, restorer(e, omap)) for (n, ty, e) in out]
    return out, fired


# ----------------------------------------------------------------------------- emitter
def coq_string(s):
    b = s.encode("utf-8")
    if all(32 <= c < 127 for c in b):
        return '"' + s.replace('"', '""') + '"'
    acc = "EmptyString"
    for c in reversed(b):
        acc = 'String "%03d"%%char (%s)' % (c, acc)
    return "(" + acc + ")"


def coq_char(ch, what):
    if len(ch) != 1 or ord(ch) > 127:
        raise TranslateError("non-ASCII %s %r is not translated" % (what, ch))
    return '"%03d"%%char' % ord(ch)


def emit_expr(e, user, used_builtin):
    t = e[0]
    if t == "Str":
        return "Str " + coq_string(e[1])
    if t == "Insens":
        if any(ord(c) > 127 for c in e[1]):
            raise TranslateError("non-ASCII case-insensitive literal %r is not translated" % e[1])
        return "Insens " + coq_string(e[1])
    if t == "Range":
        return "Range %s %s" % (coq_char(e[1], "range bound"), coq_char(e[2], "range bound"))
    if t == "Ident":
        n = e[1]
        if n in user:
            return "Ident PG_" + n
        if n == "EOI":
            used_builtin.add("EOI")
            return "Ident PG_EOI"
        if n not in BUILTIN_ATOMS or BUILTIN_ATOMS[n] is None:
            raise TranslateError("rule or builtin %r is neither defined in the grammar nor translated" % n)
        used_builtin.add(n)
        b = BUILTIN_ATOMS[n]
        if isinstance(b, str):
            if b == "NEWLINE":
                # pest: "\n" | "\r\n" | "\r"
                return 'Choice (Str %s) (Choice (Str %s) (Str %s))' % (
                    coq_string("\n"), coq_string("\r\n"), coq_string("\r"))
            return "Builtin " + b
        if isinstance(b, tuple):
            return "Range %s %s" % (coq_char(b[0], "builtin"), coq_char(b[1], "builtin"))
        # or_else chain of match_range calls
        parts = ["Range %s %s" % (coq_char(x, "builtin"), coq_char(y, "builtin")) for (x, y) in b]
        acc = parts[-1]
        for p in reversed(parts[:-1]):
            acc = "Choice (%s) (%s)" % (p, acc)
        return acc
    if t == "Skip":
        return "SkipUntil [%s]" % "; ".join(coq_string(s) for s in e[1])
    if t in ("PosPred", "NegPred", "Opt", "Rep", "Push", "RestoreOnErr"):
        return "%s (%s)" % (t, emit_expr(e[1], user, used_builtin))
    if t in ("Seq", "Choice"):
        return "%s (%s) (%s)" % (t, emit_expr(e[1], user, used_builtin), emit_expr(e[2], user, used_builtin))
    raise TranslateError("expression form %r is not translated" % (t,))


MODS = {"normal": "MNormal", "silent": "MSilent", "atomic": "MAtomic", "compound": "MCompound",
        "nonatomic": "MNonAtomic"}


def generate(repo):
    path = os.path.join(repo, "blots-core", "src", "grammar.pest")
    text = open(path).read()
    digest = hashlib.sha256(text.encode()).hexdigest()[:12]
    rules = parse_grammar(text)
    names = [n for (n, _, _) in rules]
    if len(set(names)) != len(names):
        raise TranslateError("duplicate rule definitions")
    if "EOI" in names:
        raise TranslateError("grammar defines EOI itself")
    user = set(names)
    for n in names:
        if n in ("ANY", "SOI", "PEEK", "POP", "DROP", "PUSH"):
            raise TranslateError("grammar redefines the builtin %s" % n)
    opt, fired = optimize(rules)
    used = set()
    bodies = []
    for (n, ty, e) in opt:
        trivia = n in ("WHITESPACE", "COMMENT")
        bodies.append((n, ty, trivia, emit_expr(e, user, used)))
    all_names = names + (["EOI"] if "EOI" in used else [])
    L = []
    L.append("(* GENERATED by translate/pest2coq.py from the source text of blots-core/src/grammar.pest")
    L.append("   (sha256 %s): the rules after pest_meta 2.8.3's optimizer, i.e. the input of" % digest)
    L.append("   pest_generator's generate_rule.  Do not edit. *)")
    L.append("From Coq Require Import String Ascii List NArith.")
    L.append("Require Import Blots.Peg.")
    L.append("Import ListNotations.")
    L.append("Open Scope string_scope.")
    L.append("")
    L.append("Inductive grule : Set :=")
    L.append("".join("\n| PG_%s" % n for n in all_names).lstrip("\n") + ".")
    L.append("")
    L.append("Definition grule_name (r : grule) : string :=")
    L.append("  match r with")
    for n in all_names:
        L.append('  | PG_%s => "%s"' % (n, n))
    L.append("  end.")
    L.append("")
    L.append("Definition grule_index (r : grule) : N :=")
    L.append("  match r with")
    for i, n in enumerate(all_names):
        L.append("  | PG_%s => %d" % (n, i))
    L.append("  end%N.")
    L.append("")
    L.append("Definition all_grules : list grule :=")
    L.append("  [" + "; ".join("PG_" + n for n in all_names) + "].")
    L.append("")
    L.append("Definition grule_def (r : grule) : rdef grule :=")
    L.append("  match r with")
    for (n, ty, trivia, body) in bodies:
        L.append("  | PG_%s => mkdef %s %s" % (n, MODS[ty], "true" if trivia else "false"))
        L.append("      (%s)" % body)
    if "EOI" in used:
        L.append("  | PG_EOI => mkdef MNormal false (Builtin BEoi)")
    L.append("  end.")
    L.append("")
    L.append("Definition ws_rule : option grule := %s." % ("Some PG_WHITESPACE" if "WHITESPACE" in user else "None"))
    L.append("Definition comment_rule : option grule := %s." % ("Some PG_COMMENT" if "COMMENT" in user else "None"))
    L.append("")
    L.append("Definition blots_grammar : grammar grule := mkgrammar grule_def ws_rule comment_rule.")
    L.append("")
    L.append("(* optimizer passes that rewrote a rule (beyond rotation, e+ unrolling and RestoreOnErr): %s *)"
             % ("; ".join("%s: %s" % (k, ",".join(v)) for k, v in sorted(fired.items())) or "none"))
    info = {"rules": len(all_names), "digest": digest, "fired": fired, "builtins": sorted(used),
            "names": all_names}
    return "\n".join(L) + "\n", info


if __name__ == "__main__":
    repo = sys.argv[1] if len(sys.argv) > 1 else "/repo"
    txt, info = generate(repo)
    if len(sys.argv) > 2:
        with open(sys.argv[2], "w") as f:
            f.write(txt)
    else:
        sys.stdout.write(txt)
    sys.stderr.write("%r\n" % (info,))
