#!/usr/bin/env python3
"""translate/prec_table.py — coq/gen/PrecTable.v from the SOURCE TEXT of
blots-core/src/precedence.rs (and pest's PREC_STEP from the vendored pest source).

What is read (tokenising, tolerant of formatting and comments):
  * the `define_precedence! { precedence N, Assoc => { BinOp: rule, ... } ... }` invocation
    -> prec_rows : list (nat * assoc * binop * oprule), in source order
       (exactly the rows the macro expands to in PRECEDENCE_TABLE);
  * inside `fn build_pratt_parser`, every statement `parser = parser.op(<chain>);` whose chain is
    `Op::prefix(Rule::r) | Op::postfix(Rule::r) | ...`, in source order
    -> op_chain : list (list (oprule * affix));
  * whether the groups are ordered by `sort_by_key(|(prec, _, _)| *prec)` (ascending, stable);
  * pest's `const PREC_STEP: Prec = N;` and the initial `prec: PREC_STEP` / `self.prec += PREC_STEP`
    numbering, from the pest version pinned in Cargo.lock.
The grouping / sorting / numbering LOGIC of build_pratt_parser and PrattParser::op is transcribed by
hand in coq/Pratt.v (build_table); this file only extracts the data.  Anything unexpected raises
TranslateError (reported by the check as a broken tie)."""
import glob
import hashlib
import os
import re
import sys

BINOPS = ["Add", "Subtract", "Multiply", "Divide", "Modulo", "Power", "Equal", "NotEqual", "Less", "LessEq",
          "Greater", "GreaterEq", "DotEqual", "DotNotEqual", "DotLess", "DotLessEq", "DotGreater",
          "DotGreaterEq", "And", "NaturalAnd", "Or", "NaturalOr", "Via", "Into", "Where", "Coalesce"]
INFIX_RULES = ["add", "subtract", "multiply", "divide", "modulo", "power", "equal", "not_equal", "less", "less_eq",
               "greater", "greater_eq", "dot_equal", "dot_not_equal", "dot_less", "dot_less_eq", "dot_greater",
               "dot_greater_eq", "and", "natural_and", "or", "natural_or", "via", "into", "where_", "coalesce"]
OTHER_RULES = ["negation", "spread_operator", "invert", "natural_not", "factorial", "access", "dot_access",
               "call_list"]
OPRULES = INFIX_RULES + OTHER_RULES


class TranslateError(Exception):
    pass


def strip_comments(src):
    src = re.sub(r"/\*.*?\*/", " ", src, flags=re.S)
    src = re.sub(r"//[^\n]*", " ", src)
    return src


def balanced(src, start, open_ch, close_ch):
    """src[start] == open_ch; returns index just past the matching close."""
    assert src[start] == open_ch
    depth = 0
    i = start
    while i < len(src):
        ch = src[i]
        if ch == open_ch:
            depth += 1
        elif ch == close_ch:
            depth -= 1
            if depth == 0:
                return i + 1
        i += 1
    raise TranslateError("unbalanced %s%s in precedence.rs" % (open_ch, close_ch))


def parse_precedence_rs(text):
    src = strip_comments(text)
    # --- the macro invocation (the second occurrence of `define_precedence!`; the first is macro_rules!)
    invs = [m for m in re.finditer(r"define_precedence\s*!\s*\{", src)]
    if len(invs) != 1:
        raise TranslateError("expected exactly one define_precedence! { ... } invocation, found %d" % len(invs))
    b0 = invs[0].end() - 1
    b1 = balanced(src, b0, "{", "}")
    body = src[b0 + 1:b1 - 1]
    rows = []
    pos = 0
    grp = re.compile(r"\s*precedence\s+(\d+)\s*,\s*(Left|Right)\s*=>\s*\{")
    while True:
        m = grp.match(body, pos)
        if not m:
            if body[pos:].strip():
                raise TranslateError("unparsed text in define_precedence!: %r" % body[pos:pos + 60])
            break
        g0 = m.end() - 1
        g1 = balanced(body, g0, "{", "}")
        inner = body[g0 + 1:g1 - 1]
        ents = [e.strip() for e in inner.split(",") if e.strip()]
        for e in ents:
            mm = re.fullmatch(r"(\w+)\s*:\s*(\w+)", e)
            if not mm:
                raise TranslateError("bad table entry %r" % e)
            binop, rule = mm.group(1), mm.group(2)
            if binop not in BINOPS:
                raise TranslateError("unknown BinaryOp %s in the table (model coq/Ast.v has 26)" % binop)
            if rule not in INFIX_RULES:
                raise TranslateError("unknown infix rule %s in the table" % rule)
            rows.append((int(m.group(1)), m.group(2), binop, rule))
        pos = g1
    if not rows:
        raise TranslateError("empty precedence table")
    # --- the macro must expand each entry to one row (prec, Assoc::assoc, BinaryOp::binop, Rule::rule)
    if not re.search(r"\(\s*\$prec\s*,\s*Assoc::\$assoc\s*,\s*BinaryOp::\$binop\s*,\s*Rule::\$rule\s*\)", src):
        raise TranslateError("define_precedence! no longer expands to ($prec, Assoc::$assoc, BinaryOp::$binop, Rule::$rule)")
    # --- build_pratt_parser
    m = re.search(r"fn\s+build_pratt_parser\s*\(\s*\)\s*->\s*PrattParser\s*<\s*Rule\s*>\s*\{", src)
    if not m:
        raise TranslateError("fn build_pratt_parser() -> PrattParser<Rule> not found")
    f0 = m.end() - 1
    f1 = balanced(src, f0, "{", "}")
    fbody = src[f0 + 1:f1 - 1]
    if not re.search(r"precedence_groups\s*\.\s*sort_by_key\s*\(\s*\|\s*\(\s*prec\s*,\s*_\s*,\s*_\s*\)\s*\|\s*\*prec\s*\)", fbody):
        raise TranslateError("build_pratt_parser: groups are no longer ordered by sort_by_key(|(prec,_,_)| *prec)")
    if not re.search(r"for\s*&\s*\(\s*prec\s*,\s*assoc\s*,\s*_binop\s*,\s*rule\s*\)\s*in\s+PRECEDENCE_TABLE", fbody):
        raise TranslateError("build_pratt_parser: loop over PRECEDENCE_TABLE not recognised")
    if not re.search(r"\*p\s*==\s*prec\s*&&\s*\*a\s*==\s*assoc", fbody):
        raise TranslateError("build_pratt_parser: grouping key is no longer (precedence, associativity)")
    chains = []
    for sm in re.finditer(r"parser\s*=\s*parser\s*\.\s*op\s*\(", fbody):
        p0 = sm.end() - 1
        p1 = balanced(fbody, p0, "(", ")")
        arg = fbody[p0 + 1:p1 - 1].strip()
        if arg == "op_chain":
            continue        # the infix groups built from the table
        parts = [a.strip() for a in arg.split("|")]
        chain = []
        for a in parts:
            mm = re.fullmatch(r"Op\s*::\s*(prefix|postfix)\s*\(\s*Rule\s*::\s*(\w+)\s*\)", a)
            if not mm:
                raise TranslateError("build_pratt_parser: unrecognised operator chain element %r" % a)
            if mm.group(2) not in OPRULES:
                raise TranslateError("build_pratt_parser: unknown operator rule %s" % mm.group(2))
            chain.append((mm.group(2), mm.group(1)))
        chains.append(chain)
    if not chains:
        raise TranslateError("build_pratt_parser: no prefix/postfix .op(...) chain found")
    # the infix chain construction
    if not re.search(r"Op\s*::\s*infix\s*\(\s*rules\s*\[\s*0\s*\]\s*,\s*assoc\s*\)", fbody):
        raise TranslateError("build_pratt_parser: infix chain construction not recognised")
    # position: the table groups must be registered before the prefix/postfix chains
    first_table_op = re.search(r"parser\s*=\s*parser\s*\.\s*op\s*\(\s*op_chain\s*\)", fbody)
    first_fixed = re.search(r"parser\s*=\s*parser\s*\.\s*op\s*\(\s*Op", fbody)
    if not first_table_op or not first_fixed or first_table_op.start() > first_fixed.start():
        raise TranslateError("build_pratt_parser: infix groups are no longer registered before prefix/postfix")
    return rows, chains


def parse_glue(text):
    """From expressions.rs: the rule -> constructor maps of map_infix and map_prefix."""
    src = strip_comments(text)
    m = re.search(r"\.\s*map_infix\s*\(", src)
    if not m:
        raise TranslateError("expressions.rs: .map_infix( not found")
    p0 = m.end() - 1
    blk = src[p0:balanced(src, p0, "(", ")")]
    infix = re.findall(r"Rule\s*::\s*(\w+)\s*=>\s*BinaryOp\s*::\s*(\w+)\s*,", blk)
    if not infix:
        raise TranslateError("expressions.rs: map_infix arms not recognised")
    for r, b in infix:
        if r not in INFIX_RULES or b not in BINOPS:
            raise TranslateError("expressions.rs: map_infix arm Rule::%s => BinaryOp::%s not in the model" % (r, b))
    if len(re.findall(r"=>", blk)) != len(infix) + 1 or not re.search(r"_\s*=>\s*unreachable!", blk):
        raise TranslateError("expressions.rs: map_infix has arms other than Rule::r => BinaryOp::B and _ => unreachable!()")
    if not re.search(r"BinaryOp\s*\{\s*op\s*:\s*op_type\s*,\s*left\s*:\s*Box::new\(lhs\?\)\s*,\s*right\s*:\s*Box::new\(rhs\?\)", blk):
        raise TranslateError("expressions.rs: map_infix no longer builds BinaryOp { op, left: lhs, right: rhs }")
    m = re.search(r"\.\s*map_prefix\s*\(", src)
    if not m:
        raise TranslateError("expressions.rs: .map_prefix( not found")
    p0 = m.end() - 1
    blk = src[p0:balanced(src, p0, "(", ")")]
    arms = list(re.finditer(r"((?:Rule\s*::\s*\w+\s*\|\s*)*Rule\s*::\s*\w+)\s*=>", blk))
    prefix = []
    for i, a in enumerate(arms):
        body = blk[a.end():arms[i + 1].start() if i + 1 < len(arms) else len(blk)]
        rules = re.findall(r"Rule\s*::\s*(\w+)", a.group(1))
        mu = re.search(r"UnaryOp\s*::\s*(\w+)", body)
        if mu and re.search(r"Expr\s*::\s*UnaryOp", body):
            res = "PUn " + mu.group(1)
            if mu.group(1) not in ("Negate", "Not", "Invert"):
                raise TranslateError("expressions.rs: unknown UnaryOp::%s" % mu.group(1))
        elif re.search(r"Expr\s*::\s*Spread", body):
            res = "PSpread"
        else:
            raise TranslateError("expressions.rs: map_prefix arm for %s not recognised" % rules)
        if not re.search(r"Box::new\(rhs\?\)", body):
            raise TranslateError("expressions.rs: map_prefix arm for %s does not wrap rhs" % rules)
        for r in rules:
            if r not in OPRULES:
                raise TranslateError("expressions.rs: map_prefix: unknown rule %s" % r)
            prefix.append((r, res))
    if not prefix:
        raise TranslateError("expressions.rs: map_prefix arms not recognised")
    return infix, prefix


def pest_prec_step(repo):
    lock = open(os.path.join(repo, "Cargo.lock")).read()
    m = re.search(r'name = "pest"\nversion = "([^"]+)"', lock)
    if not m:
        raise TranslateError("pest not found in Cargo.lock")
    ver = m.group(1)
    cands = glob.glob(os.path.expanduser("~/.cargo/registry/src/*/pest-%s/src/pratt_parser.rs" % ver))
    cands += glob.glob(os.path.join(repo, "vendor", "pest*", "src", "pratt_parser.rs"))
    if not cands:
        raise TranslateError("pest %s source not found" % ver)
    src = strip_comments(open(cands[0]).read())
    m = re.search(r"const\s+PREC_STEP\s*:\s*Prec\s*=\s*(\d+)\s*;", src)
    if not m:
        raise TranslateError("PREC_STEP not found in pest %s" % ver)
    step = int(m.group(1))
    if not re.search(r"prec\s*:\s*PREC_STEP\s*,", src) or not re.search(r"self\s*\.\s*prec\s*\+=\s*PREC_STEP", src):
        raise TranslateError("pest %s: PrattParser::new/op numbering not recognised" % ver)
    # the three binding-power expressions of expr/nud/led
    need = [r"Assoc::Left\s*=>\s*self\s*\.\s*expr\s*\(\s*pairs\s*,\s*\*prec\s*\)",
            r"Assoc::Right\s*=>\s*self\s*\.\s*expr\s*\(\s*pairs\s*,\s*\*prec\s*-\s*1\s*\)",
            r"let\s+rhs\s*=\s*self\s*\.\s*expr\s*\(\s*pairs\s*,\s*\*prec\s*-\s*1\s*\)",
            r"while\s+rbp\s*<\s*self\s*\.\s*lbp\s*\(\s*pairs\s*\)"]
    for n in need:
        if not re.search(n, src):
            raise TranslateError("pest %s: pratt_parser.rs no longer matches the transcription in coq/Pratt.v (%s)" % (ver, n))
    return ver, step, hashlib.sha1(src.encode()).hexdigest()[:12]


def generate(repo, dump_text=None):
    path = os.path.join(repo, "blots-core", "src", "precedence.rs")
    text = open(path).read()
    rows, chains = parse_precedence_rs(text)
    ver, step, pest_digest = pest_prec_step(repo)
    gtext = open(os.path.join(repo, "blots-core", "src", "expressions.rs")).read()
    infix, prefix = parse_glue(gtext)
    o = []
    o.append("(* GENERATED by translate/prec_table.py from the source text of blots-core/src/precedence.rs\n"
             "   (define_precedence! rows, prefix/postfix .op chains) and pest %s (PREC_STEP); the\n"
             "   operator_info rows are what the BUILT crate reports (harness dump-prec).  Do not edit. *)" % ver)
    o.append("From Coq Require Import List.\nRequire Import Blots.Ast Blots.PrattTypes.\nImport ListNotations.")
    o.append("Definition prec_rows : list (nat * assoc * binop * oprule) :=\n  [ " +
             ";\n    ".join("(%d, %s, %s, R_%s)" % (p, "ALeft" if a == "Left" else "ARight", b, r)
                             for p, a, b, r in rows) + " ].")
    o.append("Definition op_chains : list (list (oprule * affix)) :=\n  [ " +
             ";\n    ".join("[" + "; ".join("(R_%s, %s)" % (r, "Prefix" if k == "prefix" else "Postfix")
                                            for r, k in ch) + "]" for ch in chains) + " ].")
    o.append("Definition prec_step : nat := %d." % step)
    o.append("(* expressions.rs pairs_to_expr_inner: .map_infix / .map_prefix rule -> constructor arms *)")
    o.append("Definition infix_map : list (oprule * binop) :=\n  [ " +
             ";\n    ".join("(R_%s, %s)" % (r, b) for r, b in infix) + " ].")
    o.append("Definition prefix_map : list (oprule * prefix_ctor) :=\n  [ " +
             "; ".join("(R_%s, %s)" % (r, c) for r, c in prefix) + " ].")
    if dump_text is not None:
        drows = [l.split("\t") for l in dump_text.strip().split("\n")]
        for d in drows:
            if len(d) != 3 or d[0] not in BINOPS or d[2] not in ("Left", "Right"):
                raise TranslateError("harness dump-prec: bad row %r" % (d,))
        o.append("Definition operator_info_dump : list (binop * nat * assoc) :=\n  [ " +
                 ";\n    ".join("(%s, %d, %s)" % (d[0], int(d[1]), "ALeft" if d[2] == "Left" else "ARight")
                                 for d in drows) + " ].")
    digest = hashlib.sha1(text.encode()).hexdigest()[:12]
    return "\n\n".join(o) + "\n", {"precedence_rs_sha1": digest, "pest": ver, "pest_pratt_sha1": pest_digest,
                                   "rows": len(rows), "infix_arms": len(infix), "prefix_arms": len(prefix), "chains": [len(c) for c in chains], "prec_step": step}


if __name__ == "__main__":
    repo = sys.argv[1] if len(sys.argv) > 1 else "/repo"
    txt, info = generate(repo)
    sys.stdout.write(txt)
    print(info, file=sys.stderr)
