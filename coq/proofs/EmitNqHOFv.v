(* EmitNqHOFv.v — C05: converse of EmitClosed.subst_fv.  A free name of an expression that is NOT
   in the inlining scope is still a free name of the inlined expression (for every expression
   form: shadowing parameters, shadowing do-block locals, shorthand, spreads).  Together with
   subst_fv: the free names of the inlined expression are EXACTLY the free names of the original
   that are not inlined — so a closure created while a reloaded body runs captures exactly the
   names that the corresponding original closure captured and that were not inlined. *)
From Coq Require Import String Ascii List ZArith Bool Lia.
Require Import Blots.Num Blots.gen.Builtins Blots.Ast Blots.Value Blots.Outcome Blots.Env
               Blots.Emit Blots.proofs.ValueInd Blots.proofs.ExprInd Blots.proofs.EmitSubst
               Blots.proofs.EmitClosed.
Import ListNotations.
Open Scope list_scope.

Definition FVconv (e : expr) : Prop :=
  forall m bound x, lits_closed m ->
    In x (free_vars e bound) -> rec_get m x = None ->
    In x (free_vars (subst true m e) bound).

Lemma remove_all_none xs : forall m x, rec_get m x = None -> rec_get (smap_remove_all m xs) x = None.
Proof.
  induction xs as [|y xs IH]; intros m x H; [exact H|].
  change (smap_remove_all m (y :: xs)) with (smap_remove_all (smap_remove m y) xs).
  apply IH. rewrite rec_get_remove. destruct (String.eqb x y); [reflexivity|exact H].
Qed.

Theorem subst_fv_conv : forall e, FVconv e.
Proof.
  induction e using expr_ind'; intros m bound z Hm; try (cbn; tauto).
  - (* identifier *)
    cbn [free_vars]. destruct (mem x bound || _ || _ || _)%bool eqn:C; [intros []|].
    intros [<-|[]] Hn. cbn [subst]. rewrite Hn. cbn [free_vars]. rewrite C. now left.
  - (* input reference *)
    cbn [free_vars]. destruct (mem "inputs" bound) eqn:C; [intros []|].
    intros [<-|[]] Hn. cbn [subst]. rewrite Hn. cbn [free_vars]. rewrite C. now left.
  - (* list *)
    cbn [subst]. cbn [free_vars]. induction H as [|[a n t] l Hn Hl IH]; [intros []|].
    cbn in Hn. intros Hin Hz. apply in_app_or in Hin as [Hin|Hin]; apply in_or_app.
    + left. apply Hn; auto.
    + right. apply IH; auto.
  - (* record *)
    cbn [subst]. cbn [free_vars]. induction H as [|[a [k v] t] l Hn Hl IH]; [intros []|].
    cbn in Hn. destruct Hn as [Hk Hv].
    destruct k as [s|ke|y|se]; cbn [Pkey] in Hk.
    + cbv beta iota. intros Hin Hz. apply in_app_or in Hin as [Hin|Hin]; apply in_or_app.
      * left. apply Hv; auto.
      * right. apply IH; auto.
    + cbv beta iota. intros Hin Hz. apply in_app_or in Hin as [Hin|Hin]; apply in_or_app.
      * left. apply in_app_or in Hin as [Hin|Hin]; apply in_or_app; [left; apply Hk|right; apply Hv]; auto.
      * right. apply IH; auto.
    + cbv beta iota. intros Hin Hz. apply in_app_or in Hin as [Hin|Hin].
      * destruct (mem y bound) eqn:My; [destruct Hin|]. destruct Hin as [<-|[]].
        rewrite Hz. cbv beta iota. rewrite My. apply in_or_app. left. now left.
      * destruct (rec_get m y); cbv beta iota; apply in_or_app; right; apply IH; auto.
    + cbv beta iota. intros Hin Hz. apply in_app_or in Hin as [Hin|Hin]; apply in_or_app.
      * left. apply Hk; auto.
      * right. apply IH; auto.
  - (* lambda *)
    cbn [subst]. cbn [free_vars]. intros Hin Hz.
    apply IHe; [apply lits_closed_remove_all; exact Hm|exact Hin|apply remove_all_none; exact Hz].
  - (* conditional *)
    cbn [subst]. cbn [free_vars]. intros Hin Hz. apply in_app_or in Hin as [Hin|Hin]; apply in_or_app.
    + left. apply IHe1; auto.
    + right. apply in_app_or in Hin as [Hin|Hin]; apply in_or_app; [left; apply IHe2|right; apply IHe3]; auto.
  - (* do-block *)
    revert m bound Hm. induction H as [|[a s t] l Hs Hl IH]; intros m bound Hm.
    + destruct ret as [rl ret rt]. cbn [cnode] in IHe. cbn. apply IHe. exact Hm.
    + rewrite subst_do_cons.
      destruct (subst_do_shape (do_step_map true m s) l ret) as (l' & R' & Esh). rewrite Esh.
      cbn in Hs. assert (Hstep := lits_closed_step m s Hm).
      destruct (na s) eqn:Ena.
      * rewrite (fv_do_cons_na a _ t l' R' bound (subst_na m s Hm Ena)).
        rewrite (fv_do_cons_na a s t l ret bound Ena).
        assert (Em : do_step_map true m s = m) by (destruct s; try reflexivity; discriminate).
        rewrite Em in Esh. intros Hin Hz. apply in_app_or in Hin as [Hin|Hin]; apply in_or_app.
        -- left. apply Hs; auto.
        -- right. rewrite <- Esh. apply IH; auto.
      * destruct s; try discriminate. cbn [subst do_step_map] in *.
        rewrite fv_do_cons_as, fv_do_cons_as. intros Hin Hz. apply in_app_or in Hin as [Hin|Hin]; apply in_or_app.
        -- left. apply (Hs m bound z Hm); [exact Hin|exact Hz].
        -- right. rewrite <- Esh. apply IH; [exact Hstep|exact Hin|].
           rewrite rec_get_remove. destruct (String.eqb z x); [reflexivity|exact Hz].
  - (* assignment *)
    cbn [subst]. cbn [free_vars]. apply IHe. exact Hm.
  - (* call *)
    cbn [subst]. cbn [free_vars]. intros Hin Hz. apply in_app_or in Hin as [Hin|Hin]; apply in_or_app.
    + left. apply IHe; auto.
    + right. induction H as [|a l Ha Hl IH]; [destruct Hin|]. apply in_app_or in Hin as [Hin|Hin]; apply in_or_app.
      * left. apply Ha; auto.
      * right. apply IH; auto.
  - cbn [subst]. cbn [free_vars]. intros Hin Hz. apply in_app_or in Hin as [Hin|Hin]; apply in_or_app;
      [left; apply IHe1|right; apply IHe2]; auto.
  - cbn [subst]. cbn [free_vars]. apply IHe. exact Hm.
  - cbn [subst]. cbn [free_vars]. intros Hin Hz. apply in_app_or in Hin as [Hin|Hin]; apply in_or_app;
      [left; apply IHe1|right; apply IHe2]; auto.
  - cbn [subst]. cbn [free_vars]. apply IHe. exact Hm.
  - cbn [subst]. cbn [free_vars]. apply IHe. exact Hm.
  - cbn [subst]. cbn [free_vars]. apply IHe. exact Hm.
Qed.
