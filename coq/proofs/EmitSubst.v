(* EmitSubst.v — C05: syntactic facts about the inlining [subst]:
     subst_ext      only the lookup function of the scope matters (HashMap / IndexMap iteration
                    order, duplicates behind the first occurrence: irrelevant)
     subst_nil      an empty scope changes nothing: a reloaded function (scope = None) is
                    emitted again as exactly the AST it was loaded from                    *)
From Coq Require Import String Ascii List ZArith Bool Lia Permutation.
Require Import Blots.Num Blots.gen.Builtins Blots.Ast Blots.Value Blots.Outcome Blots.Env
               Blots.Emit Blots.proofs.ValueInd Blots.proofs.ExprInd.
Import ListNotations.
Open Scope list_scope.

Definition smap_eq (m m' : smap) : Prop := forall x, rec_get m x = rec_get m' x.

Lemma rec_get_remove (m : smap) x y :
  rec_get (smap_remove m x) y = if String.eqb y x then None else rec_get m y.
Proof.
  unfold smap_remove. induction m as [|[k a] m IH]; cbn [filter fst rec_get].
  - now destruct (String.eqb y x).
  - destruct (String.eqb k x) eqn:Ekx; cbn [negb rec_get].
    + rewrite IH. apply String.eqb_eq in Ekx. subst k.
      destruct (String.eqb y x); reflexivity.
    + rewrite IH. destruct (String.eqb y k) eqn:Eyk; [|reflexivity].
      apply String.eqb_eq in Eyk. subst y. now rewrite Ekx.
Qed.
Lemma smap_eq_remove m m' x : smap_eq m m' -> smap_eq (smap_remove m x) (smap_remove m' x).
Proof. intros H y. rewrite !rec_get_remove. now rewrite H. Qed.
Lemma smap_eq_remove_all xs : forall m m', smap_eq m m' ->
  smap_eq (smap_remove_all m xs) (smap_remove_all m' xs).
Proof. induction xs as [|x xs IH]; cbn; intros; [assumption|]. apply IH. now apply smap_eq_remove. Qed.
Lemma smap_eq_do_step d m m' s : smap_eq m m' -> smap_eq (do_step_map d m s) (do_step_map d m' s).
Proof. unfold do_step_map. destruct d; [|auto]. destruct s; auto. intros. now apply smap_eq_remove. Qed.
Lemma smap_eq_do_final d l : forall m m', smap_eq m m' ->
  smap_eq (do_final_map d m l) (do_final_map d m' l).
Proof.
  induction l as [|[a s t] l IH]; cbn; intros; [assumption|]. apply IH. now apply smap_eq_do_step.
Qed.

Theorem subst_ext : forall d e m m', smap_eq m m' -> subst d m e = subst d m' e.
Proof.
  intros d e. induction e using expr_ind'; intros m m' Hm; cbn [subst]; try reflexivity.
  - now rewrite Hm.
  - now rewrite Hm.
  - f_equal. induction H as [|[a n t] l Hn Hl IH]; [reflexivity|]. cbn in Hn.
    rewrite (Hn m m' Hm). now rewrite IH.
  - f_equal. induction H as [|[a [k v] t] l Hn Hl IH]; [reflexivity|]. cbn in Hn.
    destruct Hn as [Hk Hv]. rewrite IH. f_equal. f_equal.
    destruct k; cbn in Hk.
    + now rewrite (Hv m m' Hm).
    + now rewrite (Hk m m' Hm), (Hv m m' Hm).
    + now rewrite Hm.
    + now rewrite (Hk m m' Hm).
  - f_equal. apply IHe. now apply smap_eq_remove_all.
  - now rewrite (IHe1 m m' Hm), (IHe2 m m' Hm), (IHe3 m m' Hm).
  - destruct ret as [rl ret rt]. cbn in IHe. f_equal.
    + revert m m' Hm. induction H as [|[a n t] l Hn Hl IH]; intros m m' Hm; [reflexivity|].
      cbn in Hn. rewrite (Hn m m' Hm). f_equal. apply IH. now apply smap_eq_do_step.
    + f_equal. apply IHe. now apply smap_eq_do_final.
  - now rewrite (IHe m m' Hm).
  - now rewrite (IHe m m' Hm).
  - rewrite (IHe m m' Hm). f_equal.
    induction H as [|a l Ha Hl IH]; [reflexivity|]. now rewrite (Ha m m' Hm), IH.
  - now rewrite (IHe1 m m' Hm), (IHe2 m m' Hm).
  - now rewrite (IHe m m' Hm).
  - now rewrite (IHe1 m m' Hm), (IHe2 m m' Hm).
  - now rewrite (IHe m m' Hm).
  - now rewrite (IHe m m' Hm).
  - now rewrite (IHe m m' Hm).
Qed.

(* an empty scope *)
Definition smap_empty (m : smap) : Prop := forall x, rec_get m x = None.
Lemma smap_empty_eq_nil m : smap_empty m -> smap_eq m [].
Proof. intros H x. now rewrite H. Qed.
Lemma remove_all_nil xs : smap_remove_all [] xs = [].
Proof. induction xs; cbn; auto. Qed.
Lemma do_step_nil d s : do_step_map d [] s = [].
Proof. unfold do_step_map. destruct d; [|reflexivity]. destruct s; reflexivity. Qed.
Lemma do_final_nil d l : do_final_map d [] l = [].
Proof. induction l as [|[a s t] l IH]; cbn; [reflexivity|]. now rewrite do_step_nil. Qed.

Theorem subst_nil : forall d e, subst d [] e = e.
Proof.
  intros d e. induction e using expr_ind'; cbn [subst]; try reflexivity.
  - f_equal. induction H as [|[a n t] l Hn Hl IH]; [reflexivity|]. cbn in Hn. now rewrite Hn, IH.
  - f_equal. induction H as [|[a [k v] t] l Hn Hl IH]; [reflexivity|]. cbn in Hn.
    destruct Hn as [Hk Hv]. rewrite IH. f_equal. f_equal.
    destruct k; cbn in Hk; cbn; congruence.
  - rewrite remove_all_nil. now rewrite IHe.
  - now rewrite IHe1, IHe2, IHe3.
  - destruct ret as [rl ret rt]. cbn in IHe. rewrite do_final_nil, IHe. f_equal.
    induction H as [|[a n t] l Hn Hl IH]; [reflexivity|]. cbn in Hn.
    rewrite Hn, do_step_nil. now rewrite IH.
  - now rewrite IHe.
  - now rewrite IHe.
  - rewrite IHe. f_equal. induction H as [|a l Ha Hl IH]; [reflexivity|]. now rewrite Ha, IH.
  - now rewrite IHe1, IHe2.
  - now rewrite IHe.
  - now rewrite IHe1, IHe2.
  - now rewrite IHe.
  - now rewrite IHe.
  - now rewrite IHe.
Qed.

(* ---- scope order: any two scopes with unique names and the same bindings ---- *)
Lemma perm_nodup_rec_get {A} (r s : list (string * A)) :
  NoDup (map fst r) -> Permutation r s -> forall x, rec_get r x = rec_get s x.
Proof.
  intros Hnd Hp x.
  assert (Hnd' : NoDup (map fst s)) by (eapply Permutation_NoDup; [apply Permutation_map; exact Hp|exact Hnd]).
  destruct (rec_get r x) eqn:E.
  - apply rec_get_In in E. symmetry. apply rec_get_In_NoDup; [assumption|].
    eapply Permutation_in; eassumption.
  - destruct (rec_get s x) eqn:E'; [|reflexivity].
    apply rec_get_In in E'. apply Permutation_sym in Hp.
    rewrite (rec_get_In_NoDup r x a Hnd) in E; [discriminate|]. eapply Permutation_in; eassumption.
Qed.

Lemma scope_map_get n d sc x :
  rec_get (scope_map n d sc) x = option_map (value_to_ast n d) (rec_get sc x).
Proof.
  induction sc as [|[k v] sc IH]; cbn; [reflexivity|]. destruct (String.eqb x k); [reflexivity|apply IH].
Qed.

Theorem emit_scope_order_insensitive : forall n d id args body sc sc',
  NoDup (map fst sc) -> Permutation sc sc' ->
  emit_ast n d (VLam id args body sc) = emit_ast n d (VLam id args body sc').
Proof.
  intros. cbn. f_equal. f_equal. apply subst_ext. intros x.
  rewrite !scope_map_get. now rewrite (perm_nodup_rec_get sc sc').
Qed.

(* the nested-closure case of value_to_ast uses the same scope map *)
Lemma value_to_ast_lam n d id args body sc :
  value_to_ast n d (VLam id args body sc) = ELam args (subst d (scope_map n d sc) body).
Proof.
  cbn. f_equal. f_equal. unfold scope_map. induction sc as [|[k v] sc IH]; cbn; congruence.
Qed.

(* re-emission: a reloaded function has no scope; what it emits is the AST it was loaded from *)
Theorem reemit_identity : forall n d id e v,
  reload_ast id e = Some v -> emit_ast n d v = Some e.
Proof.
  intros n d id e v H. destruct e; try discriminate. injection H as <-. cbn. now rewrite subst_nil.
Qed.
