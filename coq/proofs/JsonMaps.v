(* JsonMaps.v — facts about the two map types of the JSON boundary (C06):
   BTreeMap insertion into a key-sorted association list (bmap_insert / bmap_collect) and
   IndexMap insertion (rec_insert / imap_collect). *)
From Coq Require Import String Ascii List ZArith Bool Lia Sorted Permutation.
Require Import Blots.Num Blots.gen.Builtins Blots.Ast Blots.Value Blots.Outcome Blots.Json.
Require Import Blots.proofs.ValueInd Blots.proofs.Order.
Import ListNotations.
Open Scope list_scope.

Definition mapv {A B} (f : A -> B) (m : list (string * A)) : list (string * B) :=
  map (fun kv => let '(k, v) := kv in (k, f v)) m.
Definition keys {A} (m : list (string * A)) : list string := map fst m.

Lemma keys_mapv {A B} (f : A -> B) m : keys (mapv f m) = keys m.
Proof. induction m as [|[k v] m IH]; cbn; [reflexivity|]. now f_equal. Qed.
Lemma length_mapv {A B} (f : A -> B) m : length (mapv f m) = length m.
Proof. apply map_length. Qed.
Lemma mapv_mapv {A B C} (f : A -> B) (g : B -> C) m : mapv g (mapv f m) = mapv (fun x => g (f x)) m.
Proof. induction m as [|[k v] m IH]; cbn; [reflexivity|]. now f_equal. Qed.
Lemma mapv_ext_in {A B} (f g : A -> B) m :
  (forall k v, In (k, v) m -> f v = g v) -> mapv f m = mapv g m.
Proof.
  induction m as [|[k v] m IH]; cbn; [reflexivity|]. intros H. f_equal.
  - f_equal. apply (H k). now left.
  - apply IH. intros; eapply H; right; eauto.
Qed.
Lemma mapv_id {A} (m : list (string * A)) : mapv (fun x => x) m = m.
Proof. induction m as [|[k v] m IH]; cbn; [reflexivity|]. now f_equal. Qed.
Lemma in_mapv {A B} (f : A -> B) m k y :
  In (k, y) (mapv f m) -> exists x, In (k, x) m /\ y = f x.
Proof.
  induction m as [|[k' v] m IH]; cbn; [tauto|]. intros [E|H].
  - injection E as -> <-. eauto.
  - destruct (IH H) as (x & Hx & ->). eauto.
Qed.
Lemma rec_get_mapv {A B} (f : A -> B) m k : rec_get (mapv f m) k = option_map f (rec_get m k).
Proof.
  induction m as [|[k' v] m IH]; cbn; [reflexivity|]. destruct (String.eqb k k'); auto.
Qed.

(* ------------------------------------------------------------------ sortedness *)
Definition klt {A} (a b : string * A) : Prop := string_cmp (fst a) (fst b) = Lt.
Definition ksorted {A} (m : list (string * A)) : Prop := StronglySorted klt m.
Definition all_lt {A} (m : list (string * A)) (k : string) : Prop :=
  Forall (fun kv => string_cmp (fst kv) k = Lt) m.

Lemma scmp_lt_trans a b c : string_cmp a b = Lt -> string_cmp b c = Lt -> string_cmp a c = Lt.
Proof.
  intros H1 H2. rewrite (string_cmp_trans a b c); rewrite ?H1, ?H2; [reflexivity|discriminate..].
Qed.
Lemma scmp_gt_lt a b : string_cmp a b = Gt <-> string_cmp b a = Lt.
Proof. rewrite (string_cmp_antisym a b). destruct (string_cmp a b); cbn; split; congruence. Qed.
Lemma scmp_lt_neq a b : string_cmp a b = Lt -> a <> b.
Proof. intros H ->. rewrite string_cmp_refl in H. discriminate. Qed.

Lemma ksorted_mapv {A B} (f : A -> B) m : ksorted m <-> ksorted (mapv f m).
Proof.
  unfold ksorted. induction m as [|[k v] m IH]; cbn.
  - split; constructor.
  - split; intros H; inversion H as [|? ? Hs Hf]; subst; constructor.
    + now apply IH.
    + unfold mapv. rewrite Forall_map. eapply Forall_impl; [|exact Hf]. now intros [k' v'].
    + now apply IH.
    + unfold mapv in Hf. rewrite Forall_map in Hf. eapply Forall_impl; [|exact Hf]. now intros [k' v'].
Qed.

Lemma ksorted_NoDup {A} (m : list (string * A)) : ksorted m -> NoDup (keys m).
Proof.
  induction 1 as [|[k v] m Hs IH Hf]; cbn; constructor; [|assumption].
  intros HI. apply in_map_iff in HI as ([k' v'] & E & HI). cbn in E; subst k'.
  rewrite Forall_forall in Hf. specialize (Hf _ HI). unfold klt in Hf. cbn in Hf.
  now rewrite string_cmp_refl in Hf.
Qed.

(* ------------------------------------------------------------------ bmap_insert *)
Lemma bmap_insert_mapv {A B} (f : A -> B) m k v :
  bmap_insert (mapv f m) k (f v) = mapv f (bmap_insert m k v).
Proof.
  induction m as [|[k' v'] m IH]; cbn; [reflexivity|].
  destruct (string_cmp k k'); cbn; [reflexivity|reflexivity|]. f_equal. exact IH.
Qed.

Lemma bmap_insert_keys {A} (m : list (string * A)) k v k0 :
  In k0 (keys (bmap_insert m k v)) <-> k0 = k \/ In k0 (keys m).
Proof.
  induction m as [|[k' v'] m IH]; cbn; [intuition|].
  destruct (string_cmp k k') eqn:E; cbn.
  - apply string_cmp_eq in E. subst. intuition.
  - intuition.
  - rewrite IH. intuition.
Qed.

Lemma bmap_insert_in {A} (m : list (string * A)) k v k0 x :
  In (k0, x) (bmap_insert m k v) -> (k0 = k /\ x = v) \/ In (k0, x) m.
Proof.
  induction m as [|[k' v'] m IH]; cbn.
  - intros [E|[]]. injection E as <- <-. auto.
  - destruct (string_cmp k k') eqn:E; cbn.
    + apply string_cmp_eq in E. subst. intros [H|H]; [injection H as <- <-|]; auto.
    + intros [H|H]; [injection H as <- <-|]; auto.
    + intros [H|H]; auto. destruct (IH H); auto.
Qed.

Lemma bmap_insert_sorted {A} (m : list (string * A)) k v :
  ksorted m -> ksorted (bmap_insert m k v).
Proof.
  unfold ksorted. induction 1 as [|[k' v'] m Hs IH Hf]; cbn.
  - repeat constructor.
  - destruct (string_cmp k k') eqn:E.
    + constructor; [assumption|]. eapply Forall_impl; [|exact Hf]. now intros [k1 v1].
    + constructor; [now constructor|]. constructor; [exact E|].
      eapply Forall_impl; [|exact Hf]. intros [k1 v1]. unfold klt; cbn.
      intros H1. eapply scmp_lt_trans; eauto.
    + constructor; [assumption|]. rewrite Forall_forall. intros [k1 v1] HI.
      apply bmap_insert_in in HI as [[-> ->]|HI].
      * unfold klt; cbn. now apply scmp_gt_lt.
      * rewrite Forall_forall in Hf. now apply Hf.
Qed.

(* inserting a key above every present key appends *)
Lemma bmap_insert_above {A} (m : list (string * A)) k v :
  all_lt m k -> bmap_insert m k v = m ++ [(k, v)].
Proof.
  induction 1 as [|[k' v'] m H _ IH]; cbn; [reflexivity|].
  cbn in H. apply scmp_gt_lt in H. rewrite H. now rewrite IH.
Qed.

(* lookup after insertion *)
Lemma rec_get_bmap_insert {A} (m : list (string * A)) k v k0 :
  ksorted m ->
  rec_get (bmap_insert m k v) k0 = if String.eqb k0 k then Some v else rec_get m k0.
Proof.
  unfold ksorted. induction 1 as [|[k' v'] m Hs IH Hf]; cbn.
  - destruct (String.eqb k0 k); reflexivity.
  - destruct (string_cmp k k') eqn:E; cbn.
    + apply string_cmp_eq in E. subst k'. destruct (String.eqb k0 k); reflexivity.
    + destruct (String.eqb k0 k); reflexivity.
    + destruct (String.eqb_spec k0 k') as [->|Hne].
      * destruct (String.eqb_spec k' k) as [->|_]; [|reflexivity].
        rewrite string_cmp_refl in E. discriminate.
      * apply IH.
Qed.

(* ------------------------------------------------------------------ bmap_collect *)
Definition bfold {A} (l acc : list (string * A)) : list (string * A) :=
  fold_left (fun acc kv => bmap_insert acc (fst kv) (snd kv)) l acc.
Lemma bmap_collect_bfold {A} (l : list (string * A)) : bmap_collect l = bfold l [].
Proof. reflexivity. Qed.

Lemma bfold_sorted {A} (l acc : list (string * A)) : ksorted acc -> ksorted (bfold l acc).
Proof.
  revert acc; induction l as [|[k v] l IH]; intros acc H; cbn; [assumption|].
  apply IH. now apply bmap_insert_sorted.
Qed.
Lemma bmap_collect_sorted {A} (l : list (string * A)) : ksorted (bmap_collect l).
Proof. apply bfold_sorted. constructor. Qed.

Lemma bfold_mapv {A B} (f : A -> B) l acc : bfold (mapv f l) (mapv f acc) = mapv f (bfold l acc).
Proof.
  revert acc; induction l as [|[k v] l IH]; intros acc; cbn; [reflexivity|].
  rewrite bmap_insert_mapv. apply IH.
Qed.
Lemma bmap_collect_mapv {A B} (f : A -> B) l : bmap_collect (mapv f l) = mapv f (bmap_collect l).
Proof. apply (bfold_mapv f l []). Qed.

Lemma bfold_in {A} (l acc : list (string * A)) k x :
  In (k, x) (bfold l acc) -> In (k, x) l \/ In (k, x) acc.
Proof.
  revert acc; induction l as [|[k' v'] l IH]; intros acc; cbn; [auto|].
  intros H. destruct (IH _ H) as [H1|H1]; [auto|].
  apply bmap_insert_in in H1 as [[-> ->]|H1]; auto.
Qed.
Lemma bmap_collect_in {A} (l : list (string * A)) k x : In (k, x) (bmap_collect l) -> In (k, x) l.
Proof. intros H. destruct (bfold_in l [] k x H) as [H1|[]]. exact H1. Qed.

Lemma bfold_keys {A} (l acc : list (string * A)) k :
  In k (keys (bfold l acc)) <-> In k (keys l) \/ In k (keys acc).
Proof.
  unfold bfold. revert acc; induction l as [|[k' v'] l IH]; intros acc; cbn [fold_left fst snd]; [cbn; intuition|].
  rewrite IH, bmap_insert_keys. cbn. intuition.
Qed.
Lemma bmap_collect_keys {A} (l : list (string * A)) k : In k (keys (bmap_collect l)) <-> In k (keys l).
Proof. unfold bmap_collect. change (In k (keys (bfold l [])) <-> In k (keys l)). rewrite bfold_keys. cbn. intuition. Qed.

(* collecting an already sorted sequence is the identity (a serde_json::Value re-serialised and
   re-read, or iterated and re-collected, is unchanged) *)
Lemma bfold_sorted_id {A} (l acc : list (string * A)) : ksorted (acc ++ l) -> bfold l acc = acc ++ l.
Proof.
  unfold bfold. revert acc; induction l as [|[k v] l IH]; intros acc H; cbn; [now rewrite app_nil_r|].
  rewrite bmap_insert_above.
  - rewrite IH; rewrite <- app_assoc; [reflexivity|exact H].
  - clear IH. unfold ksorted in H. induction acc as [|[k' v'] acc IHa]; [constructor|].
    cbn in H. inversion H as [|? ? Hs Hf]; subst. constructor.
    + rewrite Forall_forall in Hf. apply (Hf (k, v)). apply in_or_app. right. now left.
    + now apply IHa.
Qed.
Lemma bmap_collect_sorted_id {A} (l : list (string * A)) : ksorted l -> bmap_collect l = l.
Proof. intros H. apply (bfold_sorted_id l []). exact H. Qed.
Lemma bmap_collect_idem {A} (l : list (string * A)) : bmap_collect (bmap_collect l) = bmap_collect l.
Proof. apply bmap_collect_sorted_id, bmap_collect_sorted. Qed.

(* lookup in the collected map = the LAST binding of the key in the sequence *)
Fixpoint get_last {A} (l : list (string * A)) (k : string) : option A :=
  match l with
  | [] => None
  | (k', v) :: r => match get_last r k with Some x => Some x | None => if String.eqb k k' then Some v else None end
  end.
Lemma rec_get_bfold {A} (l acc : list (string * A)) k :
  ksorted acc ->
  rec_get (bfold l acc) k = match get_last l k with Some x => Some x | None => rec_get acc k end.
Proof.
  unfold bfold. revert acc; induction l as [|[k' v'] l IH]; intros acc H; cbn; [reflexivity|].
  rewrite IH by now apply bmap_insert_sorted.
  destruct (get_last l k); [reflexivity|]. rewrite rec_get_bmap_insert by assumption.
  now destruct (String.eqb k k').
Qed.
Lemma rec_get_bmap_collect {A} (l : list (string * A)) k : rec_get (bmap_collect l) k = get_last l k.
Proof.
  unfold bmap_collect. change (rec_get (bfold l []) k = get_last l k).
  rewrite rec_get_bfold by constructor. now destruct (get_last l k).
Qed.
Lemma get_last_NoDup {A} (l : list (string * A)) k : NoDup (keys l) -> get_last l k = rec_get l k.
Proof.
  induction l as [|[k' v] l IH]; cbn; [reflexivity|]. intros H. inversion H as [|? ? Hn Hnd]; subst.
  rewrite (IH Hnd). destruct (String.eqb_spec k k') as [->|Hne]; [|now destruct (rec_get l k)].
  now rewrite (rec_get_notin_None l k' Hn).
Qed.

(* with unique keys nothing is lost: same length, a permutation *)
Lemma bmap_insert_perm {A} (m : list (string * A)) k v :
  ~ In k (keys m) -> Permutation ((k, v) :: m) (bmap_insert m k v).
Proof.
  induction m as [|[k' v'] m IH]; cbn; [reflexivity|]. intros Hn.
  destruct (string_cmp k k') eqn:E.
  - apply string_cmp_eq in E. subst. tauto.
  - reflexivity.
  - etransitivity; [apply perm_swap|]. apply perm_skip. apply IH. tauto.
Qed.
Lemma bfold_perm {A} (l acc : list (string * A)) :
  NoDup (keys (acc ++ l)) -> Permutation (acc ++ l) (bfold l acc).
Proof.
  unfold bfold. revert acc; induction l as [|[k v] l IH]; intros acc H; cbn; [now rewrite app_nil_r|].
  assert (Hn : ~ In k (keys acc)).
  { unfold keys in H. rewrite map_app in H. cbn in H. apply NoDup_remove_2 in H.
    intros HI. apply H. apply in_or_app. now left. }
  etransitivity; [|apply IH].
  - etransitivity; [symmetry; apply Permutation_middle|].
    apply (Permutation_app_tail l (l:=(k, v) :: acc)). now apply bmap_insert_perm.
  - unfold keys in *. rewrite map_app in *. cbn in H.
    eapply Permutation_NoDup; [|exact H].
    etransitivity; [symmetry; apply Permutation_middle|].
    apply (Permutation_app_tail (map fst l) (l:=k :: map fst acc)).
    apply (Permutation_map fst (bmap_insert_perm acc k v Hn)).
Qed.
Lemma bmap_collect_perm {A} (l : list (string * A)) : NoDup (keys l) -> Permutation l (bmap_collect l).
Proof. intros H. apply (bfold_perm l []). exact H. Qed.

(* ------------------------------------------------------------------ IndexMap *)
Lemma rec_insert_mapv {A B} (f : A -> B) m k v :
  rec_insert (mapv f m) k (f v) = mapv f (rec_insert m k v).
Proof.
  induction m as [|[k' v'] m IH]; cbn; [reflexivity|].
  destruct (String.eqb k k'); cbn; [reflexivity|]. f_equal. exact IH.
Qed.
Lemma rec_insert_fresh {A} (m : list (string * A)) k v :
  ~ In k (keys m) -> rec_insert m k v = m ++ [(k, v)].
Proof.
  induction m as [|[k' v'] m IH]; cbn; [reflexivity|]. intros Hn.
  destruct (String.eqb_spec k k') as [->|Hne]; [tauto|]. rewrite IH; tauto.
Qed.
Definition ifold {A} (l acc : list (string * A)) : list (string * A) :=
  fold_left (fun acc kv => rec_insert acc (fst kv) (snd kv)) l acc.
Lemma ifold_NoDup {A} (l acc : list (string * A)) : NoDup (keys (acc ++ l)) -> ifold l acc = acc ++ l.
Proof.
  unfold ifold. revert acc; induction l as [|[k v] l IH]; intros acc H; cbn; [now rewrite app_nil_r|].
  rewrite rec_insert_fresh.
  - rewrite IH; rewrite <- app_assoc; [reflexivity|exact H].
  - unfold keys in H. rewrite map_app in H. cbn in H. apply NoDup_remove_2 in H.
    intros HI. apply H. apply in_or_app. now left.
Qed.
(* an iterator with unique keys collects to itself *)
Lemma imap_collect_NoDup {A} (l : list (string * A)) : NoDup (keys l) -> imap_collect l = l.
Proof. intros H. apply (ifold_NoDup l []). exact H. Qed.
Lemma ifold_mapv {A B} (f : A -> B) l acc : ifold (mapv f l) (mapv f acc) = mapv f (ifold l acc).
Proof.
  revert acc; induction l as [|[k v] l IH]; intros acc; cbn; [reflexivity|].
  rewrite rec_insert_mapv. apply IH.
Qed.
Lemma imap_collect_mapv {A B} (f : A -> B) l : imap_collect (mapv f l) = mapv f (imap_collect l).
Proof. apply (ifold_mapv f l []). Qed.

Lemma nodup_keys_keys {A} (r : list (string * A)) : nodup_keys r = true <-> NoDup (keys r).
Proof. apply nodup_keys_NoDup. Qed.
