(* proofs/PegShapeCompose.v — the parser-half theorems of C09 with the shape hypothesis DISCHARGED
   (PegShapeItems.parse_program_c_shape_ok: forest_shape_ok holds of every Peg.parse result) and wf_ast discharged
   (PegCommentsWf): from the TEXT through the PEG model, the item view, the commented Pratt parser, the statement loop
   and the formatter to the emitted text.  Remaining hypotheses: forest_view_ok (tested, flag V), the exclusion
   forest_no_empty_container (finding C09-empty-container), and the formatter-half hypotheses stmt_ok_parsed. *)
From Coq Require Import String Ascii List NArith ZArith Bool Arith Lia.
Require Import Blots.Num Blots.gen.Builtins Blots.Ast Blots.Outcome Blots.Formatter
               Blots.proofs.Scan Blots.proofs.ScanFmt Blots.proofs.DriverText.
Require Import Blots.Peg Blots.gen.Grammar Blots.PegToItems Blots.PegComments Blots.proofs.PegComments
               Blots.proofs.PegCommentsCompose Blots.proofs.PegCommentsWf Blots.proofs.PegShape
               Blots.proofs.PegShapeItems.
Import ListNotations.

Theorem parse_keeps_comments_text : forall text forest p,
  parse_program_c text = PCOk forest p ->
  forest_view_ok text forest = true ->
  forest_no_empty_container text forest = true ->
  program_comments p = forest_comments text forest.
Proof.
  intros text forest p H Hv Hn.
  exact (parse_keeps_comments text forest p Hv (parse_program_c_shape_ok text forest p H) Hn
                              (parse_program_c_inv text forest p H)).
Qed.

Theorem parsed_program_comment_texts_text : forall text forest p,
  parse_program_c text = PCOk forest p ->
  forest_view_ok text forest = true -> forest_no_empty_container text forest = true ->
  Forall comment_text_ok (program_comments p).
Proof.
  intros text forest p H Hv Hn. rewrite (parse_keeps_comments_text text forest p H Hv Hn).
  exact (shape_comment_texts_program text forest p H).
Qed.

Theorem text_to_text_lib :
  forall O key_ok, (forall k, key_ok k = true -> neutral (o_record_key O k)) ->
  forall text forest p mw d,
  parse_program_c text = PCOk forest p ->
  forest_view_ok text forest = true -> forest_no_empty_container text forest = true ->
  Forall (stmt_ok_parsed O key_ok mw) p -> format_lib O mw p = Some d ->
  scan_comments (render d) = forest_comments text forest.
Proof.
  intros O key_ok Hk text forest p mw d H Hv Hn Hok Hd.
  exact (tree_to_text_lib_parsed O key_ok Hk text forest p mw d Hv (parse_program_c_shape_ok text forest p H) Hn
                                 (parse_program_c_inv text forest p H) Hok Hd).
Qed.

Theorem text_to_text_cli :
  forall O key_ok, (forall k, key_ok k = true -> neutral (o_record_key O k)) ->
  forall text forest p,
  parse_program_c text = PCOk forest p ->
  forest_view_ok text forest = true -> forest_no_empty_container text forest = true ->
  Forall (stmt_ok_parsed O key_ok None) p ->
  scan_comments (render (format_cli O p)) = forest_comments text forest.
Proof.
  intros O key_ok Hk text forest p H Hv Hn Hok.
  exact (tree_to_text_cli_parsed O key_ok Hk text forest p Hv (parse_program_c_shape_ok text forest p H) Hn
                                 (parse_program_c_inv text forest p H) Hok).
Qed.
