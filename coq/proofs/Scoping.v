(* Scoping.v — C03 (and the purity half of C02) over the evaluator model:
   sessions (statement sequences incl. failing statements), do-blocks, calls. *)
From Coq Require Import String Ascii List ZArith Bool Lia.
Require Import Blots.Num Blots.gen.Builtins Blots.Ast Blots.Value Blots.Outcome Blots.Binop
               Blots.Env Blots.Eval Blots.Program Blots.proofs.ExprInd Blots.proofs.Frames
               Blots.proofs.StoreMono.
Import ListNotations.
Open Scope string_scope.
Open Scope list_scope.

(* ---- expressions that contain no assignment outside function bodies and do-blocks ---- *)
Fixpoint no_assign (e : expr) {struct e} : bool :=
  match e with
  | EAssign _ _ => false
  | ELam _ _ => true                   (* evaluated later, in its own frame *)
  | EDo _ _ => true                    (* its frame is dropped *)
  | EList items =>
      (fix go (l : list (commented expr)) : bool :=
         match l with [] => true | Cm _ a _ :: r => no_assign a && go r end) items
  | ERec entries =>
      (fix go (l : list (commented rentry)) : bool :=
         match l with
         | [] => true
         | Cm _ (REntry k v) _ :: r =>
             (match k with
              | KDyn a => no_assign a && no_assign v
              | KSpread a => no_assign a
              | KStatic _ => no_assign v
              | KShort _ => true
              end) && go r
         end) entries
  | ECond c t f => no_assign c && no_assign t && no_assign f
  | EOutput a | EUn _ a | EFact a | ESpread a | EDot a _ => no_assign a
  | ECall f args =>
      no_assign f && (fix go (l : list expr) : bool :=
                        match l with [] => true | a :: r => no_assign a && go r end) args
  | EAccess a i => no_assign a && no_assign i
  | EBin _ l r => no_assign l && no_assign r
  | _ => true
  end.

Section WithImpl.
  Variable release : bool.
  Variable binop_impl : callback -> binop -> value -> value -> store -> outcome value * store.
  Variable builtin_impl : callback -> builtin -> list value -> store -> outcome value * store.
  Variable apply : frames -> callback.
  Notation evalE := (evalE release binop_impl apply).

  Definition pure_ok (e : expr) : Prop :=
    no_assign e = true -> forall c r c', evalE c e = (r, c') -> snd c' = snd c.

  (* PURITY: without a direct assignment, evaluation leaves the scope chain untouched *)
  Theorem evalE_pure_frames : forall e, pure_ok e.
  Proof.
    induction e using expr_ind'; intros Hna c r c' HE; cbn [Eval.evalE] in HE;
      cbn [no_assign] in Hna.
    - inversion HE; subst; auto.
    - inversion HE; subst; auto.
    - inversion HE; subst; auto.
    - inversion HE; subst; auto.
    - destruct (_ || _); [inversion HE; subst; auto|].
      destruct (String.eqb x "constants"); inversion HE; subst; auto.
    - inversion HE; subst; auto.
    - inversion HE; subst; auto.
    - (* EList *)
      assert (HL : forall c0 r0 c0', evalCL evalE c0 items = (r0, c0') -> snd c0' = snd c0).
      { clear HE. match goal with HF : Forall _ items |- _ => rename HF into HFi end.
        induction HFi as [|[ld x tr] l Hx _ IHl]; intros c0 r0 c0' H0; cbn [evalCL] in H0.
        - inversion H0; subst; auto.
        - cbn [cnode] in Hx. apply andb_true_iff in Hna. destruct Hna as [Ha Hr].
          destruct (evalE c0 x) as [o c1] eqn:E1. apply (Hx Ha) in E1.
          destruct o; try (inversion H0; subst; exact E1).
          destruct (evalCL evalE c1 l) as [o2 c2] eqn:E2. apply (IHl Hr) in E2.
          destruct o2; inversion H0; subst; congruence. }
      destruct (evalCL evalE c items) as [o c1] eqn:E1. apply HL in E1.
      cbn [fst snd] in HE. inversion HE; subst. exact E1.
    - (* ERec *)
      assert (HL : forall c0 acc r0 c0', evalRecL evalE c0 acc entries = (r0, c0') -> snd c0' = snd c0).
      { clear HE. match goal with HF : Forall _ entries |- _ => rename HF into HFi end.
        induction HFi as [|[ld [k v] tr] l Hx _ IHl]; intros c0 acc r0 c0' H0;
          cbn [evalRecL] in H0.
        - inversion H0; subst; auto.
        - cbn [cnode Pentry] in Hx. destruct Hx as [Hk Hv].
          apply andb_true_iff in Hna. destruct Hna as [Ha Hr].
          destruct k as [key|ke|x|se]; cbn [Pkey] in Hk.
          + destruct (evalE c0 v) as [o c1] eqn:E1. apply (Hv Ha) in E1.
            destruct o; try (inversion H0; subst; exact E1).
            apply (IHl Hr) in H0. congruence.
          + apply andb_true_iff in Ha. destruct Ha as [Ha1 Ha2].
            destruct (evalE c0 ke) as [o c1] eqn:E1. apply (Hk Ha1) in E1.
            destruct o; try (inversion H0; subst; exact E1).
            destruct (as_string a); try (inversion H0; subst; exact E1).
            destruct (evalE c1 v) as [o2 c2] eqn:E2. apply (Hv Ha2) in E2.
            destruct o2; try (inversion H0; subst; congruence).
            apply (IHl Hr) in H0. congruence.
          + destruct (lookup (snd c0) x).
            * apply (IHl Hr) in H0. exact H0.
            * inversion H0; subst; auto.
          + destruct (evalE c0 se) as [o c1] eqn:E1. apply (Hk Ha) in E1.
            destruct o; try (inversion H0; subst; exact E1).
            apply (IHl Hr) in H0. congruence. }
      apply HL in HE. exact HE.
    - destruct (fresh_lambda _ _ _ _) as [v st']. inversion HE; subst. auto.
    - (* ECond *)
      apply andb_true_iff in Hna. destruct Hna as [Hna H3].
      apply andb_true_iff in Hna. destruct Hna as [H1 H2].
      destruct (evalE c e1) as [o c1] eqn:E1. apply (IHe1 H1) in E1.
      destruct o; try (inversion HE; subst; exact E1).
      destruct (as_bool a) as [[|]| | | |]; try (inversion HE; subst; exact E1).
      + apply (IHe2 H2) in HE. congruence.
      + apply (IHe3 H3) in HE. congruence.
    - destruct ret as [ld rt tr]. inversion HE; subst. auto.
    - discriminate.
    - apply (IHe Hna) in HE. exact HE.
    - (* ECall *)
      apply andb_true_iff in Hna. destruct Hna as [H1 H2].
      destruct (evalE c e) as [o c1] eqn:E1. apply (IHe H1) in E1.
      destruct o; try (inversion HE; subst; exact E1).
      assert (HL : forall c0 r0 c0', evalL evalE c0 args = (r0, c0') -> snd c0' = snd c0).
      { clear HE E1. match goal with HF : Forall _ args |- _ => rename HF into HFi end.
        induction HFi as [|x l Hx _ IHl]; intros c0 r0 c0' H0; cbn [evalL] in H0.
        - inversion H0; subst; auto.
        - apply andb_true_iff in H2. destruct H2 as [Ha Hr].
          destruct (evalE c0 x) as [o c1'] eqn:E1. apply (Hx Ha) in E1.
          destruct o; try (inversion H0; subst; exact E1).
          destruct (evalL evalE c1' l) as [o2 c2] eqn:E2. apply (IHl Hr) in E2.
          destruct o2; inversion H0; subst; congruence. }
      destruct (evalL evalE c1 args) as [o2 [st2 fr2]] eqn:E2. apply HL in E2. cbn [snd] in E2.
      destruct o2; try (inversion HE; subst; cbn [snd]; congruence).
      destruct (negb (is_function a)); [inversion HE; subst; cbn [snd]; congruence|].
      destruct (apply fr2 a a (flatten_spreads a0) st2) as [rr st3].
      inversion HE; subst; cbn [snd]; congruence.
    - (* EAccess *)
      apply andb_true_iff in Hna. destruct Hna as [H1 H2].
      destruct (evalE c e1) as [o c1] eqn:E1. apply (IHe1 H1) in E1.
      destruct o; try (inversion HE; subst; exact E1).
      destruct (evalE c1 e2) as [o2 c2] eqn:E2. apply (IHe2 H2) in E2.
      destruct o2; inversion HE; subst; congruence.
    - destruct (evalE c e) as [o c1] eqn:E1. apply (IHe Hna) in E1.
      destruct o; inversion HE; subst; exact E1.
    - (* EBin *)
      apply andb_true_iff in Hna. destruct Hna as [H1 H2].
      destruct (evalE c e1) as [o c1] eqn:E1. apply (IHe1 H1) in E1.
      destruct o; try (inversion HE; subst; exact E1).
      destruct (evalE c1 e2) as [o2 [st2 fr2]] eqn:E2. apply (IHe2 H2) in E2. cbn [snd] in E2.
      destruct o2; try (inversion HE; subst; cbn [snd]; congruence).
      destruct (binop_impl (apply fr2) op a a0 st2) as [res st3].
      inversion HE; subst; cbn [snd]; congruence.
    - destruct (evalE c e) as [o c1] eqn:E1. apply (IHe Hna) in E1.
      destruct o; inversion HE; subst; exact E1.
    - destruct (evalE c e) as [o c1] eqn:E1. apply (IHe Hna) in E1.
      destruct o; inversion HE; subst; exact E1.
    - destruct (evalE c e) as [o c1] eqn:E1. apply (IHe Hna) in E1.
      destruct o; inversion HE; subst; exact E1.
  Qed.

  (* do-blocks never leak: the caller's chain comes back exactly, whatever the block did *)
  Theorem do_block_no_leak : forall stmts ret c r c',
    evalE c (EDo stmts ret) = (r, c') -> snd c' = snd c.
  Proof.
    intros stmts [ld rt tr] c r c' H. cbn [Eval.evalE] in H. inversion H; subst. reflexivity.
  Qed.

  (* a bound name reads back as its value (the three spellings the evaluator intercepts
     before the lookup are excluded explicitly) *)
  Theorem bound_name_reads_back : forall c x v,
    lookup (snd c) x = Some v ->
    String.eqb x "infinity" = false -> String.eqb x "inf" = false ->
    String.eqb x "constants" = false ->
    evalE c (EId x) = (Ok v, c).
  Proof.
    intros c x v Hl H1 H2 H3. cbn [Eval.evalE]. rewrite H1, H2, H3. cbn [orb].
    rewrite Hl. reflexivity.
  Qed.
End WithImpl.

(* ---- sessions ---- *)
Section Sessions.
  Variable eval : cfg -> expr -> result.
  Hypothesis eval_ext : forall c e r c', eval c e = (r, c') -> ext (snd c) (snd c').
  Hypothesis eval_store : forall c e r c', eval c e = (r, c') -> store_le (fst c) (fst c').

  Lemma exec_stmt_ext : forall s t s' r,
    exec_stmt eval s t = (s', r) -> ext (snd (s_cfg s)) (snd (s_cfg s')).
  Proof.
    intros s t s' r H. destruct t as [e|e|]; cbn [exec_stmt] in H.
    - destruct (eval (s_cfg s) e) as [o c1] eqn:E. apply eval_ext in E.
      inversion H; subst. exact E.
    - destruct (eval (s_cfg s) e) as [o [st1 fr1]] eqn:E. apply eval_ext in E. cbn [snd] in E.
      match type of H with (match ?d with _ => _ end) = _ => destruct d as [[x v]|] end.
      + destruct (validate_portable st1 fr1 v); inversion H; subst; exact E.
      + inversion H; subst; exact E.
    - inversion H; subst. constructor.
  Qed.
  Lemma exec_stmt_store : forall s t s' r,
    exec_stmt eval s t = (s', r) -> store_le (fst (s_cfg s)) (fst (s_cfg s')).
  Proof.
    intros s t s' r H. destruct t as [e|e|]; cbn [exec_stmt] in H.
    - destruct (eval (s_cfg s) e) as [o c1] eqn:E. apply eval_store in E.
      inversion H; subst. exact E.
    - destruct (eval (s_cfg s) e) as [o [st1 fr1]] eqn:E. apply eval_store in E. cbn [fst] in E.
      match type of H with (match ?d with _ => _ end) = _ => destruct d as [[x v]|] end.
      + destruct (validate_portable st1 fr1 v); inversion H; subst; exact E.
      + inversion H; subst; exact E.
    - inversion H; subst. apply store_le_refl.
  Qed.

  (* every statement sequence — including one that ends in a failing statement — only adds
     fresh permitted names to the root frame *)
  Theorem run_ext : forall prog s, ext (snd (s_cfg s)) (snd (s_cfg (fst (run eval s prog)))).
  Proof.
    induction prog as [|t rest IH]; intros s; cbn [run].
    - constructor.
    - destruct (exec_stmt eval s t) as [s' r] eqn:E. pose proof (exec_stmt_ext _ _ _ _ E) as Hx.
      destruct r.
      + destruct (run eval s' rest) as [s'' rs] eqn:E2. cbn [fst].
        specialize (IH s'). rewrite E2 in IH. cbn [fst] in IH. eapply ext_trans; eauto.
      + exact Hx.
      + exact Hx.
      + specialize (IH s'). eapply ext_trans; eauto.
  Qed.
  Theorem run_store : forall prog s,
    store_le (fst (s_cfg s)) (fst (s_cfg (fst (run eval s prog)))).
  Proof.
    induction prog as [|t rest IH]; intros s; cbn [run].
    - apply store_le_refl.
    - destruct (exec_stmt eval s t) as [s' r] eqn:E. pose proof (exec_stmt_store _ _ _ _ E) as Hx.
      destruct r.
      + destruct (run eval s' rest) as [s'' rs] eqn:E2. cbn [fst].
        specialize (IH s'). rewrite E2 in IH. cbn [fst] in IH. eapply store_le_trans; eauto.
      + exact Hx.
      + exact Hx.
      + specialize (IH s'). eapply store_le_trans; eauto.
  Qed.

  (* IMMUTABILITY over sessions *)
  Theorem session_bindings_stable : forall prog s x v,
    lookup (snd (s_cfg s)) x = Some v ->
    lookup (snd (s_cfg (fst (run eval s prog)))) x = Some v.
  Proof. intros prog s x v H. eapply ext_lookup; [apply run_ext|exact H]. Qed.

  Theorem session_forbidden_never_bound : forall prog s x,
    lookup (snd (s_cfg s)) x = None ->
    lookup (snd (s_cfg (fst (run eval s prog)))) x <> None ->
    forbidden x = false.
  Proof. intros prog s x Hn Hs. eapply ext_new_names; [apply run_ext| |]; eauto. Qed.

  (* only the root frame exists and stays the only one *)
  Theorem session_chain_shape : forall prog s,
    tl (snd (s_cfg (fst (run eval s prog)))) = tl (snd (s_cfg s)).
  Proof. intros prog s. apply ext_tail. apply run_ext. Qed.
End Sessions.

(* ---- the same facts stated for evalD (any depth, any operator / built-in implementation) ---- *)
Section EvalD.
  Variable release : bool.
  Variable bi : callback -> binop -> value -> value -> store -> outcome value * store.
  Variable bu : callback -> builtin -> list value -> store -> outcome value * store.
  Variable d : nat.
  Notation ev := (evalD release bi bu d).

  Lemma evalD_ext : forall c e r c', ev c e = (r, c') -> ext (snd c) (snd c').
  Proof. intros c e r c' H. exact (evalE_ext release bi (AD release bi bu d) e c r c' H). Qed.

  Lemma evalD_binding_survives : forall c e r c' x v,
    ev c e = (r, c') -> lookup (snd c) x = Some v -> lookup (snd c') x = Some v.
  Proof. intros c e r c' x v H. eapply ext_lookup. eapply evalD_ext; eauto. Qed.

  Lemma evalD_session_stable : forall prog s x v,
    lookup (snd (s_cfg s)) x = Some v ->
    lookup (snd (s_cfg (fst (run ev s prog)))) x = Some v.
  Proof. apply session_bindings_stable. exact evalD_ext. Qed.

  Lemma evalD_forbidden : forall prog s x,
    lookup (snd (s_cfg s)) x = None ->
    lookup (snd (s_cfg (fst (run ev s prog)))) x <> None -> forbidden x = false.
  Proof. apply session_forbidden_never_bound. exact evalD_ext. Qed.

  Lemma evalD_inputs_constant : forall prog inputs,
    lookup (snd (s_cfg (fst (run ev (init_session inputs) prog)))) "inputs" = Some (VRec inputs).
  Proof. intros prog inputs. apply evalD_session_stable. reflexivity. Qed.

  Lemma evalD_do_no_leak : forall stmts ret c r c',
    ev c (EDo stmts ret) = (r, c') -> snd c' = snd c.
  Proof. exact (do_block_no_leak release bi (AD release bi bu d)). Qed.

  Lemma evalD_pure_frames : forall e c r c',
    no_assign e = true -> ev c e = (r, c') -> snd c' = snd c.
  Proof.
    intros e c r c' Hn H. exact (evalE_pure_frames release bi (AD release bi bu d) e Hn c r c' H).
  Qed.

  Lemma evalD_reads_back : forall c x v,
    lookup (snd c) x = Some v ->
    String.eqb x "infinity" = false -> String.eqb x "inf" = false ->
    String.eqb x "constants" = false ->
    ev c (EId x) = (Ok v, c).
  Proof. exact (bound_name_reads_back release bi (AD release bi bu d)). Qed.
End EvalD.
