(* FmtToks.v — compositionality of the lexical view `toks` of FmtTokens.v (property C07, the
   character level of the layout theorem).

   `toks_from m cur s` is a three-state automaton (code / inside a string literal / inside a
   comment) with the chunk being read as accumulator.  `trun` is the same automaton returning
   the chunks COMPLETED so far and the state it stops in, so that
       toks_from m cur (a ++ b) = fst (trun m cur a) ++ toks_from m' cur' b     (toks_from_app)
   From this:
     - toks (a ++ b) = toks a ++ toks b  when a stops in code state and b starts with a blank,
       a line break, a bracket, `,`, `:` or a quote (toks_app_break), or when a stops in code
       state with no open chunk: a ends with one of those, with a closing quote, or with a
       comment line (toks_app_closed);
     - toks (a ++ sep ++ b) = toks a ++ toks b for every separator made of blanks / line breaks /
       comment lines that starts with a blank or line break (toks_app_sep, is_sep_ lemmas);
     - a string literal is ONE chunk whatever it contains (toks_string_lit), a comment runs to
       the end of its line (trun_comment). *)
From Coq Require Import String Ascii List Bool Arith Lia.
Require Import Blots.Formatter Blots.FmtTokens.
Import ListNotations.
Local Open Scope list_scope.

Definition tstate := (lmode * list ascii)%type.
Definition pre (l : list string) (p : list string * tstate) : list string * tstate :=
  (l ++ fst p, snd p).

(* the automaton of toks_from, stopping at the end of s: (completed chunks, state) *)
Fixpoint trun (m : lmode) (cur : list ascii) (s : string) : list string * tstate :=
  match s with
  | EmptyString => ([], (m, cur))
  | String c r =>
      match m with
      | LCode =>
          if is_blank c then pre (flush cur) (trun LCode [] r)
          else if is_delim c then pre (flush cur ++ [String c EmptyString]) (trun LCode [] r)
          else if Formatter.is_quote c then pre (flush cur) (trun (LStr c) [c] r)
          else if is_slash c then
            match cur with
            | p :: cur' => if is_slash p then pre (flush cur') (trun LCom [] r)
                           else trun LCode (c :: cur) r
            | [] => trun LCode [c] r
            end
          else trun LCode (c :: cur) r
      | LStr q =>
          if Ascii.eqb c q then pre [str_of (rev (c :: cur))] (trun LCode [] r)
          else trun (LStr q) (c :: cur) r
      | LCom => if Ascii.eqb c NLc then trun LCode [] r else trun LCom [] r
      end
  end.

Lemma sapp_nil_r : forall s, (s ++ "")%string = s.
Proof. induction s as [|c s IH]; [reflexivity|]. cbn. now rewrite IH. Qed.
Lemma sapp_assoc : forall a b c, ((a ++ b) ++ c)%string = (a ++ b ++ c)%string.
Proof. induction a as [|x a IH]; intros b c; [reflexivity|]. cbn. now rewrite IH. Qed.

Lemma pre_nil : forall p, pre [] p = p.
Proof. intros [a b]. reflexivity. Qed.
Lemma pre_pre : forall l1 l2 p, pre l1 (pre l2 p) = pre (l1 ++ l2) p.
Proof. intros l1 l2 [a b]. unfold pre. cbn [fst snd]. now rewrite app_assoc. Qed.
Lemma fst_pre : forall l p, fst (pre l p) = l ++ fst p.
Proof. reflexivity. Qed.
Lemma snd_pre : forall l p, snd (pre l p) = snd p.
Proof. reflexivity. Qed.

(* ------------------------------------------------------------------ the automaton composes *)
Lemma toks_from_app : forall a b m cur,
  toks_from m cur (a ++ b)%string =
  fst (trun m cur a) ++ toks_from (fst (snd (trun m cur a))) (snd (snd (trun m cur a))) b.
Proof.
  induction a as [|c r IH]; intros b m cur; [reflexivity|].
  cbn [String.append toks_from trun].
  destruct m as [|q|].
  - destruct (is_blank c); [rewrite IH, fst_pre, snd_pre, app_assoc; reflexivity|].
    destruct (is_delim c).
    { rewrite IH, fst_pre, snd_pre, <- !app_assoc. reflexivity. }
    destruct (Formatter.is_quote c); [rewrite IH, fst_pre, snd_pre, app_assoc; reflexivity|].
    destruct (is_slash c); [|apply IH].
    destruct cur as [|p cur']; [apply IH|].
    destruct (is_slash p); [rewrite IH, fst_pre, snd_pre, app_assoc; reflexivity|apply IH].
  - destruct (Ascii.eqb c q); [rewrite IH, fst_pre, snd_pre; reflexivity|apply IH].
  - destruct (Ascii.eqb c NLc); apply IH.
Qed.

Lemma trun_app : forall a b m cur,
  trun m cur (a ++ b)%string =
  pre (fst (trun m cur a)) (trun (fst (snd (trun m cur a))) (snd (snd (trun m cur a))) b).
Proof.
  induction a as [|c r IH]; intros b m cur; [cbn; now rewrite pre_nil|].
  cbn [String.append trun].
  destruct m as [|q|].
  - destruct (is_blank c); [rewrite IH, pre_pre, fst_pre, snd_pre; reflexivity|].
    destruct (is_delim c); [rewrite IH, pre_pre, fst_pre, snd_pre; reflexivity|].
    destruct (Formatter.is_quote c); [rewrite IH, pre_pre, fst_pre, snd_pre; reflexivity|].
    destruct (is_slash c); [|apply IH].
    destruct cur as [|p cur']; [apply IH|].
    destruct (is_slash p); [rewrite IH, pre_pre, fst_pre, snd_pre; reflexivity|apply IH].
  - destruct (Ascii.eqb c q); [rewrite IH, pre_pre, fst_pre, snd_pre; reflexivity|apply IH].
  - destruct (Ascii.eqb c NLc); apply IH.
Qed.

Lemma toks_from_trun : forall s m cur,
  toks_from m cur s = fst (trun m cur s) ++ flush (snd (snd (trun m cur s))).
Proof.
  intros s m cur. rewrite <- (sapp_nil_r s) at 1.
  rewrite toks_from_app. reflexivity.
Qed.

(* ------------------------------------------------------------------ boundaries *)
(* the state a text read from the start of code stops in *)
Definition tst (a : string) : tstate := snd (trun LCode [] a).
Definition mode_eqb (a b : lmode) : bool :=
  match a, b with
  | LCode, LCode | LCom, LCom => true
  | LStr p, LStr q => Ascii.eqb p q
  | _, _ => false
  end.
(* a stops in code state (every string literal closed, not inside a comment) *)
Definition ends_code (a : string) : bool := mode_eqb (fst (tst a)) LCode.
(* ... and with no open chunk: a is empty or ends with a blank, a line break, one of ( ) [ ] { } , :
   a closing quote, or a comment line *)
Definition ends_closed (a : string) : bool :=
  ends_code a && match snd (tst a) with [] => true | _ => false end.
(* b starts with a character that ends the open chunk whatever it is *)
Definition breaks (c : ascii) : bool := is_blank c || is_delim c || Formatter.is_quote c.
Definition starts_break (b : string) : bool :=
  match b with EmptyString => true | String c _ => breaks c end.
(* the decidable boundary condition between a and b *)
Definition boundary (a b : string) : bool := ends_code a && (ends_closed a || starts_break b).

Lemma mode_eqb_code : forall m, mode_eqb m LCode = true -> m = LCode.
Proof. intros [|q|]; cbn; congruence. Qed.

Lemma toks_from_break : forall b cur, starts_break b = true ->
  toks_from LCode cur b = flush cur ++ toks_from LCode [] b.
Proof.
  intros [|c r] cur H; cbn [starts_break] in H.
  - cbn. now rewrite app_nil_r.
  - unfold breaks in H. cbn [toks_from].
    destruct (is_blank c); [reflexivity|].
    destruct (is_delim c); [reflexivity|].
    cbn [orb] in H. rewrite H. reflexivity.
Qed.

Theorem toks_app_break : forall a b, ends_code a = true -> starts_break b = true ->
  toks (a ++ b)%string = toks a ++ toks b.
Proof.
  intros a b Ha Hb. unfold toks. rewrite toks_from_app, (toks_from_trun a).
  unfold ends_code, tst in Ha. apply mode_eqb_code in Ha. rewrite Ha.
  rewrite (toks_from_break b _ Hb), app_assoc. reflexivity.
Qed.

Theorem toks_app_closed : forall a b, ends_closed a = true ->
  toks (a ++ b)%string = toks a ++ toks b.
Proof.
  intros a b Ha. unfold toks. rewrite toks_from_app, (toks_from_trun a).
  unfold ends_closed, ends_code, tst in Ha. apply andb_prop in Ha. destruct Ha as [Hm Hc].
  apply mode_eqb_code in Hm. rewrite Hm.
  destruct (snd (snd (trun LCode [] a))); [|discriminate]. cbn [flush]. now rewrite app_nil_r.
Qed.

Theorem toks_app_boundary : forall a b, boundary a b = true ->
  toks (a ++ b)%string = toks a ++ toks b.
Proof.
  intros a b H. unfold boundary in H. apply andb_prop in H. destruct H as [Ha H].
  apply orb_prop in H. destruct H as [H|H]; [exact (toks_app_closed a b H)|exact (toks_app_break a b Ha H)].
Qed.

(* the state after a ++ b when a stops in code state and b starts with a break *)
Lemma trun_break : forall b cur, starts_break b = true -> b <> EmptyString ->
  trun LCode cur b = pre (flush cur) (trun LCode [] b).
Proof.
  intros [|c r] cur H Hne; [congruence|]. cbn [starts_break] in H. unfold breaks in H.
  cbn [trun].
  destruct (is_blank c); [cbn [flush]; now rewrite pre_pre, app_nil_r|].
  destruct (is_delim c); [cbn [flush]; rewrite pre_pre; reflexivity|].
  cbn [orb] in H. rewrite H. cbn [flush]. now rewrite pre_pre, app_nil_r.
Qed.

Lemma tst_app : forall a b, tst (a ++ b)%string =
  snd (trun (fst (tst a)) (snd (tst a)) b).
Proof. intros a b. unfold tst. rewrite trun_app, snd_pre. reflexivity. Qed.

(* ------------------------------------------------------------------ separators *)
(* a separator: read in code state with any open chunk, it closes that chunk, yields no chunk
   of its own and stops in code state with no open chunk *)
Definition is_sep (s : string) : Prop :=
  forall cur, trun LCode cur s = (flush cur, (LCode, [])).
(* a text that yields nothing when read from a chunk boundary (blanks, comment lines) *)
Definition neutral0 (s : string) : Prop := trun LCode [] s = ([], (LCode, [])).

Fixpoint all_blank (s : string) : bool :=
  match s with EmptyString => true | String c r => is_blank c && all_blank r end.
Fixpoint no_nl (s : string) : bool :=
  match s with EmptyString => true | String c r => negb (Ascii.eqb c NLc) && no_nl r end.

Lemma neutral0_blank : forall s, all_blank s = true -> neutral0 s.
Proof.
  unfold neutral0. induction s as [|c r IH]; intro H; [reflexivity|].
  cbn [all_blank] in H. apply andb_prop in H. destruct H as [Hc Hr].
  cbn [trun]. rewrite Hc, (IH Hr). reflexivity.
Qed.

Lemma is_sep_blank : forall c r, is_blank c = true -> neutral0 r -> is_sep (String c r).
Proof.
  intros c r Hc Hr cur. cbn [trun]. rewrite Hc, Hr. unfold pre. cbn [fst snd].
  now rewrite app_nil_r.
Qed.

Lemma neutral0_app : forall a b, neutral0 a -> neutral0 b -> neutral0 (a ++ b)%string.
Proof. unfold neutral0. intros a b Ha Hb. rewrite trun_app, Ha. cbn [fst snd]. rewrite Hb. reflexivity. Qed.

Lemma is_sep_app : forall a b, is_sep a -> neutral0 b -> is_sep (a ++ b)%string.
Proof.
  intros a b Ha Hb cur. rewrite trun_app, (Ha cur). cbn [fst snd]. rewrite Hb.
  unfold pre. cbn [fst snd]. now rewrite app_nil_r.
Qed.

(* a comment runs to the end of its line, whatever it contains (quotes, brackets, `//`) *)
Lemma trun_comment : forall c r, no_nl c = true ->
  trun LCom [] (c ++ String NLc r)%string = trun LCode [] r.
Proof.
  induction c as [|x c IH]; intros r H.
  - cbn. reflexivity.
  - cbn [no_nl] in H. apply andb_prop in H. destruct H as [Hx Hc].
    cbn [String.append trun]. destruct (Ascii.eqb x NLc); [discriminate|]. exact (IH r Hc).
Qed.

Local Open Scope string_scope.
(* a comment line "//c\n" read at a chunk boundary *)
Lemma neutral0_comment_line : forall c, no_nl c = true -> neutral0 ("//" ++ c ++ nl).
Proof.
  intros c H. unfold neutral0, nl. cbn [String.append trun].
  change (is_blank "/") with false. change (is_delim "/") with false.
  change (Formatter.is_quote "/") with false. change (is_slash "/") with true.
  cbv iota. cbn [flush]. rewrite pre_nil. exact (trun_comment c "" H).
Qed.

(* the separators of the layouts: a line break and the indentation *)
Lemma all_blank_indent : forall n, all_blank (make_indent n) = true.
Proof. induction n; [reflexivity|]. cbn [make_indent all_blank]. rewrite IHn. reflexivity. Qed.
Lemma is_sep_nl_indent : forall n, is_sep (nl ++ make_indent n).
Proof. intro n. apply is_sep_blank; [reflexivity|]. apply neutral0_blank, all_blank_indent. Qed.
(* an end-of-line comment "  //c" + line break + indentation (trailing_doc of the layouts), and
   a comment line after a line break (leading_doc) *)
Lemma is_sep_eol_comment : forall c n, no_nl c = true ->
  is_sep ("  " ++ ("//" ++ c ++ nl) ++ make_indent n).
Proof.
  intros c n H. change ("  " ++ ("//" ++ c ++ nl) ++ make_indent n)
    with (String " " (" " ++ ("//" ++ c ++ nl) ++ make_indent n)).
  apply is_sep_blank; [reflexivity|].
  apply (neutral0_app " "); [reflexivity|].
  apply neutral0_app; [exact (neutral0_comment_line c H)|apply neutral0_blank, all_blank_indent].
Qed.
Lemma is_sep_comment_line : forall c n m, no_nl c = true ->
  is_sep ((nl ++ make_indent n) ++ ("//" ++ c ++ nl) ++ make_indent m).
Proof.
  intros c n m H. apply is_sep_app; [apply is_sep_nl_indent|].
  apply neutral0_app; [exact (neutral0_comment_line c H)|apply neutral0_blank, all_blank_indent].
Qed.
Local Close Scope string_scope.

Theorem toks_app_sep : forall a sep b, ends_code a = true -> is_sep sep ->
  toks (a ++ sep ++ b)%string = toks a ++ toks b.
Proof.
  intros a sep b Ha Hs. unfold toks. rewrite toks_from_app, (toks_from_trun a).
  unfold ends_code, tst in Ha. apply mode_eqb_code in Ha. rewrite Ha.
  rewrite toks_from_app, (Hs _). cbn [fst snd]. now rewrite app_assoc.
Qed.

Lemma tst_app_sep : forall a sep b, ends_code a = true -> is_sep sep ->
  tst (a ++ sep ++ b)%string = tst b.
Proof.
  intros a sep b Ha Hs. rewrite tst_app.
  unfold ends_code in Ha. apply mode_eqb_code in Ha. rewrite Ha.
  rewrite trun_app, (Hs _). cbn [fst snd]. rewrite snd_pre. reflexivity.
Qed.

(* ------------------------------------------------------------------ string literals *)
Fixpoint nochar (q : ascii) (s : string) : bool :=
  match s with EmptyString => true | String c r => negb (Ascii.eqb c q) && nochar q r end.

Lemma str_of_app : forall a b, str_of (a ++ b) = (str_of a ++ str_of b)%string.
Proof. induction a as [|c a IH]; intro b; [reflexivity|]. cbn. now rewrite IH. Qed.

Lemma trun_str_body : forall body q cur r, nochar q body = true ->
  trun (LStr q) cur (body ++ String q r)%string =
  pre [(str_of (rev cur) ++ body ++ String q EmptyString)%string] (trun LCode [] r).
Proof.
  induction body as [|c body IH]; intros q cur r H.
  - cbn [String.append trun]. rewrite Ascii.eqb_refl. cbn [rev]. rewrite str_of_app. reflexivity.
  - cbn [nochar] in H. apply andb_prop in H. destruct H as [Hc Hb].
    cbn [String.append trun]. destruct (Ascii.eqb c q); [discriminate|].
    rewrite (IH q (c :: cur) r Hb). cbn [rev]. rewrite str_of_app. cbn [str_of].
    rewrite sapp_assoc. reflexivity.
Qed.

(* a string literal is one chunk whatever it contains — blanks, line breaks, brackets, `//` *)
Theorem toks_string_lit : forall q body r cur,
  Formatter.is_quote q = true -> nochar q body = true ->
  toks_from LCode cur (String q (body ++ String q r))%string =
  flush cur ++ String q (body ++ String q EmptyString)%string :: toks r.
Proof.
  intros q body r cur Hq Hb.
  assert (Hnb : is_blank q = false /\ is_delim q = false).
  { unfold Formatter.is_quote in Hq. apply orb_prop in Hq.
    destruct Hq as [E|E]; apply Ascii.eqb_eq in E; subst q; split; reflexivity. }
  destruct Hnb as [H1 H2].
  change (String q (body ++ String q r))%string with (String q EmptyString ++ (body ++ String q r))%string.
  rewrite toks_from_app. cbn [trun]. rewrite H1, H2, Hq. cbn [pre fst snd].
  rewrite app_nil_r.
  rewrite (toks_from_trun _ (LStr q)), (trun_str_body body q [q] r Hb), fst_pre, snd_pre.
  unfold toks. rewrite (toks_from_trun r). reflexivity.
Qed.

Corollary toks_string_lit_closed : forall q body, Formatter.is_quote q = true -> nochar q body = true ->
  toks (String q (body ++ String q EmptyString))%string = [String q (body ++ String q EmptyString)%string]
  /\ ends_closed (String q (body ++ String q EmptyString))%string = true.
Proof.
  intros q body Hq Hb. split.
  - unfold toks. rewrite (toks_string_lit q body EmptyString [] Hq Hb). reflexivity.
  - assert (Hnb : is_blank q = false /\ is_delim q = false).
    { unfold Formatter.is_quote in Hq. apply orb_prop in Hq.
      destruct Hq as [E|E]; apply Ascii.eqb_eq in E; subst q; split; reflexivity. }
    destruct Hnb as [H1 H2].
    unfold ends_closed, ends_code, tst. cbn [trun]. rewrite H1, H2, Hq, snd_pre.
    rewrite (trun_str_body body q [q] EmptyString Hb), snd_pre. reflexivity.
Qed.

(* ------------------------------------------------------------------ examples *)
Local Open Scope string_scope.
Example toks_string_swallows :
  toks ("f(" ++ """a // b" ++ nl ++ " [c], d""" ++ ", x) // done" ++ nl ++ "y")
  = ["f"; "("; """a // b" ++ nl ++ " [c], d"""; ","; "x"; ")"; "y"].
Proof. vm_compute. reflexivity. Qed.
Example boundary_examples :
  boundary "a +" " b" = true /\ boundary "[a" "]" = true /\ boundary "f(" "x" = true /\
  boundary "'s'" "x" = true /\ boundary "a" "b" = false /\ boundary "'s" " x" = false /\
  boundary "a // c" (nl ++ "b") = false.
Proof. vm_compute. repeat split. Qed.
Local Close Scope string_scope.
