(* PegFuel.v — TERMINATION of the pest interpreter coq/Peg.v, for EVERY grammar that carries a termination
   certificate (coq/PegTerm.v: [term_cert G rules idx nl C dz = true], a computed check):

     [run_progress]   an expression that the certificate's nullable set calls non-nullable consumes at least one
                      byte whenever it succeeds (soundness of [PegWf.nullable] w.r.t. the interpreter);
     [run_fuel]       evaluating [e] in a state with L bytes left never returns OutOfFuel when the fuel is at least
                      L * C + dl e   — induction on the fuel; the measure is the lexicographic one
                      (bytes left, depth of rule calls without consumption, expression size) folded into one
                      number by the certificate: every sub-evaluation needs strictly less;
     [parse_total]    [parse G fuel r text <> OutOfFuel] for every text, every rule r, every
                      fuel >= |text| * C + dz r.

   The iterations of a `repeat` are bounded by the bytes left, because every repetition body (and the implicit
   WHITESPACE / COMMENT skip) is non-nullable, hence consumes. *)
From Coq Require Import String Ascii List NArith Bool Arith Lia ZifyBool ZifyNat ZifyN.
Require Import Blots.Peg Blots.PegWf Blots.PegTerm Blots.proofs.PegGeneric.
Import ListNotations.

Section Fuel.
  Variable R : Type.
  Variable G : grammar R.
  Variable rules : list R.
  Variable idx : R -> N.
  Variable nl : list R.
  Variable C : nat.
  Variable dz : R -> nat.
  Hypothesis rules_all : forall r, In r rules.
  Hypothesis cert : term_cert G rules idx nl C dz = true.

  Notation st := (st R).
  Notation res := (res R).
  Notation runner := (runner R).
  Notation nullb := (nullable R idx nl).
  Notation memb r := (mem R idx r nl).
  Notation rprog := (reps_progress R idx nl).
  Notation body r := (rd_body (g_def G r)).
  Notation DL := (dl G idx nl C dz).
  Notation DS := (dskip G dz).

  (* ---------------------------------------------------------------- what the certificate says *)
  Lemma C_pos : 1 <= C.
  Proof.
    unfold term_cert in cert. apply andb_prop in cert. destruct cert as [H _].
    apply andb_prop in H. destruct H as [H _]. apply Nat.leb_le. exact H.
  Qed.

  Lemma cert_rule : forall r,
      (nullb (body r) = true -> memb r = true) /\ DL (body r) <= dz r /\ rprog (body r) = true.
  Proof.
    intro r. unfold term_cert in cert. apply andb_prop in cert. destruct cert as [H _].
    apply andb_prop in H. destruct H as [_ H]. rewrite forallb_forall in H. specialize (H r (rules_all r)).
    cbv zeta in H. apply andb_prop in H. destruct H as [H H3]. apply andb_prop in H. destruct H as [H1 H2].
    split; [|split].
    - intro N. rewrite N in H1. exact H1.
    - apply Nat.leb_le. exact H2.
    - exact H3.
  Qed.

  Lemma cert_trivia : forall t, In t (trivia R G) -> memb t = false.
  Proof.
    intros t I. unfold term_cert in cert. apply andb_prop in cert. destruct cert as [_ H].
    rewrite forallb_forall in H. specialize (H t I). apply negb_true_iff in H. exact H.
  Qed.

  Lemma dskip_ge : forall t, In t (trivia R G) -> dz t <= DS.
  Proof.
    unfold dskip. induction (trivia R G) as [|x l IHl]; simpl; intros t I; [contradiction|].
    destruct I as [E|I]; [subst; lia|]. specialize (IHl t I). lia.
  Qed.
  Lemma dskip_pos : 1 <= DS.
  Proof. unfold dskip. induction (trivia R G) as [|x l IHl]; simpl; lia. Qed.

  Lemma dl_pos : forall e, 1 <= DL e.
  Proof. destruct e; cbn [dl]; lia. Qed.

  (* ---------------------------------------------------------------- bytes left *)
  Definition ln (s : st) : nat := String.length (rest s).

  Lemma adv_ln : forall s s', adv R s s' -> ln s' <= ln s.
  Proof. intros s s' (k & L & E & _). unfold ln. rewrite E, sdrop_length by assumption. lia. Qed.
  Lemma good_ln : forall la s s', good R la s (Ok s') -> ln s' <= ln s.
  Proof. intros la s s' [A _]. apply adv_ln; exact A. Qed.

  Lemma run_ln : forall f m a la e s s', run G f m a la e s = Ok s' -> ln s' <= ln s.
  Proof. intros f m a la e s s' H. pose proof (run_good R G f m a la e s) as Hg. rewrite H in Hg. eapply good_ln; exact Hg. Qed.
  Lemma call_ln : forall f a la r s s', call_with G (run G f) a la r s = Ok s' -> ln s' <= ln s.
  Proof.
    intros f a la r s s' H. pose proof (good_call R G _ (run_good R G f) a la r s) as Hg.
    rewrite H in Hg. eapply good_ln; exact Hg.
  Qed.
  Lemma skip_ln : forall n f a la s s', skip_with G n (call_with G (run G f)) a la s = Ok s' -> ln s' <= ln s.
  Proof.
    intros n f a la s s' H. pose proof (good_skip R G n _ (good_call R G _ (run_good R G f)) a la s) as Hg.
    rewrite H in Hg. eapply good_ln; exact Hg.
  Qed.
  Lemma repeat_call_ln : forall n f a la r s s',
      repeat_loop n (call_with G (run G f) a la r) s = Ok s' -> ln s' <= ln s.
  Proof.
    intros n f a la r s s' H.
    pose proof (good_repeat R la n _ (good_call R G _ (run_good R G f) a la r) s) as Hg.
    rewrite H in Hg. eapply good_ln; exact Hg.
  Qed.

  (* ---------------------------------------------------------------- inversion of the combinators *)
  Lemma sequence_ok : forall (s : st) r s', sequence s r = Ok s' -> r = Ok s'.
  Proof. intros s r s' H. destruct r; simpl in H; try discriminate. exact H. Qed.
  Lemma bind_ok : forall (r : res) f s', bind r f = Ok s' -> exists s1, r = Ok s1 /\ f s1 = Ok s'.
  Proof. intros r f s' H. destruct r; simpl in H; try discriminate. exists s. auto. Qed.
  Lemma rule_wrap_ok : forall r a la (g : st -> res) s s',
      rule_wrap r a la g s = Ok s' -> exists s0 s1, g s0 = Ok s1 /\ rest s0 = rest s /\ rest s1 = rest s'.
  Proof.
    intros r a la g s s' H. unfold rule_wrap in H. destruct (emits a la).
    - destruct (g (set_out s [])) eqn:E; try discriminate. inversion H; subst. exists (set_out s []), s0. auto.
    - exists s, s'. auto.
  Qed.

  Lemma sequence_fuel : forall (s : st) r, r <> OutOfFuel -> sequence s r <> OutOfFuel.
  Proof. intros s r H. destruct r; simpl; congruence. Qed.
  Lemma optional_fuel : forall (r : res), r <> OutOfFuel -> optional r <> OutOfFuel.
  Proof. intros r H. destruct r; simpl; congruence. Qed.
  Lemma bind_fuel : forall (r : res) f,
      r <> OutOfFuel -> (forall s1, r = Ok s1 -> f s1 <> OutOfFuel) -> bind r f <> OutOfFuel.
  Proof. intros r f H1 H2. destruct r; simpl; try congruence. apply H2. reflexivity. Qed.
  Lemma rule_wrap_fuel : forall r a la (g : st -> res) s,
      (forall s0, rest s0 = rest s -> g s0 <> OutOfFuel) -> rule_wrap r a la g s <> OutOfFuel.
  Proof.
    intros r a la g s H. unfold rule_wrap. destruct (emits a la).
    - destruct (g (set_out s [])) eqn:E; try discriminate. exfalso. eapply H; [|exact E]. reflexivity.
    - apply H. reflexivity.
  Qed.
  Lemma lookahead_fuel : forall p (g : st -> res) s,
      g (set_stk s (stack_snapshot (stk s))) <> OutOfFuel -> lookahead p g s <> OutOfFuel.
  Proof.
    intros p g s H. unfold lookahead. destruct (g (set_stk s (stack_snapshot (stk s)))); try congruence;
      destruct p; discriminate.
  Qed.
  Lemma restore_fuel : forall (g : st -> res) s,
      g (set_stk s (stack_snapshot (stk s))) <> OutOfFuel -> restore_on_err g s <> OutOfFuel.
  Proof.
    intros g s H. unfold restore_on_err. destruct (g (set_stk s (stack_snapshot (stk s)))); try congruence; discriminate.
  Qed.
  Lemma push_fuel : forall (g : st -> res) s, g s <> OutOfFuel -> do_push g s <> OutOfFuel.
  Proof. intros g s H. unfold do_push. destruct (g s); try congruence; discriminate. Qed.
  Lemma match_string_fuel : forall x (s : st), match_string x s <> OutOfFuel.
  Proof. intros x s. unfold match_string. destruct (drop_prefix x (rest s)); discriminate. Qed.

  (* a `repeat` whose body consumes on success and never runs out of fuel below the current position needs no
     more iterations than there are bytes left, plus the failing one *)
  Lemma repeat_fuel : forall n (g : st -> res) s,
      (forall s1, ln s1 <= ln s -> g s1 <> OutOfFuel) ->
      (forall s1 s2, g s1 = Ok s2 -> ln s2 < ln s1) ->
      ln s < n -> repeat_loop n g s <> OutOfFuel.
  Proof.
    induction n as [|n IHn]; intros g s H1 H2 L; [lia|]. simpl.
    destruct (g s) eqn:E; try discriminate.
    - pose proof (H2 _ _ E) as L2. apply IHn; [|exact H2|lia].
      intros s1 L1. apply H1. lia.
    - exfalso. eapply H1; [|exact E]. lia.
  Qed.

  (* ================================================================ non-nullable => consumes *)
  Definition prog_runner (rf : runner) : Prop :=
    forall m a la e s s', rf m a la e s = Ok s' -> nullb e = false -> ln s' < ln s.

  Lemma call_progress : forall rf, prog_runner rf -> forall a la r s s',
      call_with G rf a la r s = Ok s' -> memb r = false -> ln s' < ln s.
  Proof.
    intros rf Hp a la r s s' H Hm.
    assert (Hn : nullb (body r) = false).
    { destruct (nullb (body r)) eqn:E; [|reflexivity]. apply (cert_rule r) in E. congruence. }
    unfold call_with in H.
    destruct (rd_mod (g_def G r));
      try (apply rule_wrap_ok in H; destruct H as (s0 & s1 & H & E0 & E1); cbv beta in H;
           pose proof (Hp _ _ _ _ _ _ H Hn) as L; unfold ln in *; rewrite E0, E1 in L; exact L).
    exact (Hp _ _ _ _ _ _ H Hn).
  Qed.

  Lemma utf8_width_pos : forall c, 1 <= utf8_width c.
  Proof. intro c. unfold utf8_width. repeat destruct (N.ltb _ _); lia. Qed.

  Theorem run_progress : forall f, prog_runner (run G f).
  Proof.
    induction f as [|f IH]; intros m a la e s s' H Hn; [discriminate|].
    rewrite run_S in H. cbv zeta in H.
    destruct e as [x|x|lo hi|r|b|x|x|x y|x y|x|x|ss|x|x]; cbn [nullable] in Hn; try discriminate.
    - (* Str *)
      unfold match_string in H. destruct (drop_prefix x (rest s)) eqn:E; [|discriminate].
      inversion H; subst. apply drop_prefix_sdrop in E. destruct E as [L E]. subst.
      unfold ln. simpl. rewrite sdrop_length by assumption. destruct x; [discriminate|simpl in *; lia].
    - (* Insens *)
      unfold match_insensitive in H. destruct (drop_prefix_ci x (rest s)) eqn:E; [|discriminate].
      inversion H; subst. apply drop_prefix_ci_sdrop in E. destruct E as [L E]. subst.
      unfold ln. simpl. rewrite sdrop_length by assumption. destruct x; [discriminate|simpl in *; lia].
    - (* Range *)
      unfold match_range in H. destruct (rest s) eqn:E; [discriminate|].
      destruct (in_range lo hi a0); [|discriminate]. inversion H; subst. unfold ln. simpl. rewrite E. simpl. lia.
    - (* Ident *)
      eapply call_progress; [exact IH|exact H|exact Hn].
    - (* Builtin: only ANY is non-nullable *)
      destruct b; try discriminate. simpl in H. destruct (rest s) eqn:E; [discriminate|].
      inversion H; subst. unfold ln. simpl. rewrite E.
      pose proof (utf8_width_pos a0) as W.
      rewrite sdrop_length by (simpl String.length; lia). simpl String.length. lia.
    - (* Seq *)
      destruct m; apply sequence_ok in H.
      + apply bind_ok in H. destruct H as (s1 & E1 & E2).
        pose proof (run_ln _ _ _ _ _ _ _ E1) as L1. pose proof (run_ln _ _ _ _ _ _ _ E2) as L2.
        destruct (nullb x) eqn:Nx.
        * simpl in Hn. pose proof (IH _ _ _ _ _ _ E2 Hn). lia.
        * pose proof (IH _ _ _ _ _ _ E1 Nx). lia.
      + apply bind_ok in H. destruct H as (s2 & E12 & E3).
        apply bind_ok in E12. destruct E12 as (s1 & E1 & E2).
        pose proof (run_ln _ _ _ _ _ _ _ E1) as L1. pose proof (skip_ln _ _ _ _ _ _ E2) as L2.
        pose proof (run_ln _ _ _ _ _ _ _ E3) as L3.
        destruct (nullb x) eqn:Nx.
        * simpl in Hn. pose proof (IH _ _ _ _ _ _ E3 Hn). lia.
        * pose proof (IH _ _ _ _ _ _ E1 Nx). lia.
    - (* Choice *)
      apply orb_false_iff in Hn. destruct Hn as [Nx Ny].
      destruct (run G f m a la x s) eqn:Ex; try discriminate.
      + inversion H; subst. eapply IH; eassumption.
      + apply run_fail_unchanged in Ex. destruct Ex as (_ & Er & _).
        pose proof (IH _ _ _ _ _ _ H Ny) as L. unfold ln in *. rewrite Er in L. exact L.
    - (* Push *)
      unfold do_push in H. destruct (run G f m a la x s) eqn:Ex; try discriminate.
      inversion H; subst. pose proof (IH _ _ _ _ _ _ Ex Hn) as L. exact L.
    - (* RestoreOnErr *)
      unfold restore_on_err in H. destruct (run G f m a la x (set_stk s (stack_snapshot (stk s)))) eqn:Ex; try discriminate.
      inversion H; subst. pose proof (IH _ _ _ _ _ _ Ex Hn) as L. exact L.
  Qed.

  Lemma trivia_call_progress : forall f a la t s s', In t (trivia R G) ->
      call_with G (run G f) a la t s = Ok s' -> ln s' < ln s.
  Proof. intros f a la t s s' I H. eapply call_progress; [apply run_progress|exact H|apply cert_trivia; exact I]. Qed.

  (* ================================================================ enough fuel *)
  Definition fuel_runner (f : nat) (rf : runner) : Prop :=
    forall m a la e s, ln s * C + DL e <= f -> rprog e = true -> rf m a la e s <> OutOfFuel.

  Lemma call_fuel : forall f, fuel_runner f (run G f) -> forall a la r s,
      ln s * C + dz r <= f -> call_with G (run G f) a la r s <> OutOfFuel.
  Proof.
    intros f Hf a la r s L. destruct (cert_rule r) as (_ & D & P).
    assert (K : forall m a' s0, rest s0 = rest s -> run G f m a' la (body r) s0 <> OutOfFuel).
    { intros m a' s0 E. apply Hf; [|exact P]. unfold ln in *. rewrite E. lia. }
    unfold call_with.
    destruct (rd_mod (g_def G r)); try (apply rule_wrap_fuel; intros s0 E0; apply K; exact E0); apply K; reflexivity.
  Qed.

  Lemma mul_le_C : forall a b, a <= b -> a * C <= b * C.
  Proof. intros. apply Nat.mul_le_mono_r. assumption. Qed.
  Lemma mul_lt_C : forall a b, a < b -> a * C + C <= b * C.
  Proof. intros a b H. replace (a * C + C) with ((a + 1) * C) by lia. apply Nat.mul_le_mono_r. lia. Qed.
  Lemma ln_lt_fuel : forall (s : st) d f, ln s * C + d <= f -> 1 <= d -> ln s < f.
  Proof. intros s d f H D. pose proof C_pos as CP. pose proof (mul_le_C 1 C CP). nia. Qed.

  Lemma skip_fuel : forall f, fuel_runner f (run G f) -> forall a la s,
      ln s * C + DS <= f -> skip_with G f (call_with G (run G f)) a la s <> OutOfFuel.
  Proof.
    intros f Hf a la s L. pose proof dskip_pos as DP. pose proof (ln_lt_fuel s DS f L DP) as LF.
    assert (CF : forall t s1, In t (trivia R G) -> ln s1 <= ln s ->
                              call_with G (run G f) a la t s1 <> OutOfFuel).
    { intros t s1 I L1. apply call_fuel; [exact Hf|]. pose proof (dskip_ge t I). pose proof (mul_le_C _ _ L1). lia. }
    assert (RF : forall t s1, In t (trivia R G) -> ln s1 <= ln s ->
                              repeat_loop f (call_with G (run G f) a la t) s1 <> OutOfFuel).
    { intros t s1 I L1. apply repeat_fuel.
      - intros s2 L2. apply CF; [exact I|lia].
      - intros s2 s3 E. eapply trivia_call_progress; eassumption.
      - lia. }
    unfold skip_with. destruct a; try discriminate.
    unfold trivia in CF, RF.
    destruct (g_ws G) as [w|] eqn:Ew, (g_comment G) as [c|] eqn:Ec; try discriminate.
    - apply sequence_fuel. apply bind_fuel.
      + apply RF; [simpl; auto|lia].
      + intros s1 E1. pose proof (repeat_call_ln _ _ _ _ _ _ _ E1) as L1.
        apply repeat_fuel.
        * intros s2 L2. apply sequence_fuel. apply bind_fuel.
          -- apply CF; [simpl; auto|lia].
          -- intros s3 E3. apply call_ln in E3. apply RF; [simpl; auto|lia].
        * intros s2 s4 E. apply sequence_ok in E. apply bind_ok in E. destruct E as (s3 & E3 & E4).
          apply repeat_call_ln in E4.
          assert (ln s3 < ln s2).
          { apply (trivia_call_progress f NonAtomic la c s2 s3); [|exact E3]. unfold trivia. rewrite Ew, Ec. simpl. auto. }
          lia.
        * lia.
    - apply RF; [simpl; auto|lia].
    - apply RF; [simpl; auto|lia].
  Qed.

  (* budget of a part that runs after [x]: undiscounted if [x] may be empty, discounted by C otherwise *)
  Lemma after_budget : forall x d f (s s1 : st),
      ln s * C + S (Nat.max (DL x) (if nullb x then d else d - C)) <= S f ->
      ln s1 <= ln s -> (nullb x = false -> ln s1 < ln s) -> ln s1 * C + d <= f.
  Proof.
    intros x d f s s1 L L1 Lp. destruct (nullb x).
    - pose proof (mul_le_C _ _ L1). lia.
    - pose proof (mul_lt_C _ _ (Lp eq_refl)). lia.
  Qed.

  Theorem run_fuel : forall f, fuel_runner f (run G f).
  Proof.
    induction f as [|f IH]; intros m a la e s L P.
    - pose proof (dl_pos e). lia.
    - pose proof C_pos as CP. pose proof dskip_pos as DP.
      rewrite run_S. cbv zeta.
      destruct e as [x|x|lo hi|r|b|x|x|x y|x y|x|x|ss|x|x]; cbn [dl] in L; cbn [reps_progress] in P.
      + apply match_string_fuel.
      + unfold match_insensitive. destruct (drop_prefix_ci x (rest s)); discriminate.
      + unfold match_range. destruct (rest s); [discriminate|]. destruct (in_range lo hi a0); discriminate.
      + apply call_fuel; [exact IH|lia].
      + destruct b; simpl.
        * destruct (rest s); discriminate.
        * destruct (N.eqb (pos s) 0); discriminate.
        * destruct (rest s); discriminate.
        * destruct (stack_peek (stk s)); [apply match_string_fuel|discriminate].
        * destruct (stack_pop (stk s)) as [[x|] k]; [apply match_string_fuel|discriminate].
        * destruct (stack_pop (stk s)) as [[x|] k]; discriminate.
      + apply lookahead_fuel. apply IH; [|exact P]. change (ln (set_stk s (stack_snapshot (stk s)))) with (ln s). lia.
      + apply lookahead_fuel. apply IH; [|exact P]. change (ln (set_stk s (stack_snapshot (stk s)))) with (ln s). lia.
      + (* Seq *)
        apply andb_prop in P. destruct P as [Px Py].
        assert (Lx : ln s * C + DL x <= f) by lia.
        destruct m.
        * apply sequence_fuel. apply bind_fuel; [apply IH; assumption|].
          intros s1 E1. apply IH; [|exact Py].
          pose proof (after_budget x _ f s s1 L (run_ln _ _ _ _ _ _ _ E1)
                                   (fun N => run_progress _ _ _ _ _ _ _ E1 N)). lia.
        * apply sequence_fuel. apply bind_fuel; [apply bind_fuel; [apply IH; assumption|]|].
          -- intros s1 E1. apply skip_fuel; [exact IH|].
             pose proof (after_budget x _ f s s1 L (run_ln _ _ _ _ _ _ _ E1)
                                      (fun N => run_progress _ _ _ _ _ _ _ E1 N)). lia.
          -- intros s2 E12. apply bind_ok in E12. destruct E12 as (s1 & E1 & E2).
             apply IH; [|exact Py]. pose proof (skip_ln _ _ _ _ _ _ E2) as L2.
             assert (L1 : ln s2 <= ln s) by (pose proof (run_ln _ _ _ _ _ _ _ E1); lia).
             assert (Lp : nullb x = false -> ln s2 < ln s)
               by (intro N; pose proof (run_progress _ _ _ _ _ _ _ E1 N); lia).
             pose proof (after_budget x _ f s s2 L L1 Lp). lia.
      + (* Choice *)
        apply andb_prop in P. destruct P as [Px Py].
        destruct (run G f m a la x s) eqn:Ex; try discriminate.
        * apply run_fail_unchanged in Ex. destruct Ex as (_ & Er & _).
          apply IH; [|exact Py]. unfold ln in *. rewrite Er. lia.
        * exfalso. revert Ex. apply IH; [lia|exact Px].
      + apply optional_fuel. apply IH; [lia|exact P].
      + (* Rep *)
        apply andb_prop in P. destruct P as [Nx Px]. apply negb_true_iff in Nx.
        pose proof (dl_pos x) as Dx.
        assert (Lx : ln s * C + DL x <= f) by lia.
        assert (Lany : forall s1, ln s1 <= ln s -> ln s1 * C + DL x <= f)
          by (intros s1 L1; pose proof (mul_le_C _ _ L1); lia).
        destruct m.
        * apply repeat_fuel.
          -- intros s1 L1. apply IH; [apply Lany; exact L1|exact Px].
          -- intros s1 s2 E. eapply run_progress; eassumption.
          -- eapply ln_lt_fuel; eassumption.
        * apply sequence_fuel. apply optional_fuel. apply bind_fuel; [apply IH; assumption|].
          intros s1 E1. pose proof (run_progress _ _ _ _ _ _ _ E1 Nx) as L1.
          apply repeat_fuel.
          -- intros s2 L2. apply sequence_fuel. apply bind_fuel.
             ++ apply skip_fuel; [exact IH|].
                assert (L2s : ln s2 < ln s) by lia. pose proof (mul_lt_C _ _ L2s). lia.
             ++ intros s3 E3. apply skip_ln in E3. apply IH; [apply Lany; lia|exact Px].
          -- intros s2 s4 E. apply sequence_ok in E. apply bind_ok in E. destruct E as (s3 & E3 & E4).
             apply skip_ln in E3. pose proof (run_progress _ _ _ _ _ _ _ E4 Nx). lia.
          -- assert (ln s < f) by (eapply ln_lt_fuel; eassumption). lia.
      + destruct (skip_until_pos ss (pos s) (rest s)) as [p r]. discriminate.
      + apply push_fuel. apply IH; [lia|exact P].
      + apply restore_fuel. apply IH; [|exact P]. change (ln (set_stk s (stack_snapshot (stk s)))) with (ln s). lia.
  Qed.

  (* ================================================================ the parser is total *)
  Theorem parse_total : forall fuel r text,
      term_fuel C dz r text <= fuel -> parse G fuel r text <> OutOfFuel.
  Proof.
    intros fuel r text L. unfold parse. apply call_fuel; [apply run_fuel|].
    unfold term_fuel in L. unfold ln, init. simpl. exact L.
  Qed.

  (* any expression, any state: the statement about [run] itself *)
  Theorem run_total : forall fuel m a la e (s : st),
      String.length (rest s) * C + DL e <= fuel -> rprog e = true ->
      run G fuel m a la e s <> OutOfFuel.
  Proof. intros fuel m a la e s L P. apply run_fuel; assumption. Qed.
End Fuel.
