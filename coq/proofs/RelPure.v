(* RelPure.v — the PURE arms of EvalFull.builtin_full (aggregates, list / string / record built-ins,
   convert round random to_number to_string join) are PARAMETRIC in the function values of their
   arguments: for ANY structural value relation R (same tree shape, equal data, function values
   related to function values, Value::compare blind to it) related argument vectors give related
   outcomes.  One lemma per arm, proved once, used twice:

     - C02 (proofs/C02OpsFull.v):     R v v' := v' = ren rho v       (renaming of function cells)
     - C05 (proofs/EmitHOOpsFull.v):  R := vrel opok biok nanfix      (emit / reload)

   Families: (1) arms that read numbers / strings only (aggregates, range, split, replace, convert,
   round, random, to_number): related arguments give EQUAL results, and the result holds no function;
   (2) arms that only rearrange / select argument elements (len head tail slice concat reverse keys
   values entries flatten zip chunk); (3) sort: rearranges by Value::compare, which is blind to R;
   (4) to_string / join: Unmodelled on both sides when a function is inside, equal texts otherwise
   (the shortcut  R v v' -> no function inside v -> v = v');  (5) unique / includes: Value::equals —
   parametric only for relations that equals is blind to (section hypothesis [R_equals]: true for
   renamings, FALSE for emit/reload: finding F53). *)
From Coq Require Import String Ascii List ZArith Bool Lia.
Require Import Blots.Num Blots.gen.Builtins Blots.Ast Blots.Value Blots.Outcome Blots.Binop
               Blots.Env Blots.Eval Blots.BuiltinsHof Blots.Program Blots.EvalInst Blots.EvalFull
               Blots.proofs.ValueInd Blots.proofs.EmitHO.
Require Import Blots.Access Blots.BuiltinsList Blots.BuiltinsText.
Require Export Blots.RelTable.
Require Blots.BuiltinsAgg.
Import ListNotations.
Open Scope list_scope.

(* ---- outcome-level combinators (no relation involved) ---- *)
Lemma orel_bind {A A' B B'} (Q : A -> A' -> Prop) (Q' : B -> B' -> Prop) o o' k k' :
  orel_gen Q o o' -> (forall a a', Q a a' -> orel_gen Q' (k a) (k' a')) ->
  orel_gen Q' (obind o k) (obind o' k').
Proof. intros H Hk. destruct o, o'; cbn in *; try contradiction; try exact I. apply Hk. exact H. Qed.
Lemma orel_eq_refl {A} (o : outcome A) : orel_gen eq o o.
Proof. destruct o; cbn; auto. Qed.
Lemma orel_of_eq {A} (o o' : outcome A) : o = o' -> orel_gen eq o o'.
Proof. intros ->. apply orel_eq_refl. Qed.
Lemma orel_eq_inv {A} (o o' : outcome A) : orel_gen eq o o' -> o = o'.
Proof. destruct o, o'; cbn; intros H; try contradiction; congruence. Qed.
Lemma orel_omap {A A' B B'} (Q : A -> A' -> Prop) (Q' : B -> B' -> Prop) f f' o o' :
  orel_gen Q o o' -> (forall a a', Q a a' -> Q' (f a) (f' a')) -> orel_gen Q' (omap f o) (omap f' o').
Proof. intros H Hf. unfold omap. eapply orel_bind; [exact H|]. intros a a' Ha. cbn. auto. Qed.
Lemma orel_mapM {A A' B B'} (Q : A -> A' -> Prop) (S : B -> B' -> Prop) f f' l l' :
  Forall2 Q l l' -> (forall x x', Q x x' -> orel_gen S (f x) (f' x')) ->
  orel_gen (Forall2 S) (mapM f l) (mapM f' l').
Proof.
  intros HL Hf. induction HL as [|x x' l l' Hx _ IH]; cbn [mapM]; [constructor|].
  eapply orel_bind; [apply Hf; exact Hx|]. intros y y' Hy.
  eapply orel_bind; [exact IH|]. intros ys ys' Hys. cbn. constructor; assumption.
Qed.
Lemma Forall2_eq {A} (l l' : list A) : Forall2 eq l l' -> l = l'.
Proof. induction 1; congruence. Qed.
Lemma Forall2_refl {A} (Q : A -> A -> Prop) l : (forall x, Q x x) -> Forall2 Q l l.
Proof. intros H. induction l; constructor; auto. Qed.
Lemma Forall2_rev' {A B} (Q : A -> B -> Prop) l l' : Forall2 Q l l' -> Forall2 Q (rev l) (rev l').
Proof.
  induction 1 as [|x x' l l' Hx _ IH]; cbn; [constructor|]. apply Forall2_app; [exact IH|]. constructor; [exact Hx|constructor].
Qed.
Lemma Forall2_firstn {A B} (Q : A -> B -> Prop) n l l' : Forall2 Q l l' -> Forall2 Q (firstn n l) (firstn n l').
Proof. intros H. revert n. induction H; intros [|n]; cbn; constructor; auto. Qed.
Lemma Forall2_skipn {A B} (Q : A -> B -> Prop) n l l' : Forall2 Q l l' -> Forall2 Q (skipn n l) (skipn n l').
Proof. intros H. revert n. induction H; intros [|n]; cbn; try constructor; auto. Qed.
Lemma Forall2_len {A B} (Q : A -> B -> Prop) l l' : Forall2 Q l l' -> length l = length l'.
Proof. induction 1; cbn; congruence. Qed.
Lemma Forall2_map_same {A B} (Q : B -> B -> Prop) (f : A -> B) l : (forall a, Q (f a) (f a)) -> Forall2 Q (map f l) (map f l).
Proof. intros H. induction l; cbn; constructor; auto. Qed.

Lemma builtin_full_pure : forall cb b f, pure_arm_of b = Some f -> builtin_full cb b = pure_bi f.
Proof. intros cb b f E. destruct b; cbn in E; try discriminate E; inversion E; reflexivity. Qed.
Lemma builtin_full_other : forall cb b, pure_arm_of b = None -> callback_arm b = false ->
  builtin_full cb b = builtin_impl cb b.
Proof. intros cb b E C. destruct b; cbn in E, C; try discriminate; reflexivity. Qed.

Section RelPure.
  Variable R : value -> value -> Prop.
  Notation RL := (Forall2 R).
  Definition RRf (kv kv' : string * value) : Prop := fst kv = fst kv' /\ R (snd kv) (snd kv').
  Notation RR := (Forall2 RRf).
  Notation OR := (orel_gen R).

  (* the interface: R is structural *)
  Hypothesis R_inv : forall v v', R v v' ->
    match v with
    | VNum x => v' = VNum x
    | VBool b => v' = VBool b
    | VNull => v' = VNull
    | VStr s => v' = VStr s
    | VList l => exists l', v' = VList l' /\ RL l l'
    | VRec r => exists r', v' = VRec r' /\ RR r r'
    | VLam _ _ _ _ => exists id' ps' b' sc', v' = VLam id' ps' b' sc'
    | VBuiltin b => v' = VBuiltin b
    | VSpread w => exists w', v' = VSpread w' /\ R w w'
    end.
  Hypothesis R_num : forall x, R (VNum x) (VNum x).
  Hypothesis R_bool : forall b, R (VBool b) (VBool b).
  Hypothesis R_null : R VNull VNull.
  Hypothesis R_str : forall s, R (VStr s) (VStr s).
  Hypothesis R_list : forall l l', RL l l' -> R (VList l) (VList l').
  Hypothesis R_rec : forall r r', RR r r' -> R (VRec r) (VRec r').
  (* Value::compare looks at data only *)
  Hypothesis R_compare : forall a a' b b', R a a' -> R b b' -> compare a b = compare a' b'.

  Lemma R_inv_num x v' : R (VNum x) v' -> v' = VNum x. Proof. exact (R_inv (VNum x) v'). Qed.
  Lemma R_inv_bool b v' : R (VBool b) v' -> v' = VBool b. Proof. exact (R_inv (VBool b) v'). Qed.
  Lemma R_inv_null v' : R VNull v' -> v' = VNull. Proof. exact (R_inv VNull v'). Qed.
  Lemma R_inv_str s v' : R (VStr s) v' -> v' = VStr s. Proof. exact (R_inv (VStr s) v'). Qed.
  Lemma R_inv_list l v' : R (VList l) v' -> exists l', v' = VList l' /\ RL l l'. Proof. exact (R_inv (VList l) v'). Qed.
  Lemma R_inv_rec r v' : R (VRec r) v' -> exists r', v' = VRec r' /\ RR r r'. Proof. exact (R_inv (VRec r) v'). Qed.
  Lemma R_inv_lam id ps b sc v' : R (VLam id ps b sc) v' -> exists id' ps' b' sc', v' = VLam id' ps' b' sc'.
  Proof. exact (R_inv (VLam id ps b sc) v'). Qed.
  Lemma R_inv_builtin b v' : R (VBuiltin b) v' -> v' = VBuiltin b. Proof. exact (R_inv (VBuiltin b) v'). Qed.
  Lemma R_inv_spread w v' : R (VSpread w) v' -> exists w', v' = VSpread w' /\ R w w'. Proof. exact (R_inv (VSpread w) v'). Qed.

  (* case analysis on the left value of a related pair [H : R a a'] (a, a' variables) *)
  Ltac rcase a H :=
    let K := fresh "K" in pose proof H as K;
    destruct a;
    [ apply R_inv_num in H | apply R_inv_bool in H | apply R_inv_null in H | apply R_inv_str in H
    | apply R_inv_list in H; destruct H as (?l' & H & ?HL)
    | apply R_inv_rec in H; destruct H as (?r' & H & ?HR)
    | apply R_inv_lam in H; destruct H as (?id' & ?ps' & ?b' & ?sc' & H)
    | apply R_inv_builtin in H
    | apply R_inv_spread in H; destruct H as (?w' & H & ?HW) ]; subst.

  (* ---- the shortcut: a value without a function inside is related to itself only ---- *)
  Lemma R_has_function : forall v v', R v v' -> has_function v = has_function v'.
  Proof.
    induction v as [x|x| |s|l IH|r IH|id ar bd sc IH|bi|x IH] using value_ind'; intros v' H.
    - apply R_inv_num in H; subst; reflexivity.
    - apply R_inv_bool in H; subst; reflexivity.
    - apply R_inv_null in H; subst; reflexivity.
    - apply R_inv_str in H; subst; reflexivity.
    - apply R_inv_list in H. destruct H as (l' & -> & HL). cbn [has_function].
      induction HL as [|y y' l l' Hy _ IHl]; [reflexivity|]. inversion IH; subst. cbn [existsb].
      f_equal; [auto|apply IHl; assumption].
    - apply R_inv_rec in H. destruct H as (r' & -> & HL). cbn [has_function].
      induction HL as [|y y' r r' [_ Hy] _ IHl]; [reflexivity|]. inversion IH; subst. cbn [existsb].
      f_equal; [auto|apply IHl; assumption].
    - apply R_inv_lam in H. destruct H as (? & ? & ? & ? & ->). reflexivity.
    - apply R_inv_builtin in H; subst; reflexivity.
    - apply R_inv_spread in H. destruct H as (w' & -> & HW). cbn [has_function]. auto.
  Qed.

  Theorem R_nofun_eq : forall v v', R v v' -> has_function v = false -> v = v'.
  Proof.
    induction v as [x|x| |s|l IH|r IH|id ar bd sc IH|bi|x IH] using value_ind'; intros v' H Hf.
    - apply R_inv_num in H; subst; reflexivity.
    - apply R_inv_bool in H; subst; reflexivity.
    - apply R_inv_null in H; subst; reflexivity.
    - apply R_inv_str in H; subst; reflexivity.
    - apply R_inv_list in H. destruct H as (l' & -> & HL). f_equal. cbn [has_function] in Hf.
      induction HL as [|y y' l l' Hy _ IHl]; [reflexivity|]. inversion IH; subst. cbn [existsb] in Hf.
      apply orb_false_iff in Hf as [F1 F2]. f_equal; [auto|apply IHl; assumption].
    - apply R_inv_rec in H. destruct H as (r' & -> & HL). f_equal. cbn [has_function] in Hf.
      induction HL as [|[k y] [k' y'] r r' [Ek Hy] _ IHl]; [reflexivity|]. inversion IH; subst. cbn [existsb] in Hf.
      cbn [fst snd] in *. subst k'.
      apply orb_false_iff in Hf as [F1 F2]. f_equal; [f_equal; auto|apply IHl; assumption].
    - discriminate.
    - apply R_inv_builtin in H; subst; reflexivity.
    - apply R_inv_spread in H. destruct H as (w' & -> & HW). f_equal. cbn [has_function] in Hf. auto.
  Qed.

  (* values built from data only are related to themselves *)
  Fixpoint plain (v : value) : bool :=
    match v with
    | VNum _ | VBool _ | VNull | VStr _ => true
    | VList l => forallb plain l
    | VRec r => forallb (fun kv => plain (snd kv)) r
    | _ => false
    end.
  Lemma R_plain : forall v, plain v = true -> R v v.
  Proof.
    induction v as [x|x| |s|l IH|r IH|id ar bd sc IH|bi|x IH] using value_ind'; intros Hp; try discriminate; auto.
    - apply R_list. cbn [plain] in Hp. induction IH as [|y l Hy _ IHl]; [constructor|].
      cbn in Hp. apply andb_prop in Hp as [A B]. constructor; auto.
    - apply R_rec. cbn [plain] in Hp. induction IH as [|y l Hy _ IHl]; [constructor|].
      cbn in Hp. apply andb_prop in Hp as [A B]. constructor; [split; auto|auto].
  Qed.
  Lemma RL_strs (l : list string) : RL (map VStr l) (map VStr l).
  Proof. apply Forall2_map_same. exact R_str. Qed.
  Lemma RL_nums {A} (f : A -> num) (l : list A) : RL (map (fun a => VNum (f a)) l) (map (fun a => VNum (f a)) l).
  Proof. apply (Forall2_map_same R (fun a => VNum (f a))). intros a. apply R_num. Qed.

  (* ---- argument access and the as_* helpers ---- *)
  Lemma RL_nth_error l l' i : RL l l' ->
    match nth_error l i, nth_error l' i with
    | Some v, Some v' => R v v' | None, None => True | _, _ => False end.
  Proof. intros H. revert i. induction H as [|x x' l l' Hx _ IH]; intros [|i]; cbn; [exact I|exact I|exact Hx|apply IH]. Qed.
  Lemma arg_R args args' i : RL args args' -> OR (arg args i) (arg args' i).
  Proof.
    intros H. unfold arg. pose proof (RL_nth_error args args' i H) as G.
    destruct (nth_error args i), (nth_error args' i); try contradiction; cbn; auto.
  Qed.
  Lemma as_number_R a a' : R a a' -> as_number a = as_number a'.
  Proof. intros H. rcase a H; reflexivity. Qed.
  Lemma as_string_R a a' : R a a' -> as_string a = as_string a'.
  Proof. intros H. rcase a H; reflexivity. Qed.
  Lemma as_list_R a a' : R a a' -> orel_gen RL (as_list a) (as_list a').
  Proof. intros H. rcase a H; cbn; auto. Qed.
  Lemma as_record_R a a' : R a a' -> orel_gen RR (as_record a) (as_record a').
  Proof. intros H. rcase a H; cbn; auto. Qed.
  Lemma is_function_R a a' : R a a' -> is_function a = is_function a'.
  Proof. intros H. rcase a H; reflexivity. Qed.
  Lemma mapM_as_number_R l l' : RL l l' -> mapM as_number l = mapM as_number l'.
  Proof.
    induction 1 as [|x x' l l' Hx _ IH]; [reflexivity|]. cbn [mapM]. rewrite (as_number_R _ _ Hx), IH. reflexivity.
  Qed.

  (* steps of an arm written in the outcome monad *)
  Ltac barg i a a' Ha :=
    eapply orel_bind; [apply (arg_R _ _ i); eassumption|]; intros a a' Ha.
  Ltac bnum H n :=
    eapply (orel_bind eq); [apply orel_of_eq; apply (as_number_R _ _ H)|]; intros n ? <-.
  Ltac bstr H s :=
    eapply (orel_bind eq); [apply orel_of_eq; apply (as_string_R _ _ H)|]; intros s ? <-.
  Ltac blist H l l' Hl :=
    eapply orel_bind; [apply (as_list_R _ _ H)|]; intros l l' Hl.
  Ltac brec H r r' Hr :=
    eapply orel_bind; [apply (as_record_R _ _ H)|]; intros r r' Hr.

  (* family (1): equal outcomes that hold data only *)
  Lemma OR_eq_plain (o o' : outcome value) : o = o' -> (forall v, o = Ok v -> plain v = true) -> OR o o'.
  Proof. intros <- Hp. destruct o; cbn; auto. apply R_plain. apply Hp. reflexivity. Qed.
  Lemma OR_num_same (o : outcome num) : OR (do x <- o; Ok (VNum x)) (do x <- o; Ok (VNum x)).
  Proof. destruct o; cbn; auto. Qed.

  (* ================= aggregates (BuiltinsAgg.v): numbers only ================= *)
  Lemma collect_R args args' : RL args args' ->
    BuiltinsAgg.collect_nums_min args = BuiltinsAgg.collect_nums_min args'.
  Proof.
    intros H. unfold BuiltinsAgg.collect_nums_min. rewrite <- (Forall2_len _ _ _ H).
    destruct (Nat.eqb (length args) 1); [|apply (mapM_as_number_R _ _ H)].
    pose proof (arg_R args args' 0 H) as H0. unfold arg in H0. unfold BuiltinsAgg.arg.
    destruct (nth_error args 0), (nth_error args' 0); cbn in H0; try contradiction; try reflexivity. cbn [obind].
    rcase v H0; try reflexivity. apply (mapM_as_number_R _ _ HL).
  Qed.
  Lemma bi_min_R args args' : RL args args' -> OR (BuiltinsAgg.bi_min args) (BuiltinsAgg.bi_min args').
  Proof.
    intros H. unfold BuiltinsAgg.bi_min. rewrite <- (collect_R _ _ H : BuiltinsAgg.collect_nums_min args = BuiltinsAgg.collect_nums_min args').
    destruct (BuiltinsAgg.collect_nums_min args); cbn; auto. destruct (BuiltinsAgg.is_empty a); cbn; auto.
  Qed.
  Lemma bi_max_R args args' : RL args args' -> OR (BuiltinsAgg.bi_max args) (BuiltinsAgg.bi_max args').
  Proof.
    intros H. unfold BuiltinsAgg.bi_max. rewrite <- (collect_R _ _ H : BuiltinsAgg.collect_nums_max args = BuiltinsAgg.collect_nums_max args').
    destruct (BuiltinsAgg.collect_nums_max args); cbn; auto. destruct (BuiltinsAgg.is_empty a); cbn; auto.
  Qed.
  Lemma bi_avg_R args args' : RL args args' -> OR (BuiltinsAgg.bi_avg args) (BuiltinsAgg.bi_avg args').
  Proof.
    intros H. unfold BuiltinsAgg.bi_avg. rewrite <- (collect_R _ _ H : BuiltinsAgg.collect_nums_avg args = BuiltinsAgg.collect_nums_avg args').
    destruct (BuiltinsAgg.collect_nums_avg args); cbn; auto. destruct (BuiltinsAgg.is_empty a); cbn; auto.
  Qed.
  Lemma bi_sum_R args args' : RL args args' -> OR (BuiltinsAgg.bi_sum args) (BuiltinsAgg.bi_sum args').
  Proof.
    intros H. unfold BuiltinsAgg.bi_sum. rewrite <- (collect_R _ _ H : BuiltinsAgg.collect_nums_sum args = BuiltinsAgg.collect_nums_sum args').
    destruct (BuiltinsAgg.collect_nums_sum args); cbn; auto. destruct (BuiltinsAgg.is_empty a); cbn; auto.
  Qed.
  Lemma bi_prod_R args args' : RL args args' -> OR (BuiltinsAgg.bi_prod args) (BuiltinsAgg.bi_prod args').
  Proof.
    intros H. unfold BuiltinsAgg.bi_prod. rewrite <- (collect_R _ _ H : BuiltinsAgg.collect_nums_prod args = BuiltinsAgg.collect_nums_prod args').
    destruct (BuiltinsAgg.collect_nums_prod args); cbn; auto. destruct (BuiltinsAgg.is_empty a); cbn; auto.
  Qed.
  Lemma bi_median_R args args' : RL args args' -> OR (BuiltinsAgg.bi_median args) (BuiltinsAgg.bi_median args').
  Proof.
    intros H. unfold BuiltinsAgg.bi_median. rewrite <- (collect_R _ _ H : BuiltinsAgg.collect_nums_median args = BuiltinsAgg.collect_nums_median args').
    destruct (BuiltinsAgg.collect_nums_median args) as [nums| | | |]; cbn [obind]; try exact I.
    destruct (BuiltinsAgg.is_empty nums); [exact I|]. destruct (BuiltinsAgg.has_nan nums); [apply R_num|].
    destruct (BuiltinsAgg.sort_pc nums) as [s| | | |]; cbn [obind]; try exact I.
    destruct (BuiltinsAgg.len s mod 2 =? 0)%Z.
    - destruct (BuiltinsAgg.index_num s _); cbn [obind]; try exact I.
      destruct (BuiltinsAgg.index_num s _); cbn [obind]; try exact I. apply R_num.
    - destruct (BuiltinsAgg.index_num s _); cbn [obind]; try exact I. apply R_num.
  Qed.
  Lemma bi_percentile_R args args' : RL args args' -> OR (BuiltinsAgg.bi_percentile args) (BuiltinsAgg.bi_percentile args').
  Proof.
    intros H. unfold BuiltinsAgg.bi_percentile, BuiltinsAgg.bi_percentile_gen.
    barg 1%nat a a' Ha. bnum Ha n. barg 0%nat b b' Hb. blist Hb l l' Hl.
    destruct (negb (BuiltinsAgg.in_0_100 n)); [exact I|].
    change BuiltinsAgg.as_number with as_number. rewrite <- (mapM_as_number_R _ _ Hl).
    destruct (mapM as_number l) as [nums| | | |]; cbn [obind]; try exact I.
    destruct (BuiltinsAgg.is_empty nums); [exact I|]. destruct (BuiltinsAgg.has_nan nums); [apply R_num|].
    destruct (BuiltinsAgg.sort_pc nums) as [s| | | |]; cbn [obind]; try exact I.
    destruct (BuiltinsAgg.usize_sub false (BuiltinsAgg.len s) 1); cbn [obind]; try exact I.
    destruct (BuiltinsAgg.index_num s _); cbn [obind]; try exact I. apply R_num.
  Qed.
  Lemma dot_loop_R a a' : RL a a' -> forall b b', RL b b' -> forall s,
    BuiltinsAgg.dot_loop s a b = BuiltinsAgg.dot_loop s a' b'.
  Proof.
    induction 1 as [|x x' a a' Hx _ IH]; intros b b' Hb s; [destruct Hb; reflexivity|].
    destruct Hb as [|y y' b b' Hy Hb]; [reflexivity|]. cbn [BuiltinsAgg.dot_loop].
    change BuiltinsAgg.as_number with as_number.
    rewrite <- (as_number_R _ _ Hx), <- (as_number_R _ _ Hy).
    destruct (as_number x); cbn [obind]; try reflexivity. destruct (as_number y); cbn [obind]; try reflexivity.
    apply IH. exact Hb.
  Qed.
  Lemma bi_dot_R args args' : RL args args' -> OR (BuiltinsAgg.bi_dot args) (BuiltinsAgg.bi_dot args').
  Proof.
    intros H. unfold BuiltinsAgg.bi_dot. barg 0%nat a a' Ha. blist Ha l l' Hl. barg 1%nat b b' Hb. blist Hb m m' Hm.
    rewrite <- (Forall2_len _ _ _ Hl), <- (Forall2_len _ _ _ Hm).
    destruct (negb (Nat.eqb (length l) (length m))); [exact I|].
    rewrite <- (dot_loop_R _ _ Hl _ _ Hm). apply OR_num_same.
  Qed.

  (* ================= list / string / record built-ins (BuiltinsList.v) ================= *)
  Lemma range_body_R s e : OR (range_body s e) (range_body s e).
  Proof.
    unfold range_body. destruct (ngtb s e); [exact I|]. destruct (_ || _); [exact I|].
    destruct (_ <? _)%Z; [exact I|]. apply R_list. apply RL_nums.
  Qed.
  Lemma bi_range_R args args' : RL args args' -> OR (bi_range args) (bi_range args').
  Proof.
    intros H. unfold bi_range. destruct H as [|a a' l l' Ha Hl]; [exact I|].
    rcase a Ha; try exact I. destruct Hl as [|b b' l l' Hb Hl]; [apply range_body_R|].
    rcase b Hb; try exact I. destruct Hl; [apply range_body_R|exact I].
  Qed.

  Lemma bi_len_R args args' : RL args args' -> OR (bi_len args) (bi_len args').
  Proof.
    intros H. unfold bi_len. barg 0%nat a a' Ha. rcase a Ha; try exact I.
    - exact (R_num _).
    - rewrite (Forall2_len _ _ _ HL). exact (R_num _).
  Qed.
  Lemma bi_head_R args args' : RL args args' -> OR (bi_head args) (bi_head args').
  Proof.
    intros H. unfold bi_head. barg 0%nat a a' Ha. rcase a Ha; try exact I.
    - exact (R_str _).
    - destruct HL; [exact R_null|assumption].
  Qed.
  Lemma slice_get_R l l' : RL l l' -> forall a b,
    match slice_get l a b, slice_get l' a b with
    | Some x, Some x' => RL x x' | None, None => True | _, _ => False end.
  Proof.
    intros H a b. unfold slice_get. rewrite <- (Forall2_len _ _ _ H). destruct (_ && _); [|exact I].
    apply Forall2_firstn, Forall2_skipn, H.
  Qed.
  Lemma bi_tail_R args args' : RL args args' -> OR (bi_tail args) (bi_tail args').
  Proof.
    intros H. unfold bi_tail. barg 0%nat a a' Ha. rcase a Ha; try exact I.
    - exact (R_str _).
    - apply R_list. rewrite <- (Forall2_len _ _ _ HL).
      pose proof (slice_get_R _ _ HL 1%Z (Z.of_nat (length l))) as G.
      destruct (slice_get l _ _), (slice_get l' _ _); try contradiction; [exact G|constructor].
  Qed.
  Lemma bi_slice_R args args' : RL args args' -> OR (bi_slice args) (bi_slice args').
  Proof.
    intros H. unfold bi_slice. barg 1%nat a1 a1' H1. bnum H1 sf. barg 2%nat a2 a2' H2. bnum H2 ef.
    barg 0%nat a a' Ha. rcase a Ha; try exact I.
    - destruct (slice_get (chars s) _ _); [exact (R_str _)|exact I].
    - pose proof (slice_get_R _ _ HL (as_usize sf) (as_usize ef)) as G.
      destruct (slice_get l _ _), (slice_get l' _ _); try contradiction; [exact (R_list _ _ G)|exact I].
  Qed.

  Lemma concat_args_R args args' : RL args args' -> RL (concat_args args) (concat_args args').
  Proof.
    induction 1 as [|a a' l l' Ha _ IH]; [constructor|].
    rcase a Ha; cbn [concat_args]; try (constructor; [assumption|exact IH]).
    - apply Forall2_app; assumption.
    - rcase a HW; cbn [concat_args]; try (constructor; [assumption|exact IH]).
      + apply Forall2_app; [apply RL_strs|exact IH].
      + apply Forall2_app; assumption.
  Qed.
  Lemma bi_concat_R args args' : RL args args' -> OR (bi_concat args) (bi_concat args').
  Proof. intros H. exact (R_list _ _ (concat_args_R _ _ H)). Qed.

  (* ---- sort: a stable merge sort by a comparator that is blind to R ---- *)
  Section MergeSort.
    Variable lt lt' : value -> value -> bool.
    Hypothesis Hlt : forall a a' b b', R a a' -> R b b' -> lt a b = lt' a' b'.
    Lemma merge_R : forall l l', RL l l' -> forall r r', RL r r' -> RL (merge lt l r) (merge lt' l' r').
    Proof.
      induction 1 as [|a a' l l' Ha Hl IHl]; intros r r' Hr.
      - destruct Hr; cbn; [constructor|constructor; assumption].
      - induction Hr as [|b b' r r' Hb Hr IHr]; [cbn; constructor; assumption|].
        cbn [merge]. rewrite <- (Hlt _ _ _ _ Hb Ha). destruct (lt b a).
        + constructor; [exact Hb|exact IHr].
        + constructor; [exact Ha|]. apply IHl. constructor; assumption.
    Qed.
    Lemma merge_sort_fuel_R : forall fuel l l', RL l l' -> RL (merge_sort_fuel lt fuel l) (merge_sort_fuel lt' fuel l').
    Proof.
      induction fuel as [|f IH]; intros l l' H; cbn [merge_sort_fuel]; [exact H|].
      rewrite <- (Forall2_len _ _ _ H). destruct (length l <? 2)%nat; [exact H|].
      apply merge_R; apply IH; [apply Forall2_firstn|apply Forall2_skipn]; exact H.
    Qed.
    Lemma merge_sort_R l l' : RL l l' -> RL (merge_sort lt l) (merge_sort lt' l').
    Proof. intros H. unfold merge_sort. rewrite <- (Forall2_len _ _ _ H). apply merge_sort_fuel_R. exact H. Qed.
  End MergeSort.
  Lemma cmp_or_eq_R a a' b b' : R a a' -> R b b' -> cmp_or_eq a b = cmp_or_eq a' b'.
  Proof. intros Ha Hb. unfold cmp_or_eq. rewrite (R_compare _ _ _ _ Ha Hb). reflexivity. Qed.
  Lemma value_less_R a a' b b' : R a a' -> R b b' -> value_less a b = value_less a' b'.
  Proof. intros Ha Hb. unfold value_less. rewrite (cmp_or_eq_R _ _ _ _ Ha Hb). reflexivity. Qed.
  Lemma bi_sort_R args args' : RL args args' -> OR (bi_sort args) (bi_sort args').
  Proof.
    intros H. unfold bi_sort. barg 0%nat a a' Ha. blist Ha l l' Hl.
    apply R_list. apply merge_sort_R; [exact value_less_R|exact Hl].
  Qed.
  Lemma bi_reverse_R args args' : RL args args' -> OR (bi_reverse args) (bi_reverse args').
  Proof.
    intros H. unfold bi_reverse. barg 0%nat a a' Ha. blist Ha l l' Hl. apply R_list. apply Forall2_rev'. exact Hl.
  Qed.

  Lemma bi_split_R args args' : RL args args' -> OR (bi_split args) (bi_split args').
  Proof.
    intros H. unfold bi_split. barg 0%nat a a' Ha. bstr Ha s. barg 1%nat b b' Hb. bstr Hb d.
    apply R_list. apply RL_strs.
  Qed.
  Lemma bi_replace_R args args' : RL args args' -> OR (bi_replace args) (bi_replace args').
  Proof.
    intros H. unfold bi_replace. barg 1%nat a a' Ha. bstr Ha o. barg 2%nat b b' Hb. bstr Hb n. barg 0%nat c c' Hc. bstr Hc s.
    exact (R_str _).
  Qed.

  (* ---- records ---- *)
  Lemma bi_keys_R args args' : RL args args' -> OR (bi_keys args) (bi_keys args').
  Proof.
    intros H. unfold bi_keys. barg 0%nat a a' Ha. brec Ha r r' Hr. apply R_list.
    induction Hr as [|kv kv' r r' [E _] _ IH]; cbn [map]; constructor; [rewrite E; apply R_str|exact IH].
  Qed.
  Lemma bi_values_R args args' : RL args args' -> OR (bi_values args) (bi_values args').
  Proof.
    intros H. unfold bi_values. barg 0%nat a a' Ha. brec Ha r r' Hr. apply R_list.
    induction Hr as [|kv kv' r r' [_ V] _ IH]; cbn [map]; constructor; [exact V|exact IH].
  Qed.
  Lemma bi_entries_R args args' : RL args args' -> OR (bi_entries args) (bi_entries args').
  Proof.
    intros H. unfold bi_entries. barg 0%nat a a' Ha. brec Ha r r' Hr. apply R_list.
    induction Hr as [|kv kv' r r' [E V] _ IH]; cbn [map]; constructor; [|exact IH].
    apply R_list. constructor; [rewrite E; apply R_str|]. constructor; [exact V|constructor].
  Qed.

  (* ---- flatten zip chunk ---- *)
  Lemma flatten_items_R l l' : RL l l' -> RL (flatten_items l) (flatten_items l').
  Proof.
    induction 1 as [|a a' l l' Ha _ IH]; [constructor|].
    rcase a Ha; cbn [flatten_items]; try (constructor; [assumption|exact IH]).
    apply Forall2_app; assumption.
  Qed.
  Lemma bi_flatten_R args args' : RL args args' -> OR (bi_flatten args) (bi_flatten args').
  Proof.
    intros H. unfold bi_flatten. barg 0%nat a a' Ha. blist Ha l l' Hl. apply R_list. apply flatten_items_R. exact Hl.
  Qed.

  Lemma RL_nth l l' k : RL l l' -> R (nth k l VNull) (nth k l' VNull).
  Proof. intros H. revert k. induction H; intros [|k]; cbn; auto. Qed.
  Lemma max_len_R (ls ls' : list (list value)) : Forall2 RL ls ls' -> forall m,
    fold_left (fun m l => Nat.max m (length l)) ls m = fold_left (fun m l => Nat.max m (length l)) ls' m.
  Proof.
    induction 1 as [|l l' ls ls' Hl _ IH]; intros m; [reflexivity|]. cbn [fold_left].
    rewrite (Forall2_len _ _ _ Hl). apply IH.
  Qed.
  Lemma zip_tuple_R ls ls' i : Forall2 RL ls ls' -> R (zip_tuple ls i) (zip_tuple ls' i).
  Proof.
    intros H. unfold zip_tuple. apply R_list.
    induction H as [|l l' ls ls' Hl _ IH]; cbn [map]; constructor; [apply RL_nth; exact Hl|exact IH].
  Qed.
  Lemma bi_zip_R args args' : RL args args' -> OR (bi_zip args) (bi_zip args').
  Proof.
    intros H. unfold bi_zip.
    eapply orel_bind.
    - apply (orel_mapM R RL); [exact H|]. intros x x' Hx. rcase x Hx; cbn; auto.
    - intros ls ls' Hls. cbv beta zeta. rewrite <- (max_len_R _ _ Hls 0%nat). apply R_list.
      induction (seq 0 _) as [|i t IH]; cbn [map]; constructor; [apply zip_tuple_R; exact Hls|exact IH].
  Qed.

  Lemma chunk_acc_R l l' : RL l l' -> forall n room cur cur', RL cur cur' ->
    Forall2 RL (chunk_acc l n room cur) (chunk_acc l' n room cur').
  Proof.
    induction 1 as [|x x' l l' Hx _ IH]; intros n room cur cur' Hc; cbn [chunk_acc].
    - destruct Hc; [constructor|]. constructor; [constructor; assumption|constructor].
    - destruct room.
      + constructor; [exact Hc|]. apply IH. constructor; [exact Hx|constructor].
      + apply IH. apply Forall2_app; [exact Hc|]. constructor; [exact Hx|constructor].
  Qed.
  Lemma bi_chunk_R args args' : RL args args' -> OR (bi_chunk args) (bi_chunk args').
  Proof.
    intros H. unfold bi_chunk. barg 1%nat a a' Ha. bnum Ha nf. destruct (_ =? 0)%Z; [exact I|].
    barg 0%nat b b' Hb. blist Hb l l' Hl. rewrite <- (Forall2_len _ _ _ Hl). apply R_list. unfold chunks.
    generalize (Z.to_nat (Z.min (as_usize nf) (Z.max 1 (Z.of_nat (length l))))). intros k.
    pose proof (chunk_acc_R _ _ Hl k k [] [] (Forall2_nil _)) as G.
    induction G as [|c c' cs cs' Hc _ IHc]; cbn [map]; constructor; [apply R_list; exact Hc|exact IHc].
  Qed.

  (* ================= BuiltinsText.v ================= *)
  Lemma bi_convert_R args args' : RL args args' -> OR (bi_convert args) (bi_convert args').
  Proof.
    intros H. unfold bi_convert. barg 0%nat a a' Ha. bnum Ha v. barg 1%nat b b' Hb. bstr Hb f. barg 2%nat c c' Hc. bstr Hc t.
    unfold convert_result. destruct (Units.convert _ _ _ _); [exact (R_num _)|exact I].
  Qed.
  Lemma bi_round_R args args' : RL args args' -> OR (bi_round args) (bi_round args').
  Proof.
    intros H. unfold bi_round. barg 0%nat a a' Ha. bnum Ha n.
    destruct H as [|x x' t t' Hx [|y y' t2 t2' Hy Ht]]; [exact I|exact (R_num _)|].
    cbn [arg nth_error obind]. bnum Hy p. exact (R_num _).
  Qed.
  Lemma bi_random_R args args' : RL args args' -> OR (bi_random args) (bi_random args').
  Proof. intros H. unfold bi_random. barg 0%nat a a' Ha. bnum Ha n. exact (R_num _). Qed.
  Lemma bi_to_number_R args args' : RL args args' -> OR (bi_to_number args) (bi_to_number args').
  Proof.
    intros H. unfold bi_to_number. barg 0%nat a a' Ha. rcase a Ha; try exact I; try exact (R_num _).
    cbn [as_string obind]. unfold parse_result. destruct (NumText.ref_str_parse s); [exact (R_num _)|exact I].
  Qed.

  Lemma stringify_internal_R v v' : R v v' -> stringify_internal v = stringify_internal v'.
  Proof.
    intros H. unfold stringify_internal. rewrite <- (R_has_function _ _ H).
    destruct (has_function v) eqn:E; [reflexivity|]. rewrite (R_nofun_eq _ _ H E). reflexivity.
  Qed.
  Lemma bi_to_string_R args args' : RL args args' -> OR (bi_to_string args) (bi_to_string args').
  Proof.
    intros H. unfold bi_to_string. barg 0%nat a a' Ha. pose proof (stringify_internal_R _ _ Ha) as E.
    rcase a Ha; try exact (R_str _);
      cbv beta iota; rewrite <- E; (destruct (stringify_internal _); [exact (R_str _)|exact I..]).
  Qed.
  Lemma mapM_stringify_R l l' : RL l l' -> mapM stringify_internal l = mapM stringify_internal l'.
  Proof.
    induction 1 as [|x x' l l' Hx _ IH]; [reflexivity|]. cbn [mapM]. rewrite (stringify_internal_R _ _ Hx), IH. reflexivity.
  Qed.
  Lemma bi_join_full_R args args' : RL args args' -> OR (bi_join_full args) (bi_join_full args').
  Proof.
    intros H. unfold bi_join_full. barg 1%nat a a' Ha. bstr Ha d. barg 0%nat b b' Hb. blist Hb l l' Hl.
    rewrite <- (mapM_stringify_R _ _ Hl). destruct (mapM stringify_internal l); [exact (R_str _)|exact I..].
  Qed.


  (* every pure arm that does not apply Value::equals *)
  Ltac arms :=
    first [ apply bi_min_R | apply bi_max_R | apply bi_avg_R | apply bi_sum_R | apply bi_prod_R
          | apply bi_median_R | apply bi_percentile_R | apply bi_dot_R | apply bi_range_R | apply bi_len_R
          | apply bi_head_R | apply bi_tail_R | apply bi_slice_R | apply bi_concat_R | apply bi_sort_R
          | apply bi_reverse_R | apply bi_split_R | apply bi_replace_R | apply bi_keys_R | apply bi_values_R
          | apply bi_entries_R | apply bi_flatten_R | apply bi_zip_R | apply bi_chunk_R | apply bi_convert_R
          | apply bi_round_R | apply bi_random_R | apply bi_to_number_R | apply bi_to_string_R
          | apply bi_join_full_R ].
  Theorem pure_arms_R : forall b f, pure_arm_of b = Some f -> equals_based b = false ->
    forall args args', RL args args' -> OR (f args) (f args').
  Proof.
    intros b f E Hq args args' H.
    destruct b; cbn in E, Hq; try discriminate; inversion E; subst f; arms; exact H.
  Qed.

  (* ================= unique / includes: Value::equals =================
     parametric exactly when equals is blind to R *)
  Section WithEquals.
    Hypothesis R_equals : forall a a' b b', R a a' -> R b b' -> equals a b = equals a' b'.
    Lemma existsb_equals_R item item' u u' : R item item' -> RL u u' ->
      existsb (fun existing => equals item existing) u = existsb (fun existing => equals item' existing) u'.
    Proof.
      intros Hi Hu. induction Hu as [|x x' u u' Hx _ IH]; [reflexivity|]. cbn [existsb].
      rewrite (R_equals _ _ _ _ Hi Hx), IH. reflexivity.
    Qed.
    Lemma unique_go_R items items' : RL items items' -> forall u u', RL u u' ->
      RL (unique_go items u) (unique_go items' u').
    Proof.
      induction 1 as [|x x' l l' Hx _ IH]; intros u u' Hu; cbn [unique_go]; [exact Hu|].
      rewrite <- (existsb_equals_R _ _ _ _ Hx Hu). destruct (existsb _ u); apply IH; [exact Hu|].
      apply Forall2_app; [exact Hu|]. constructor; [exact Hx|constructor].
    Qed.
    Lemma bi_unique_R args args' : RL args args' -> OR (bi_unique args) (bi_unique args').
    Proof.
      intros H. unfold bi_unique. barg 0%nat a a' Ha. blist Ha l l' Hl. apply R_list. apply unique_go_R; [exact Hl|constructor].
    Qed.
    Lemma bi_includes_R args args' : RL args args' -> OR (bi_includes args) (bi_includes args').
    Proof.
      intros H. unfold bi_includes. barg 0%nat a a' Ha. rcase a Ha; try exact I.
      - barg 1%nat b b' Hb. bstr Hb n. exact (R_bool _).
      - clear K. induction HL as [|x x' l l' Hx _ IH]; [exact (R_bool _)|].
        barg 1%nat b b' Hb. rewrite <- (R_equals _ _ _ _ Hx Hb). destruct (equals x b); [exact (R_bool _)|exact IH].
    Qed.
    Theorem pure_arms_R_eq : forall b f, pure_arm_of b = Some f ->
      forall args args', RL args args' -> OR (f args) (f args').
    Proof.
      intros b f E args args' H. destruct (equals_based b) eqn:Hq; [|exact (pure_arms_R b f E Hq args args' H)].
      destruct b; cbn in E, Hq; try discriminate; inversion E; subst f; [apply bi_unique_R|apply bi_includes_R]; exact H.
    Qed.
  End WithEquals.

  (* ================= the callback-taking three: sort_by group_by count_by =================
     [S] relates the two evaluator states (C02: the store invariant; C05: nothing); the callbacks
     take related functions and arguments to related outcomes and related states. *)
  Section WithCall.
    Variable St : Type.
    Variable S : St -> St -> Prop.
    Definition MRS {A B} (Q : A -> B -> Prop) (m : St -> outcome A * St) (m' : St -> outcome B * St) : Prop :=
      forall st st', S st st' -> orel_gen Q (fst (m st)) (fst (m' st')) /\ S (snd (m st)) (snd (m' st')).
    Variable call call' : value -> value -> list value -> St -> outcome value * St.
    Hypothesis Hcall : forall f f' args args', R f f' -> RL args args' ->
      MRS R (call f f args) (call' f' f' args').

    (* one callback step on both sides: related results, related states *)
    Ltac cstep f f' xs xs' st st' Hf Hxs Hs o o' s1 s1' Ho Hs1 :=
      destruct (Hcall f f' xs xs' Hf Hxs st st' Hs) as [Ho Hs1];
      destruct (call f f xs st) as [o s1]; destruct (call' f' f' xs' st') as [o' s1']; cbn [fst snd] in Ho, Hs1;
      destruct o, o'; cbn in Ho; try contradiction; try (split; [exact I|exact Hs1]).

    Lemma sort_by_cmp_R f f' a a' b b' : R f f' -> R a a' -> R b b' ->
      MRS eq (sort_by_cmp St call f a b) (sort_by_cmp St call' f' a' b').
    Proof.
      intros Hf Ha Hb st st' Hs. unfold sort_by_cmp. rewrite <- (is_function_R _ _ Hf).
      destruct (is_function f); [|split; [reflexivity|exact Hs]].
      cstep f f' [a] [a'] st st' Hf (Forall2_cons _ _ Ha (Forall2_nil R)) Hs o o' s1 s1' Ho Hs1.
      cstep f f' [b] [b'] s1 s1' Hf (Forall2_cons _ _ Hb (Forall2_nil R)) Hs1 o2 o2' s2 s2' Ho2 Hs2.
      split; [|exact Hs2]. cbn. apply cmp_or_eq_R; assumption.
    Qed.

    Lemma merge_by_R f f' : R f f' -> forall l l', RL l l' -> forall r r', RL r r' ->
      MRS RL (merge_by St call f l r) (merge_by St call' f' l' r').
    Proof.
      intros Hf. induction 1 as [|a a' l l' Ha Hl IHl]; intros r r' Hr.
      - intros st st' Hs. destruct Hr; cbn; (split; [|exact Hs]); [constructor|constructor; assumption].
      - induction Hr as [|b b' r r' Hb Hr IHr]; intros st st' Hs.
        + cbn. split; [constructor; assumption|exact Hs].
        + cbn [merge_by].
          destruct (sort_by_cmp_R f f' b b' a a' Hf Hb Ha st st' Hs) as [Hc Hs1].
          destruct (sort_by_cmp St call f b a st) as [c s1]; destruct (sort_by_cmp St call' f' b' a' st') as [c' s1'].
          cbn [fst snd] in Hc, Hs1.
          destruct c as [c| | | |], c' as [c'| | | |]; cbn in Hc; try contradiction; try (split; [exact I|exact Hs1]).
          subst c'. destruct c.
          * destruct (IHl (b :: r) (b' :: r') (Forall2_cons _ _ Hb Hr) s1 s1' Hs1) as [Hm Hs2].
            destruct (merge_by St call f l (b :: r) s1) as [res s2]; destruct (merge_by St call' f' l' (b' :: r') s1') as [res' s2'].
            cbn [fst snd] in *. split; [|exact Hs2]. eapply orel_omap; [exact Hm|]. intros x x' Hx. constructor; assumption.
          * destruct (IHr s1 s1' Hs1) as [Hm Hs2]. cbn [merge_by] in Hm, Hs2.
            match type of Hm with orel_gen _ (fst ?X) (fst ?Y) =>
              destruct X as [res s2]; destruct Y as [res' s2'] end.
            cbn [fst snd] in *. split; [|exact Hs2]. eapply orel_omap; [exact Hm|]. intros x x' Hx. constructor; assumption.
          * destruct (IHl (b :: r) (b' :: r') (Forall2_cons _ _ Hb Hr) s1 s1' Hs1) as [Hm Hs2].
            destruct (merge_by St call f l (b :: r) s1) as [res s2]; destruct (merge_by St call' f' l' (b' :: r') s1') as [res' s2'].
            cbn [fst snd] in *. split; [|exact Hs2]. eapply orel_omap; [exact Hm|]. intros x x' Hx. constructor; assumption.
    Qed.

    Lemma merge_sort_by_fuel_R f f' : R f f' -> forall fuel l l', RL l l' ->
      MRS RL (merge_sort_by_fuel St call fuel f l) (merge_sort_by_fuel St call' fuel f' l').
    Proof.
      intros Hf. induction fuel as [|n IH]; intros l l' Hl st st' Hs; cbn [merge_sort_by_fuel]; [split; assumption|].
      rewrite <- (Forall2_len _ _ _ Hl). destruct (length l <? 2)%nat; [split; assumption|].
      destruct (IH _ _ (Forall2_firstn R (length l / 2) _ _ Hl) st st' Hs) as [H1 Hs1].
      destruct (merge_sort_by_fuel St call n f (firstn (length l / 2) l) st) as [o1 s1];
        destruct (merge_sort_by_fuel St call' n f' (firstn (length l / 2) l') st') as [o1' s1']. cbn [fst snd] in H1, Hs1.
      destruct o1, o1'; cbn in H1; try contradiction; try (split; [exact I|exact Hs1]).
      destruct (IH _ _ (Forall2_skipn R (length l / 2) _ _ Hl) s1 s1' Hs1) as [H2 Hs2].
      destruct (merge_sort_by_fuel St call n f (skipn (length l / 2) l) s1) as [o2 s2];
        destruct (merge_sort_by_fuel St call' n f' (skipn (length l / 2) l') s1') as [o2' s2']. cbn [fst snd] in H2, Hs2.
      destruct o2, o2'; cbn in H2; try contradiction; try (split; [exact I|exact Hs2]).
      apply merge_by_R; assumption.
    Qed.

    Lemma bi_sort_by_R args args' : RL args args' -> MRS R (bi_sort_by St call args) (bi_sort_by St call' args').
    Proof.
      intros H st st' Hs. unfold bi_sort_by.
      pose proof (arg_R args args' 1 H) as H1.
      destruct (arg args 1) as [f| | | |], (arg args' 1) as [f'| | | |]; cbn in H1; try contradiction; try (split; [exact I|exact Hs]).
      assert (H0 : orel_gen RL (obind (arg args 0) as_list) (obind (arg args' 0) as_list)).
      { eapply orel_bind; [apply (arg_R _ _ 0%nat H)|]. intros a a' Ha. apply as_list_R. exact Ha. }
      destruct (obind (arg args 0) as_list) as [l| | | |], (obind (arg args' 0) as_list) as [l'| | | |];
        cbn in H0; try contradiction; try (split; [exact I|exact Hs]).
      unfold sort_by_list. rewrite <- (Forall2_len _ _ _ H0).
      destruct (merge_sort_by_fuel_R f f' H1 (length l) l l' H0 st st' Hs) as [Hm Hs1].
      destruct (merge_sort_by_fuel St call (length l) f l st) as [res s1];
        destruct (merge_sort_by_fuel St call' (length l) f' l' st') as [res' s1']. cbn [fst snd] in *.
      split; [|exact Hs1]. eapply orel_omap; [exact Hm|]. intros x x' Hx. apply R_list. exact Hx.
    Qed.

    (* group_by / count_by *)
    Lemma keyed_items_R f f' : R f f' -> forall l l', RL l l' ->
      MRS RR (keyed_items St call f l) (keyed_items St call' f' l').
    Proof.
      intros Hf. induction 1 as [|x x' l l' Hx _ IH]; intros st st' Hs; cbn [keyed_items]; [split; [constructor|exact Hs]|].
      cstep f f' [x] [x'] st st' Hf (Forall2_cons _ _ Hx (Forall2_nil R)) Hs o o' s1 s1' Ho Hs1.
      rcase a Ho; try (split; [exact I|exact Hs1]).
      destruct (IH s1 s1' Hs1) as [Hm Hs2].
      destruct (keyed_items St call f l s1) as [more s2]; destruct (keyed_items St call' f' l' s1') as [more' s2'].
      cbn [fst snd] in *. split; [|exact Hs2]. eapply orel_omap; [exact Hm|]. intros k k' Hk.
      constructor; [split; [reflexivity|exact Hx]|exact Hk].
    Qed.

    Definition GRf (g g' : string * list value) : Prop := fst g = fst g' /\ RL (snd g) (snd g').
    Lemma group_push_R g g' key item item' : Forall2 GRf g g' -> R item item' ->
      Forall2 GRf (group_push g key item) (group_push g' key item').
    Proof.
      intros Hg Hi. induction Hg as [|[k items] [k' items'] g g' [E V] Hg IH]; cbn [group_push].
      - constructor; [split; [reflexivity|constructor; [exact Hi|constructor]]|constructor].
      - cbn [fst snd] in E, V. subst k'. destruct (String.eqb key k).
        + constructor; [split; [reflexivity|apply Forall2_app; [exact V|constructor; [exact Hi|constructor]]]|exact Hg].
        + constructor; [split; [reflexivity|exact V]|exact IH].
    Qed.
    Lemma groups_of_R k k' : RR k k' -> Forall2 GRf (groups_of k) (groups_of k').
    Proof.
      intros H. unfold groups_of. generalize (Forall2_nil GRf). generalize (@nil (string * list value)) at 1 3.
      generalize (@nil (string * list value)).
      induction H as [|kv kv' k k' [E V] _ IH]; intros g' g Hg; cbn [fold_left]; [exact Hg|].
      apply IH. rewrite E. apply group_push_R; assumption.
    Qed.
    Lemma counts_of_R k k' : RR k k' -> counts_of k = counts_of k'.
    Proof.
      intros H. unfold counts_of. generalize (@nil (string * num)).
      induction H as [|kv kv' k k' [E V] _ IH]; intros c; cbn [fold_left]; [reflexivity|]. rewrite E. apply IH.
    Qed.
    Lemma by_prologue_R args args' : RL args args' ->
      orel_gen (fun p p' => R (fst p) (fst p') /\ RL (snd p) (snd p')) (by_prologue args) (by_prologue args').
    Proof.
      intros H. unfold by_prologue. barg 1%nat f f' Hf. barg 0%nat a a' Ha. blist Ha l l' Hl.
      rewrite <- (is_function_R _ _ Hf). destruct (is_function f); [|exact I]. split; assumption.
    Qed.
    Lemma bi_group_by_R args args' : RL args args' -> MRS R (bi_group_by St call args) (bi_group_by St call' args').
    Proof.
      intros H st st' Hs. unfold bi_group_by. pose proof (by_prologue_R _ _ H) as HP.
      destruct (by_prologue args) as [[f l]| | | |], (by_prologue args') as [[f' l']| | | |]; cbn in HP;
        try contradiction; try (split; [exact I|exact Hs]).
      destruct HP as [Hf Hl]. destruct (keyed_items_R f f' Hf l l' Hl st st' Hs) as [Hk Hs1].
      destruct (keyed_items St call f l st) as [keyed s1]; destruct (keyed_items St call' f' l' st') as [keyed' s1'].
      cbn [fst snd] in *. split; [|exact Hs1]. eapply orel_omap; [exact Hk|]. intros k k' Hkk. apply R_rec.
      pose proof (groups_of_R _ _ Hkk) as G.
      induction G as [|g g' gs gs' [E V] _ IHg]; cbn [map]; constructor; [|exact IHg].
      split; [exact E|]. cbn [snd]. apply R_list. exact V.
    Qed.
    Lemma bi_count_by_R args args' : RL args args' -> MRS R (bi_count_by St call args) (bi_count_by St call' args').
    Proof.
      intros H st st' Hs. unfold bi_count_by. pose proof (by_prologue_R _ _ H) as HP.
      destruct (by_prologue args) as [[f l]| | | |], (by_prologue args') as [[f' l']| | | |]; cbn in HP;
        try contradiction; try (split; [exact I|exact Hs]).
      destruct HP as [Hf Hl]. destruct (keyed_items_R f f' Hf l l' Hl st st' Hs) as [Hk Hs1].
      destruct (keyed_items St call f l st) as [keyed s1]; destruct (keyed_items St call' f' l' st') as [keyed' s1'].
      cbn [fst snd] in *. split; [|exact Hs1]. eapply orel_omap; [exact Hk|]. intros k k' Hkk. apply R_rec.
      rewrite <- (counts_of_R _ _ Hkk).
      induction (counts_of k) as [|c cs IHc]; cbn [map]; constructor; [|exact IHc]. split; [reflexivity|apply R_num].
    Qed.
  End WithCall.
End RelPure.
