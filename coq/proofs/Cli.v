(* proofs/Cli.v — lemmas about the CLI driver model (coq/Cli.v) for C19. *)
From Coq Require Import String Ascii List ZArith Bool Lia.
Require Import Blots.Num Blots.gen.Builtins Blots.Ast Blots.Value Blots.Outcome Blots.Binop
               Blots.Env Blots.Eval Blots.Show Blots.Program Blots.Cli
               Blots.proofs.Frames Blots.proofs.StoreMono Blots.proofs.Scoping.
Import ListNotations.
Open Scope list_scope.
Local Open Scope nat_scope.
Open Scope string_scope.

(* ====================================================================================== *)
(* 1.  #name = inputs.name                                                                  *)
(* ====================================================================================== *)
Section Hash.
  Variable release : bool.
  Variable binop_impl : callback -> binop -> value -> value -> store -> outcome value * store.
  Variable apply : frames -> callback.
  Notation ev := (evalE release binop_impl apply).

  (* in EVERY configuration (any frame chain, any store), for any FunctionDef::call *)
  Lemma hash_is_inputs_field : forall c n,
    ev c (EInRef n) = ev c (EDot (EId "inputs") n).
  Proof.
    intros c n. cbn [evalE]. cbn.
    destruct (lookup (snd c) "inputs") as [v|]; [|reflexivity].
    destruct v; reflexivity.
  Qed.

  Lemma hash_value : forall c n r,
    lookup (snd c) "inputs" = Some (VRec r) ->
    ev c (EInRef n) = (Ok (match rec_get r n with Some v => v | None => VNull end), c).
  Proof. intros c n r H. cbn [evalE]. rewrite H. reflexivity. Qed.

  Lemma hash_null_when_absent : forall c n r,
    lookup (snd c) "inputs" = Some (VRec r) -> rec_get r n = None ->
    ev c (EInRef n) = (Ok VNull, c) /\ ev c (EDot (EId "inputs") n) = (Ok VNull, c).
  Proof.
    intros c n r H Hn. rewrite <- hash_is_inputs_field. rewrite (hash_value c n r H), Hn. auto.
  Qed.
End Hash.

(* FunctionDef::call re-reads `inputs` from the CALLER's chain (functions.rs:1779): the body of
   a lambda whose parameters are not called `inputs` sees exactly the caller's `inputs`. *)
Lemma bind_params_other : forall ps idx args acc local x,
  bind_params ps idx args acc = Some local ->
  existsb (fun p => String.eqb x (arg_name p)) ps = false ->
  lookup_frame local x = lookup_frame acc x.
Proof.
  induction ps as [|p ps IH]; intros idx args acc local x H Hx; cbn [bind_params] in H.
  - inversion H; reflexivity.
  - cbn [existsb] in Hx. apply orb_false_iff in Hx. destruct Hx as [Hp Hps].
    destruct p as [y|y|y]; cbn [arg_name] in Hp.
    + destruct (nth_error args idx); [|discriminate].
      rewrite (IH _ _ _ _ _ H Hps). cbn [lookup_frame]. rewrite Hp. reflexivity.
    + rewrite (IH _ _ _ _ _ H Hps). cbn [lookup_frame]. rewrite Hp. reflexivity.
    + rewrite (IH _ _ _ _ _ H Hps). cbn [lookup_frame]. rewrite Hp. reflexivity.
Qed.

Lemma callee_sees_callers_inputs : forall ps args fr i self local parent,
  lookup fr "inputs" = Some i ->
  bind_params ps 0 args (("inputs", i) :: self) = Some local ->
  existsb (fun p => String.eqb "inputs" (arg_name p)) ps = false ->
  lookup ((FOwned, local) :: parent) "inputs" = Some i.
Proof.
  intros ps args fr i self local parent _ Hb Hp. cbn [lookup].
  rewrite (bind_params_other _ _ _ _ _ _ Hb Hp). reflexivity.
Qed.

(* ====================================================================================== *)
(* 2.  exit status                                                                          *)
(* ====================================================================================== *)
Section Exit.
  Variable eval : cfg -> expr -> result.

  (* every statement, executed in order, succeeds (comments are skipped) *)
  Fixpoint all_succeed (s : session) (p : list stmt) : Prop :=
    match p with
    | [] => True
    | t :: rest =>
        is_rok (snd (exec_stmt eval s t)) = true /\ all_succeed (fst (exec_stmt eval s t)) rest
    end.

  Lemma first_stop_not_ok : forall rs r, first_stop rs = Some r -> is_rok r = false.
  Proof.
    induction rs as [|[r0 st0] rs IH]; intros r H; cbn [first_stop] in H; [discriminate|].
    destruct (is_rok r0) eqn:E; [apply IH; exact H|]. inversion H; subst; exact E.
  Qed.

  Lemma run_first_stop : forall p s,
    first_stop (snd (run eval s p)) = None <-> all_succeed s p.
  Proof.
    induction p as [|t rest IH]; intros s; cbn [run all_succeed].
    - cbn. tauto.
    - destruct (exec_stmt eval s t) as [s' r] eqn:E. cbn [fst snd].
      destruct r as [v|o| |].
      + destruct (run eval s' rest) as [s'' rs] eqn:E2. cbn [snd first_stop is_rok].
        specialize (IH s'). rewrite E2 in IH. cbn [snd] in IH. tauto.
      + cbn [snd first_stop is_rok]. split; [discriminate|intros [H _]; discriminate].
      + cbn [snd first_stop is_rok]. split; [discriminate|intros [H _]; discriminate].
      + cbn [is_rok]. specialize (IH s'). tauto.
  Qed.

  Lemma stop_exit_nonzero : forall r, is_rok r = false -> stop_exit r <> Some 0.
  Proof. intros [v|[a| | | |]| |]; cbn; intros H; try discriminate. Qed.

  Lemma run_script_exit0 : forall of s0 p,
    cr_exit (run_script eval of s0 p) = Some 0 <-> all_succeed s0 p.
  Proof.
    intros of s0 p. unfold run_script. rewrite <- run_first_stop.
    destruct (run eval s0 p) as [s rs]. cbn [snd].
    destruct (first_stop rs) as [r|] eqn:E.
    - split; [|discriminate]. intros H. exfalso.
      pose proof (stop_exit_nonzero r (first_stop_not_ok _ _ E)) as Hn.
      destruct (stop_exit r) as [code|]; cbn in H; [|discriminate]. congruence.
    - split; [reflexivity|]. intros _. unfold cli_emit. destruct of; reflexivity.
  Qed.

  (* the shape of what is emitted *)
  Definition one_object (of : bool) (r : cli_result) (o : list (string * value)) : Prop :=
    if of then cr_stdout r = None /\ cr_file r = Some o
    else cr_stdout r = Some o /\ cr_file r = None.
  Definition no_object (r : cli_result) : Prop := cr_stdout r = None /\ cr_file r = None.

  Lemma run_script_shape : forall of s0 p,
    (cr_exit (run_script eval of s0 p) = Some 0 /\
     one_object of (run_script eval of s0 p) (s_outputs (fst (run eval s0 p)))) \/
    (cr_exit (run_script eval of s0 p) <> Some 0 /\ no_object (run_script eval of s0 p)).
  Proof.
    intros of s0 p. unfold run_script. destruct (run eval s0 p) as [s rs]. cbn [fst].
    destruct (first_stop rs) as [r|] eqn:E.
    - right. pose proof (stop_exit_nonzero r (first_stop_not_ok _ _ E)) as Hn.
      destruct (stop_exit r) as [code|]; cbn; split; try congruence; split; reflexivity.
    - left. unfold cli_emit, one_object. destruct of; cbn; auto.
  Qed.

  (* which stdin the mode consults *)
  Definition stdin_for (m : mode) (stdin : option input_src) : option input_src :=
    match m with MEvalStdin => None | _ => stdin end.

  (* the success condition of the whole invocation, stated without the driver *)
  Definition invocation_ok (m : mode) (stdin : option input_src) (flags : list input_src)
             (prog : option (list stmt)) : Prop :=
    m <> MNoScript /\
    exists inputs st p,
      read_inputs (stdin_for m stdin) flags = (Some inputs, st) /\
      prog = Some p /\
      all_succeed (cli_session st inputs) p.

  Theorem exit0_iff_all_ok : forall m of stdin flags prog,
    cr_exit (cli_run eval m of stdin flags prog) = Some 0 <-> invocation_ok m stdin flags prog.
  Proof.
    intros m of stdin flags prog. unfold cli_run, invocation_ok. fold (stdin_for m stdin).
    destruct (read_inputs (stdin_for m stdin) flags) as [[inputs|] st] eqn:R.
    - destruct m.
      + destruct prog as [p|].
        * rewrite run_script_exit0. split.
          -- intros H. split; [discriminate|]. exists inputs, st, p. auto.
          -- intros [_ [i [s [q [H1 [H2 H3]]]]]]. inversion H1; inversion H2; subst. exact H3.
        * split; [discriminate|]. intros [_ [i [s [q [_ [H2 _]]]]]]. discriminate.
      + destruct prog as [p|].
        * rewrite run_script_exit0. split.
          -- intros H. split; [discriminate|]. exists inputs, st, p. auto.
          -- intros [_ [i [s [q [H1 [H2 H3]]]]]]. inversion H1; inversion H2; subst. exact H3.
        * split; [discriminate|]. intros [_ [i [s [q [_ [H2 _]]]]]]. discriminate.
      + destruct prog as [p|].
        * rewrite run_script_exit0. split.
          -- intros H. split; [discriminate|]. exists inputs, st, p. auto.
          -- intros [_ [i [s [q [H1 [H2 H3]]]]]]. inversion H1; inversion H2; subst. exact H3.
        * split; [discriminate|]. intros [_ [i [s [q [_ [H2 _]]]]]]. discriminate.
      + split; [discriminate|]. intros [H _]. congruence.
    - split; [discriminate|]. intros [_ [i [s [q [H1 _]]]]]. discriminate.
  Qed.

  (* exit 0 => exactly one object, in the place -o selects; otherwise no object — except the
     no-script + -o corner (known finding F34), where `{}` is written although the exit is 1 *)
  Definition known_noscript_outfile (m : mode) (of : bool) : bool :=
    match m with MNoScript => of | _ => false end.

  Theorem exit0_one_object_else_none : forall m of stdin flags prog,
    known_noscript_outfile m of = false ->
    let r := cli_run eval m of stdin flags prog in
    (cr_exit r = Some 0 /\ exists o, one_object of r o) \/
    (cr_exit r <> Some 0 /\ no_object r).
  Proof.
    intros m of stdin flags prog Hk. cbv zeta. unfold cli_run.
    destruct (read_inputs _ flags) as [[inputs|] st].
    - destruct m.
      + destruct prog as [p|].
        * destruct (run_script_shape of (cli_session st inputs) p) as [[H1 H2]|H]; [left|right; exact H].
          split; [exact H1|eexists; exact H2].
        * right. split; [discriminate|split; reflexivity].
      + destruct prog as [p|].
        * destruct (run_script_shape of (cli_session st inputs) p) as [[H1 H2]|H]; [left|right; exact H].
          split; [exact H1|eexists; exact H2].
        * right. split; [discriminate|split; reflexivity].
      + destruct prog as [p|].
        * destruct (run_script_shape of (cli_session st inputs) p) as [[H1 H2]|H]; [left|right; exact H].
          split; [exact H1|eexists; exact H2].
        * right. split; [discriminate|split; reflexivity].
      + right. cbn in Hk. subst of. split; [discriminate|split; reflexivity].
    - right. split; [discriminate|split; reflexivity].
  Qed.

  (* the refutation behind F34 *)
  Lemma noscript_outfile_refuted : forall stdin,
    let r := cli_run eval MNoScript true stdin [] None in
    cr_exit r = Some 1 /\ cr_file r = Some [] \/ cr_exit r = Some 1 /\ stdin <> None.
  Proof.
    intros stdin. cbv zeta. unfold cli_run.
    destruct (read_inputs stdin []) as [[inputs|] st] eqn:R.
    - left. split; reflexivity.
    - right. split; [reflexivity|]. destruct stdin; [discriminate|]. cbn in R. discriminate.
  Qed.
End Exit.
