(* proofs/Cli.v — lemmas about the CLI driver model (coq/Cli.v) for C19. *)
From Coq Require Import String Ascii List ZArith Bool Lia.
Require Import Blots.Num Blots.gen.Builtins Blots.Ast Blots.Value Blots.Outcome Blots.Binop
               Blots.Env Blots.Eval Blots.Show Blots.Program Blots.Cli
               Blots.proofs.Frames Blots.proofs.StoreMono Blots.proofs.Scoping.
Import ListNotations.
Open Scope list_scope.
Local Open Scope nat_scope.
Open Scope string_scope.

(* ====================================================================================== *)
(* 1.  #name = inputs.name                                                                  *)
(* ====================================================================================== *)
Section Hash.
  Variable release : bool.
  Variable binop_impl : callback -> binop -> value -> value -> store -> outcome value * store.
  Variable apply : frames -> callback.
  Notation ev := (evalE release binop_impl apply).

  (* in EVERY configuration (any frame chain, any store), for any FunctionDef::call *)
  Lemma hash_is_inputs_field : forall c n,
    ev c (EInRef n) = ev c (EDot (EId "inputs") n).
  Proof.
    intros c n. cbn [evalE]. cbn.
    destruct (lookup (snd c) "inputs") as [v|]; [|reflexivity].
    destruct v; reflexivity.
  Qed.

  Lemma hash_value : forall c n r,
    lookup (snd c) "inputs" = Some (VRec r) ->
    ev c (EInRef n) = (Ok (match rec_get r n with Some v => v | None => VNull end), c).
  Proof. intros c n r H. cbn [evalE]. rewrite H. reflexivity. Qed.

  Lemma hash_null_when_absent : forall c n r,
    lookup (snd c) "inputs" = Some (VRec r) -> rec_get r n = None ->
    ev c (EInRef n) = (Ok VNull, c) /\ ev c (EDot (EId "inputs") n) = (Ok VNull, c).
  Proof.
    intros c n r H Hn. rewrite <- hash_is_inputs_field. rewrite (hash_value c n r H), Hn. auto.
  Qed.
End Hash.

(* FunctionDef::call re-reads `inputs` from the CALLER's chain (functions.rs:1779): the body of
   a lambda whose parameters are not called `inputs` sees exactly the caller's `inputs`. *)
Lemma bind_params_other : forall ps idx args acc local x,
  bind_params ps idx args acc = Some local ->
  existsb (fun p => String.eqb x (arg_name p)) ps = false ->
  lookup_frame local x = lookup_frame acc x.
Proof.
  induction ps as [|p ps IH]; intros idx args acc local x H Hx; cbn [bind_params] in H.
  - inversion H; reflexivity.
  - cbn [existsb] in Hx. apply orb_false_iff in Hx. destruct Hx as [Hp Hps].
    destruct p as [y|y|y]; cbn [arg_name] in Hp.
    + destruct (nth_error args idx); [|discriminate].
      rewrite (IH _ _ _ _ _ H Hps). cbn [lookup_frame]. rewrite Hp. reflexivity.
    + rewrite (IH _ _ _ _ _ H Hps). cbn [lookup_frame]. rewrite Hp. reflexivity.
    + rewrite (IH _ _ _ _ _ H Hps). cbn [lookup_frame]. rewrite Hp. reflexivity.
Qed.

Lemma callee_sees_callers_inputs : forall ps args fr i self local parent,
  lookup fr "inputs" = Some i ->
  bind_params ps 0 args (("inputs", i) :: self) = Some local ->
  existsb (fun p => String.eqb "inputs" (arg_name p)) ps = false ->
  lookup ((FOwned, local) :: parent) "inputs" = Some i.
Proof.
  intros ps args fr i self local parent _ Hb Hp. cbn [lookup].
  rewrite (bind_params_other _ _ _ _ _ _ Hb Hp). reflexivity.
Qed.

(* ====================================================================================== *)
(* 2.  exit status                                                                          *)
(* ====================================================================================== *)
Section Exit.
  Variable eval : cfg -> expr -> result.

  (* every statement, executed in order, succeeds (comments are skipped) *)
  Fixpoint all_succeed (s : session) (p : list stmt) : Prop :=
    match p with
    | [] => True
    | t :: rest =>
        is_rok (snd (exec_stmt eval s t)) = true /\ all_succeed (fst (exec_stmt eval s t)) rest
    end.

  Lemma first_stop_not_ok : forall rs r, first_stop rs = Some r -> is_rok r = false.
  Proof.
    induction rs as [|[r0 st0] rs IH]; intros r H; cbn [first_stop] in H; [discriminate|].
    destruct (is_rok r0) eqn:E; [apply IH; exact H|]. inversion H; subst; exact E.
  Qed.

  Lemma run_first_stop : forall p s,
    first_stop (snd (run eval s p)) = None <-> all_succeed s p.
  Proof.
    induction p as [|t rest IH]; intros s; cbn [run all_succeed].
    - cbn. tauto.
    - destruct (exec_stmt eval s t) as [s' r] eqn:E. cbn [fst snd].
      destruct r as [v|o| |].
      + destruct (run eval s' rest) as [s'' rs] eqn:E2. cbn [snd first_stop is_rok].
        specialize (IH s'). rewrite E2 in IH. cbn [snd] in IH. tauto.
      + cbn [snd first_stop is_rok]. split; [discriminate|intros [H _]; discriminate].
      + cbn [snd first_stop is_rok]. split; [discriminate|intros [H _]; discriminate].
      + cbn [is_rok]. specialize (IH s'). tauto.
  Qed.

  Lemma stop_exit_nonzero : forall r, is_rok r = false -> stop_exit r <> Some 0.
  Proof. intros [v|[a| | | |]| |]; cbn; intros H; try discriminate. Qed.

  Lemma run_script_exit0 : forall of s0 p,
    cr_exit (run_script eval of s0 p) = Some 0 <-> all_succeed s0 p.
  Proof.
    intros of s0 p. unfold run_script. rewrite <- run_first_stop.
    destruct (run eval s0 p) as [s rs]. cbn [snd].
    destruct (first_stop rs) as [r|] eqn:E.
    - split; [|discriminate]. intros H. exfalso.
      pose proof (stop_exit_nonzero r (first_stop_not_ok _ _ E)) as Hn.
      destruct (stop_exit r) as [code|]; cbn in H; [|discriminate]. congruence.
    - split; [reflexivity|]. intros _. unfold cli_emit. destruct of; reflexivity.
  Qed.

  (* the shape of what is emitted *)
  Definition one_object (of : bool) (r : cli_result) (o : list (string * value)) : Prop :=
    if of then cr_stdout r = None /\ cr_file r = Some o
    else cr_stdout r = Some o /\ cr_file r = None.
  Definition no_object (r : cli_result) : Prop := cr_stdout r = None /\ cr_file r = None.

  Lemma run_script_shape : forall of s0 p,
    (cr_exit (run_script eval of s0 p) = Some 0 /\
     one_object of (run_script eval of s0 p) (s_outputs (fst (run eval s0 p)))) \/
    (cr_exit (run_script eval of s0 p) <> Some 0 /\ no_object (run_script eval of s0 p)).
  Proof.
    intros of s0 p. unfold run_script. destruct (run eval s0 p) as [s rs]. cbn [fst].
    destruct (first_stop rs) as [r|] eqn:E.
    - right. pose proof (stop_exit_nonzero r (first_stop_not_ok _ _ E)) as Hn.
      destruct (stop_exit r) as [code|]; cbn; split; try congruence; split; reflexivity.
    - left. unfold cli_emit, one_object. destruct of; cbn; auto.
  Qed.

  (* which stdin the mode consults *)
  Definition stdin_for (m : mode) (stdin : option input_src) : option input_src :=
    match m with MEvalStdin => None | _ => stdin end.

  (* the success condition of the whole invocation, stated without the driver *)
  Definition invocation_ok (m : mode) (stdin : option input_src) (flags : list input_src)
             (prog : option (list stmt)) : Prop :=
    m <> MNoScript /\
    exists inputs st p,
      read_inputs (stdin_for m stdin) flags = (Some inputs, st) /\
      prog = Some p /\
      all_succeed (cli_session st inputs) p.

  Theorem exit0_iff_all_ok : forall m of stdin flags prog,
    cr_exit (cli_run eval m of stdin flags prog) = Some 0 <-> invocation_ok m stdin flags prog.
  Proof.
    intros m of stdin flags prog. unfold cli_run, invocation_ok. fold (stdin_for m stdin).
    destruct (read_inputs (stdin_for m stdin) flags) as [[inputs|] st] eqn:R.
    - destruct m.
      + destruct prog as [p|].
        * rewrite run_script_exit0. split.
          -- intros H. split; [discriminate|]. exists inputs, st, p. auto.
          -- intros [_ [i [s [q [H1 [H2 H3]]]]]]. inversion H1; inversion H2; subst. exact H3.
        * split; [discriminate|]. intros [_ [i [s [q [_ [H2 _]]]]]]. discriminate.
      + destruct prog as [p|].
        * rewrite run_script_exit0. split.
          -- intros H. split; [discriminate|]. exists inputs, st, p. auto.
          -- intros [_ [i [s [q [H1 [H2 H3]]]]]]. inversion H1; inversion H2; subst. exact H3.
        * split; [discriminate|]. intros [_ [i [s [q [_ [H2 _]]]]]]. discriminate.
      + destruct prog as [p|].
        * rewrite run_script_exit0. split.
          -- intros H. split; [discriminate|]. exists inputs, st, p. auto.
          -- intros [_ [i [s [q [H1 [H2 H3]]]]]]. inversion H1; inversion H2; subst. exact H3.
        * split; [discriminate|]. intros [_ [i [s [q [_ [H2 _]]]]]]. discriminate.
      + split; [discriminate|]. intros [H _]. congruence.
    - split; [discriminate|]. intros [_ [i [s [q [H1 _]]]]]. discriminate.
  Qed.

  (* exit 0 => exactly one object, in the place -o selects; any other exit => no object at all *)
  Theorem exit0_one_object_else_none : forall m of stdin flags prog,
    let r := cli_run eval m of stdin flags prog in
    (cr_exit r = Some 0 /\ exists o, one_object of r o) \/
    (cr_exit r <> Some 0 /\ no_object r).
  Proof.
    intros m of stdin flags prog. cbv zeta. unfold cli_run.
    destruct (read_inputs _ flags) as [[inputs|] st].
    - destruct m.
      + destruct prog as [p|].
        * destruct (run_script_shape of (cli_session st inputs) p) as [[H1 H2]|H]; [left|right; exact H].
          split; [exact H1|eexists; exact H2].
        * right. split; [discriminate|split; reflexivity].
      + destruct prog as [p|].
        * destruct (run_script_shape of (cli_session st inputs) p) as [[H1 H2]|H]; [left|right; exact H].
          split; [exact H1|eexists; exact H2].
        * right. split; [discriminate|split; reflexivity].
      + destruct prog as [p|].
        * destruct (run_script_shape of (cli_session st inputs) p) as [[H1 H2]|H]; [left|right; exact H].
          split; [exact H1|eexists; exact H2].
        * right. split; [discriminate|split; reflexivity].
      + right. split; [discriminate|split; reflexivity].
    - right. split; [discriminate|split; reflexivity].
  Qed.
End Exit.

(* ====================================================================================== *)
(* 3.  the outputs object                                                                   *)
(* ====================================================================================== *)
(* IndexMap::insert on association lists *)
Definition add_key (ks : list string) (x : string) : list string :=
  if mem x ks then ks else (ks ++ [x])%list.

Lemma rec_get_insert : forall (r : list (string * value)) k v k',
  rec_get (rec_insert r k v) k' = if String.eqb k' k then Some v else rec_get r k'.
Proof.
  induction r as [|[k0 v0] r IH]; intros k v k'; cbn [rec_insert rec_get].
  - reflexivity.
  - destruct (String.eqb k k0) eqn:E; cbn [rec_get].
    + apply String.eqb_eq in E; subst k0. destruct (String.eqb k' k); reflexivity.
    + rewrite IH. destruct (String.eqb k' k0) eqn:E2; [|reflexivity].
      apply String.eqb_eq in E2; subst k0.
      destruct (String.eqb k' k) eqn:E3; [|reflexivity].
      apply String.eqb_eq in E3; subst k'. rewrite String.eqb_refl in E. discriminate.
Qed.

Lemma keys_insert : forall (r : list (string * value)) k v,
  map fst (rec_insert r k v) = add_key (map fst r) k.
Proof.
  unfold add_key, mem.
  induction r as [|[k0 v0] r IH]; intros k v; cbn [rec_insert map fst existsb].
  - reflexivity.
  - destruct (String.eqb k k0) eqn:E; cbn [orb map fst].
    + apply String.eqb_eq in E; subst k0. reflexivity.
    + rewrite IH. destruct (existsb (String.eqb k) (map fst r)); reflexivity.
Qed.

Lemma rec_get_None_keys : forall (r : list (string * value)) k,
  rec_get r k = None <-> mem k (map fst r) = false.
Proof.
  unfold mem. induction r as [|[k0 v0] r IH]; intros k; cbn [rec_get map fst existsb].
  - tauto.
  - destruct (String.eqb k k0); cbn [orb]; [split; discriminate|apply IH].
Qed.

Lemma NoDup_add_key : forall ks x, NoDup ks -> NoDup (add_key ks x).
Proof.
  intros ks x H. unfold add_key. destruct (mem x ks) eqn:E; [exact H|].
  assert (~ In x ks) as Hn.
  { intros Hin. unfold mem in E. assert (existsb (String.eqb x) ks = true) as Ht.
    { apply existsb_exists. exists x. split; [exact Hin|apply String.eqb_refl]. }
    congruence. }
  clear E. induction H as [|a l Ha Hl IH]; cbn.
  - constructor; [intros []|constructor].
  - constructor.
    + intros Hin. apply in_app_or in Hin. destruct Hin as [Hin|[Hin|[]]]; [contradiction|].
      subst. apply Hn. left; reflexivity.
    + apply IH. intros Hin. apply Hn. right; exact Hin.
Qed.

(* names that read as a value without being bindings (Expr::Identifier arm) *)
Definition special (x : string) : bool :=
  String.eqb x "infinity" || String.eqb x "inf" || String.eqb x "constants".

(* the name an output declaration declares *)
Definition decl_name (t : stmt) : option string :=
  match t with
  | SOut (EId x) | SOut (EOutput (EId x)) => Some x
  | SOut (EAssign x _) | SOut (EOutput (EAssign x _)) => Some x
  | SOut (EBuiltin b) | SOut (EOutput (EBuiltin b)) => Some (builtin_name b)   (* `output sum` *)
  | _ => None
  end.
(* ... and whether that name is a BINDING when the statement succeeds: `inf`, `infinity`,
   `constants` and the built-in function names are values but not bindings (they are recorded
   all the same since repo fix 91678e3; before it they were silently skipped: F33) *)
Definition binding_decl (t : stmt) : bool :=
  match t with
  | SOut (EId x) | SOut (EOutput (EId x)) => negb (special x)
  | SOut (EAssign _ _) | SOut (EOutput (EAssign _ _)) => true
  | SOut _ => false
  | _ => true
  end.
Definition decl_names (p : list stmt) : list string :=
  flat_map (fun t => match decl_name t with Some x => [x] | None => [] end) p.

Section Outputs.
  Variable eval : cfg -> expr -> result.
  Hypothesis eval_ext : forall c e r c', eval c e = (r, c') -> ext (snd c) (snd c').
  Hypothesis eval_output : forall c e, eval c (EOutput e) = eval c e.
  Hypothesis eval_assign : forall c x ve v c',
    eval c (EAssign x ve) = (Ok v, c') -> lookup (snd c') x = Some v.
  Hypothesis eval_id : forall c x v c',
    eval c (EId x) = (Ok v, c') -> special x = false -> lookup (snd c') x = Some v.

  (* every recorded output is the current value of the binding of that name *)
  Definition outs_bound (s : session) : Prop :=
    forall x v, rec_get (s_outputs s) x = Some v -> lookup (snd (s_cfg s)) x = Some v.

  Definition frames_of (s : session) : frames := snd (s_cfg s).

  Lemma insert_bound : forall (outs : list (string * value)) fr fr' x v,
    (forall y w, rec_get outs y = Some w -> lookup fr y = Some w) ->
    ext fr fr' -> lookup fr' x = Some v ->
    forall y w, rec_get (rec_insert outs x v) y = Some w -> lookup fr' y = Some w.
  Proof.
    intros outs fr fr' x v Hb He Hx y w Hy. rewrite rec_get_insert in Hy.
    destruct (String.eqb y x) eqn:E.
    - apply String.eqb_eq in E; subst y. inversion Hy; subst. exact Hx.
    - eapply ext_lookup; eauto.
  Qed.

  (* a successful output declaration: the declared name receives the value the statement
     evaluated to (repo fix 91678e3: also for the `output x` form) *)
  Lemma exec_stmt_SOut_ok : forall s e w st1 fr1,
    eval (s_cfg s) e = (Ok w, (st1, fr1)) ->
    exec_stmt eval s (SOut e) =
      match decl_name (SOut e) with
      | Some x =>
          if validate_portable st1 fr1 w
          then ({| s_cfg := (st1, fr1); s_outputs := out_insert (s_outputs s) x w |}, ROk w)
          else ({| s_cfg := (st1, fr1); s_outputs := s_outputs s |}, ROutErr)
      | None => ({| s_cfg := (st1, fr1); s_outputs := s_outputs s |}, ROk w)
      end.
  Proof.
    intros s e w st1 fr1 E. cbn [exec_stmt]. rewrite E.
    destruct e; try reflexivity.
    all: match goal with |- context [EOutput ?x] => destruct x end; reflexivity.
  Qed.

  Lemma exec_stmt_SOut_fail : forall s e o c1,
    eval (s_cfg s) e = (o, c1) -> is_ok o = false ->
    is_rok (snd (exec_stmt eval s (SOut e))) = false.
  Proof.
    intros s e o [st1 fr1] E Ho. cbn [exec_stmt]. rewrite E.
    destruct o; cbn in Ho; try discriminate;
      repeat match goal with
             | |- context [match ?x with _ => _ end] => destruct x
             end; reflexivity.
  Qed.

  (* for a declaration of a binding the recorded value is the binding *)
  Lemma decl_binding_lookup : forall c e w st1 fr1 x,
    eval c e = (Ok w, (st1, fr1)) -> binding_decl (SOut e) = true ->
    decl_name (SOut e) = Some x -> lookup fr1 x = Some w.
  Proof.
    intros c e w st1 fr1 x E Hb Hn.
    destruct e; cbn [binding_decl] in Hb; try discriminate; cbn [decl_name] in Hn.
    - apply negb_true_iff in Hb. inversion Hn; subst. exact (eval_id _ _ _ _ E Hb).
    - inversion Hn; subst. exact (eval_assign _ _ _ _ _ E).
    - rewrite eval_output in E.
      destruct e; cbn [binding_decl] in Hb; try discriminate; cbn [decl_name] in Hn.
      + apply negb_true_iff in Hb. inversion Hn; subst. exact (eval_id _ _ _ _ E Hb).
      + inversion Hn; subst. exact (eval_assign _ _ _ _ _ E).
  Qed.

  (* one successful statement: the keys (no side condition) *)
  Lemma exec_stmt_keys : forall s t,
    is_rok (snd (exec_stmt eval s t)) = true ->
    map fst (s_outputs (fst (exec_stmt eval s t))) =
      match decl_name t with Some x => add_key (map fst (s_outputs s)) x | None => map fst (s_outputs s) end.
  Proof.
    intros s t Hok. destruct t as [e|e|].
    - cbn [exec_stmt]. destruct (eval (s_cfg s) e) as [o c1]. reflexivity.
    - destruct (eval (s_cfg s) e) as [o [st1 fr1]] eqn:E.
      destruct o as [w| | | |].
      2-5: rewrite (exec_stmt_SOut_fail _ _ _ _ E eq_refl) in Hok; discriminate.
      rewrite (exec_stmt_SOut_ok _ _ _ _ _ E) in *.
      destruct (decl_name (SOut e)) as [x|]; [|reflexivity].
      destruct (validate_portable st1 fr1 w); cbn [fst snd is_rok] in Hok; [|discriminate].
      cbn [fst s_outputs]. apply keys_insert.
    - reflexivity.
  Qed.

  (* one successful statement whose declaration (if any) is of a binding *)
  Lemma exec_stmt_outputs : forall s t,
    is_rok (snd (exec_stmt eval s t)) = true -> binding_decl t = true -> outs_bound s ->
    let s' := fst (exec_stmt eval s t) in
    outs_bound s' /\
    (map fst (s_outputs s') =
      match decl_name t with Some x => add_key (map fst (s_outputs s)) x | None => map fst (s_outputs s) end) /\
    (forall x, decl_name t = Some x ->
       exists v, rec_get (s_outputs s') x = Some v /\ lookup (frames_of s') x = Some v).
  Proof.
    intros s t Hok Hb Hinv. cbv zeta. split; [|split; [apply exec_stmt_keys; exact Hok|]].
    - unfold outs_bound, frames_of in *. destruct t as [e|e|].
      + cbn [exec_stmt] in *. destruct (eval (s_cfg s) e) as [o c1] eqn:E.
        cbn [fst snd s_cfg s_outputs] in *. apply eval_ext in E.
        intros x v Hx. eapply ext_lookup; eauto.
      + destruct (eval (s_cfg s) e) as [o [st1 fr1]] eqn:E.
        assert (ext (snd (s_cfg s)) fr1) as Hext by (apply eval_ext in E; exact E).
        destruct o as [w| | | |].
        2-5: rewrite (exec_stmt_SOut_fail _ _ _ _ E eq_refl) in Hok; discriminate.
        rewrite (exec_stmt_SOut_ok _ _ _ _ _ E) in *.
        destruct (decl_name (SOut e)) as [x|] eqn:Hn.
        * destruct (validate_portable st1 fr1 w); cbn [fst snd is_rok] in Hok; [|discriminate].
          cbn [fst snd s_cfg s_outputs]. unfold out_insert.
          intros y u Hy. eapply insert_bound; eauto. eapply decl_binding_lookup; eauto.
        * cbn [fst snd s_cfg s_outputs]. intros y u Hy. eapply ext_lookup; eauto.
      + cbn [exec_stmt fst]. exact Hinv.
    - unfold frames_of. destruct t as [e|e|]; cbn [decl_name]; try (intros x Hx; discriminate).
      destruct (eval (s_cfg s) e) as [o [st1 fr1]] eqn:E.
      destruct o as [w| | | |].
      2-5: rewrite (exec_stmt_SOut_fail _ _ _ _ E eq_refl) in Hok; discriminate.
      rewrite (exec_stmt_SOut_ok _ _ _ _ _ E) in *.
      intros x Hx. change (decl_name (SOut e) = Some x) in Hx. rewrite Hx in *.
      destruct (validate_portable st1 fr1 w); cbn [fst snd is_rok] in Hok; [|discriminate].
      cbn [fst snd s_cfg s_outputs]. unfold out_insert. exists w.
      rewrite rec_get_insert, String.eqb_refl. split; [reflexivity|].
      eapply decl_binding_lookup; eauto.
  Qed.

  Lemma run_cons_ok : forall s t rest,
    is_rok (snd (exec_stmt eval s t)) = true ->
    fst (run eval s (t :: rest)) = fst (run eval (fst (exec_stmt eval s t)) rest).
  Proof.
    intros s t rest H. cbn [run]. destruct (exec_stmt eval s t) as [s' r]. cbn [fst snd] in *.
    destruct r; cbn in H; try discriminate.
    - destruct (run eval s' rest); reflexivity.
    - reflexivity.
  Qed.

  Lemma run_app_ok : forall p1 p2 s,
    all_succeed eval s (p1 ++ p2) ->
    fst (run eval s (p1 ++ p2)) = fst (run eval (fst (run eval s p1)) p2) /\
    all_succeed eval s p1 /\ all_succeed eval (fst (run eval s p1)) p2.
  Proof.
    induction p1 as [|t p1 IH]; intros p2 s H.
    - cbn. auto.
    - rewrite <- app_comm_cons in *. cbn [all_succeed] in H. destruct H as [Hok Hrest].
      rewrite !run_cons_ok by exact Hok. destruct (IH p2 _ Hrest) as (E & A1 & A2).
      cbn [all_succeed]. auto.
  Qed.

  Lemma all_succeed_snoc : forall p1 t s,
    all_succeed eval s p1 ->
    is_rok (snd (exec_stmt eval (fst (run eval s p1)) t)) = true ->
    all_succeed eval s (p1 ++ [t]).
  Proof.
    induction p1 as [|a p1 IH]; intros t s A1 Hok.
    - cbn in *. auto.
    - rewrite <- app_comm_cons. cbn [all_succeed] in *. destruct A1 as [A B].
      split; [exact A|]. apply IH; [exact B|].
      rewrite run_cons_ok in Hok by exact A. exact Hok.
  Qed.

  Lemma fold_add_key_In : forall l ks x, In x ks -> In x (fold_left add_key l ks).
  Proof.
    induction l as [|y l IH]; intros ks x H; cbn [fold_left]; [exact H|].
    apply IH. unfold add_key. destruct (mem y ks); [exact H|]. apply in_or_app. left; exact H.
  Qed.

  Lemma In_keys_rec_get : forall (r : list (string * value)) x,
    In x (map fst r) -> rec_get r x <> None.
  Proof.
    intros r x H Hn. apply rec_get_None_keys in Hn. unfold mem in Hn.
    assert (existsb (String.eqb x) (map fst r) = true) as Ht.
    { apply existsb_exists. exists x. split; [exact H|apply String.eqb_refl]. }
    congruence.
  Qed.

  (* keys of the outputs object = ALL declared names, in first-declaration order (re-declaring
     a name keeps its position) — no side condition *)
  Theorem outputs_keys_in_declaration_order : forall p s,
    all_succeed eval s p ->
    map fst (s_outputs (fst (run eval s p))) =
      fold_left add_key (decl_names p) (map fst (s_outputs s)).
  Proof.
    induction p as [|t rest IH]; intros s Hall.
    - reflexivity.
    - cbn [all_succeed] in Hall. destruct Hall as [Hok Hrest].
      rewrite run_cons_ok by exact Hok. rewrite (IH _ Hrest), (exec_stmt_keys s t Hok).
      unfold decl_names. cbn [flat_map]. fold (decl_names rest).
      destruct (decl_name t); reflexivity.
  Qed.

  (* when every declaration is of a binding (not inf / infinity / constants), every recorded
     value is the current binding of its name *)
  Theorem outputs_in_declaration_order : forall p s,
    all_succeed eval s p -> forallb binding_decl p = true -> outs_bound s ->
    outs_bound (fst (run eval s p)) /\
    map fst (s_outputs (fst (run eval s p))) =
      fold_left add_key (decl_names p) (map fst (s_outputs s)).
  Proof.
    induction p as [|t rest IH]; intros s Hall Hb Hinv.
    - cbn. auto.
    - cbn [all_succeed] in Hall. destruct Hall as [Hok Hrest].
      cbn [forallb] in Hb. apply andb_true_iff in Hb. destruct Hb as [Hb1 Hb2].
      rewrite run_cons_ok by exact Hok.
      destruct (exec_stmt_outputs s t Hok Hb1 Hinv) as (Hinv' & Hkeys & _).
      destruct (IH _ Hrest Hb2 Hinv') as (H1 & H2). split; [exact H1|].
      rewrite H2, Hkeys. unfold decl_names. cbn [flat_map]. fold (decl_names rest).
      destruct (decl_name t); reflexivity.
  Qed.

  (* each key holds the value the name had right after its declaration *)
  Theorem output_value_at_declaration : forall p1 t p2 s x,
    all_succeed eval s (p1 ++ t :: p2) -> forallb binding_decl (p1 ++ t :: p2) = true ->
    outs_bound s -> decl_name t = Some x ->
    exists v,
      lookup (frames_of (fst (run eval s (p1 ++ [t])))) x = Some v /\
      rec_get (s_outputs (fst (run eval s (p1 ++ t :: p2)))) x = Some v.
  Proof.
    intros p1 t p2 s x Hall Hb Hinv Hn.
    rewrite forallb_app in Hb. apply andb_true_iff in Hb. destruct Hb as [Hb1 Hb2].
    cbn [forallb] in Hb2. apply andb_true_iff in Hb2. destruct Hb2 as [Hbt Hb2].
    destruct (run_app_ok _ _ _ Hall) as (E & A1 & A2). rewrite E.
    cbn [all_succeed] in A2. destruct A2 as [Hok Hrest].
    destruct (outputs_in_declaration_order p1 s A1 Hb1 Hinv) as (Hinv1 & _).
    set (s1 := fst (run eval s p1)) in *.
    destruct (exec_stmt_outputs s1 t Hok Hbt Hinv1) as (Hinv2 & Hk2 & Hd).
    destruct (Hd x Hn) as (v & Hg & Hl). exists v.
    assert (fst (run eval s (p1 ++ [t])) = fst (exec_stmt eval s1 t)) as E1.
    { pose proof (all_succeed_snoc p1 t s A1 Hok) as A.
      destruct (run_app_ok _ _ _ A) as (E1 & _ & _). rewrite E1. fold s1.
      rewrite run_cons_ok by exact Hok. reflexivity. }
    rewrite E1. split; [exact Hl|].
    rewrite run_cons_ok by exact Hok.
    set (s2 := fst (exec_stmt eval s1 t)) in *.
    destruct (outputs_in_declaration_order p2 s2 Hrest Hb2 Hinv2) as (Hinv3 & Hk3).
    assert (rec_get (s_outputs (fst (run eval s2 p2))) x <> None) as Hne.
    { apply In_keys_rec_get. rewrite Hk3. apply fold_add_key_In.
      destruct (rec_get (s_outputs s2) x) eqn:G; [|discriminate].
      destruct (in_dec string_dec x (map fst (s_outputs s2))) as [Hi|Hni]; [exact Hi|].
      exfalso. assert (mem x (map fst (s_outputs s2)) = false) as Hm.
      { unfold mem. destruct (existsb (String.eqb x) (map fst (s_outputs s2))) eqn:Ex; [|reflexivity].
        apply existsb_exists in Ex. destruct Ex as (y & Hy & Hxy). apply String.eqb_eq in Hxy.
        subst y. contradiction. }
      apply rec_get_None_keys in Hm. congruence. }
    destruct (rec_get (s_outputs (fst (run eval s2 p2))) x) as [v'|] eqn:G; [|congruence].
    pose proof (Hinv3 _ _ G) as L3.
    pose proof (session_bindings_stable eval eval_ext p2 s2 x v Hl) as L2.
    unfold frames_of in *. congruence.
  Qed.
End Outputs.


Lemma fold_add_key_NoDup : forall l ks, NoDup ks -> NoDup (fold_left add_key l ks).
Proof.
  induction l as [|x l IH]; intros ks H; cbn [fold_left]; [exact H|].
  apply IH. apply NoDup_add_key. exact H.
Qed.

(* ---- the hypotheses of Section Outputs hold for the evaluator model, at every depth ---- *)
Section ForEvalD.
  Variable release : bool.
  Variable bi : callback -> binop -> value -> value -> store -> outcome value * store.
  Variable bu : callback -> builtin -> list value -> store -> outcome value * store.
  Variable d : nat.
  Notation ev := (evalD release bi bu d).

  Lemma evalD_output : forall c e, ev c (EOutput e) = ev c e.
  Proof. reflexivity. Qed.

  Lemma evalD_id : forall c x v c',
    ev c (EId x) = (Ok v, c') -> special x = false -> lookup (snd c') x = Some v.
  Proof.
    intros c x v c' H Hs. unfold special in Hs.
    apply orb_false_iff in Hs. destruct Hs as [Hs Hc].
    unfold evalD in H. cbn [evalE] in H. rewrite Hs, Hc in H.
    destruct (lookup (snd c) x) as [w|] eqn:L; cbn in H; inversion H; subst. exact L.
  Qed.

  Lemma evalD_assign : forall c x ve v c',
    ev c (EAssign x ve) = (Ok v, c') -> lookup (snd c') x = Some v.
  Proof.
    intros c x ve v c' H. unfold evalD in H. cbn [evalE] in H.
    destruct (is_builtin_name x); [discriminate|].
    destruct (mem x assign_keywords); [discriminate|].
    destruct (contains (snd c) x); [discriminate|].
    unfold assign_checked in H.
    destruct (evalE release bi (AD release bi bu d) c ve) as [o c1].
    destruct o as [w| | | |]; try discriminate.
    destruct (contains (snd c1) x); [discriminate|].
    unfold bind_value in H.
    destruct (insert_head (snd c1) x w) as [fr2|] eqn:I; [|discriminate].
    inversion H; subst. cbn [snd].
    destruct (insert_head_shape _ _ _ _ I) as (f & rest & _ & E2). subst fr2.
    cbn [lookup lookup_frame]. rewrite String.eqb_refl. reflexivity.
  Qed.

  Definition evalD_outputs_in_declaration_order :=
    outputs_in_declaration_order ev (evalD_ext release bi bu d) evalD_output evalD_assign evalD_id.
  Definition evalD_output_value_at_declaration :=
    output_value_at_declaration ev (evalD_ext release bi bu d) evalD_output evalD_assign evalD_id.

  Lemma cli_session_outs_bound : forall st inputs, outs_bound (cli_session st inputs).
  Proof. intros st inputs x v H. cbn in H. discriminate. Qed.

  (* the CLI-level statement *)
  Theorem cli_outputs_in_declaration_order : forall m of stdin flags p,
    cr_exit (cli_run ev m of stdin flags (Some p)) = Some 0 ->
    forallb binding_decl p = true ->
    exists inputs st,
      read_inputs (stdin_for m stdin) flags = (Some inputs, st) /\
      let final := fst (run ev (cli_session st inputs) p) in
      one_object of (cli_run ev m of stdin flags (Some p)) (s_outputs final) /\
      map fst (s_outputs final) = fold_left add_key (decl_names p) [] /\
      NoDup (map fst (s_outputs final)) /\
      (forall x v, rec_get (s_outputs final) x = Some v ->
                   lookup (snd (s_cfg final)) x = Some v).
  Proof.
    intros m of stdin flags p H0 Hb.
    pose proof (proj1 (exit0_iff_all_ok ev m of stdin flags (Some p)) H0) as (Hm & inputs & st & q & R & Hq & Hall).
    inversion Hq; subst q. exists inputs, st. split; [exact R|]. cbv zeta.
    destruct (evalD_outputs_in_declaration_order p _ Hall Hb (cli_session_outs_bound st inputs))
      as (Hinv & Hkeys).
    cbn [cli_session s_outputs map] in Hkeys.
    repeat split.
    - unfold cli_run. fold (stdin_for m stdin). rewrite R.
      assert (run_script ev of (cli_session st inputs) p =
              cli_emit of (s_outputs (fst (run ev (cli_session st inputs) p)))) as E.
      { unfold run_script. pose proof (proj2 (run_first_stop ev p _) Hall) as F.
        destruct (run ev (cli_session st inputs) p) as [s rs]. cbn [fst snd] in *. rewrite F. reflexivity. }
      destruct m; try (exfalso; apply Hm; reflexivity); rewrite E; unfold cli_emit, one_object;
        destruct of; cbn; auto.
    - exact Hkeys.
    - rewrite Hkeys. apply fold_add_key_NoDup. constructor.
    - exact Hinv.
  Qed.

  Theorem cli_output_value_at_declaration : forall m of stdin flags p1 t p2 x,
    cr_exit (cli_run ev m of stdin flags (Some (p1 ++ t :: p2)%list)) = Some 0 ->
    forallb binding_decl (p1 ++ t :: p2)%list = true -> decl_name t = Some x ->
    exists inputs st v,
      read_inputs (stdin_for m stdin) flags = (Some inputs, st) /\
      lookup (snd (s_cfg (fst (run ev (cli_session st inputs) (p1 ++ [t])%list)))) x = Some v /\
      rec_get (s_outputs (fst (run ev (cli_session st inputs) (p1 ++ t :: p2)%list))) x = Some v.
  Proof.
    intros m of stdin flags p1 t p2 x H0 Hb Hn.
    pose proof (proj1 (exit0_iff_all_ok ev m of stdin flags _) H0) as (Hm & inputs & st & q & R & Hq & Hall).
    inversion Hq; subst q.
    destruct (evalD_output_value_at_declaration p1 t p2 _ x Hall Hb (cli_session_outs_bound st inputs) Hn)
      as (v & H1 & H2).
    exists inputs, st, v. auto.
  Qed.

  (* `inputs` stays the merged record for the whole run *)
  Lemma cli_inputs_constant : forall st inputs p,
    lookup (snd (s_cfg (fst (run ev (cli_session st inputs) p)))) "inputs" = Some (VRec inputs).
  Proof. intros. apply evalD_session_stable. reflexivity. Qed.
End ForEvalD.

(* ====================================================================================== *)
(* 4.  input merging                                                                        *)
(* ====================================================================================== *)
Definition keys_nodup (m : list (string * value)) : Prop := NoDup (map fst m).

Lemma rec_insert_nodup : forall (m : list (string * value)) k v,
  keys_nodup m -> keys_nodup (rec_insert m k v).
Proof. intros m k v H. unfold keys_nodup. rewrite keys_insert. apply NoDup_add_key. exact H. Qed.

Lemma mem_false_not_In : forall x l, mem x l = false -> ~ In x l.
Proof.
  intros x l H Hin. unfold mem in H.
  assert (existsb (String.eqb x) l = true) as Ht.
  { apply existsb_exists. exists x. split; [exact Hin|apply String.eqb_refl]. }
  congruence.
Qed.
Lemma not_In_mem_false : forall x l, ~ In x l -> mem x l = false.
Proof.
  intros x l H. unfold mem. destruct (existsb (String.eqb x) l) eqn:E; [|reflexivity].
  apply existsb_exists in E. destruct E as (y & Hy & Hxy). apply String.eqb_eq in Hxy. subst y.
  contradiction.
Qed.

(* later keys override earlier ones, within one merge step *)
Lemma rec_get_merge_into : forall m acc k,
  keys_nodup m ->
  rec_get (merge_into acc m) k =
  match rec_get m k with Some v => Some v | None => rec_get acc k end.
Proof.
  unfold merge_into, rec_insert_all.
  induction m as [|[k0 v0] m IH]; intros acc k Hnd; cbn [fold_left fst snd].
  - reflexivity.
  - inversion Hnd as [|? ? Hnotin Hnd']; subst. rewrite IH by exact Hnd'.
    cbn [rec_get]. rewrite rec_get_insert.
    destruct (String.eqb k k0) eqn:E.
    + apply String.eqb_eq in E; subst k0.
      assert (rec_get m k = None) as Hn.
      { apply rec_get_None_keys. apply not_In_mem_false. exact Hnotin. }
      rewrite Hn. reflexivity.
    + reflexivity.
Qed.

Lemma keys_merge_into : forall m acc,
  map fst (merge_into acc m) = fold_left add_key (map fst m) (map fst acc).
Proof.
  unfold merge_into, rec_insert_all.
  induction m as [|[k0 v0] m IH]; intros acc; cbn [fold_left map fst snd]; [reflexivity|].
  rewrite IH, keys_insert. reflexivity.
Qed.

Lemma merge_into_nodup : forall m acc, keys_nodup acc -> keys_nodup (merge_into acc m).
Proof.
  intros m acc H. unfold keys_nodup. rewrite keys_merge_into. apply fold_add_key_NoDup. exact H.
Qed.

(* `inputs_map = map` (stdin) is the same as merging into the empty map *)
Lemma rec_insert_fresh : forall (acc : list (string * value)) k v,
  ~ In k (map fst acc) -> rec_insert acc k v = (acc ++ [(k, v)])%list.
Proof.
  induction acc as [|[k0 v0] acc IH]; intros k v H; cbn [rec_insert app]; [reflexivity|].
  cbn [map fst] in H. destruct (String.eqb k k0) eqn:E.
  - apply String.eqb_eq in E. subst. exfalso. apply H. left; reflexivity.
  - rewrite IH; [reflexivity|]. intros Hin. apply H. right; exact Hin.
Qed.

Lemma merge_into_disjoint : forall m acc,
  keys_nodup m -> (forall k, In k (map fst m) -> ~ In k (map fst acc)) ->
  merge_into acc m = (acc ++ m)%list.
Proof.
  unfold merge_into, rec_insert_all.
  induction m as [|[k0 v0] m IH]; intros acc Hnd Hdis; cbn [fold_left fst snd].
  - rewrite app_nil_r. reflexivity.
  - inversion Hnd as [|? ? Hnotin Hnd']; subst.
    rewrite rec_insert_fresh by (apply Hdis; left; reflexivity).
    rewrite IH; [rewrite <- app_assoc; reflexivity|exact Hnd'|].
    intros k Hk Hin. rewrite map_app in Hin. apply in_app_or in Hin. destruct Hin as [Hin|[Hin|[]]].
    + apply (Hdis k); [right; exact Hk|exact Hin].
    + cbn in Hin. subst k. contradiction.
Qed.

Lemma merge_into_empty : forall m, keys_nodup m -> merge_into [] m = m.
Proof. intros m H. rewrite merge_into_disjoint; auto. Qed.

(* every map produced by parse_json_inputs has unique keys *)
Lemma load_entries_nodup : forall es st acc,
  keys_nodup acc -> keys_nodup (fst (load_entries st acc es)).
Proof.
  induction es as [|[k sv] es IH]; intros st acc H; cbn [load_entries]; [exact H|].
  destruct (to_value st sv) as [[v|] st1]; apply IH; [apply rec_insert_nodup|]; exact H.
Qed.

Lemma parse_json_inputs_nodup : forall st n s m st1 n1,
  parse_json_inputs st n s = (Some m, st1, n1) -> keys_nodup m.
Proof.
  intros st n s m st1 n1 H. destruct s as [|es|sv]; cbn [parse_json_inputs] in H.
  - discriminate.
  - pose proof (load_entries_nodup es st [] (NoDup_nil _)) as Hn.
    destruct (load_entries st [] es) as [m0 st0]. inversion H; subst. exact Hn.
  - destruct (to_value st sv) as [[v|] st0]; inversion H; subst; unfold keys_nodup; cbn.
    + constructor; [intros []|constructor].
    + constructor.
Qed.

(* what each source contributes, in order (the store and the value_k counter are threaded) *)
Fixpoint contributions (st : store) (n : nat) (srcs : list input_src)
  : option (list (list (string * value))) :=
  match srcs with
  | [] => Some []
  | s :: rest =>
      match parse_json_inputs st n s with
      | (None, _, _) => None
      | (Some m, st1, n1) => option_map (cons m) (contributions st1 n1 rest)
      end
  end.

Definition sources (stdin : option input_src) (flags : list input_src) : list input_src :=
  match stdin with Some s => s :: flags | None => flags end.

Lemma collect_flags_contributions : forall srcs st n acc,
  fst (collect_flags st n acc srcs) =
  option_map (fun maps => fold_left merge_into maps acc) (contributions st n srcs).
Proof.
  induction srcs as [|s rest IH]; intros st n acc; cbn [collect_flags contributions].
  - reflexivity.
  - destruct (parse_json_inputs st n s) as [[[m|] st1] n1]; [|reflexivity].
    rewrite IH. destruct (contributions st1 n1 rest); reflexivity.
Qed.

Lemma read_inputs_contributions : forall stdin flags,
  fst (read_inputs stdin flags) =
  option_map (fun maps => fold_left merge_into maps []) (contributions [] 0 (sources stdin flags)).
Proof.
  intros [s|] flags; cbn [read_inputs sources].
  - cbn [contributions].
    destruct (parse_json_inputs [] 0 s) as [[[m|] st1] n1] eqn:P; [|reflexivity].
    rewrite collect_flags_contributions.
    destruct (contributions st1 n1 flags) as [maps|]; [|reflexivity].
    cbn [option_map fold_left]. rewrite merge_into_empty; [reflexivity|].
    eapply parse_json_inputs_nodup; eauto.
  - apply collect_flags_contributions.
Qed.

Lemma contributions_nodup : forall srcs st n maps,
  contributions st n srcs = Some maps -> Forall keys_nodup maps.
Proof.
  induction srcs as [|s rest IH]; intros st n maps H; cbn [contributions] in H.
  - inversion H; constructor.
  - destruct (parse_json_inputs st n s) as [[[m|] st1] n1] eqn:P; [|discriminate].
    destruct (contributions st1 n1 rest) as [ms|] eqn:C; [|discriminate].
    inversion H; subst. constructor; [eapply parse_json_inputs_nodup; eauto|eapply IH; eauto].
Qed.

(* the value of key k after merging: the LAST source that defines k wins *)
Definition last_def (maps : list (list (string * value))) (k : string) (init : option value)
  : option value :=
  fold_left (fun acc m => match rec_get m k with Some v => Some v | None => acc end) maps init.

Lemma rec_get_fold_merge : forall maps acc k,
  Forall keys_nodup maps ->
  rec_get (fold_left merge_into maps acc) k = last_def maps k (rec_get acc k).
Proof.
  unfold last_def. induction maps as [|m maps IH]; intros acc k H; cbn [fold_left]; [reflexivity|].
  inversion H; subst. rewrite IH by assumption. rewrite rec_get_merge_into by assumption. reflexivity.
Qed.

Lemma keys_fold_merge : forall maps acc,
  map fst (fold_left merge_into maps acc) =
  fold_left add_key (concat (map (map fst) maps)) (map fst acc).
Proof.
  induction maps as [|m maps IH]; intros acc; cbn [fold_left map concat]; [reflexivity|].
  rewrite IH, keys_merge_into, fold_left_app. reflexivity.
Qed.

(* MERGE LEFT TO RIGHT: the merged record is the left fold of the per-source maps (stdin's
   first); key k holds the value of the last source that defines it; keys appear in the order
   of their first appearance; reading fails exactly when some source is invalid JSON *)
Theorem merge_left_to_right : forall stdin flags,
  match contributions [] 0 (sources stdin flags) with
  | None => fst (read_inputs stdin flags) = None
  | Some maps =>
      exists M, fst (read_inputs stdin flags) = Some M /\
        M = fold_left merge_into maps [] /\
        (forall k, rec_get M k = last_def maps k None) /\
        map fst M = fold_left add_key (concat (map (map fst) maps)) [] /\
        NoDup (map fst M)
  end.
Proof.
  intros stdin flags. rewrite read_inputs_contributions.
  destruct (contributions [] 0 (sources stdin flags)) as [maps|] eqn:C; [|reflexivity].
  eexists. split; [reflexivity|]. split; [reflexivity|].
  pose proof (contributions_nodup _ _ _ _ C) as Hnd. repeat split.
  - intros k. rewrite rec_get_fold_merge by exact Hnd. reflexivity.
  - rewrite keys_fold_merge. reflexivity.
  - rewrite keys_fold_merge. apply fold_add_key_NoDup. constructor.
Qed.

Definition is_bad (s : input_src) : bool := match s with IBad => true | _ => false end.

Lemma option_map_none : forall A B (f : A -> B) o, option_map f o = None <-> o = None.
Proof. intros A B f [a|]; cbn; split; congruence. Qed.

Lemma contributions_none_iff_bad : forall srcs st n,
  contributions st n srcs = None <-> existsb is_bad srcs = true.
Proof.
  induction srcs as [|s rest IH]; intros st n; cbn [contributions existsb].
  - split; discriminate.
  - destruct s as [|es|sv]; cbn [parse_json_inputs is_bad orb].
    + tauto.
    + destruct (load_entries st [] es) as [m st1]. rewrite option_map_none. apply IH.
    + destruct (to_value st sv) as [[v|] st1]; rewrite option_map_none; apply IH.
Qed.

(* value_k numbering: the names given to the non-object sources, in order of appearance, are
   value_(n+1), value_(n+2), ... without gaps (a non-object source that does not load gets no
   name and does not consume a number) *)
Fixpoint unnamed_names (srcs : list input_src) (maps : list (list (string * value)))
  : list string :=
  match srcs, maps with
  | IVal _ :: srcs', m :: maps' => (map fst m ++ unnamed_names srcs' maps')%list
  | _ :: srcs', _ :: maps' => unnamed_names srcs' maps'
  | _, _ => []
  end.

Theorem value_k_numbering : forall srcs st n maps,
  contributions st n srcs = Some maps ->
  unnamed_names srcs maps = map value_key (seq (S n) (length (unnamed_names srcs maps))).
Proof.
  induction srcs as [|s rest IH]; intros st n maps H; cbn [contributions] in H.
  - inversion H; subst. reflexivity.
  - destruct s as [|es|sv]; cbn [parse_json_inputs] in H.
    + discriminate.
    + destruct (load_entries st [] es) as [m st1].
      destruct (contributions st1 n rest) as [ms|] eqn:C; [|discriminate].
      inversion H; subst. cbn [unnamed_names]. eapply IH; eauto.
    + destruct (to_value st sv) as [[v|] st1].
      * destruct (contributions st1 (S n) rest) as [ms|] eqn:C; [|discriminate].
        inversion H; subst. cbn [unnamed_names map fst app length seq].
        f_equal. eapply IH; eauto.
      * destruct (contributions st1 n rest) as [ms|] eqn:C; [|discriminate].
        inversion H; subst. cbn [unnamed_names map app]. eapply IH; eauto.
Qed.

Lemma read_inputs_fails_iff_bad : forall stdin flags,
  fst (read_inputs stdin flags) = None <-> existsb is_bad (sources stdin flags) = true.
Proof.
  intros stdin flags. rewrite read_inputs_contributions, option_map_none.
  apply contributions_none_iff_bad.
Qed.

(* `#n` at top level, after any part of the script has run: the field of the merged record *)
Section HashTop.
  Variable release : bool.
  Variable bi : callback -> binop -> value -> value -> store -> outcome value * store.
  Variable bu : callback -> builtin -> list value -> store -> outcome value * store.
  Variable d : nat.
  Notation ev := (evalD release bi bu d).

  Lemma hash_reads_merged_inputs : forall st inputs p n,
    let c := s_cfg (fst (run ev (cli_session st inputs) p)) in
    ev c (EInRef n) = (Ok (match rec_get inputs n with Some v => v | None => VNull end), c).
  Proof.
    intros st inputs p n. cbv zeta. apply hash_value. apply cli_inputs_constant.
  Qed.
End HashTop.

(* inputs are read before the script is looked at: an invalid source decides the outcome alone *)
Lemma bad_input_exits_1 : forall eval m of stdin flags prog,
  existsb is_bad (sources (stdin_for m stdin) flags) = true ->
  cli_run eval m of stdin flags prog = cli_fail 1.
Proof.
  intros eval m of stdin flags prog H. apply read_inputs_fails_iff_bad in H.
  unfold cli_run. fold (stdin_for m stdin).
  destruct (read_inputs (stdin_for m stdin) flags) as [[i|] st]; [discriminate|reflexivity].
Qed.

(* ---- loading does not depend on the heap: [loadable] decides to_value's success ---- *)
Fixpoint loadable (s : sval) : bool :=
  match s with
  | SList l => forallb loadable l
  | SRec r => forallb (fun kv => loadable (snd kv)) r
  | SLam _ None => false
  | SBuiltin None => false
  | _ => true
  end.

Section SvalInd.
  Variable P : sval -> Prop.
  Hypothesis Hnum : forall x, P (SNum x).
  Hypothesis Hbool : forall b, P (SBool b).
  Hypothesis Hnull : P SNull.
  Hypothesis Hstr : forall s, P (SStr s).
  Hypothesis Hlist : forall l, Forall P l -> P (SList l).
  Hypothesis Hrec : forall r, Forall (fun kv => P (snd kv)) r -> P (SRec r).
  Hypothesis Hlam : forall a b, P (SLam a b).
  Hypothesis Hbi : forall b, P (SBuiltin b).
  Fixpoint sval_ind' (s : sval) : P s :=
    match s with
    | SNum x => Hnum x
    | SBool b => Hbool b
    | SNull => Hnull
    | SStr x => Hstr x
    | SList l =>
        Hlist l ((fix go (l : list sval) : Forall P l :=
                    match l with
                    | [] => Forall_nil _
                    | x :: r => Forall_cons x (sval_ind' x) (go r)
                    end) l)
    | SRec r =>
        Hrec r ((fix go (r : list (string * sval)) : Forall (fun kv => P (snd kv)) r :=
                   match r with
                   | [] => Forall_nil _
                   | kv :: r' => Forall_cons kv (sval_ind' (snd kv)) (go r')
                   end) r)
    | SLam a b => Hlam a b
    | SBuiltin b => Hbi b
    end.
End SvalInd.

(* the two inner loops of to_value, named *)
Fixpoint tv_list (st : store) (l : list sval) {struct l} : option (list value) * store :=
  match l with
  | [] => (Some [], st)
  | x :: rest =>
      match to_value st x with
      | (Some v, st1) =>
          match tv_list st1 rest with
          | (Some vs, st2) => (Some (v :: vs), st2)
          | (None, st2) => (None, st2)
          end
      | (None, st1) => (None, st1)
      end
  end.
Fixpoint tv_rec (st : store) (acc : list (string * value)) (l : list (string * sval)) {struct l}
  : option (list (string * value)) * store :=
  match l with
  | [] => (Some acc, st)
  | (k, x) :: rest =>
      match to_value st x with
      | (Some v, st1) => tv_rec st1 (rec_insert acc k v) rest
      | (None, st1) => (None, st1)
      end
  end.
Lemma to_value_SList : forall st l,
  to_value st (SList l) = (option_map VList (fst (tv_list st l)), snd (tv_list st l)).
Proof. reflexivity. Qed.
Lemma to_value_SRec : forall st r,
  to_value st (SRec r) = (option_map VRec (fst (tv_rec st [] r)), snd (tv_rec st [] r)).
Proof. reflexivity. Qed.

Lemma to_value_loadable : forall s st,
  (exists v, fst (to_value st s) = Some v) <-> loadable s = true.
Proof.
  induction s using sval_ind'; intros st.
  - cbn; split; eauto.
  - cbn; split; eauto.
  - cbn; split; eauto.
  - cbn; split; eauto.
  - (* SList *)
    rewrite to_value_SList. cbn [loadable fst].
    assert (forall st, (exists vs, fst (tv_list st l) = Some vs) <-> forallb loadable l = true) as Hgo.
    { clear st. induction H as [|x l Hx Hl IH]; intros st; cbn [tv_list forallb].
      - cbn. split; eauto.
      - specialize (Hx st). destruct (to_value st x) as [[v|] st1]; cbn [fst] in Hx.
        + specialize (IH st1). destruct (tv_list st1 l) as [[vs|] st2]; cbn [fst] in *.
          * split; [intros _|eauto]. apply andb_true_iff. split; [apply Hx; eauto|apply IH; eauto].
          * split; [intros [vs Hv]; discriminate|]. intros Ha. apply andb_true_iff in Ha.
            destruct Ha as [_ Ha]. apply IH in Ha. destruct Ha as [vs Hv]. discriminate.
        + split; [intros [vs Hv]; discriminate|]. intros Ha. apply andb_true_iff in Ha.
          destruct Ha as [Ha _]. apply Hx in Ha. destruct Ha as [v Hv]. discriminate. }
    specialize (Hgo st). destruct (tv_list st l) as [[vs|] st2]; cbn [fst option_map] in *.
    + split; [intros _; apply Hgo; eauto|eauto].
    + split; [intros [v Hv]; discriminate|]. intros Ha. apply Hgo in Ha. destruct Ha as [vs Hv]. discriminate.
  - (* SRec *)
    rewrite to_value_SRec. cbn [loadable fst].
    assert (forall st acc, (exists m, fst (tv_rec st acc r) = Some m) <->
                           forallb (fun kv => loadable (snd kv)) r = true) as Hgo.
    { clear st. induction H as [|[k x] r Hx Hr IH]; intros st acc; cbn [tv_rec forallb snd].
      - cbn. split; eauto.
      - cbn [snd] in Hx. specialize (Hx st). destruct (to_value st x) as [[v|] st1]; cbn [fst] in Hx.
        + rewrite IH. split.
          * intros Ha. apply andb_true_iff. split; [apply Hx; eauto|exact Ha].
          * intros Ha. apply andb_true_iff in Ha. tauto.
        + split; [intros [m Hm]; discriminate|]. intros Ha. apply andb_true_iff in Ha.
          destruct Ha as [Ha _]. apply Hx in Ha. destruct Ha as [v Hv]. discriminate. }
    specialize (Hgo st []). destruct (tv_rec st [] r) as [[m|] st2]; cbn [fst option_map] in *.
    + split; [intros _; apply Hgo; eauto|eauto].
    + split; [intros [v Hv]; discriminate|]. intros Ha. apply Hgo in Ha. destruct Ha as [m Hm]. discriminate.
  - destruct b as [body|]; cbn.
    + split; eauto.
    + split; [intros [v Hv]; discriminate|discriminate].
  - destruct b as [b|]; cbn.
    + split; eauto.
    + split; [intros [v Hv]; discriminate|discriminate].
Qed.

Lemma to_value_not_loadable : forall s st, loadable s = false -> fst (to_value st s) = None.
Proof.
  intros s st H. destruct (fst (to_value st s)) as [v|] eqn:E; [|reflexivity].
  assert (loadable s = true) as Ht by (apply (to_value_loadable s st); eauto). congruence.
Qed.

(* an object contributes exactly its loadable entries: the others are dropped silently *)
Lemma load_entries_keys : forall es st acc,
  map fst (fst (load_entries st acc es)) =
  fold_left add_key (map fst (filter (fun kv => loadable (snd kv)) es)) (map fst acc).
Proof.
  induction es as [|[k sv] es IH]; intros st acc; cbn [load_entries filter snd]; [reflexivity|].
  destruct (loadable sv) eqn:L.
  - destruct (proj2 (to_value_loadable sv st) L) as [v Hv].
    destruct (to_value st sv) as [o st1]. cbn [fst] in Hv. subst o.
    rewrite IH, keys_insert. reflexivity.
  - pose proof (to_value_not_loadable sv st L) as Hn.
    destruct (to_value st sv) as [o st1]. cbn [fst] in Hn. subst o. apply IH.
Qed.

(* a non-object value is named iff it loads *)
Lemma parse_json_inputs_IVal : forall st n sv,
  fst (fst (parse_json_inputs st n (IVal sv))) <> None /\
  snd (parse_json_inputs st n (IVal sv)) = (if loadable sv then S n else n) /\
  option_map (map fst) (fst (fst (parse_json_inputs st n (IVal sv)))) =
    Some (if loadable sv then [value_key (S n)] else []).
Proof.
  intros st n sv. cbn [parse_json_inputs]. destruct (loadable sv) eqn:L.
  - destruct (proj2 (to_value_loadable sv st) L) as [v Hv].
    destruct (to_value st sv) as [o st1]. cbn [fst] in Hv. subst o. cbn. repeat split. discriminate.
  - pose proof (to_value_not_loadable sv st L) as Hn.
    destruct (to_value st sv) as [o st1]. cbn [fst] in Hn. subst o. cbn. repeat split. discriminate.
Qed.

(* ---- statements instantiated for the evaluator model (used verbatim by Properties/C19.v) ---- *)
Lemma evalD_hash_is_inputs_field : forall release bi bu d c n,
  evalD release bi bu d c (EInRef n) = evalD release bi bu d c (EDot (EId "inputs") n).
Proof. intros. apply hash_is_inputs_field. Qed.

Lemma evalD_hash_null_when_absent : forall release bi bu d c n r,
  lookup (snd c) "inputs" = Some (VRec r) -> rec_get r n = None ->
  evalD release bi bu d c (EInRef n) = (Ok VNull, c) /\
  evalD release bi bu d c (EDot (EId "inputs") n) = (Ok VNull, c).
Proof. intros. eapply hash_null_when_absent; eauto. Qed.

Lemma value_k_numbering_top : forall stdin flags maps,
  contributions [] 0 (sources stdin flags) = Some maps ->
  unnamed_names (sources stdin flags) maps =
  map value_key (seq 1 (length (unnamed_names (sources stdin flags) maps))).
Proof. intros stdin flags maps. exact (value_k_numbering _ [] 0 maps). Qed.

(* the keys statement at CLI level, for every evaluator and without side conditions *)
Theorem cli_outputs_keys : forall eval m of stdin flags p,
  cr_exit (cli_run eval m of stdin flags (Some p)) = Some 0 ->
  exists inputs st,
    read_inputs (stdin_for m stdin) flags = (Some inputs, st) /\
    let final := fst (run eval (cli_session st inputs) p) in
    one_object of (cli_run eval m of stdin flags (Some p)) (s_outputs final) /\
    map fst (s_outputs final) = fold_left add_key (decl_names p) [] /\
    NoDup (map fst (s_outputs final)).
Proof.
  intros eval m of stdin flags p H0.
  pose proof (proj1 (exit0_iff_all_ok eval m of stdin flags (Some p)) H0)
    as (Hm & inputs & st & q & R & Hq & Hall).
  inversion Hq; subst q. exists inputs, st. split; [exact R|]. cbv zeta.
  pose proof (outputs_keys_in_declaration_order eval p _ Hall) as Hkeys.
  cbn [cli_session s_outputs map] in Hkeys.
  repeat split.
  - unfold cli_run. fold (stdin_for m stdin). rewrite R.
    assert (run_script eval of (cli_session st inputs) p =
            cli_emit of (s_outputs (fst (run eval (cli_session st inputs) p)))) as E.
    { unfold run_script. pose proof (proj2 (run_first_stop eval p _) Hall) as F.
      destruct (run eval (cli_session st inputs) p) as [s rs]. cbn [fst snd] in *. rewrite F. reflexivity. }
    destruct m; try (exfalso; apply Hm; reflexivity); rewrite E; unfold cli_emit, one_object;
      destruct of; cbn; auto.
  - exact Hkeys.
  - rewrite Hkeys. apply fold_add_key_NoDup. constructor.
Qed.
