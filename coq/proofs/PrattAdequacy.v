(* PrattAdequacy.v — the relational transcription (Expr / Loop / ...) is sound for the fuelled
   function: whatever the relations derive, the function returns for every large enough fuel. *)
From Coq Require Import String List Bool Arith Lia.
Require Import Blots.Num Blots.gen.Builtins Blots.Ast Blots.Outcome Blots.PrattTypes Blots.Pratt.
Import ListNotations.
Local Open Scope nat_scope.
Local Open Scope list_scope.

(* f returns Ok v for every large enough fuel *)
Definition ev {A} (f : nat -> outcome A) (v : A) : Prop := exists n, forall m, n <= m -> f m = Ok v.

Lemma ev_S {A} (f F : nat -> outcome A) v : (forall m, f (S m) = F m) -> ev F v -> ev f v.
Proof.
  intros E [n H]. exists (S n). intros [|m] Hm; [lia|]. rewrite E. apply H. lia.
Qed.
Lemma ev_ext {A} (f g : nat -> outcome A) v : (forall m, f m = g m) -> ev g v -> ev f v.
Proof. intros E [n H]. exists n. intros m Hm. rewrite E. auto. Qed.
Lemma ev_const {A} (v : A) : ev (fun _ => Ok v) v.
Proof. exists 0. reflexivity. Qed.
Lemma ev_bind {A B} (g : nat -> outcome A) (h : nat -> A -> outcome B) a v :
  ev g a -> ev (fun m => h m a) v -> ev (fun m => obind (g m) (h m)) v.
Proof.
  intros [n1 H1] [n2 H2]. exists (n1 + n2). intros m Hm.
  rewrite H1 by lia. cbn. apply H2. lia.
Qed.

Section Adequacy.
  Variable tbl : ops_map.
  Variable imap : list (oprule * binop).
  Variable pmap : list (oprule * prefix_ctor).
  Notation pexpr' := (pexpr tbl imap pmap).
  Notation ploop' := (ploop tbl imap pmap).
  Notation mpost' := (map_postfix tbl imap pmap).
  Notation primary' := (primary tbl imap pmap).
  Notation parse' := (parse_items tbl imap pmap).

  Lemma item_op_none_primary : forall i, item_op i = None ->
    forall m rbp its,
      pexpr' (S m) rbp (i :: its) =
      obind (obind (primary' m i) (fun e => Ok (e, its))) (fun lr => ploop' m rbp (fst lr) (snd lr)).
  Proof. intros i H m rbp its. cbn. rewrite H. reflexivity. Qed.

  Lemma ploop_S : forall m rbp lhs its,
    ploop' (S m) rbp lhs its =
    obind (lbp tbl its) (fun l =>
      if Nat.ltb rbp l then
        match its with
        | [] => Panic
        | pr0 :: rest =>
            match item_op pr0 with
            | Some r =>
                match ops_get tbl r with
                | Some (Infix a, p) =>
                    obind (pexpr' m (match a with ALeft => p | ARight => p - 1 end) rest) (fun rr =>
                    obind (map_infix imap lhs r (fst rr)) (fun e => ploop' m rbp e (snd rr)))
                | Some (Postfix, _) => obind (mpost' m lhs pr0) (fun e => ploop' m rbp e rest)
                | _ => Panic
                end
            | None => Panic
            end
        end
      else Ok (lhs, its)).
  Proof. reflexivity. Qed.

  Lemma primary_ident : forall m s,
    primary' (S m) (IIdent s) =
    Ok (Some (match builtin_of_name s with Some b => EBuiltin b | None => EId s end)).
  Proof. reflexivity. Qed.

  Theorem rel_sound :
    (forall rbp its t rest, Expr tbl imap pmap rbp its t rest ->
        ev (fun m => pexpr' m rbp its) (Some t, rest)) /\
    (forall rbp lhs its t rest, Loop tbl imap pmap rbp lhs its t rest ->
        ev (fun m => ploop' m rbp (Some lhs) its) (Some t, rest)) /\
    (forall lhs i u, Post tbl imap pmap lhs i u -> ev (fun m => mpost' m (Some lhs) i) (Some u)) /\
    (forall i x, Prim tbl imap pmap i x -> ev (fun m => primary' m i) (Some x)) /\
    (forall its t, Items tbl imap pmap its t -> ev (fun m => parse' m its) (Some t)) /\
    (forall args es, Args tbl imap pmap args es -> ev (fun m => omapM (parse' m) args) (Some es)) /\
    (forall els es, LEls tbl imap pmap els es -> ev (fun m => list_loop (parse' m) els) (Some es)) /\
    (forall els es, REls tbl imap pmap els es -> ev (fun m => rec_loop (parse' m) els) (Some es)) /\
    (forall els stmts ret t, DEls tbl imap pmap els stmts ret t ->
        ev (fun m => do_loop (parse' m) els stmts ret) (Some t)).
  Proof.
    apply parse_rel_mutind.
    - (* E_prefix *)
      intros rbp i r p its x mid u t rest Hop Hops _ IH1 Hpre _ IH2.
      eapply ev_S; [intro m; cbn; rewrite Hop, Hops; reflexivity|].
      eapply ev_bind; [eapply ev_bind; [exact IH1|]; cbn; rewrite Hpre; cbn; apply ev_const|].
      exact IH2.
    - (* E_primary *)
      intros rbp i its x t rest Hop _ IH1 _ IH2.
      eapply ev_S; [intro m; apply item_op_none_primary; exact Hop|].
      eapply ev_bind; [eapply ev_bind; [exact IH1|]; apply ev_const|].
      exact IH2.
    - (* L_stop *)
      intros rbp lhs its l Hl Hle.
      assert (Hf : Nat.ltb rbp l = false) by (apply Nat.ltb_ge; exact Hle).
      eapply ev_S; [intro m; rewrite ploop_S, Hl; cbn [obind]; rewrite Hf; reflexivity|].
      apply ev_const.
    - (* L_infix *)
      intros rbp lhs i r a p its rhs mid u t rest Hop Hops Hlt _ IH1 Hin _ IH2.
      assert (Hf : Nat.ltb rbp p = true) by (apply Nat.ltb_lt; exact Hlt).
      eapply ev_S; [intro m; rewrite ploop_S; unfold lbp; rewrite Hop, Hops; cbn [obind];
                    rewrite Hf; reflexivity|].
      eapply ev_bind; [exact IH1|]. cbn. rewrite Hin. cbn. exact IH2.
    - (* L_postfix *)
      intros rbp lhs i r p its u t rest Hop Hops Hlt _ IH1 _ IH2.
      assert (Hf : Nat.ltb rbp p = true) by (apply Nat.ltb_lt; exact Hlt).
      eapply ev_S; [intro m; rewrite ploop_S; unfold lbp; rewrite Hop, Hops; cbn [obind];
                    rewrite Hf; reflexivity|].
      eapply ev_bind; [exact IH1|]. exact IH2.
    - (* Po_fact *) intros lhs. eapply ev_S; [intro m; reflexivity|]. apply ev_const.
    - (* Po_access *)
      intros lhs inner i _ IH. eapply ev_S; [intro m; reflexivity|].
      eapply ev_bind; [exact IH|]. apply ev_const.
    - (* Po_dot *) intros lhs f. eapply ev_S; [intro m; reflexivity|]. apply ev_const.
    - (* Po_call *)
      intros lhs args es _ IH. eapply ev_S; [intro m; reflexivity|].
      eapply ev_bind; [exact IH|]. apply ev_const.
    - intros x. eapply ev_S; [intro m; reflexivity|]. apply ev_const.
    - intros s. eapply ev_S; [intro m; reflexivity|]. apply ev_const.
    - intros b. eapply ev_S; [intro m; reflexivity|]. apply ev_const.
    - eapply ev_S; [intro m; reflexivity|]. apply ev_const.
    - intros s b H. eapply ev_S; [intro m; rewrite primary_ident, H; reflexivity|]. apply ev_const.
    - intros s H. eapply ev_S; [intro m; rewrite primary_ident, H; reflexivity|]. apply ev_const.
    - intros s. eapply ev_S; [intro m; reflexivity|]. apply ev_const.
    - (* P_expr *) intros b g t _ IH. eapply ev_S; [intro m; reflexivity|]. exact IH.
    - (* P_list *) intros els es _ IH. eapply ev_S; [intro m; reflexivity|].
      eapply ev_bind; [exact IH|]. apply ev_const.
    - (* P_rec *) intros els es _ IH. eapply ev_S; [intro m; reflexivity|].
      eapply ev_bind; [exact IH|]. apply ev_const.
    - (* P_lam *) intros args body b _ IH. eapply ev_S; [intro m; reflexivity|].
      eapply ev_bind; [exact IH|]. apply ev_const.
    - (* P_cond *) intros c t e c' t' e' _ IH1 _ IH2 _ IH3. eapply ev_S; [intro m; reflexivity|].
      eapply ev_bind; [exact IH1|]. cbn. eapply ev_bind; [exact IH2|]. cbn.
      eapply ev_bind; [exact IH3|]. apply ev_const.
    - (* P_do *) intros els t _ IH. eapply ev_S; [intro m; reflexivity|]. exact IH.
    - (* P_assign *) intros x v v' _ IH. eapply ev_S; [intro m; reflexivity|].
      eapply ev_bind; [exact IH|]. apply ev_const.
    - (* I_intro *) intros its t rest _ IH. eapply ev_S; [intro m; reflexivity|].
      eapply ev_bind; [exact IH|]. apply ev_const.
    - (* A_nil *) apply ev_const.
    - (* A_cons *) intros g e gs es _ IH1 _ IH2. cbn.
      eapply ev_bind; [exact IH1|]. cbn. eapply ev_bind; [exact IH2|]. apply ev_const.
    - (* LE_nil *) apply ev_const.
    - (* LE_com *) intros s els es _ IH. exact IH.
    - (* LE_item *) intros g eol e els es _ IH1 _ IH2. cbn.
      eapply ev_bind; [exact IH1|]. cbn. eapply ev_bind; [exact IH2|]. apply ev_const.
    - (* RE_nil *) apply ev_const.
    - (* RE_com *) intros s els es _ IH. exact IH.
    - (* RE_pair_id *) intros s v eol v' els es _ IH1 _ IH2. cbn.
      eapply ev_bind; [exact IH1|]. cbn. eapply ev_bind; [exact IH2|]. apply ev_const.
    - (* RE_pair_str *) intros s v eol v' els es _ IH1 _ IH2. cbn.
      eapply ev_bind; [exact IH1|]. cbn. eapply ev_bind; [exact IH2|]. apply ev_const.
    - (* RE_pair_dyn *) intros inner k v eol v' els es _ IH0 _ IH1 _ IH2. cbn.
      eapply ev_bind; [eapply ev_bind; [exact IH0|]; apply ev_const|]. cbn.
      eapply ev_bind; [exact IH1|]. cbn. eapply ev_bind; [exact IH2|]. apply ev_const.
    - (* RE_short *) intros s eol els es _ IH. cbn. eapply ev_bind; [exact IH|]. apply ev_const.
    - (* RE_spread *) intros g eol e els es _ IH1 _ IH2. cbn.
      eapply ev_bind; [exact IH1|]. cbn. eapply ev_bind; [exact IH2|]. apply ev_const.
    - (* DE_nil *) intros. apply ev_const.
    - (* DE_stmt *) intros g c e els stmts ret t _ IH1 _ IH2. cbn.
      eapply ev_bind; [exact IH1|]. exact IH2.
    - intros s c els stmts ret t _ IH. exact IH.
    - intros s els stmts ret t _ IH. exact IH.
    - (* DE_ret *) intros g e els stmts ret t _ IH1 _ IH2. cbn.
      eapply ev_bind; [exact IH1|]. exact IH2.
  Qed.

  Corollary items_sound : forall its t,
    Items tbl imap pmap its t -> exists n, forall m, n <= m -> parse' m its = Ok (Some t).
  Proof. intros its t H. exact (proj1 (proj2 (proj2 (proj2 (proj2 rel_sound)))) its t H). Qed.
End Adequacy.
