(* EmitNqSound.v — C05: the first-order emission equivalence with NaN and both-quote strings / keys
   INSIDE the captured data.  Section Sound below is proofs/EmitSound.v's simulation with the class of
   captured values widened from [emittable_gen] to [emittable_nq nanfix] (first-order; NaN allowed when
   the NaN literal is the repaired `(0/0)`; both-quote strings and keys allowed) and ONE more hypothesis
   on the operator implementation, [binop_lit_ok] (0/0 is NaN, string + string concatenates): the only
   place the class is used is "the literal of a captured value evaluates to the value, configuration
   unchanged" ([lit_roundtrip_nq] instead of [lit_roundtrip]).  Everything that does not mention the
   class (lf lemmas, bind_params lemmas, impl_lf_respecting, AD_lf) is imported from EmitSound.v. *)
From Coq Require Import String Ascii List ZArith Bool Lia.
Require Import Blots.Num Blots.gen.Builtins Blots.Ast Blots.Value Blots.Outcome Blots.Binop
               Blots.Env Blots.Eval Blots.Emit Blots.EmitNq Blots.proofs.ValueInd Blots.proofs.ExprInd
               Blots.proofs.EmitLit Blots.proofs.EmitSubst Blots.proofs.Closures
               Blots.proofs.EmitSound Blots.proofs.EmitNqLit.
Import ListNotations.
Open Scope list_scope.

Lemma emittable_nq_lf n v : emittable_nq n v = true -> lf v = true.
Proof. unfold emittable_nq. intros H. apply andb_prop in H as [H _]. now apply fo_lf. Qed.

Section Sound.
  Variable release : bool.
  Variable binop_impl : callback -> binop -> value -> value -> store -> outcome value * store.
  Variable apply : frames -> callback.
  Notation evalE := (evalE release binop_impl apply).

  Hypothesis Hbin_ext : forall cb cb' op l r st, cb_lf_equiv cb cb' -> cb_lf_closed cb ->
    lf l = true -> lf r = true ->
    binop_impl cb op l r st = binop_impl cb' op l r st.
  Hypothesis Hbin_lf : forall cb op l r st v st', cb_lf_closed cb -> lf l = true -> lf r = true ->
    binop_impl cb op l r st = (Ok v, st') -> lf v = true.
  Hypothesis Happ_ext : forall fr fr', cb_lf_equiv (apply fr) (apply fr').
  Hypothesis Happ_lf : forall fr, cb_lf_closed (apply fr).
  Hypothesis Hops : binop_lit_ok binop_impl.

  Variable nanfix : bool.
  Variable sv : list (string * value).                 (* the captured scope *)
  Hypothesis Hsv_emit : forallb (fun kv => emittable_nq nanfix (snd kv)) sv = true.
  Hypothesis Hsv_special : forall x, special_name x = true -> rec_get sv x = None.
  Variables R1 R2 : frames.                            (* the rest of the two environments *)
  Notation F1 L := (L ++ (FShared, sv) :: R1).
  Notation F2 L := (L ++ R2).
  Notation lit := (value_to_ast nanfix true).

  Lemma sv_get_emit x v : rec_get sv x = Some v -> emittable_nq nanfix v = true.
  Proof.
    clear Hsv_special. induction sv as [|[k w] s IH]; cbn in *; [discriminate|].
    apply andb_prop in Hsv_emit as [A B]. destruct (String.eqb x k); [intros E; now inversion E; subst|auto].
  Qed.

  (* The two runs use local frames L1 / L2 that agree on the names the body can mention
     ([bound]); names bound there are not inlined; on the other names of [bound] the inlining
     scope is the captured scope; names the evaluator never looks up are not inlined. *)
  Definition Inv (bound : list string) (L1 : frames) (m : smap) : Prop :=
    forall x, mem x bound = true ->
              match lookup L1 x with
              | Some _ => rec_get m x = None
              | None => rec_get m x = option_map lit (rec_get sv x)
              end.
  Definition msp (m : smap) : Prop :=
    (forall x, special_name x = true -> rec_get m x = None) /\
    (forall x a, rec_get m x = Some a -> exists v, a = lit v).
  Definition bound_ok (bound : list string) (L1 : frames) : Prop :=
    forall x, mem x bound = true ->
      (exists v, lookup L1 x = Some v /\ lf v = true) \/ (lookup L1 x = None /\ rec_get sv x <> None).
  Definition agree (bound : list string) (L1 L2 : frames) : Prop :=
    forall x v, mem x bound = true -> lookup L1 x = Some v -> lookup L2 x = Some v.
  Definition Env (bound : list string) (L1 L2 : frames) (m : smap) : Prop :=
    Inv bound L1 m /\ msp m /\ bound_ok bound L1 /\ agree bound L1 L2.

  Definition Sim (L1 L2 : frames) (st : store) (e : expr) (m : smap) : Prop :=
    exists r st', evalE (st, F1 L1) e = (r, (st', F1 L1)) /\
                  evalE (st, F2 L2) (subst true m e) = (r, (st', F2 L2)) /\
                  (forall v, r = Ok v -> lf v = true).
  Definition Q (e : expr) : Prop :=
    first_order_body e = true -> forall L1 L2 m bound st,
      Env bound L1 L2 m -> free_vars e bound = [] -> Sim L1 L2 st e m.
  Definition P (e : expr) : Prop := Q e /\ (forall x v, e = EAssign x v -> Q v).

  Lemma lookup_F1 L x : lookup (F1 L) x =
    match lookup L x with Some v => Some v | None =>
      match rec_get sv x with Some v => Some v | None => lookup R1 x end end.
  Proof. rewrite lookup_app. cbn. now rewrite lookup_frame_rec_get. Qed.

  (* an identifier (also used for record shorthand): what the original finds is what the
     inlined expression evaluates to *)
  Lemma ident_sim L1 L2 m bound x : Env bound L1 L2 m -> mem x bound = true ->
    exists v, lookup (F1 L1) x = Some v /\ lf v = true /\
      match rec_get m x with
      | Some a => a = lit v /\ emittable_nq nanfix v = true
      | None => lookup (F2 L2) x = Some v
      end.
  Proof.
    intros (HI & _ & HB & HA) Hm. specialize (HI x Hm).
    rewrite lookup_F1, lookup_app. destruct (HB x Hm) as [(v & EL & Hv)|[EL ES]].
    - rewrite (HA x v Hm EL). rewrite EL in *. exists v. rewrite HI. auto.
    - rewrite EL in *. destruct (rec_get sv x) eqn:E; [|congruence].
      exists v. rewrite HI. cbn. pose proof (sv_get_emit _ _ E). repeat split; auto.
      now apply (emittable_nq_lf nanfix).
  Qed.

  Ltac fin := eexists; eexists; split; [reflexivity|split; [reflexivity|]].

  Lemma Q_id x : Q (EId x).
  Proof.
    intros _ L1 L2 m bound st HE HFV. cbn [free_vars] in HFV.
    unfold Sim. cbn [subst].
    destruct (special_name x) eqn:Hsp.
    - (* never looked up, never inlined *)
      assert (Hm : rec_get m x = None) by (destruct HE as (_ & [Hs _] & _); exact (Hs x Hsp)).
      rewrite Hm. cbn [Eval.evalE]. unfold special_name in Hsp.
      destruct (String.eqb x "infinity" || String.eqb x "inf")%bool eqn:E1.
      + fin. intros v E; inversion E; reflexivity.
      + try rewrite E1 in Hsp. cbn [orb] in Hsp. rewrite Hsp. fin. intros v E; inversion E; reflexivity.
    - assert (Hmem : mem x bound = true).
      { unfold special_name in Hsp. destruct (mem x bound); [reflexivity|].
        cbn [orb] in HFV. rewrite Hsp in HFV. discriminate. }
      destruct (ident_sim L1 L2 m bound x HE Hmem) as (v & E1 & Hlf & Hm).
      unfold special_name in Hsp. apply orb_false_elim in Hsp as [Hsp E3].
      destruct (rec_get m x) eqn:Em.
      + destruct Hm as [-> Hem]. cbn [Eval.evalE snd fst]. rewrite Hsp, E3, E1.
        rewrite (lit_roundtrip_nq release binop_impl apply Hops nanfix true v Hem). cbn.
        fin. intros w E; inversion E; subst; exact Hlf.
      + cbn [Eval.evalE snd fst]. rewrite Hsp, E3, E1, Hm. cbn.
        fin. intros w E; inversion E; subst; exact Hlf.
  Qed.

  (* ---- lists of sub-expressions ---- *)
  Lemma evalCL_sim items : Forall (fun c => Q (cnode c)) items ->
    Forall (fun c => first_order_body (cnode c) = true) items ->
    forall L1 L2 m bound, Env bound L1 L2 m ->
    Forall (fun c => free_vars (cnode c) bound = []) items ->
    forall st, exists r st',
      evalCL evalE (st, F1 L1) items = (r, (st', F1 L1)) /\
      evalCL evalE (st, F2 L2) (subst_items m items) = (r, (st', F2 L2)) /\
      (forall vs, r = Ok vs -> lfs vs = true).
  Proof.
    intros HQ. induction HQ as [|[a n t] l Hn Hl IH]; intros Hf L1 L2 m bound HE HV st.
    - cbn. fin. intros vs E; inversion E; reflexivity.
    - pose proof (Forall_inv Hf) as Hf1. pose proof (Forall_inv_tail Hf) as Hf2.
      pose proof (Forall_inv HV) as HV1. pose proof (Forall_inv_tail HV) as HV2.
      cbn [cnode] in Hn, Hf1, HV1. cbn [evalCL subst_items].
      destruct (Hn Hf1 L1 L2 m bound st HE HV1) as (r & st1 & E1 & E2 & Hlf). rewrite E1, E2.
      destruct r as [v| | | |]; try (cbn [cast_fail]; fin; discriminate).
      destruct (IH Hf2 L1 L2 m bound HE HV2 st1) as (r2 & st2 & E3 & E4 & Hlf2). rewrite E3, E4.
      destruct r2 as [vs| | | |]; try (fin; discriminate).
      fin. intros ws E; inversion E; subst. cbn. rewrite (Hlf v eq_refl). exact (Hlf2 vs eq_refl).
  Qed.

  Lemma evalL_sim args : Forall Q args ->
    Forall (fun a => first_order_body a = true) args ->
    forall L1 L2 m bound, Env bound L1 L2 m ->
    Forall (fun a => free_vars a bound = []) args ->
    forall st, exists r st',
      evalL evalE (st, F1 L1) args = (r, (st', F1 L1)) /\
      evalL evalE (st, F2 L2) (subst_args m args) = (r, (st', F2 L2)) /\
      (forall vs, r = Ok vs -> lfs vs = true).
  Proof.
    intros HQ. induction HQ as [|n l Hn Hl IH]; intros Hf L1 L2 m bound HE HV st.
    - cbn. fin. intros vs E; inversion E; reflexivity.
    - pose proof (Forall_inv Hf) as Hf1. pose proof (Forall_inv_tail Hf) as Hf2.
      pose proof (Forall_inv HV) as HV1. pose proof (Forall_inv_tail HV) as HV2.
      cbn [evalL subst_args].
      destruct (Hn Hf1 L1 L2 m bound st HE HV1) as (r & st1 & E1 & E2 & Hlf). rewrite E1, E2.
      destruct r as [v| | | |]; try (cbn [cast_fail]; fin; discriminate).
      destruct (IH Hf2 L1 L2 m bound HE HV2 st1) as (r2 & st2 & E3 & E4 & Hlf2). rewrite E3, E4.
      destruct r2 as [vs| | | |]; try (fin; discriminate).
      fin. intros ws E; inversion E; subst. cbn. rewrite (Hlf v eq_refl). exact (Hlf2 vs eq_refl).
  Qed.

  Definition Qentry (c : commented rentry) : Prop :=
    match cnode c with
    | REntry k v => (match k with KDyn e | KSpread e => Q e | _ => True end) /\ Q v
    end.

  Lemma evalRec_sim es : Forall Qentry es ->
    Forall (fun c => match cnode c with REntry k v => fob_entry k v = true end) es ->
    forall L1 L2 m bound, Env bound L1 L2 m ->
    Forall (fun c => match cnode c with REntry k v => fv_entry bound k v = [] end) es ->
    forall acc st, forallb (fun kv => lf (snd kv)) acc = true ->
    exists r st',
      evalRecL evalE (st, F1 L1) acc es = (r, (st', F1 L1)) /\
      evalRecL evalE (st, F2 L2) acc (subst_entries m es) = (r, (st', F2 L2)) /\
      (forall v, r = Ok v -> lf v = true).
  Proof.
    intros HQ. induction HQ as [|[a [k v] t] l Hn Hl IH]; intros Hf L1 L2 m bound HE HV acc st Hacc.
    - cbn. fin. intros w E; inversion E; subst. exact Hacc.
    - pose proof (Forall_inv Hf) as Hf1. pose proof (Forall_inv_tail Hf) as Hf2.
      pose proof (Forall_inv HV) as HV1. pose proof (Forall_inv_tail HV) as HV2.
      unfold Qentry in Hn. cbn [cnode] in Hn, Hf1, HV1. destruct Hn as [Hk Hv].
      cbn [evalRecL subst_entries]. destruct k as [key|ke|x|se]; cbn [subst_entry fob_entry fv_entry] in *.
      + (* static key *)
        destruct (Hv Hf1 L1 L2 m bound st HE HV1) as (r & st1 & E1 & E2 & Hlf). rewrite E1, E2.
        destruct r as [w| | | |]; try (fin; discriminate).
        apply (IH Hf2 L1 L2 m bound HE HV2). apply lf_rec_insert; auto.
      + (* computed key *)
        apply andb_prop in Hf1 as [Fa Fb]. apply app_eq_nil in HV1 as [Va Vb].
        destruct (Hk Fa L1 L2 m bound st HE Va) as (r & st1 & E1 & E2 & Hlf). rewrite E1, E2.
        destruct r as [kv| | | |]; try (fin; discriminate).
        destruct (as_string kv) as [key| | | |]; try (cbn [cast_fail]; fin; discriminate).
        destruct (Hv Fb L1 L2 m bound st1 HE Vb) as (r2 & st2 & E3 & E4 & Hlf2). rewrite E3, E4.
        destruct r2 as [w| | | |]; try (fin; discriminate).
        apply (IH Hf2 L1 L2 m bound HE HV2). apply lf_rec_insert; auto.
      + (* shorthand: the variable is looked up / its literal is written *)
        assert (Hmem : mem x bound = true) by (destruct (mem x bound); [reflexivity|discriminate]).
        destruct (ident_sim L1 L2 m bound x HE Hmem) as (w & E1 & Hlfw & Hm).
        cbn [snd]. rewrite E1. destruct (rec_get m x) eqn:Em.
        * destruct Hm as [-> Hem]. cbn [evalRecL].
          rewrite (lit_roundtrip_nq release binop_impl apply Hops nanfix true w Hem).
          apply (IH Hf2 L1 L2 m bound HE HV2). apply lf_rec_insert; auto.
        * cbn [evalRecL snd]. rewrite Hm.
          apply (IH Hf2 L1 L2 m bound HE HV2). apply lf_rec_insert; auto.
      + (* spread *)
        destruct (Hk Hf1 L1 L2 m bound st HE HV1) as (r & st1 & E1 & E2 & Hlf). rewrite E1, E2.
        destruct r as [w| | | |]; try (fin; discriminate).
        apply (IH Hf2 L1 L2 m bound HE HV2). apply lf_rec_insert_all; auto.
        apply lf_record_spread_entries. auto.
  Qed.

  (* ---- do-blocks ---- *)
  Definition not_assign (e : expr) : bool := match e with EAssign _ _ => false | _ => true end.
  Definition fv_do (ret : expr) :=
    fix go (l : list (commented expr)) (bnd : list string) : list string :=
      match l with
      | [] => free_vars ret bnd
      | Cm _ s _ :: r =>
          match s with
          | EAssign x v => free_vars v bnd ++ go r (x :: bnd)
          | _ => free_vars s bnd ++ go r bnd
          end
      end.
  Definition fob_stmts :=
    fix go (l : list (commented expr)) : bool :=
      match l with
      | [] => true
      | Cm _ a _ :: r =>
          (match a with EAssign _ v => first_order_body v | _ => first_order_body a end) && go r
      end.
  Lemma fv_EDo stmts a ret t b : free_vars (EDo stmts (Cm a ret t)) b = fv_do ret stmts b.
  Proof. reflexivity. Qed.
  Lemma fob_EDo stmts a ret t :
    first_order_body (EDo stmts (Cm a ret t)) = fob_stmts stmts && first_order_body ret.
  Proof. reflexivity. Qed.
  Lemma na_do_step (ev : cfg -> expr -> result) c s : not_assign s = true -> do_step ev c s = ev c s.
  Proof. destruct s; try reflexivity; discriminate. Qed.
  Lemma na_step_map m s : not_assign s = true -> do_step_map true m s = m.
  Proof. destruct s; try reflexivity; discriminate. Qed.
  Lemma na_fv_do ret a s t l b : not_assign s = true ->
    fv_do ret (Cm a s t :: l) b = free_vars s b ++ fv_do ret l b.
  Proof. destruct s; try reflexivity; discriminate. Qed.
  Lemma na_fob a s t l : not_assign s = true ->
    fob_stmts (Cm a s t :: l) = first_order_body s && fob_stmts l.
  Proof. destruct s; try reflexivity; discriminate. Qed.
  Lemma assign_or_not s : (exists x v, s = EAssign x v) \/ not_assign s = true.
  Proof. destruct s; try (right; reflexivity). left; eauto. Qed.
  Lemma fob_not_assign e : first_order_body e = true -> not_assign e = true.
  Proof. destruct e; try reflexivity; discriminate. Qed.

  Lemma concat_ast_na l : forall acc, not_assign acc = true -> not_assign (concat_ast acc l) = true.
  Proof. induction l as [|p l IH]; intros acc H; cbn; [exact H|]. apply IH. reflexivity. Qed.
  Lemma lit_not_assign v : not_assign (lit v) = true.
  Proof.
    destruct v; try reflexivity.
    - cbn. unfold num_to_ast. destruct x as [[|]|[|]| |[|] ? ?]; cbn; try reflexivity; destruct nanfix; reflexivity.
    - cbn. unfold str_to_ast. destruct (both_quotes s); [|reflexivity].
      destruct (split_dq s ""); [reflexivity|]. apply concat_ast_na. reflexivity.
  Qed.
  Lemma subst_not_assign m e : msp m -> first_order_body e = true ->
    not_assign (subst true m e) = true.
  Proof.
    intros [_ Hm] Hf. destruct e; try reflexivity; try discriminate.
    - cbn. destruct (rec_get m x) eqn:E; [|reflexivity].
      destruct (Hm x e E) as [v ->]. apply lit_not_assign.
    - cbn. destruct ret. reflexivity.
  Qed.
  Lemma name_lf n0 st v x : lf v = true -> name_if_created n0 st v x = st.
  Proof. destruct v; try reflexivity; discriminate. Qed.

  Definition do_body (c : cfg) (stmts : list (commented expr)) (ret : expr) : result :=
    match evalDoL evalE c stmts with
    | (Ok _, c1) => do_step evalE c1 ret
    | (o, c1) => (cast_fail o, c1)
    end.

  Lemma msp_remove m x : msp m -> msp (smap_remove m x).
  Proof.
    intros [A B]. split.
    - intros y Hy. rewrite rec_get_remove. destruct (String.eqb y x); auto.
    - intros y a. rewrite rec_get_remove. destruct (String.eqb y x); [discriminate|apply B].
  Qed.
  Lemma Env_bind bound f1 f2 L1 L2 m x v : lf v = true ->
    Env bound ((FOwned, f1) :: L1) ((FOwned, f2) :: L2) m ->
    Env (x :: bound) ((FOwned, (x, v) :: f1) :: L1) ((FOwned, (x, v) :: f2) :: L2) (smap_remove m x).
  Proof.
    intros Hv (HI & Hm & HB & HA). repeat split.
    - intros y Hy. rewrite rec_get_remove. cbn [lookup lookup_frame].
      destruct (String.eqb y x) eqn:E; [reflexivity|].
      cbn [mem existsb] in Hy. rewrite E in Hy. exact (HI y Hy).
    - apply (msp_remove m x Hm).
    - apply (msp_remove m x Hm).
    - intros y Hy. cbn [lookup lookup_frame]. destruct (String.eqb y x) eqn:E.
      + left. exists v. auto.
      + cbn [mem existsb] in Hy. rewrite E in Hy. exact (HB y Hy).
    - intros y u Hy. cbn [lookup lookup_frame]. destruct (String.eqb y x) eqn:E; [auto|].
      cbn [mem existsb] in Hy. rewrite E in Hy. exact (HA y u Hy).
  Qed.

  Lemma do_sim stmts : Forall (fun c => P (cnode c)) stmts ->
    forall ret, Q ret -> first_order_body ret = true -> fob_stmts stmts = true ->
    forall f1 f2 L1 L2 m bound st, Env bound ((FOwned, f1) :: L1) ((FOwned, f2) :: L2) m ->
      fv_do ret stmts bound = [] ->
      exists r st' f1' f2',
        do_body (st, (FOwned, f1) :: F1 L1) stmts ret = (r, (st', (FOwned, f1') :: F1 L1)) /\
        do_body (st, (FOwned, f2) :: F2 L2) (subst_stmts stmts m)
                (subst true (do_final_map true m stmts) ret) = (r, (st', (FOwned, f2') :: F2 L2)) /\
        (forall v, r = Ok v -> lf v = true).
  Proof.
    intros HP. induction HP as [|[a s t] l Hs Hl IH]; intros ret HQr Hfr Hfs f1 f2 L1 L2 m bound st HE HV.
    - cbn [fv_do] in HV. unfold do_body. cbn [evalDoL subst_stmts do_final_map].
      rewrite na_do_step by (now apply fob_not_assign).
      rewrite na_do_step by (apply subst_not_assign; [apply HE|exact Hfr]).
      destruct (HQr Hfr _ _ m bound st HE HV) as (r & st1 & E1 & E2 & Hlf).
      cbn [app] in E1, E2. rewrite E1, E2. exists r, st1, f1, f2. auto.
    - cbn [cnode] in Hs. destruct Hs as [HQs HAs].
      destruct (assign_or_not s) as [(x & v & ->)|Hna].
      + (* x = v : binds x in the block frame; x is no longer inlined *)
        cbn [fob_stmts] in Hfs. apply andb_prop in Hfs as [Hf1 Hf2].
        cbn [fv_do] in HV. apply app_eq_nil in HV as [HV1 HV2].
        unfold do_body. cbn [evalDoL subst_stmts do_final_map do_step_map subst do_step].
        destruct (mem x do_assign_keywords).
        { cbn [cast_fail]. exists Err, st, f1, f2. repeat split; discriminate. }
        unfold assign_value.
        destruct (HAs x v eq_refl Hf1 _ _ m bound st HE HV1) as (r & st1 & E1 & E2 & Hlf).
        cbn [app] in E1, E2. rewrite E1, E2.
        destruct r as [w| | | |];
          try (cbn [cast_fail]; eexists _, st1, f1, f2; repeat split; discriminate).
        unfold bind_value. cbn [snd fst insert_head]. rewrite (name_lf _ st1 w x (Hlf w eq_refl)).
        destruct (IH ret HQr Hfr Hf2 ((x, w) :: f1) ((x, w) :: f2) L1 L2 (smap_remove m x) (x :: bound) st1
                     (Env_bind bound f1 f2 L1 L2 m x w (Hlf w eq_refl) HE) HV2)
          as (r & st2 & g1 & g2 & E3 & E4 & Hlf2).
        unfold do_body in E3, E4. exists r, st2, g1, g2. auto.
      + rewrite (na_fob a s t l Hna) in Hfs. apply andb_prop in Hfs as [Hf1 Hf2].
        rewrite (na_fv_do ret a s t l bound Hna) in HV. apply app_eq_nil in HV as [HV1 HV2].
        unfold do_body. cbn [evalDoL subst_stmts do_final_map]. rewrite (na_step_map m s Hna).
        rewrite na_do_step by exact Hna.
        rewrite na_do_step by (apply subst_not_assign; [apply HE|exact Hf1]).
        destruct (HQs Hf1 _ _ m bound st HE HV1) as (r & st1 & E1 & E2 & Hlf).
        cbn [app] in E1, E2. rewrite E1, E2.
        destruct r as [w| | | |];
          try (cbn [cast_fail]; eexists _, st1, f1, f2; repeat split; discriminate).
        destruct (IH ret HQr Hfr Hf2 f1 f2 L1 L2 m bound st1 HE HV2) as (r & st2 & g1 & g2 & E3 & E4 & Hlf2).
        unfold do_body in E3, E4. exists r, st2, g1, g2. auto.
  Qed.

  Lemma evalE_EDo c stmts a ret t :
    evalE c (EDo stmts (Cm a ret t)) =
    (fst (do_body (fst c, (FOwned, []) :: snd c) stmts ret),
     (fst (snd (do_body (fst c, (FOwned, []) :: snd c) stmts ret)), snd c)).
  Proof. reflexivity. Qed.
  Lemma pair_proj {A B C} (x : A * (B * C)) (a : A) (b : B) (c d : C) :
    x = (a, (b, c)) -> (fst x, (fst (snd x), d)) = (a, (b, d)).
  Proof. intros ->. reflexivity. Qed.
  Lemma Env_push bound L1 L2 m : Env bound L1 L2 m ->
    Env bound ((FOwned, []) :: L1) ((FOwned, []) :: L2) m.
  Proof. intros (HI & Hm & HB & HA). repeat split; try apply Hm; [intros x Hx; exact (HI x Hx)|intros x Hx; exact (HB x Hx)|intros x v Hx; exact (HA x v Hx)]. Qed.

  Ltac failcase := try (cbn [cast_fail]; fin; discriminate).

  Theorem sim_all : forall e, P e.
  Proof.
    induction e using expr_ind'; (split; [|intros x0 v0 Heq; try discriminate]).
    - intros _ L1 L2 m bound st _ _. cbn. fin. intros v E; inversion E; reflexivity.
    - intros _ L1 L2 m bound st _ _. cbn. fin. intros v E; inversion E; reflexivity.
    - intros _ L1 L2 m bound st _ _. cbn. fin. intros v E; inversion E; reflexivity.
    - intros _ L1 L2 m bound st _ _. cbn. fin. intros v E; inversion E; reflexivity.
    - apply Q_id.
    - intros Hf; discriminate.
    - intros _ L1 L2 m bound st _ _. cbn. fin. intros v E; inversion E; reflexivity.
    - (* list *)
      intros Hf L1 L2 m bound st HE HV. unfold Sim. rewrite subst_EList. cbn [Eval.evalE].
      assert (HQ : Forall (fun c => Q (cnode c)) items).
      { eapply Forall_impl; [|exact H]. intros c Hc. exact (proj1 Hc). }
      destruct (evalCL_sim items HQ (fob_EList items Hf) L1 L2 m bound HE (fv_EList items bound HV) st)
        as (r & st1 & E1 & E2 & Hlf).
      rewrite E1, E2. cbn [fst snd]. fin.
      intros v E. destruct r; cbn in E; inversion E; subst. rewrite lf_list. apply lfs_flatten. auto.
    - (* record *)
      intros Hf L1 L2 m bound st HE HV. unfold Sim. rewrite subst_ERec. cbn [Eval.evalE].
      assert (HQ : Forall Qentry entries).
      { eapply Forall_impl; [|exact H]. intros [a [k v] t] Hc. unfold Qentry. cbn in *.
        destruct Hc as [Hk Hv]. split; [|exact (proj1 Hv)]. destruct k; auto; exact (proj1 Hk). }
      apply (evalRec_sim entries HQ (fob_ERec entries Hf) L1 L2 m bound HE (fv_ERec entries bound HV)).
      reflexivity.
    - intros Hf; discriminate.
    - (* conditional *)
      intros Hf L1 L2 m bound st HE HV. cbn [first_order_body] in Hf. cbn [free_vars] in HV.
      apply andb_prop in Hf as [Hf Hf3]. apply andb_prop in Hf as [Hf1 Hf2].
      apply app_eq_nil in HV as [HV1 HV]. apply app_eq_nil in HV as [HV2 HV3].
      unfold Sim. cbn [subst Eval.evalE].
      destruct (proj1 IHe1 Hf1 L1 L2 m bound st HE HV1) as (r & st1 & E1 & E2 & Hlf). rewrite E1, E2.
      destruct r as [cv| | | |]; try (fin; discriminate).
      destruct (as_bool cv) as [[|]| | | |]; failcase.
      + apply (proj1 IHe2 Hf2 L1 L2 m bound st1 HE HV2).
      + apply (proj1 IHe3 Hf3 L1 L2 m bound st1 HE HV3).
    - (* do-block *)
      intros Hf L1 L2 m bound st HE HV. destruct ret as [rl ret rt]. cbn [cnode] in IHe.
      rewrite fob_EDo in Hf. apply andb_prop in Hf as [Hfs Hfr]. rewrite fv_EDo in HV.
      unfold Sim. rewrite subst_EDo. rewrite !evalE_EDo. cbn [fst snd].
      destruct (do_sim stmts H ret (proj1 IHe) Hfr Hfs [] [] L1 L2 m bound st (Env_push bound L1 L2 m HE) HV)
        as (r & st1 & f1 & f2 & E1 & E2 & Hlf).
      exists r, st1. split; [exact (pair_proj _ _ _ _ _ E1)|split; [exact (pair_proj _ _ _ _ _ E2)|exact Hlf]].
    - intros Hf; discriminate.
    - inversion Heq; subst. exact (proj1 IHe).
    - intros Hf; discriminate.
    - (* call *)
      intros Hf L1 L2 m bound st HE HV. unfold Sim. rewrite subst_ECall. cbn [Eval.evalE].
      destruct (fob_args _ _ Hf) as [Hff Hfa]. destruct (fv_args _ _ _ HV) as [HVf HVa].
      destruct (proj1 IHe Hff L1 L2 m bound st HE HVf) as (r & st1 & E1 & E2 & Hlf). rewrite E1, E2.
      destruct r as [fv| | | |]; try (fin; discriminate).
      assert (HQ : Forall Q args) by (eapply Forall_impl; [|exact H]; intros c Hc; exact (proj1 Hc)).
      destruct (evalL_sim args HQ Hfa L1 L2 m bound HE HVa st1) as (r2 & st2 & E3 & E4 & Hlf2).
      rewrite E3, E4. destruct r2 as [raw| | | |]; failcase.
      destruct (negb (is_function fv)); [fin; discriminate|].
      pose proof (Hlf fv eq_refl) as Hfv. pose proof (lfs_flatten raw (Hlf2 raw eq_refl)) as Hargs.
      rewrite (Happ_ext (F1 L1) (F2 L2) fv fv (flatten_spreads raw) st2 Hfv Hfv Hargs).
      destruct (apply (F2 L2) fv fv (flatten_spreads raw) st2) as [res st3] eqn:EA.
      fin. intros v E; subst. eapply (Happ_lf (F2 L2)); eauto.
    - (* index *)
      intros Hf L1 L2 m bound st HE HV. cbn [first_order_body] in Hf. cbn [free_vars] in HV.
      apply andb_prop in Hf as [Hf1 Hf2]. apply app_eq_nil in HV as [HV1 HV2].
      unfold Sim. cbn [subst Eval.evalE].
      destruct (proj1 IHe1 Hf1 L1 L2 m bound st HE HV1) as (r & st1 & E1 & E2 & Hlf). rewrite E1, E2.
      destruct r as [v| | | |]; try (fin; discriminate).
      destruct (proj1 IHe2 Hf2 L1 L2 m bound st1 HE HV2) as (r2 & st2 & E3 & E4 & Hlf2). rewrite E3, E4.
      destruct r2 as [i| | | |]; try (fin; discriminate).
      fin. intros w E. eapply lf_access_val; eauto.
    - (* field *)
      intros Hf L1 L2 m bound st HE HV. cbn [first_order_body] in Hf. cbn [free_vars] in HV.
      unfold Sim. cbn [subst Eval.evalE].
      destruct (proj1 IHe Hf L1 L2 m bound st HE HV) as (r & st1 & E1 & E2 & Hlf). rewrite E1, E2.
      destruct r as [v| | | |]; try (fin; discriminate).
      fin. intros w E. eapply lf_dot_val; eauto.
    - (* binary operator *)
      intros Hf L1 L2 m bound st HE HV. cbn [first_order_body] in Hf. cbn [free_vars] in HV.
      apply andb_prop in Hf as [Hf1 Hf2]. apply app_eq_nil in HV as [HV1 HV2].
      unfold Sim. cbn [subst Eval.evalE].
      destruct (proj1 IHe1 Hf1 L1 L2 m bound st HE HV1) as (r & st1 & E1 & E2 & Hlf). rewrite E1, E2.
      destruct r as [lv| | | |]; try (fin; discriminate).
      destruct (proj1 IHe2 Hf2 L1 L2 m bound st1 HE HV2) as (r2 & st2 & E3 & E4 & Hlf2). rewrite E3, E4.
      destruct r2 as [rv| | | |]; try (fin; discriminate).
      rewrite (Hbin_ext (apply (F1 L1)) (apply (F2 L2)) op lv rv st2 (Happ_ext _ _) (Happ_lf _) (Hlf lv eq_refl) (Hlf2 rv eq_refl)).
      destruct (binop_impl (apply (F2 L2)) op lv rv st2) as [res st3] eqn:EB.
      fin. intros v E; subst. exact (Hbin_lf (apply (F2 L2)) op lv rv st2 v st3 (Happ_lf _) (Hlf lv eq_refl) (Hlf2 rv eq_refl) EB).
    - (* unary operator *)
      intros Hf L1 L2 m bound st HE HV. cbn [first_order_body] in Hf. cbn [free_vars] in HV.
      unfold Sim. cbn [subst Eval.evalE].
      destruct (proj1 IHe Hf L1 L2 m bound st HE HV) as (r & st1 & E1 & E2 & Hlf). rewrite E1, E2.
      destruct r as [v| | | |]; try (fin; discriminate).
      fin. intros w E. destruct op; [destruct (as_number v)|destruct (as_bool v)|destruct (as_bool v)];
        cbn in E; inversion E; reflexivity.
    - (* factorial *)
      intros Hf L1 L2 m bound st HE HV. cbn [first_order_body] in Hf. cbn [free_vars] in HV.
      unfold Sim. cbn [subst Eval.evalE].
      destruct (proj1 IHe Hf L1 L2 m bound st HE HV) as (r & st1 & E1 & E2 & Hlf). rewrite E1, E2.
      destruct r as [v| | | |]; try (fin; discriminate).
      fin. intros w E. destruct (as_number v); cbn in E; try discriminate. eapply lf_factorial; eauto.
    - (* spread *)
      intros Hf L1 L2 m bound st HE HV. cbn [first_order_body] in Hf. cbn [free_vars] in HV.
      unfold Sim. cbn [subst Eval.evalE].
      destruct (proj1 IHe Hf L1 L2 m bound st HE HV) as (r & st1 & E1 & E2 & Hlf). rewrite E1, E2.
      destruct r as [v| | | |]; try (fin; discriminate).
      fin. intros w E. eapply lf_spread_val; eauto.
  Qed.
End Sound.

(* ------------------------------------------------------------------ the evaluator at depth d *)
Section Top.
  Variable release : bool.
  Variable binop_impl : callback -> binop -> value -> value -> store -> outcome value * store.
  Variable builtin_impl : callback -> builtin -> list value -> store -> outcome value * store.
  Notation AD := (AD release binop_impl builtin_impl).
  Hypothesis Himpl : impl_lf_respecting binop_impl builtin_impl.
  Hypothesis Hops : binop_lit_ok binop_impl.

  (* P2, first-order part: a call of the original closure and a call of the reloaded emission
     give the same outcome and the same store — at every depth, from any two call sites *)
  Theorem emit_equiv_first_order_nq : forall nanfix d fr fr' this this' id id' params body sv args st,
    first_order_body body = true ->
    free_vars body (map arg_name params ++ map fst sv) = [] ->
    forallb (fun kv => emittable_nq nanfix (snd kv)) sv = true ->
    (forall x, special_name x = true -> rec_get sv x = None) ->
    (forall x, In x (map arg_name params) -> rec_get sv x = None) ->
    rec_get sv "inputs"%string = None ->
    (forall n, lam_name st id = Some n -> rec_get sv n = None) ->
    lfs args = true ->
    AD d fr this (VLam id params body sv) args st =
    AD d fr' this' (VLam id' params (subst true (scope_map nanfix true sv) body) []) args st.
  Proof.
    intros nanfix d fr fr' this this' id id' params body sv args st
           Hfob Hfv Hem Hsp Hpar Hinp Hself Hargs.
    destruct d as [|d']; [reflexivity|].
    cbn [Eval.AD]. unfold apply_at. cbn [check_arity accepts fn_arity].
    destruct (negb (can_accept (lambda_arity params) (Datatypes.length args))); [reflexivity|].
    cbn [call_passed].
    (* the self reference is installed on both sides: the original's name is not captured (Hself),
       the reloaded function captures nothing *)
    assert (Hs1 : match lam_name st id with
                  | Some n => match lookup_frame sv n with Some _ => [] | None => [(n, this)] end
                  | None => []
                  end = match lam_name st id with Some n => [(n, this)] | None => [] end).
    { destruct (lam_name st id) as [n0|] eqn:En; [|reflexivity].
      rewrite lookup_frame_rec_get, (Hself n0 eq_refl). reflexivity. }
    rewrite Hs1.
    (* F9 repaired: `inputs` is not captured (Hinp), so the caller's `inputs` is copied on both sides *)
    rewrite (lookup_frame_rec_get sv "inputs"), Hinp. cbn [lookup_frame].
    set (acc := (match lookup fr "inputs" with Some i => [("inputs"%string, i)] | None => [] end ++
                 match lam_name st id with Some n => [(n, this)] | None => [] end)).
    set (acc' := (match lookup fr' "inputs" with Some i => [("inputs"%string, i)] | None => [] end ++
                  match lam_name st id' with Some n => [(n, this')] | None => [] end)).
    destruct (bind_params params 0 args acc) as [local|] eqn:EB.
    2:{ apply (bind_params_none_iff params 0 args acc acc') in EB. rewrite EB. reflexivity. }
    destruct (bind_params params 0 args acc') as [local'|] eqn:EB'.
    2:{ apply (bind_params_none_iff params 0 args acc' acc) in EB'. congruence. }
    destruct Himpl as (Hb1 & Hb2 & _ & _).
    destruct (AD_lf release binop_impl builtin_impl Himpl d') as [Hae Hac].
    (* names of the local frame that are not parameters are not captured *)
    assert (Hacc : forall x, rec_get sv x <> None -> lookup_frame acc x = None).
    { intros x Hx. unfold acc. destruct (lookup fr "inputs"); destruct (lam_name st id) eqn:En; cbn;
        repeat match goal with |- context [String.eqb x ?y] => destruct (String.eqb_spec x y); subst end;
        try reflexivity; try congruence; exfalso; apply Hx; auto. }
    set (bound := (map arg_name params ++ map fst sv)%list).
    change (free_vars body bound = []) in Hfv.
    assert (Hbound : forall x, mem x bound = true -> In x (map arg_name params) \/ rec_get sv x <> None).
    { intros x Hx. unfold bound, mem in Hx. rewrite existsb_app in Hx. apply orb_prop in Hx as [Hx|Hx].
      - left. apply existsb_exists in Hx as (y & Hy & E). apply String.eqb_eq in E. now subst.
      - right. apply existsb_exists in Hx as (y & Hy & E). apply String.eqb_eq in E. subst y.
        intros Hn. apply rec_get_None_notin in Hn. contradiction. }
    assert (HE : Env nanfix sv bound [(FOwned, local)] [(FOwned, local')] (scope_map nanfix true sv)).
    { repeat split.
      - intros x Hx. rewrite scope_map_get. cbn [lookup].
        destruct (Hbound x Hx) as [Hin|Hsv].
        + destruct (bind_params_good params 0 args acc acc' local local' Hargs EB EB' x (or_introl Hin))
            as (v & E1 & _ & _). rewrite E1. rewrite (Hpar x Hin). reflexivity.
        + destruct (lookup_frame local x) eqn:EL; [|reflexivity].
          assert (Hnp : ~ In x (map arg_name params)) by (intros Hin; apply Hsv; auto).
          rewrite (bind_params_keeps params 0 args acc local x EB Hnp), (Hacc x Hsv) in EL. discriminate.
      - intros x Hx. rewrite scope_map_get, (Hsp x Hx). reflexivity.
      - intros x a. rewrite scope_map_get. destruct (rec_get sv x); cbn; [|discriminate].
        intros E; inversion E. eauto.
      - intros x Hx. cbn [lookup]. destruct (Hbound x Hx) as [Hin|Hsv].
        + destruct (bind_params_good params 0 args acc acc' local local' Hargs EB EB' x (or_introl Hin))
            as (v & E1 & _ & Hv). left. exists v. rewrite E1. auto.
        + destruct (in_dec string_dec x (map arg_name params)) as [Hin|Hnp].
          * destruct (bind_params_good params 0 args acc acc' local local' Hargs EB EB' x (or_introl Hin))
              as (v & E1 & _ & Hv). left. exists v. rewrite E1. auto.
          * right. rewrite (bind_params_keeps params 0 args acc local x EB Hnp), (Hacc x Hsv). auto.
      - intros x v Hx. cbn [lookup]. destruct (lookup_frame local x) eqn:EL; [|discriminate].
        intros E; inversion E; subst v0.
        destruct (in_dec string_dec x (map arg_name params)) as [Hin|Hnp].
        + destruct (bind_params_good params 0 args acc acc' local local' Hargs EB EB' x (or_introl Hin))
            as (w & E1 & E2 & _). rewrite E2. congruence.
        + destruct (Hbound x Hx) as [Hin|Hsv]; [contradiction|].
          rewrite (bind_params_keeps params 0 args acc local x EB Hnp), (Hacc x Hsv) in EL. discriminate. }
    pose proof (fun R1 R2 => proj1 (sim_all release binop_impl (AD d') Hb1 Hb2 Hae Hac Hops nanfix sv Hem R1 R2 body)) as HQ.
    unfold Q in HQ.
    assert (HEsame : Env nanfix sv bound [(FOwned, local)] [(FOwned, local)] (scope_map nanfix true sv)).
    { destruct HE as (A & B & C & D). repeat split; try apply B; auto. intros x v _ E; exact E. }
    destruct sv as [|kv0 sv0] eqn:Esv.
    - (* nothing captured: no shared frame; the inlined body is the body *)
      cbn [scope_map map] in *. rewrite subst_nil.
      destruct (HQ fr fr Hfob _ _ _ bound st HEsame Hfv) as (r & st1 & E1 & E2 & _).
      destruct (HQ fr fr' Hfob _ _ _ bound st HE Hfv) as (r' & st1' & E1' & E2' & _).
      rewrite subst_nil in E2, E2'. cbn [app] in *. rewrite E2, E2'. congruence.
    - rewrite <- Esv in *.
      destruct (HQ fr fr' Hfob _ _ _ bound st HE Hfv) as (r & st1 & E1 & E2 & _).
      cbn [app] in E1, E2. rewrite Esv in E1 at 2. rewrite E1, E2. reflexivity.
  Qed.
End Top.

(* ------------------------------------------------------------------ instances: the transcribed evaluator *)
Require Import Blots.EvalInst Blots.EvalFull Blots.EvalAll Blots.proofs.LfInst Blots.proofs.AllLf.

Definition emit_equiv_first_order_nq_evaluator (release : bool) :=
  emit_equiv_first_order_nq release binop_impl builtin_impl impl_lf_respecting_inst binop_lit_ok_inst.
Definition emit_equiv_first_order_nq_all (o : oracle) (release : bool) :=
  emit_equiv_first_order_nq release (binop_all o) (builtin_all o) (impl_lf_respecting_all o) (binop_lit_ok_all o).
