(* EmitNqHO.v — copy of EmitHO.v with [emit_ok] widened to NaN (under nanfix) and both-quote strings / keys
   (builder xc05nan; see notes/ext-c05nan.md).  Original header:
   C05, layer P2 for HIGHER-ORDER captured values: the value relation "v' is v after
   emit + reload" and its basic properties.

   [vrel v v'] : data equal; a closure  VLam _ ps b sc  related to  VLam _ ps (subst m b) sc'  where
   the inlining map m replaces some captured names by the literal text of their values (which are
   themselves emittable: [emit_ok]) and the other captured names are captured on the right as well,
   with related values.  The reloaded emission is the instance m = scope_map sc, sc' = [];
   closures created while a reloaded body runs are the instances in between.  The relation does
   not mention the store: function names and heap positions are not observable by bodies that are
   closed after capture ([hob] + the free-variable condition).

   Knobs of the development (Section variables): which operators / built-ins a body may
   mention ([opok], [biok]) — the instantiations (EmitNqHOOps.v) choose them. *)
From Coq Require Import String Ascii List ZArith Bool Lia.
Require Import Blots.Num Blots.gen.Builtins Blots.Ast Blots.Value Blots.Outcome Blots.Binop
               Blots.Env Blots.Eval Blots.Emit Blots.proofs.ValueInd Blots.proofs.ExprInd
               Blots.proofs.EmitLit Blots.proofs.EmitSubst Blots.proofs.EmitClosed
               Blots.proofs.FreeVars Blots.proofs.EmitSound.
Import ListNotations.
Open Scope string_scope.
Open Scope list_scope.

(* identifiers a portable body may mention: not spelled like a built-in (the parser never produces
   such an identifier; `capture` skips them) and not `inputs` (FunctionDef::call rebinds it at
   every call site: finding F9 of C04) *)
Definition idok (x : string) : bool := negb (is_builtin_name x) && negb (String.eqb x "inputs").

Definition scope_names_ok (ps : list string) (names : list string) : bool :=
  forallb (fun x => negb (special_name x) && negb (String.eqb x "inputs") && negb (mem x ps)) names.

(* outcomes related: Ok with related values, otherwise the same error class *)
Definition orel_gen {A B} (R : A -> B -> Prop) (r : outcome A) (r' : outcome B) : Prop :=
  match r, r' with
  | Ok v, Ok v' => R v v'
  | Err, Err | ErrDepth, ErrDepth | Panic, Panic | Unmodelled, Unmodelled => True
  | _, _ => False
  end.

Section Rel.
  Variable opok : binop -> bool.
  Variable biok : builtin -> bool.
  Variable nanfix : bool.
  Notation lit := (value_to_ast nanfix true).

  (* bodies covered: like Emit.first_order_body but lambdas allowed (any nesting); every operator
     and built-in mentioned is one the instantiation covers; identifiers are [idok];
     no `#input`, no assignment outside do-block statement position (finding F32 of C04), no `output` *)
  Fixpoint hob (e : expr) {struct e} : bool :=
    match e with
    | EId x => idok x
    | EBuiltin b => biok b
    | EInRef _ | EAssign _ _ | EOutput _ => false
    | EList items =>
        (fix go (l : list (commented expr)) : bool :=
           match l with [] => true | Cm _ a _ :: r => hob a && go r end) items
    | ERec entries =>
        (fix go (l : list (commented rentry)) : bool :=
           match l with
           | [] => true
           | Cm _ (REntry k v) _ :: r =>
               (match k with
                | KDyn a => hob a && hob v
                | KSpread a => hob a
                | KStatic _ => hob v
                | KShort x => idok x
                end) && go r
           end) entries
    | ELam _ b => hob b
    | ECond c t f => hob c && hob t && hob f
    | EDo stmts (Cm _ ret _) =>
        (fix go (l : list (commented expr)) : bool :=
           match l with
           | [] => true
           | Cm _ a _ :: r => (match a with EAssign _ v => hob v | _ => hob a end) && go r
           end) stmts && hob ret
    | EUn _ a | EFact a | ESpread a | EDot a _ => hob a
    | ECall f args =>
        hob f && (fix go (l : list expr) : bool :=
                    match l with [] => true | a :: r => hob a && go r end) args
    | EAccess a i => hob a && hob i
    | EBin op l r => opok op && hob l && hob r
    | _ => true
    end.

  (* values whose literal text denotes a related value: data without NaN / both-quote strings
     (their literals are operator expressions), records with unique keys, covered built-ins, and
     closures with a covered body that is closed after capture, whose captured names are not
     parameters / inputs / inf infinity constants and whose captured values are emittable too *)
  Fixpoint emit_ok (v : value) : bool :=
    match v with
    | VNum x => nanfix || negb (is_nan x)   (* NaN: only with the repaired literal (0/0) *)
    | VBool _ | VNull => true
    | VStr s => true                          (* both quote kinds included: the literal is a + chain *)
    | VList l => forallb emit_ok l
    | VRec r => nodup_keys r && forallb (fun kv => emit_ok (snd kv)) r
    | VLam _ ps b sc =>
        hob b && is_nil (free_vars b (map arg_name ps ++ map fst sc)) &&
        scope_names_ok (map arg_name ps) (map fst sc) && forallb (fun kv => emit_ok (snd kv)) sc
    | VBuiltin b => biok b
    | VSpread _ => false
    end.

  (* an inlining scope: every entry is the literal of an emittable value *)
  Definition mlit (m : smap) : Prop :=
    forall x a, rec_get m x = Some a -> exists v, a = lit v /\ emit_ok v = true.

  Inductive vrel : value -> value -> Prop :=
  | R_num x : vrel (VNum x) (VNum x)
  | R_bool b : vrel (VBool b) (VBool b)
  | R_null : vrel VNull VNull
  | R_str s : vrel (VStr s) (VStr s)
  | R_list l l' : Forall2 vrel l l' -> vrel (VList l) (VList l')
  | R_rec r r' :
      Forall2 (fun kv kv' => fst kv = fst kv' /\ vrel (snd kv) (snd kv')) r r' ->
      vrel (VRec r) (VRec r')
  | R_builtin b : biok b = true -> vrel (VBuiltin b) (VBuiltin b)
  | R_spread v v' : vrel v v' -> vrel (VSpread v) (VSpread v')
  | R_lam id id' ps b sc sc' m :
      hob b = true ->
      free_vars b (map arg_name ps ++ map fst sc) = [] ->
      (forall x, special_name x = true -> rec_get m x = None) ->
      (forall x, In x (map arg_name ps) -> rec_get m x = None) ->
      rec_get sc "inputs" = None ->
      (forall x v a, rec_get sc x = Some v -> rec_get m x = Some a -> a = lit v /\ emit_ok v = true) ->
      mlit m ->
      (forall x v, rec_get sc x = Some v -> rec_get m x = None -> ~ In x (map arg_name ps) ->
                   exists v', rec_get sc' x = Some v' /\ vrel v v') ->
      vrel (VLam id ps b sc) (VLam id' ps (subst true m b) sc').

  Definition rrel (r r' : list (string * value)) : Prop :=
    Forall2 (fun kv kv' => fst kv = fst kv' /\ vrel (snd kv) (snd kv')) r r'.
  Definition lrel (l l' : list value) : Prop := Forall2 vrel l l'.
  Definition orel : outcome value -> outcome value -> Prop := orel_gen vrel.

  (* ---------------------------------------------------------------- shape lemmas *)
  Lemma vrel_as_bool v v' : vrel v v' -> as_bool v = as_bool v'.
  Proof. destruct 1; reflexivity. Qed.
  Lemma vrel_as_number v v' : vrel v v' -> as_number v = as_number v'.
  Proof. destruct 1; reflexivity. Qed.
  Lemma vrel_as_string v v' : vrel v v' -> as_string v = as_string v'.
  Proof. destruct 1; reflexivity. Qed.
  Lemma vrel_is_function v v' : vrel v v' -> is_function v = is_function v'.
  Proof. destruct 1; reflexivity. Qed.
  Lemma vrel_type_of v v' : vrel v v' -> type_of v = type_of v'.
  Proof. destruct 1; reflexivity. Qed.
  Lemma vrel_fn_arity v v' : vrel v v' -> fn_arity v = fn_arity v'.
  Proof. destruct 1; reflexivity. Qed.

  Lemma rrel_get r r' k : rrel r r' ->
    match rec_get r k, rec_get r' k with
    | Some v, Some v' => vrel v v'
    | None, None => True
    | _, _ => False
    end.
  Proof.
    induction 1 as [|[a x] [a' x'] r r' [E V] _ IH]; cbn; [exact I|]. cbn in E, V. subst a'.
    destruct (String.eqb k a); [exact V|exact IH].
  Qed.
  Lemma rrel_get_or_null r r' k : rrel r r' ->
    vrel (match rec_get r k with Some x => x | None => VNull end)
         (match rec_get r' k with Some x => x | None => VNull end).
  Proof.
    intros H. pose proof (rrel_get r r' k H) as G.
    destruct (rec_get r k), (rec_get r' k); try contradiction; [exact G|constructor].
  Qed.
  Lemma rrel_insert r r' k v v' : rrel r r' -> vrel v v' -> rrel (rec_insert r k v) (rec_insert r' k v').
  Proof.
    induction 1 as [|[a x] [a' x'] r r' [E V] H IH]; intros Hv; cbn.
    - constructor; [split; [reflexivity|exact Hv]|constructor].
    - cbn in E, V. subst a'. destruct (String.eqb k a).
      + constructor; [split; [reflexivity|exact Hv]|exact H].
      + constructor; [split; [reflexivity|exact V]|apply IH; exact Hv].
  Qed.
  Lemma rrel_insert_all es es' : rrel es es' -> forall r r', rrel r r' ->
    rrel (rec_insert_all r es) (rec_insert_all r' es').
  Proof.
    unfold rec_insert_all. induction 1 as [|[a x] [a' x'] es es' [E V] H IH]; intros r r' Hr; cbn; [exact Hr|].
    cbn in E, V. subst a'. apply IH. apply rrel_insert; assumption.
  Qed.
  Lemma lrel_app a a' b b' : lrel a a' -> lrel b b' -> lrel (a ++ b) (a' ++ b').
  Proof. apply Forall2_app. Qed.
  Lemma lrel_length l l' : lrel l l' -> Datatypes.length l = Datatypes.length l'.
  Proof. induction 1; cbn; congruence. Qed.
  Lemma lrel_nth l l' k : lrel l l' -> vrel (nth k l VNull) (nth k l' VNull).
  Proof.
    intros H. revert k. induction H as [|x x' l l' V _ IH]; intros [|k]; cbn; try constructor; auto.
  Qed.
  Lemma lrel_nth_error l l' k : lrel l l' ->
    match nth_error l k, nth_error l' k with
    | Some v, Some v' => vrel v v'
    | None, None => True
    | _, _ => False
    end.
  Proof.
    intros H. revert k. induction H as [|x x' l l' V _ IH]; intros [|k]; cbn; [exact I|exact I|exact V|apply IH].
  Qed.
  Lemma lrel_skipn l l' k : lrel l l' -> lrel (skipn k l) (skipn k l').
  Proof.
    intros H. revert k. induction H as [|x x' l l' V H IH]; intros [|k]; cbn; try constructor; auto.
  Qed.
  Lemma lrel_map_str (l : list string) : lrel (map VStr l) (map VStr l).
  Proof. induction l; cbn; constructor; [constructor|assumption]. Qed.

  Lemma vrel_spread_items v v' : vrel v v' -> lrel (spread_items v) (spread_items v').
  Proof.
    destruct 1; cbn; try constructor; try assumption.
    - apply lrel_map_str.
    - induction H as [|[a x] [a' x'] r r' [E V] _ IH]; cbn; constructor; [|exact IH].
      cbn in E, V. subst a'. constructor. constructor; [constructor|]. constructor; [exact V|constructor].
  Qed.
  Lemma lrel_flatten l l' : lrel l l' -> lrel (flatten_spreads l) (flatten_spreads l').
  Proof.
    induction 1 as [|x x' l l' V _ IH]; cbn; [constructor|].
    destruct V; cbn;
      try (apply lrel_app; [apply vrel_spread_items; assumption|exact IH]);
      (constructor; [|exact IH]); try (constructor; assumption).
  Qed.

  Lemma vrel_access v v' i i' : vrel v v' -> vrel i i' -> orel (access_val v i) (access_val v' i').
  Proof.
    intros V Vi. destruct V; cbn; try exact I.
    - rewrite <- (vrel_as_number _ _ Vi). destruct (as_number i); cbn; try exact I.
      destruct (index_from _ _); [|constructor]. destruct (nth_error _ _); constructor.
    - rewrite <- (vrel_as_number _ _ Vi). destruct (as_number i); cbn; try exact I.
      rewrite <- (lrel_length _ _ H). destruct (index_from _ _); [|constructor]. apply lrel_nth. exact H.
    - rewrite <- (vrel_as_string _ _ Vi). destruct (as_string i); cbn; try exact I.
      apply rrel_get_or_null. exact H.
  Qed.
  Lemma vrel_dot v v' f : vrel v v' -> orel (dot_val v f) (dot_val v' f).
  Proof. destruct 1; cbn; try exact I. apply rrel_get_or_null. exact H. Qed.
  Lemma vrel_spread_val v v' : vrel v v' -> orel (spread_val v) (spread_val v').
  Proof. intros V. destruct V; cbn; try exact I; constructor; constructor; assumption. Qed.

  Lemma enum_rrel {A} (f : A -> value) (l : list A) : (forall a, vrel (f a) (f a)) -> forall n,
    rrel (map (fun iv : nat * A => (nat_to_dec (fst iv), f (snd iv))) (enum_from n l))
         (map (fun iv : nat * A => (nat_to_dec (fst iv), f (snd iv))) (enum_from n l)).
  Proof. intros Hf. induction l as [|a l IH]; intros n; cbn; constructor; [split; [reflexivity|apply Hf]|apply IH]. Qed.
  Lemma enum_rrel2 (l l' : list value) : lrel l l' -> forall n,
    rrel (map (fun iv : nat * value => (nat_to_dec (fst iv), snd iv)) (enum_from n l))
         (map (fun iv : nat * value => (nat_to_dec (fst iv), snd iv)) (enum_from n l')).
  Proof. induction 1 as [|x x' l l' V _ IH]; intros n; cbn; constructor; [split; [reflexivity|exact V]|apply IH]. Qed.
  Lemma vrel_record_spread_entries v v' : vrel v v' ->
    rrel (record_spread_entries v) (record_spread_entries v').
  Proof.
    destruct 1; cbn; try constructor.
    destruct H; cbn; try constructor.
    - apply (enum_rrel VStr). intros; constructor.
    - apply enum_rrel2. exact H.
    - exact H.
  Qed.

  (* ---------------------------------------------------------------- decomposition of hob *)
  Definition hob_entry (k : rkey) (v : expr) : bool :=
    match k with
    | KDyn a => hob a && hob v
    | KSpread a => hob a
    | KStatic _ => hob v
    | KShort x => idok x
    end.
  Lemma hob_EList items : hob (EList items) = true -> Forall (fun c => hob (cnode c) = true) items.
  Proof.
    cbn. induction items as [|[a n t] l IH]; intros H; constructor.
    - apply andb_prop in H as [A _]. exact A.
    - apply andb_prop in H as [_ B]. auto.
  Qed.
  Lemma hob_args f args : hob (ECall f args) = true ->
    hob f = true /\ Forall (fun a => hob a = true) args.
  Proof.
    cbn. intros H. apply andb_prop in H as [A B]. split; [exact A|]. clear A.
    induction args as [|a l IH]; constructor.
    - apply andb_prop in B as [X _]. exact X.
    - apply andb_prop in B as [_ Y]. auto.
  Qed.
  Lemma hob_ERec es : hob (ERec es) = true ->
    Forall (fun c => match cnode c with REntry k v => hob_entry k v = true end) es.
  Proof.
    cbn. induction es as [|[a [k v] t] l IH]; intros H; constructor.
    - apply andb_prop in H as [A _]. exact A.
    - apply andb_prop in H as [_ B]. auto.
  Qed.
  Definition hob_stmts :=
    fix go (l : list (commented expr)) : bool :=
      match l with
      | [] => true
      | Cm _ a _ :: r => (match a with EAssign _ v => hob v | _ => hob a end) && go r
      end.
  Lemma hob_EDo stmts a ret t : hob (EDo stmts (Cm a ret t)) = hob_stmts stmts && hob ret.
  Proof. reflexivity. Qed.
  Lemma hob_na e : hob e = true -> na e = true.
  Proof. destruct e; try reflexivity; discriminate. Qed.
  Lemma hob_stmts_na a s t l : na s = true -> hob_stmts (Cm a s t :: l) = hob s && hob_stmts l.
  Proof. destruct s; try reflexivity; discriminate. Qed.

  (* ---------------------------------------------------------------- literals are closed *)
  Lemma mem_In_true x l : In x l -> mem x l = true.
  Proof. intros H. apply mem_In. exact H. Qed.

  Lemma lit_closed_ok v : emit_ok v = true ->
    forall bb, free_vars (lit v) bb = [] /\ na (lit v) = true.
  Proof.
    induction v using value_ind'; intros Hok bb; try (split; reflexivity); try discriminate.
    - cbn [value_to_ast]. cbn [emit_ok] in Hok. unfold num_to_ast.
      destruct x as [[|]|[|]| |[|] ? ?]; try (split; reflexivity);
        try (split; [cbn; destruct (mem "inf" bb); reflexivity|reflexivity]).
      destruct nanfix; [split; reflexivity|discriminate].
    - cbn [value_to_ast]. apply str_to_ast_closed.
    - split; [|reflexivity]. cbn [value_to_ast free_vars]. cbn [emit_ok] in Hok.
      induction H as [|x l Hx Hl IH]; [reflexivity|]. cbn in Hok. apply andb_prop in Hok as [F1 F2].
      rewrite (proj1 (Hx F1 bb)). cbn. apply IH; auto.
    - split; [|reflexivity]. cbn [value_to_ast free_vars]. cbn [emit_ok] in Hok.
      apply andb_prop in Hok as [_ Hok].
      induction H as [|[k x] l Hx Hl IH]; [reflexivity|]. cbn in Hok, Hx. apply andb_prop in Hok as [F1 F2].
      assert (K : match key_to_rkey k with
                  | KDyn a => free_vars a bb ++ free_vars (lit x) bb
                  | KSpread a => free_vars a bb
                  | KStatic _ => free_vars (lit x) bb
                  | KShort y => if mem y bb then [] else [y]
                  end = []).
      { unfold key_to_rkey. destruct (both_quotes k); [rewrite (proj1 (str_to_ast_closed k bb))|];
          now rewrite (proj1 (Hx F1 bb)). }
      cbv beta iota. rewrite K. cbn. apply IH; auto.
    - (* closure: every free name of the body is a parameter or captured, and captured names are inlined *)
      split; [|reflexivity]. rewrite value_to_ast_lam. cbn [free_vars].
      cbn [emit_ok] in Hok. apply andb_prop in Hok as [Hok Hsc]. apply andb_prop in Hok as [Hok Hnm].
      apply andb_prop in Hok as [Hb Hfv].
      assert (Hm : lits_closed (scope_map nanfix true sc)).
      { intros y e. rewrite scope_map_get. destruct (rec_get sc y) eqn:E; cbn; [|discriminate].
        intros Ea; inversion Ea; subst e. apply rec_get_In in E.
        rewrite Forall_forall in H. rewrite forallb_forall in Hsc.
        pose proof (H _ E (Hsc _ E)) as G. cbn in G. split; [intros b0; apply G|apply (G [])]. }
      destruct (free_vars (subst true (scope_map nanfix true sc) b) (map arg_name a ++ bb)) as [|z l] eqn:E;
        [reflexivity|].
      exfalso. destruct (subst_fv b (scope_map nanfix true sc) (map arg_name a ++ bb) z Hm) as (A & B & C).
      { rewrite E. now left. }
      rewrite scope_map_get in B.
      destruct (free_vars b (map arg_name a ++ map fst sc)) eqn:F; [|discriminate].
      destruct (fv_weaken b _ (map arg_name a ++ map fst sc) z A) as [X|X]; [rewrite F in X; destruct X|].
      apply in_app_or in X as [X|X].
      + rewrite mem_app in C. rewrite (mem_In_true _ _ X) in C. discriminate.
      + destruct (rec_get sc z) eqn:G; [discriminate|]. apply rec_get_None_notin in G. contradiction.
  Qed.

  Lemma mlit_closed m : mlit m -> lits_closed m.
  Proof.
    intros H y a E. destruct (H y a E) as (v & -> & Hv). split; [intros b; apply (lit_closed_ok v Hv b)|apply (lit_closed_ok v Hv [])].
  Qed.
  Lemma mlit_remove m x : mlit m -> mlit (smap_remove m x).
  Proof. intros H y a. rewrite rec_get_remove. destruct (String.eqb y x); [discriminate|apply H]. Qed.
  Lemma mlit_remove_all xs : forall m, mlit m -> mlit (smap_remove_all m xs).
  Proof. induction xs as [|x xs IH]; cbn; intros m H; [exact H|]. apply IH. now apply mlit_remove. Qed.
  Lemma remove_all_cons m y xs : smap_remove_all m (y :: xs) = smap_remove_all (smap_remove m y) xs.
  Proof. reflexivity. Qed.
  Lemma remove_all_get_none xs : forall m x, rec_get m x = None -> rec_get (smap_remove_all m xs) x = None.
  Proof.
    induction xs as [|y xs IH]; intros m x H; [exact H|]. rewrite remove_all_cons. apply IH. rewrite rec_get_remove.
    destruct (String.eqb x y); [reflexivity|exact H].
  Qed.
  Lemma remove_all_get_in xs : forall m x, In x xs -> rec_get (smap_remove_all m xs) x = None.
  Proof.
    induction xs as [|y xs IH]; intros m x H; [destruct H|]. rewrite remove_all_cons. destruct H as [->|H].
    - apply remove_all_get_none. rewrite rec_get_remove. now rewrite String.eqb_refl.
    - apply IH. exact H.
  Qed.
  Lemma remove_all_get_notin xs : forall m x, ~ In x xs -> rec_get (smap_remove_all m xs) x = rec_get m x.
  Proof.
    induction xs as [|y xs IH]; intros m x H; [reflexivity|]. rewrite remove_all_cons.
    rewrite IH by (intros X; apply H; now right).
    rewrite rec_get_remove. destruct (String.eqb_spec x y) as [->|]; [exfalso; apply H; now left|reflexivity].
  Qed.
End Rel.
