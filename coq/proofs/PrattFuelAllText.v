(* PrattFuelAllText.v — the fuel gap of the TEXT layer closed.

   With PrattFuelAll.pratt_impl_never_unmodelled (the Pratt model's fuel suffices on EVERY item list) no statement
   of any text is [TGlueFuel]; with PegFuelBlots.blots_peg_total no text is [TIFuel].  Hence, for EVERY byte
   string and every oracle, [run_text_res (eval_all o)] is [TRun sr] with no `Unmodelled` result in sr, or
   [TReject], or [TParsePanic] — the hypothesis "no statement is TGlueFuel" of
   TextRunFacts.run_text_never_unmodelled is gone.

   Reachability of the explicit Panic arms of the glue model on trees the PEG interpreter produces on the
   regenerated grammar (PegShape.shape_kids): the `unreachable!()` arm of main.rs's statement loop
   ([text_stmt_of]'s `_ => Some TGluePanic`) and the "statement pair without inner pair" arm are NOT reachable
   ([text_stmt_of_parsed_shape]).  See notes/ext-pf1.md for the arms that remain. *)
From Coq Require Import String Ascii List NArith ZArith Bool Lia.
Require Import Blots.Peg Blots.gen.Grammar Blots.proofs.PegGeneric Blots.proofs.PegFuelBlots.
Require Import Blots.PrattTypes Blots.Pratt Blots.PegToItems.
Require Import Blots.Num Blots.gen.Builtins Blots.Ast Blots.Value Blots.Outcome Blots.Env Blots.Eval
               Blots.Program Blots.EvalInst Blots.EvalFull Blots.EvalAll Blots.AllRun Blots.TextRun.
Require Import Blots.proofs.NoPanic Blots.proofs.AllNoUnmEval Blots.proofs.AllNoUnm.
Require Import Blots.proofs.TextRunFacts Blots.proofs.PrattFuelAll.
Import ListNotations.

(* ------------------------------------------------------------------ no statement is TGlueFuel *)
Lemma glue_stmt_not_fuel : forall mk r, r <> Outcome.Unmodelled -> glue_stmt mk r <> TGlueFuel.
Proof. intros mk r H. destruct r as [[e|]| | | |]; cbn; try (intro D; discriminate D). exfalso; apply H; reflexivity. Qed.

Lemma text_stmt_of_not_fuel : forall text fuel t r, text_stmt_of text fuel t = Some r -> r <> TGlueFuel.
Proof.
  intros text fuel t r H. unfold text_stmt_of in H.
  destruct (tkids t) as [|first rest]; [discriminate H|].
  revert H. generalize (pratt_impl_never_unmodelled (map (conv text fuel) (tkids first))).
  generalize (pratt_impl (map (conv text fuel) (tkids first))). intros out NU H.
  destruct (trule first); injection H as <-;
    first [apply glue_stmt_not_fuel; exact NU | intro D; discriminate D].
Qed.

Lemma stmts_of_forest_no_fuel : forall text forest,
    Forall (fun t => t <> TGlueFuel) (stmts_of_forest text forest).
Proof.
  intros text forest. unfold stmts_of_forest. generalize (forest_conv_fuel forest). intro cf.
  induction forest as [|t l IH]; cbn [flat_map]; [constructor|].
  apply Forall_app. split; [|exact IH].
  destruct (is_rule PG_statement t); [|constructor].
  destruct (text_stmt_of text cf t) as [r|] eqn:E; [|constructor].
  constructor; [|constructor]. eapply text_stmt_of_not_fuel; exact E.
Qed.

Theorem parse_text_stmts_fuel_no_glue_fuel : forall fuel text l,
    parse_text_stmts_fuel fuel text = TIOk l -> Forall (fun t => t <> TGlueFuel) l.
Proof.
  intros fuel text l H. unfold parse_text_stmts_fuel in H.
  destruct (Peg.parse blots_grammar fuel PG_input text) as [s|s| |]; try discriminate H.
  injection H as <-. apply stmts_of_forest_no_fuel.
Qed.
Theorem parse_text_stmts_no_glue_fuel : forall text l,
    parse_text_stmts text = TIOk l -> Forall (fun t => t <> TGlueFuel) l.
Proof. intros text l H. rewrite parse_text_stmts_unfold in H. eapply parse_text_stmts_fuel_no_glue_fuel; exact H. Qed.

(* the all-or-nothing view never answers "fuel" either *)
Lemma no_fuel_existsb : forall l, Forall (fun t => t <> TGlueFuel) l -> existsb is_glue_fuel l = false.
Proof.
  induction 1 as [|t l Ht _ IH]; [reflexivity|]. cbn [existsb]. rewrite IH, orb_false_r.
  destruct t; try reflexivity. exfalso; apply Ht; reflexivity.
Qed.
Lemma parse_text_ast_fuel_never_fuel : forall fuel text,
    parse_text_stmts_fuel fuel text <> TIFuel -> parse_text_ast_fuel fuel text <> TPFuel.
Proof.
  intros fuel text T. unfold parse_text_ast_fuel.
  pose proof (parse_text_stmts_fuel_no_glue_fuel fuel text) as G.
  destruct (parse_text_stmts_fuel fuel text) as [l| | |]; try (intro D; discriminate D).
  - rewrite (no_fuel_existsb l (G l eq_refl)).
    destruct (existsb is_glue_panic l); [intro D; discriminate D|].
    destruct (stmts_all_ok l); intro D; discriminate D.
  - exfalso; apply T; reflexivity.
Qed.
Theorem parse_text_ast_never_fuel : forall text, parse_text_ast text <> TPFuel.
Proof.
  intro text. rewrite parse_text_ast_unfold. apply parse_text_ast_fuel_never_fuel.
  rewrite <- parse_text_stmts_unfold. apply parse_text_stmts_total.
Qed.

(* ------------------------------------------------------------------ the total statement *)
Definition text_outcome_modelled (r : text_outcome) : Prop :=
  (exists sr, r = TRun sr /\ Forall (fun rs => fst rs <> RFail Unmodelled) (snd sr))
  \/ r = TReject \/ r = TParsePanic.

Lemma run_text_res_fuel_modelled : forall o fuel inputs text,
    parse_text_stmts_fuel fuel text <> TIFuel ->
    text_outcome_modelled (run_text_res_fuel (eval_all o) fuel inputs text).
Proof.
  intros o fuel inputs text T. unfold run_text_res_fuel.
  pose proof (parse_text_stmts_fuel_no_glue_fuel fuel text) as G.
  destruct (parse_text_stmts_fuel fuel text) as [l| | |].
  - left. eexists. split; [reflexivity|].
    apply run_tstmts_nu; [| |apply init_session_wf|exact (G l eq_refl)].
    + intros c e Hw. apply evalD_all_no_unm. exact Hw.
    + intros c e r c' E Hw. unfold eval_all, eval_top in E. eapply evalD_keeps_wf; eauto.
  - right; left; reflexivity.
  - right; right; reflexivity.
  - exfalso; apply T; reflexivity.
Qed.

Theorem run_text_never_unmodelled_total : forall o inputs text,
    text_outcome_modelled (run_text_res (eval_all o) inputs text).
Proof.
  intros o inputs text. rewrite run_text_res_unfold. apply run_text_res_fuel_modelled.
  rewrite <- parse_text_stmts_unfold. apply parse_text_stmts_total.
Qed.

(* the same for the string the TEXT-EVAL stream compares: it is never the model's "FUEL" line *)
Theorem run_text_outcome_cases : forall o inputs text,
    (exists sr, run_text o inputs text = show_run_out sr
                /\ Forall (fun rs => fst rs <> RFail Unmodelled) (snd sr))
    \/ run_text o inputs text = "REJECT;ENV:;OUT:"%string
    \/ run_text o inputs text = "PANIC"%string.
Proof.
  intros o inputs text. unfold run_text, run_text_with.
  pose proof (run_text_never_unmodelled_total o inputs text) as H. revert H.
  generalize (run_text_res (eval_all o) inputs text). intros r [[sr [E F]]|[E|E]]; subst r; cbn [show_text_outcome].
  - left. exists sr. split; [reflexivity|exact F].
  - right; left; reflexivity.
  - right; right; reflexivity.
Qed.
