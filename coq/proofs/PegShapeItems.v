(* proofs/PegShapeItems.v — the tree-level shape facts proved of Peg.parse (PegShape.v, PegShapeFirst.v) carried
   through the item view PegToItems.conv to the ITEM-level predicate PegComments.forest_shape_ok — the hypothesis of
   C09_parse_keeps_comments that was tested on every interpreter tree.  Result: forest_shape_ok holds of every
   Peg.parse result. *)
From Coq Require Import String Ascii List NArith ZArith Bool Arith Lia.
Require Import Blots.Num Blots.gen.Builtins Blots.Ast Blots.Outcome Blots.PrattTypes Blots.Formatter.
Require Import Blots.Peg Blots.gen.Grammar Blots.PegToItems Blots.PegComments Blots.proofs.PegComments
               Blots.proofs.PegGeneric Blots.proofs.PegShape Blots.proofs.PegShapeFirst.
Import ListNotations.
Local Open Scope list_scope.

Section Items.
  Variable text : string.
  Notation TOK C := (tree_ok grule text C).

  Definition good (t : tree grule) : Prop := TOK C_comment t /\ TOK C_kids t /\ TOK C_do_statement t.

  Lemma good_kids : forall r s e kids, good (Node r s e kids) -> Forall good kids.
  Proof.
    intros r s e kids (H1 & H2 & H3).
    apply tree_ok_node in H1. apply tree_ok_node in H2. apply tree_ok_node in H3.
    destruct H1 as [_ H1]. destruct H2 as [_ H2]. destruct H3 as [_ H3]. unfold forest_all in *.
    rewrite Forall_forall in *. intros k Hk. repeat split; auto.
  Qed.
  Lemma good_tkids : forall t, good t -> Forall good (tkids t).
  Proof. intros [r s e kids] H. exact (good_kids r s e kids H). Qed.
  Lemma good_comment : forall t, good t -> is_comment_rule (trule t) = true -> nl_free (tspan text t) = true.
  Proof.
    intros [r s e kids] (H1 & _) Hr. apply tree_ok_node in H1. destruct H1 as [H1 _].
    apply comment_text_ok_nl_free. exact (H1 Hr).
  Qed.
  Lemma good_spec : forall t, good t -> kids_spec (trule t) (map trule (tkids t)).
  Proof. intros [r s e kids] (_ & H2 & _). apply tree_ok_node in H2. destruct H2 as [H2 _]. exact H2. Qed.
  Lemma good_dostmt : forall t, good t -> trule t = PG_do_statement ->
    In (map trule (tkids t)) [[PG_expression]; [PG_expression; PG_comment]; [PG_comment]].
  Proof.
    intros [r s e kids] (_ & _ & H3) Hr. apply tree_ok_node in H3. destruct H3 as [H3 _].
    cbn [trule] in Hr. subst r. exact H3.
  Qed.

  Notation P := shape_here.

  Section Fuel.
    Variable f : nat.
    Hypothesis IH : forall t, good t -> item_all P (conv text f t) = true.

    Lemma convs_ok : forall l, Forall good l -> items_all P (map (conv text f) l) = true.
    Proof.
      induction 1 as [|t l Ht _ IHl]; [reflexivity|]. cbn [map items_all]. rewrite (IH t Ht), IHl. reflexivity.
    Qed.
    Lemma inner_ok : forall t, good t -> items_all P (map (conv text f) (tkids t)) = true.
    Proof. intros t H. apply convs_ok. apply good_tkids. exact H. Qed.
  End Fuel.

  Lemma opt_comment_ok : forall more, Forall good more ->
    (more = [] \/ exists m, more = [m] /\ is_comment_rule (trule m) = true) -> onl_free (opt_comment text more) = true.
  Proof.
    intros more Hg [->|(m & -> & Hr)]; [reflexivity|]. cbn [opt_comment onl_free].
    inversion Hg; subst. apply good_comment; assumption.
  Qed.

  (* "the tail of the inner pairs is empty or one (eol_)comment", from a finite kids_spec *)
  Lemma tail_of_spec : forall (first : tree grule) more (ls : list (list grule)),
    In (map trule (first :: more)) ls ->
    forallb (fun l => match l with
                      | [_] => true
                      | [_; c] => is_comment_rule c
                      | _ => false
                      end) ls = true ->
    more = [] \/ exists m, more = [m] /\ is_comment_rule (trule m) = true.
  Proof.
    intros first more ls Hin Hall. rewrite forallb_forall in Hall. specialize (Hall _ Hin). cbn [map] in Hall.
    destruct more as [|m [|m2 more]]; [left; reflexivity| |discriminate Hall].
    right. exists m. split; [reflexivity|exact Hall].
  Qed.

  Section Cases.
    Variable f : nat.
    Hypothesis IH : forall t, good t -> item_all P (conv text f t) = true.
    Notation inner := (fun k => map (conv text f) (tkids k)).

    Lemma args_ok : forall l, Forall good l -> args_all P (map inner l) = true.
    Proof.
      induction 1 as [|k l Hk _ IHl]; [reflexivity|]. cbn [map args_all]. rewrite (inner_ok f IH k Hk), IHl. reflexivity.
    Qed.

    (* ---- list *)
    Definition lelem_ok (x : lelem) : Prop :=
      lelem_shape x = true /\ match x with LCom _ => True | LItem g _ => items_all P g = true end.
    Lemma lelems_ok : forall els, Forall lelem_ok els -> forallb lelem_shape els = true /\ lels_all P els = true.
    Proof.
      induction 1 as [|x els [Hs Hx] _ [IH1 IH2]]; [split; reflexivity|].
      cbn [forallb]. rewrite Hs, IH1. split; [reflexivity|].
      destruct x; cbn [lels_all]; [exact IH2|rewrite Hx, IH2; reflexivity].
    Qed.
    Definition list_elem (k : tree grule) : lelem :=
      match trule k with
      | PG_comment => LCom (tspan text k)
      | PG_list_item =>
          match tkids k with
          | first :: more => LItem (inner first) (opt_comment text more)
          | [] => LItem [] None
          end
      | _ => LItem (inner k) None
      end.
    Lemma list_elem_ok : forall k, good k -> lelem_ok (list_elem k).
    Proof.
      intros k Hk. unfold list_elem.
      assert (Hdef : lelem_ok (LItem (inner k) None)).
      { split; [reflexivity|]. exact (inner_ok f IH k Hk). }
      destruct (trule k) eqn:Er; try exact Hdef.
      - split; [|exact I]. cbn [lelem_shape]. apply good_comment; [exact Hk|rewrite Er; reflexivity].
      - pose proof (good_spec k Hk) as Hsp. rewrite Er in Hsp. cbn [kids_spec] in Hsp.
        pose proof (good_tkids k Hk) as Hkk.
        destruct (tkids k) as [|first more]; [split; reflexivity|].
        inversion Hkk; subst. split.
        + cbn [lelem_shape]. apply opt_comment_ok; [assumption|].
          eapply tail_of_spec; [exact Hsp|reflexivity].
        + exact (inner_ok f IH first H1).
    Qed.
    (* ---- record *)
    Definition relem_ok (x : relem) : Prop :=
      relem_shape x = true /\
      match x with
      | RCom _ | RShortI _ _ => True
      | RPairI k v _ => match k with RKDyn i => items_all P i = true | _ => True end /\ items_all P v = true
      | RSpreadI g _ => items_all P g = true
      end.
    Lemma relems_ok : forall els, Forall relem_ok els -> forallb relem_shape els = true /\ rels_all P els = true.
    Proof.
      induction 1 as [|x els [Hs Hx] _ [IH1 IH2]]; [split; reflexivity|].
      cbn [forallb]. rewrite Hs, IH1. split; [reflexivity|].
      destruct x as [c|k v eol|sh eol|g eol]; cbn [rels_all]; try exact IH2.
      - destruct Hx as [Hk Hv]. rewrite Hv, IH2. destruct k; try reflexivity. rewrite Hk. reflexivity.
      - rewrite Hx, IH2. reflexivity.
    Qed.
    Definition rec_elems (k : tree grule) : list relem :=
      match trule k with
      | PG_comment => [RCom (tspan text k)]
      | PG_record_item =>
          match tkids k with
          | entry :: more =>
              let eol := opt_comment text more in
              match trule entry with
              | PG_record_pair =>
                  match tkids entry with
                  | key :: value :: _ =>
                      let kk :=
                          match trule key with
                          | PG_record_key_static =>
                              match tkids key with
                              | ik :: _ =>
                                  match trule ik with
                                  | PG_string => RKStr (inner_str text (tkids ik))
                                  | _ => RKId (tspan text ik)
                                  end
                              | [] => RKId ""
                              end
                          | _ => RKDyn (inner key)
                          end in
                      [RPairI kk (inner value) eol]
                  | _ => []
                  end
              | PG_record_shorthand => [RShortI (inner_str text (tkids entry)) eol]
              | _ => [RSpreadI (inner entry) eol]
              end
          | [] => []
          end
      | _ => []
      end.
    Lemma rec_elems_ok : forall k, good k -> Forall relem_ok (rec_elems k).
    Proof.
      intros k Hk. unfold rec_elems. destruct (trule k) eqn:Er; try constructor.
      - split; [|exact I]. cbn [relem_shape]. apply good_comment; [exact Hk|rewrite Er; reflexivity].
      - constructor.
      - pose proof (good_spec k Hk) as Hsp. rewrite Er in Hsp. cbn [kids_spec] in Hsp.
        pose proof (good_tkids k Hk) as Hkk.
        destruct (tkids k) as [|entry more]; [constructor|]. inversion Hkk as [|? ? Hge Hgm]; subst.
        assert (Heol : onl_free (opt_comment text more) = true).
        { apply opt_comment_ok; [assumption|]. eapply tail_of_spec; [exact Hsp|reflexivity]. }
        cbv zeta.
        assert (Hdef : Forall relem_ok [RSpreadI (inner entry) (opt_comment text more)]).
        { constructor; [|constructor]. split; [exact Heol|]. exact (inner_ok f IH entry Hge). }
        destruct (trule entry) eqn:Ee; try exact Hdef.
        + pose proof (good_tkids entry Hge) as Hke.
          destruct (tkids entry) as [|key [|value rest]]; try constructor; [|constructor].
          inversion Hke as [|? ? Hgk Hke']; subst. inversion Hke' as [|? ? Hgv _]; subst.
          split; [exact Heol|]. split; [|exact (inner_ok f IH value Hgv)].
          destruct (trule key); try exact (inner_ok f IH key Hgk).
          destruct (tkids key) as [|ik ?]; [exact I|]. destruct (trule ik); exact I.
        + constructor; [|constructor]. split; [exact Heol|exact I].
    Qed.

    (* ---- do-block *)
    Definition do_elems (k : tree grule) : list delem :=
      match trule k with
      | PG_do_statement =>
          match tkids k with
          | first :: more =>
              let c := match more with
                       | m :: _ => if is_rule PG_comment m then Some (tspan text m) else None
                       | [] => None
                       end in
              match trule first with
              | PG_expression => [PrattTypes.DStmt (inner first) c]
              | PG_comment => [DComStmt (tspan text first) c]
              | _ => []
              end
          | [] => []
          end
      | PG_return_statement =>
          match tkids k with
          | ex :: _ => [DRet (inner ex)]
          | [] => []
          end
      | PG_comment => [DCom (tspan text k)]
      | _ => []
      end.

    Lemma dels_all_app : forall a b, dels_all P (a ++ b) = dels_all P a && dels_all P b.
    Proof.
      induction a as [|x a IHa]; intro b; [reflexivity|].
      destruct x; cbn [app dels_all]; rewrite IHa; try reflexivity; apply andb_assoc.
    Qed.

    (* a comment / do_statement inner pair contributes shape-respecting elements that are not DRet *)
    Definition pre_ok (l : list delem) : Prop :=
      dels_all P l = true /\ forall r, do_shape (l ++ r) = do_shape r.
    Lemma do_elems_comment : forall k, good k -> trule k = PG_comment -> pre_ok (do_elems k).
    Proof.
      intros k Hk Er. unfold do_elems. rewrite Er. split; [reflexivity|]. intro r. cbn [app do_shape].
      rewrite (good_comment k Hk) by (rewrite Er; reflexivity). reflexivity.
    Qed.
    Lemma do_elems_stmt : forall k, good k -> trule k = PG_do_statement -> pre_ok (do_elems k).
    Proof.
      intros k Hk Er. unfold do_elems. rewrite Er.
      pose proof (good_dostmt k Hk Er) as Hsp. pose proof (good_tkids k Hk) as Hkk.
      destruct (tkids k) as [|first more]; [split; [reflexivity|intro; reflexivity]|].
      inversion Hkk as [|? ? Hgf Hgm]; subst. cbn [map] in Hsp. cbv zeta.
      destruct Hsp as [Hsp|[Hsp|[Hsp|[]]]].
      - (* [expression] *)
        destruct more; [|discriminate Hsp].
        assert (Hr : trule first = PG_expression) by (cbn [map] in Hsp; congruence). rewrite Hr.
        split; [cbn [dels_all]; rewrite (inner_ok f IH first Hgf); reflexivity|]. intro r. reflexivity.
      - (* [expression; comment] *)
        destruct more as [|m [|? ?]]; try discriminate Hsp.
        assert (Hr : trule first = PG_expression) by (cbn [map] in Hsp; congruence).
        assert (Hm : trule m = PG_comment) by (cbn [map] in Hsp; congruence). rewrite Hr.
        inversion Hgm; subst.
        assert (Hi : is_rule PG_comment m = true) by (unfold is_rule; rewrite Hm; reflexivity).
        rewrite Hi.
        split; [cbn [dels_all]; rewrite (inner_ok f IH first Hgf); reflexivity|]. intro r. cbn [app do_shape onl_free].
        rewrite (good_comment m) by (try assumption; rewrite Hm; reflexivity). reflexivity.
      - (* [comment] *)
        destruct more; [|discriminate Hsp].
        assert (Hr : trule first = PG_comment) by (cbn [map] in Hsp; congruence). rewrite Hr.
        split; [reflexivity|]. intro r. cbn [app do_shape].
        rewrite (good_comment first Hgf) by (rewrite Hr; reflexivity). reflexivity.
    Qed.
    Lemma do_elems_ret : forall k, good k -> trule k = PG_return_statement ->
      exists g, do_elems k = [DRet g] /\ items_all P g = true.
    Proof.
      intros k Hk Er. unfold do_elems. rewrite Er.
      pose proof (good_spec k Hk) as Hsp. rewrite Er in Hsp. cbn [kids_spec] in Hsp.
      pose proof (good_tkids k Hk) as Hkk.
      destruct (tkids k) as [|ex rest]; [discriminate Hsp|]. inversion Hkk; subst.
      eexists. split; [reflexivity|]. apply (inner_ok f IH); assumption.
    Qed.

    Lemma do_block_ok : forall kids, Forall good kids ->
      (exists pre, map trule kids = pre ++ [PG_return_statement] /\
                   Forall (fun x => x = PG_comment \/ x = PG_do_statement) pre) ->
      do_shape (flat_map do_elems kids) = true /\ dels_all P (flat_map do_elems kids) = true.
    Proof.
      intros kids Hg (pre & E & Hpre). revert kids Hg E.
      induction Hpre as [|x pre Hx _ IHp]; intros kids Hg E.
      - destruct kids as [|k [|k2 kids]]; try discriminate E. cbn [map app] in E. inversion E as [Er].
        inversion Hg; subst. destruct (do_elems_ret k) as (g & Eg & Hgi); try assumption.
        cbn [flat_map]. rewrite Eg. cbn [app do_shape dels_all]. rewrite Hgi. split; reflexivity.
      - destruct kids as [|k kids]; [destruct pre; discriminate E|]. cbn [map app] in E. inversion E as [[Er Erest]].
        inversion Hg as [|? ? Hk Hks]; subst.
        destruct (IHp kids Hks Erest) as [I1 I2].
        assert (Hp : pre_ok (do_elems k)).
        { destruct Hx as [Hx|Hx]; [apply do_elems_comment|apply do_elems_stmt]; congruence. }
        destruct Hp as [P1 P2]. cbn [flat_map]. rewrite P2, dels_all_app, P1, I1, I2. split; reflexivity.
    Qed.
  End Cases.

  Lemma conv_shape : forall f t, good t -> item_all P (conv text f t) = true.
  Proof.
    induction f as [|f IH]; intros t Hg; [reflexivity|].
    destruct t as [r s e kids].
    pose proof (good_kids _ _ _ _ Hg) as Hk.
    pose proof (convs_ok f IH) as Hcv. pose proof (inner_ok f IH) as Hin.
    destruct r; try reflexivity.
    - (* number *) cbn [conv]. unfold number_item.
      match goal with |- context [match ?X with Some _ => _ | None => _ end] => destruct X end; reflexivity.
    - (* lambda *)
      destruct kids as [|al [|body rest]]; try reflexivity. cbn [conv]. rewrite ia_ILambda. cbn [shape_here andb].
      apply Hin. inversion Hk as [|? ? _ Hk2]; subst. inversion Hk2; subst. assumption.
    - (* lambda_expression *) cbn [conv]. rewrite ia_IExpr. cbn [shape_here andb]. apply Hcv. exact Hk.
    - (* access *) cbn [conv]. rewrite ia_IAccess. cbn [shape_here andb]. apply Hcv. exact Hk.
    - (* call_list *) cbn [conv]. rewrite ia_ICall. cbn [shape_here andb]. apply (args_ok f IH). exact Hk.
    - (* list *)
      cbn [conv]. rewrite ia_IList. cbn [shape_here].
      change (map _ kids) with (map (list_elem f) kids).
      assert (Hl : Forall lelem_ok (map (list_elem f) kids)).
      { clear - Hk IH. induction Hk as [|k l Hk0 _ IHl]; [constructor|]. cbn [map]. constructor; [apply (list_elem_ok f IH); assumption|exact IHl]. }
      destruct (lelems_ok _ Hl) as [H1 H2]. rewrite H1, H2. reflexivity.
    - (* record *)
      cbn [conv]. rewrite ia_IRecord. cbn [shape_here].
      change (flat_map _ kids) with (flat_map (rec_elems f) kids).
      assert (Hl : Forall relem_ok (flat_map (rec_elems f) kids)).
      { clear - Hk IH. induction Hk as [|k l Hk0 _ IHl]; [constructor|]. cbn [flat_map].
        apply Forall_app. split; [apply (rec_elems_ok f IH); assumption|exact IHl]. }
      destruct (relems_ok _ Hl) as [H1 H2]. rewrite H1, H2. reflexivity.
    - (* conditional *)
      destruct kids as [|c [|t1 [|e1 rest]]]; try reflexivity. cbn [conv]. rewrite ia_ICond. cbn [shape_here andb].
      inversion Hk as [|? ? G1 Hk2]; subst. inversion Hk2 as [|? ? G2 Hk3]; subst. inversion Hk3 as [|? ? G3 _]; subst.
      rewrite (Hin c G1), (Hin t1 G2), (Hin e1 G3). reflexivity.
    - (* expression *) cbn [conv]. rewrite ia_IExpr. cbn [shape_here andb]. apply Hcv. exact Hk.
    - (* assignment *)
      destruct kids as [|x [|v rest]]; try reflexivity. cbn [conv]. rewrite ia_IAssign. cbn [shape_here andb].
      apply Hin. inversion Hk as [|? ? _ Hk2]; subst. inversion Hk2; subst. assumption.
    - (* do_block *)
      cbn [conv]. rewrite ia_IDo. cbn [shape_here].
      change (flat_map _ kids) with (flat_map (do_elems f) kids).
      pose proof (good_spec _ Hg) as Hsp. cbn [trule tkids kids_spec] in Hsp.
      destruct (do_block_ok f IH kids Hk Hsp) as [H1 H2]. rewrite H1, H2. reflexivity.
  Qed.
End Items.

Lemma forest_items_shape : forall text l, Forall (good text) l -> forallb shapes_ok (forest_items text l) = true.
Proof.
  intros text l H. unfold forest_items. induction H as [|t l Ht _ IH]; [reflexivity|].
  cbn [flat_map]. rewrite forallb_app, IH, andb_true_r.
  destruct (is_rule PG_statement t); [|reflexivity].
  unfold stmt_items. pose proof (good_tkids text t Ht) as Hk.
  destruct (tkids t) as [|first rest]; [reflexivity|]. inversion Hk as [|? ? Hf _]; subst.
  assert (Hs : shapes_ok (conv_kids text first) = true).
  { unfold shapes_ok, conv_kids. apply (convs_ok text _ (conv_shape text _)). apply good_tkids. exact Hf. }
  destruct (trule first); cbn [forallb]; rewrite ?Hs; reflexivity.
Qed.

(* forest_shape_ok — one of the two hypotheses of C09_parse_keeps_comments — holds of EVERY result of Peg.parse *)
Theorem parse_forest_shape_ok : forall fuel text s',
  Peg.parse blots_grammar fuel PG_input text = Peg.Ok s' -> forest_shape_ok text (rev (out s')) = true.
Proof.
  intros fuel text s' H. unfold forest_shape_ok. apply forest_items_shape.
  pose proof (parse_nodes grule blots_grammar text C_comment (blots_comment_body_gives text) fuel PG_input s' H) as H1.
  pose proof (parse_nodes grule blots_grammar text C_kids (blots_kids_body_gives text) fuel PG_input s' H) as H2.
  pose proof (parse_nodes grule blots_grammar text C_do_statement (blots_do_statement_body_gives text) fuel PG_input s' H) as H3.
  unfold forest_all in *. apply Forall_rev. rewrite Forall_forall in *. intros t Ht. repeat split; auto.
Qed.

Theorem parse_program_c_shape_ok : forall text forest p,
  parse_program_c text = PCOk forest p -> forest_shape_ok text forest = true.
Proof.
  intros text forest p. unfold parse_program_c.
  pose proof (parse_forest_shape_ok (peg_fuel text) text) as Hs. revert Hs.
  generalize (Peg.parse blots_grammar (peg_fuel text) PG_input text). intros r Hs H.
  destruct r as [s|s| |]; try discriminate H. specialize (Hs s eq_refl). revert H Hs.
  generalize (rev (out s)). intros fr H Hs.
  destruct (program_of_forest text fr) as [[q|]| | | |]; try discriminate H.
  injection H as <- <-. exact Hs.
Qed.
