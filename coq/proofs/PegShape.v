(* proofs/PegShape.v — SHAPE of the pair trees the PEG interpreter (coq/Peg.v) produces, PROVED of `Peg.parse`
   instead of tested on every tree (C09 parser half: the hypotheses forest_shape_ok / forest_view_ok).
   Part 1 (every grammar): [run_nodes] — a per-rule postcondition `C r consumed kids`, established for the BODY of
     each rule in the mode `call_with` runs it, holds of EVERY node of EVERY tree any run produces
     (induction on the fuel, skeleton of PegGeneric.run_good, which supplies the position bookkeeping).
   Part 2 (every grammar): [run_tops] — the top-level rule names an expression appends to the pair list, in an
     emitting context, belong to the language [tops e] read off the expression (quiet rules contribute nothing,
     a non-silent rule exactly its own name).
   Part 3 (gen/Grammar.v): the text of a `comment` / `eol_comment` pair contains no line feed and starts with "//";
     the inner pairs of a `do_block` are (comment | do_statement)* return_statement. *)
From Coq Require Import String Ascii List NArith Bool Arith Lia ZifyBool ZifyNat ZifyN.
Require Import Blots.Peg Blots.proofs.PegGeneric Blots.proofs.PegQuiet.
Import ListNotations.

Section Nodes.
  Variable R : Type.
  Variable G : grammar R.
  Notation st := (st R).
  Notation res := (res R).
  Notation runner := (runner R).
  Variable text : string.

  (* the state sits at byte offset [pos] of [text] *)
  Definition at_text (s : st) : Prop :=
    exists k, k <= String.length text /\ pos s = N.of_nat k /\ rest s = sdrop k text.
  Definition tslice (s e : N) : string := stake (N.to_nat (e - s)) (sdrop (N.to_nat s) text).

  (* the per-node property: rule, text under the span, inner pairs *)
  Variable C : R -> string -> list (tree R) -> Prop.
  Fixpoint tree_ok (t : tree R) : Prop :=
    match t with
    | Node r s e kids =>
        C r (tslice s e) kids /\
        (fix go (l : list (tree R)) : Prop := match l with [] => True | k :: l' => tree_ok k /\ go l' end) kids
    end.
  Definition forest_all (l : list (tree R)) : Prop := Forall tree_ok l.
  Lemma tree_ok_node : forall r s e kids, tree_ok (Node r s e kids) <-> C r (tslice s e) kids /\ forest_all kids.
  Proof.
    intros r s e kids. cbn [tree_ok]. unfold forest_all.
    assert (E : forall l, (fix go (l : list (tree R)) : Prop :=
                             match l with [] => True | k :: l' => tree_ok k /\ go l' end) l <-> Forall tree_ok l).
    { induction l as [|k l IH]; split; intro H.
      - constructor.
      - exact I.
      - destruct H as [H1 H2]. constructor; [exact H1|apply IH; exact H2].
      - inversion H; subst. split; [assumption|apply IH; assumption]. }
    rewrite E. reflexivity.
  Qed.

  Lemma at_text_adv : forall s s', at_text s -> adv R s s' -> at_text s'.
  Proof.
    intros s s' (k & L & P & E) (j & Lj & Ej & Pj). rewrite E in Lj. rewrite sdrop_length in Lj by assumption.
    exists (k + j). split; [lia|]. split; [lia|]. rewrite Ej, E. apply sdrop_sdrop.
  Qed.
  Lemma at_text_same : forall s s', at_text s -> pos s' = pos s -> rest s' = rest s -> at_text s'.
  Proof. intros s s' (k & L & P & E) Hp Hr. exists k. rewrite Hp, Hr. auto. Qed.
  Lemma at_text_good_ok : forall la s s', at_text s -> good R la s (Ok s') -> at_text s'.
  Proof. intros la s s' H Hg. destruct Hg as (A & _). eapply at_text_adv; eassumption. Qed.
  Lemma at_text_good_fail : forall la s s', at_text s -> good R la s (Fail s') -> at_text s'.
  Proof. intros la s s' H (P & E & _). eapply at_text_same; eassumption. Qed.

  (* the text a successful run consumed is the slice of the text between the two positions *)
  Lemma consumed_slice : forall s s', at_text s -> adv R s s' ->
    stake (N.to_nat (pos s' - pos s)) (rest s) = tslice (pos s) (pos s').
  Proof.
    intros s s' (k & L & P & E) _. unfold tslice. rewrite E, P, Nat2N.id. reflexivity.
  Qed.

  (* ---------------------------------------------------------------- the invariant *)
  Definition outs_ok (r : res) : Prop :=
    match r with Ok s' => forest_all (out s') | Fail s' => forest_all (out s') | _ => True end.
  (* [g] keeps the invariant, and is [good] (positions) *)
  Definition ok_fun (la : bool) (g : st -> res) : Prop :=
    good_fun R la g /\ forall s, at_text s -> forest_all (out s) -> outs_ok (g s).

  Lemma ok_bind : forall la s r f, at_text s -> good R la s r -> outs_ok r -> ok_fun la f -> outs_ok (bind r f).
  Proof.
    intros la s r f Ht Hg Ho [_ Hf]. destruct r; simpl in *; auto.
    apply Hf; [eapply at_text_good_ok; eassumption|exact Ho].
  Qed.
  Lemma ok_sequence : forall s r, forest_all (out s) -> outs_ok r -> outs_ok (sequence s r).
  Proof. intros s r Hs H. destruct r; simpl in *; auto. Qed.
  Lemma ok_optional : forall r, outs_ok r -> outs_ok (optional r).
  Proof. intros r H. destruct r; simpl in *; auto. Qed.

  Lemma ok_repeat : forall la n f, ok_fun la f -> ok_fun la (repeat_loop n f).
  Proof.
    intros la n f [Hg Hf]. split; [apply good_repeat; exact Hg|].
    induction n as [|n IH]; intros s Ht Ho; simpl; [exact I|].
    pose proof (Hf s Ht Ho) as H. pose proof (Hg s) as Hgs. destruct (f s) eqn:E; simpl in *; auto.
    apply IH; [eapply at_text_good_ok; [exact Ht|exact Hgs]|exact H].
  Qed.

  Lemma ok_lookahead : forall p f, ok_fun true f -> forall la, ok_fun la (lookahead p f).
  Proof.
    intros p f [Hg Hf] la. split; [apply good_lookahead; exact Hg|]. intros s Ht Ho. unfold lookahead.
    assert (Ht' : at_text (set_stk s (stack_snapshot (stk s)))) by (eapply at_text_same; [exact Ht|reflexivity|reflexivity]).
    pose proof (Hf _ Ht' Ho) as H.
    destruct (f (set_stk s (stack_snapshot (stk s)))) eqn:E; simpl in *; auto; destruct p; simpl; auto.
  Qed.
  Lemma ok_restore : forall la f, ok_fun la f -> ok_fun la (restore_on_err f).
  Proof.
    intros la f [Hg Hf]. split; [apply good_restore; exact Hg|]. intros s Ht Ho. unfold restore_on_err.
    assert (Ht' : at_text (set_stk s (stack_snapshot (stk s)))) by (eapply at_text_same; [exact Ht|reflexivity|reflexivity]).
    pose proof (Hf _ Ht' Ho) as H.
    destruct (f (set_stk s (stack_snapshot (stk s)))) eqn:E; simpl in *; auto.
  Qed.
  Lemma ok_push : forall la f, ok_fun la f -> ok_fun la (do_push f).
  Proof.
    intros la f [Hg Hf]. split; [apply good_push; exact Hg|]. intros s Ht Ho. unfold do_push.
    pose proof (Hf _ Ht Ho) as H. destruct (f s) eqn:E; simpl in *; auto.
  Qed.

  (* the only place a node is made *)
  Lemma ok_rule_wrap : forall r a la f, ok_fun la f ->
    (emits a la = true -> forall s s1, at_text s -> out s = [] -> f s = Ok s1 -> forest_all (out s1) ->
        C r (stake (N.to_nat (pos s1 - pos s)) (rest s)) (rev (out s1))) ->
    ok_fun la (rule_wrap r a la f).
  Proof.
    intros r a la f [Hg Hf] Hc. split; [apply good_rule_wrap; exact Hg|]. intros s Ht Ho. unfold rule_wrap.
    destruct (emits a la) eqn:Em; [|apply Hf; assumption].
    assert (Ht' : at_text (set_out s [])) by (eapply at_text_same; [exact Ht|reflexivity|reflexivity]).
    pose proof (Hf _ Ht' (Forall_nil _)) as H. pose proof (Hg (set_out s [])) as Hgs.
    destruct (f (set_out s [])) as [s1|s1| |] eqn:E; simpl in *; auto.
    constructor; [|exact Ho]. apply tree_ok_node. split.
    - destruct Hgs as (A & _). pose proof (consumed_slice (set_out s []) s1 Ht' A) as Hcs.
      cbn [pos rest set_out] in Hcs. rewrite <- Hcs.
      exact (Hc eq_refl (set_out s []) s1 Ht' eq_refl E H).
    - unfold forest_all. apply Forall_rev. exact H.
  Qed.

  (* what call_with does with a rule: the mode, the atomicity of the body, the atomicity rule_wrap sees *)
  Definition r_mode (d : rdef R) : bool :=
    (match rd_mod d with MAtomic | MCompound => true | _ => false end) || rd_trivia d.
  Definition r_body_atom (d : rdef R) (a : atomicity) : atomicity :=
    let a' := match rd_mod d with MAtomic => Atomic | MCompound => CompoundAtomic | MNonAtomic => NonAtomic | _ => a end in
    if rd_trivia d && negb (match rd_mod d with MAtomic | MCompound => true | _ => false end) then Atomic else a'.
  Definition r_wrap_atom (d : rdef R) (a : atomicity) : atomicity :=
    match rd_mod d with MCompound => CompoundAtomic | MNonAtomic => NonAtomic | _ => a end.

  (* HYPOTHESIS per rule: running the body, in the mode call_with uses, from an empty pair list, gives C *)
  Definition body_gives (rf : runner) : Prop :=
    forall r a s s1,
      rd_mod (g_def G r) <> MSilent ->
      emits (r_wrap_atom (g_def G r) a) false = true ->
      at_text s -> out s = [] ->
      rf (r_mode (g_def G r)) (r_body_atom (g_def G r) a) false (rd_body (g_def G r)) s = Ok s1 ->
      forest_all (out s1) ->
      C r (stake (N.to_nat (pos s1 - pos s)) (rest s)) (rev (out s1)).

  Definition ok_runner (rf : runner) : Prop := forall m a la e, ok_fun la (rf m a la e).

  Lemma emits_la : forall a la, emits a la = true -> la = false.
  Proof. intros a la H. unfold emits in H. destruct la; [discriminate H|reflexivity]. Qed.

  Lemma ok_call : forall rf, ok_runner rf -> body_gives rf -> forall a la r, ok_fun la (call_with G rf a la r).
  Proof.
    intros rf H Hb a la r. unfold call_with.
    pose proof (Hb r a) as Hbr. unfold r_mode, r_body_atom, r_wrap_atom in Hbr.
    destruct (rd_mod (g_def G r)) eqn:Em.
    - apply ok_rule_wrap; [apply H|]. intros He s s1 Ht Ho E Hf. pose proof (emits_la _ _ He) as ->.
      apply Hbr; auto; try discriminate.
    - apply H.
    - apply ok_rule_wrap; [apply H|]. intros He s s1 Ht Ho E Hf. pose proof (emits_la _ _ He) as ->.
      apply Hbr; auto; try discriminate.
      all: try (cbn [orb] in *; destruct (rd_trivia (g_def G r)); cbn [andb negb] in *; exact E).
    - apply ok_rule_wrap; [apply H|]. intros He s s1 Ht Ho E Hf. pose proof (emits_la _ _ He) as ->.
      apply Hbr; auto; try discriminate.
      all: try (cbn [orb] in *; destruct (rd_trivia (g_def G r)); cbn [andb negb] in *; exact E).
    - apply ok_rule_wrap; [apply H|]. intros He s s1 Ht Ho E Hf. pose proof (emits_la _ _ He) as ->.
      apply Hbr; auto; try discriminate.
  Qed.

  Lemma ok_fun_seq_bind : forall la (f g : st -> res), ok_fun la f -> ok_fun la g ->
    ok_fun la (fun s => sequence s (bind (f s) g)).
  Proof.
    intros la f g [Hgf Hf] [Hgg Hg]. split.
    - intro s. apply good_sequence_bind; [apply Hgf|exact Hgg].
    - intros s Ht Ho. apply ok_sequence; [exact Ho|].
      eapply ok_bind; [exact Ht|apply Hgf|apply Hf; assumption|split; assumption].
  Qed.

  Lemma ok_skip : forall n call, (forall a la r, ok_fun la (call a la r)) ->
    forall a la, ok_fun la (skip_with G n call a la).
  Proof.
    intros n call H a la.
    assert (Hgood : good_fun R la (skip_with G n call a la)) by (apply good_skip; intros; apply H).
    split; [exact Hgood|]. intros s Ht Ho. unfold skip_with.
    destruct a; try (simpl; exact Ho).
    destruct (g_ws G) as [w|], (g_comment G) as [c|]; try (simpl; exact Ho).
    - refine (proj2 (ok_fun_seq_bind la _ _ (ok_repeat la n _ (H _ _ w)) _) s Ht Ho).
      apply ok_repeat. apply ok_fun_seq_bind; [apply H|]. apply ok_repeat. apply H.
    - apply (ok_repeat la n _ (H _ _ w)); assumption.
    - apply (ok_repeat la n _ (H _ _ c)); assumption.
  Qed.

  Theorem run_nodes : forall f, (forall f', f' < f -> body_gives (run G f')) -> ok_runner (run G f).
  Proof.
    induction f as [|f IH]; intros Hb m a la e.
    { split; [apply run_good|]. intros s _ _. exact I. }
    assert (IHr : ok_runner (run G f)) by (apply IH; intros f' L; apply Hb; lia).
    assert (Hbf : body_gives (run G f)) by (apply Hb; lia).
    pose proof (ok_call _ IHr Hbf) as IHc.
    pose proof (fun a la => ok_skip f _ IHc a la) as IHs.
    split; [apply run_good|]. intros s Ht Ho.
    rewrite run_S. cbv zeta.
    destruct e as [x|x|lo hi|r|b|x|x|x y|x y|x|x|ss|x|x].
    - unfold match_string. destruct (drop_prefix x (rest s)); simpl; exact Ho.
    - unfold match_insensitive. destruct (drop_prefix_ci x (rest s)); simpl; exact Ho.
    - unfold match_range. destruct (rest s); simpl; [exact Ho|]. destruct (in_range lo hi a0); simpl; exact Ho.
    - apply IHc; assumption.
    - destruct b; simpl.
      + destruct (rest s); simpl; exact Ho.
      + destruct (N.eqb (pos s) 0); simpl; exact Ho.
      + destruct (rest s); simpl; exact Ho.
      + destruct (stack_peek (stk s)); [|exact I]. unfold match_string. destruct (drop_prefix s0 (rest s)); simpl; exact Ho.
      + destruct (stack_pop (stk s)) as [[x|] k]; [|exact I]. unfold match_string. simpl.
        destruct (drop_prefix x (rest s)); simpl; exact Ho.
      + destruct (stack_pop (stk s)) as [[x|] k]; simpl; exact Ho.
    - apply (ok_lookahead true _ (IHr m a true x)); assumption.
    - apply (ok_lookahead false _ (IHr m a true x)); assumption.
    - destruct m.
      + exact (proj2 (ok_fun_seq_bind la _ _ (IHr true a la x) (IHr true a la y)) s Ht Ho).
      + apply ok_sequence; [exact Ho|].
        pose proof (good_bind R la s _ (skip_with G f (call_with G (run G f)) a la)
                              (proj1 (IHr false a la x) s) (proj1 (IHs a la))) as W1.
        assert (O1 : outs_ok (bind (run G f false a la x s) (skip_with G f (call_with G (run G f)) a la))).
        { eapply ok_bind; [exact Ht|apply (proj1 (IHr false a la x))|
                           apply (proj2 (IHr false a la x)); assumption|apply IHs]. }
        destruct (bind (run G f false a la x s) (skip_with G f (call_with G (run G f)) a la)) as [s1|s1| |] eqn:E1;
          simpl; auto.
        apply (proj2 (IHr false a la y)); [|exact O1].
        simpl in W1. eapply at_text_good_ok; [exact Ht|exact W1].
    - pose proof (proj2 (IHr m a la x) s Ht Ho) as H1. pose proof (proj1 (IHr m a la x) s) as G1.
      destruct (run G f m a la x s) eqn:E1; auto.
      apply (proj2 (IHr m a la y)); [eapply at_text_good_fail; [exact Ht|exact G1]|exact H1].
    - apply ok_optional. apply (proj2 (IHr m a la x)); assumption.
    - destruct m.
      + apply (proj2 (ok_repeat la f _ (IHr true a la x))); assumption.
      + apply ok_sequence; [exact Ho|]. apply ok_optional.
        eapply ok_bind; [exact Ht|apply (proj1 (IHr false a la x))|apply (proj2 (IHr false a la x)); assumption|].
        apply ok_repeat. exact (ok_fun_seq_bind la _ _ (IHs a la) (IHr false a la x)).
    - destruct (skip_until_pos ss (pos s) (rest s)) as [p r]. simpl. exact Ho.
    - apply (proj2 (ok_push la _ (IHr m a la x))); assumption.
    - apply (proj2 (ok_restore la _ (IHr m a la x))); assumption.
  Qed.

  (* for every text: all nodes of all trees of a parse satisfy C *)
  Theorem parse_nodes : (forall f, body_gives (run G f)) ->
    forall f r s', parse G f r text = Ok s' -> forest_all (out s').
  Proof.
    intros Hb f r s' H. unfold parse in H.
    assert (Hr : ok_runner (run G f)) by (apply run_nodes; intros; apply Hb).
    pose proof (proj2 (ok_call _ Hr (Hb f) NonAtomic false r) (init text)) as Hc.
    rewrite H in Hc. apply Hc.
    - exists 0. simpl. repeat split; lia.
    - constructor.
  Qed.
End Nodes.

(* ================================================================== Part 3a: comment texts (any grammar) *)
Require Import Blots.Formatter Blots.gen.Grammar Blots.PegToItems Blots.PegComments.
Local Open Scope string_scope.

Definition LFs : string := String "010"%char EmptyString.

Lemma nl_free_cons : forall c t, nl_free (String c t) = negb (Ascii.eqb c NLc) && nl_free t.
Proof. intros c t. unfold nl_free. cbn [contains_nl]. destruct (Ascii.eqb c NLc); reflexivity. Qed.

(* skip_until over a set containing "\n" never steps over a line feed *)
Lemma skip_until_no_lf : forall ss, In LFs ss -> forall t p,
  exists k, k <= String.length t /\ skip_until_pos ss p t = ((p + N.of_nat k)%N, sdrop k t)
            /\ nl_free (stake k t) = true.
Proof.
  intros ss Hin. induction t as [|c t IH]; intro p.
  - exists 0. split; [simpl; lia|]. split; [|reflexivity]. cbn [skip_until_pos sdrop].
    destruct (existsb _ ss); f_equal; lia.
  - cbn [skip_until_pos].
    destruct (existsb (fun x => match drop_prefix x (String c t) with Some _ => true | None => false end) ss) eqn:Ex.
    + exists 0. split; [simpl; lia|]. split; [cbn [sdrop]; f_equal; lia|reflexivity].
    + destruct (IH (p + 1)%N) as (k & L & E & F). exists (S k). split; [simpl; lia|]. split.
      * rewrite E. cbn [sdrop]. f_equal. lia.
      * cbn [stake]. rewrite nl_free_cons, F, andb_true_r.
        destruct (Ascii.eqb c NLc) eqn:Ec; [|reflexivity]. exfalso.
        apply Ascii.eqb_eq in Ec. subst c.
        assert (Hx : existsb (fun x => match drop_prefix x (String NLc t) with Some _ => true | None => false end) ss = true).
        { apply existsb_exists. exists LFs. split; [exact Hin|]. unfold LFs, NLc. cbn [drop_prefix].
          rewrite Ascii.eqb_refl. reflexivity. }
        rewrite Hx in Ex. discriminate Ex.
Qed.

Definition comment_text_ok (t : string) : Prop :=
  exists r, t = String "/" (String "/" r) /\ nl_free r = true.

Lemma comment_text_ok_nl_free : forall t, comment_text_ok t -> nl_free t = true.
Proof. intros t (r & -> & H). rewrite !nl_free_cons, H. reflexivity. Qed.

Section CommentBody.
  Variable R : Type.
  Variable G : grammar R.
  (* the body of pest's optimized `"//" ~ (!NEWLINE-ish ~ ANY)*` = Seq (Str "//") (SkipUntil [.. "\n" ..]), atomic mode *)
  Lemma comment_body_consumes : forall fu a la ss (s s1 : st R), In LFs ss ->
    run G fu true a la (Seq (Str "//") (SkipUntil ss)) s = Ok s1 ->
    comment_text_ok (stake (N.to_nat (pos s1 - pos s)) (rest s)).
  Proof.
    intros fu a la ss s s1 Hin H.
    destruct fu as [|[|fu]]; [discriminate H|discriminate H|].
    rewrite run_S in H. cbv zeta in H. rewrite !run_S in H. cbv zeta in H.
    unfold match_string in H. destruct (drop_prefix "//" (rest s)) as [t|] eqn:Ed; [|discriminate H].
    cbn [bind] in H. rewrite run_S in H. cbv zeta in H.
    destruct (skip_until_no_lf ss Hin t (pos s + slen "//")%N) as (k & L & E & F).
    cbn [set_pos pos rest] in H. rewrite E in H. cbn [sequence] in H. inversion H; subst s1. clear H.
    cbn [pos set_pos].
    destruct (rest s) as [|c1 [|c2 r0]] eqn:Er; cbn [drop_prefix] in Ed; try discriminate Ed.
    { destruct (Ascii.eqb "/" c1); discriminate Ed. }
    destruct (Ascii.eqb "/" c1) eqn:E1; [|discriminate Ed].
    destruct (Ascii.eqb "/" c2) eqn:E2; [|discriminate Ed].
    apply Ascii.eqb_eq in E1, E2. subst c1 c2. inversion Ed; subst t. clear Ed.
    exists (stake k r0). split; [|exact F].
    replace (N.to_nat (pos s + slen "//" + N.of_nat k - pos s)) with (S (S k)) by (unfold slen; cbn [String.length]; lia).
    cbn [stake]. reflexivity.
  Qed.
End CommentBody.

(* ================================================================== Part 3b: gen/Grammar.v — comment pairs *)
Definition C_comment (r : grule) (txt : string) (kids : list (tree grule)) : Prop :=
  is_comment_rule r = true -> comment_text_ok txt.

Lemma blots_comment_body_gives : forall text f, body_gives grule blots_grammar text C_comment (run blots_grammar f).
Proof.
  intros text f r a s s1 _ _ _ _ H _ Hc.
  destruct r; try discriminate Hc.
  - refine (comment_body_consumes grule blots_grammar f _ false _ s s1 _ H). right. left. reflexivity.
  - refine (comment_body_consumes grule blots_grammar f _ false _ s s1 _ H). right. left. reflexivity.
Qed.

Lemma tree_comments_ok : forall text t,
  tree_ok grule text C_comment t -> Forall comment_text_ok (tree_comments text t).
Proof.
  intro text. fix IH 1. intros [r s e kids] H. cbn [tree_ok] in H. destruct H as [Hc Hk]. cbn [tree_comments].
  apply Forall_app. split.
  - destruct (is_comment_rule r) eqn:Ec; [|constructor]. constructor; [exact (Hc Ec)|constructor].
  - clear Hc. induction kids as [|k kids IHk]; [constructor|]. destruct Hk as [H1 H2].
    apply Forall_app. split; [apply IH; exact H1|apply IHk; exact H2].
Qed.

Lemma forest_comments_ok : forall text l,
  forest_all grule text C_comment l -> Forall comment_text_ok (forest_comments text l).
Proof.
  intros text l H. unfold forest_comments. induction H as [|t l Ht _ IH]; [constructor|].
  cbn [flat_map]. apply Forall_app. split; [apply tree_comments_ok; exact Ht|exact IH].
Qed.

(* SHAPE, comment texts: for EVERY text the interpreter accepts, every `comment` / `eol_comment` pair of the tree,
   at any depth, has a text "//" ++ r with no line feed in r *)
Theorem shape_comment_texts : forall fuel text s',
  Peg.parse blots_grammar fuel PG_input text = Peg.Ok s' ->
  Forall comment_text_ok (forest_comments text (rev (out s'))).
Proof.
  intros fuel text s' H. apply forest_comments_ok. unfold forest_all. apply Forall_rev.
  exact (parse_nodes grule blots_grammar text C_comment (blots_comment_body_gives text) fuel PG_input s' H).
Qed.

Theorem shape_comment_texts_program : forall text forest p,
  parse_program_c text = PCOk forest p ->
  Forall comment_text_ok (forest_comments text forest).
Proof.
  intros text forest p. unfold parse_program_c.
  pose proof (shape_comment_texts (peg_fuel text) text) as Hs. revert Hs.
  generalize (Peg.parse blots_grammar (peg_fuel text) PG_input text). intros r Hs H.
  destruct r as [s|s| |]; try discriminate H. specialize (Hs s eq_refl). revert H Hs.
  generalize (rev (out s)). intros fr H Hs.
  destruct (program_of_forest text fr) as [[q|]| | | |]; try discriminate H.
  injection H as <- <-. exact Hs.
Qed.
