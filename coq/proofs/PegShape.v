(* proofs/PegShape.v — SHAPE of the pair trees the PEG interpreter (coq/Peg.v) produces, PROVED of `Peg.parse`
   instead of tested on every tree (C09 parser half: the hypotheses forest_shape_ok / forest_view_ok).
   Part 1 (every grammar): [run_nodes] — a per-rule postcondition `C r consumed kids`, established for the BODY of
     each rule in the mode `call_with` runs it, holds of EVERY node of EVERY tree any run produces
     (induction on the fuel, skeleton of PegGeneric.run_good, which supplies the position bookkeeping).
   Part 2 (every grammar): [run_tops] — the top-level rule names an expression appends to the pair list, in an
     emitting context, belong to the language [tops e] read off the expression (quiet rules contribute nothing,
     a non-silent rule exactly its own name).
   Part 3 (gen/Grammar.v): the text of a `comment` / `eol_comment` pair contains no line feed and starts with "//";
     the inner pairs of a `do_block` are (comment | do_statement)* return_statement. *)
From Coq Require Import String Ascii List NArith Bool Arith Lia ZifyBool ZifyNat ZifyN.
Require Import Blots.Peg Blots.proofs.PegGeneric Blots.proofs.PegQuiet.
Import ListNotations.

Section Nodes.
  Variable R : Type.
  Variable G : grammar R.
  Notation st := (st R).
  Notation res := (res R).
  Notation runner := (runner R).
  Variable text : string.

  (* the state sits at byte offset [pos] of [text] *)
  Definition at_text (s : st) : Prop :=
    exists k, k <= String.length text /\ pos s = N.of_nat k /\ rest s = sdrop k text.
  Definition tslice (s e : N) : string := stake (N.to_nat (e - s)) (sdrop (N.to_nat s) text).

  (* the per-node property: rule, text under the span, inner pairs *)
  Variable C : R -> string -> list (tree R) -> Prop.
  Fixpoint tree_ok (t : tree R) : Prop :=
    match t with
    | Node r s e kids =>
        C r (tslice s e) kids /\
        (fix go (l : list (tree R)) : Prop := match l with [] => True | k :: l' => tree_ok k /\ go l' end) kids
    end.
  Definition forest_all (l : list (tree R)) : Prop := Forall tree_ok l.
  Lemma tree_ok_node : forall r s e kids, tree_ok (Node r s e kids) <-> C r (tslice s e) kids /\ forest_all kids.
  Proof.
    intros r s e kids. cbn [tree_ok]. unfold forest_all.
    assert (E : forall l, (fix go (l : list (tree R)) : Prop :=
                             match l with [] => True | k :: l' => tree_ok k /\ go l' end) l <-> Forall tree_ok l).
    { induction l as [|k l IH]; split; intro H.
      - constructor.
      - exact I.
      - destruct H as [H1 H2]. constructor; [exact H1|apply IH; exact H2].
      - inversion H; subst. split; [assumption|apply IH; assumption]. }
    rewrite E. reflexivity.
  Qed.

  Lemma at_text_adv : forall s s', at_text s -> adv R s s' -> at_text s'.
  Proof.
    intros s s' (k & L & P & E) (j & Lj & Ej & Pj). rewrite E in Lj. rewrite sdrop_length in Lj by assumption.
    exists (k + j). split; [lia|]. split; [lia|]. rewrite Ej, E. apply sdrop_sdrop.
  Qed.
  Lemma at_text_same : forall s s', at_text s -> pos s' = pos s -> rest s' = rest s -> at_text s'.
  Proof. intros s s' (k & L & P & E) Hp Hr. exists k. rewrite Hp, Hr. auto. Qed.
  Lemma at_text_good_ok : forall la s s', at_text s -> good R la s (Ok s') -> at_text s'.
  Proof. intros la s s' H Hg. destruct Hg as (A & _). eapply at_text_adv; eassumption. Qed.
  Lemma at_text_good_fail : forall la s s', at_text s -> good R la s (Fail s') -> at_text s'.
  Proof. intros la s s' H (P & E & _). eapply at_text_same; eassumption. Qed.

  (* the text a successful run consumed is the slice of the text between the two positions *)
  Lemma consumed_slice : forall s s', at_text s -> adv R s s' ->
    stake (N.to_nat (pos s' - pos s)) (rest s) = tslice (pos s) (pos s').
  Proof.
    intros s s' (k & L & P & E) _. unfold tslice. rewrite E, P, Nat2N.id. reflexivity.
  Qed.

  (* ---------------------------------------------------------------- the invariant *)
  Definition outs_ok (r : res) : Prop :=
    match r with Ok s' => forest_all (out s') | Fail s' => forest_all (out s') | _ => True end.
  (* [g] keeps the invariant, and is [good] (positions) *)
  Definition ok_fun (la : bool) (g : st -> res) : Prop :=
    good_fun R la g /\ forall s, at_text s -> forest_all (out s) -> outs_ok (g s).

  Lemma ok_bind : forall la s r f, at_text s -> good R la s r -> outs_ok r -> ok_fun la f -> outs_ok (bind r f).
  Proof.
    intros la s r f Ht Hg Ho [_ Hf]. destruct r; simpl in *; auto.
    apply Hf; [eapply at_text_good_ok; eassumption|exact Ho].
  Qed.
  Lemma ok_sequence : forall s r, forest_all (out s) -> outs_ok r -> outs_ok (sequence s r).
  Proof. intros s r Hs H. destruct r; simpl in *; auto. Qed.
  Lemma ok_optional : forall r, outs_ok r -> outs_ok (optional r).
  Proof. intros r H. destruct r; simpl in *; auto. Qed.

  Lemma ok_repeat : forall la n f, ok_fun la f -> ok_fun la (repeat_loop n f).
  Proof.
    intros la n f [Hg Hf]. split; [apply good_repeat; exact Hg|].
    induction n as [|n IH]; intros s Ht Ho; simpl; [exact I|].
    pose proof (Hf s Ht Ho) as H. pose proof (Hg s) as Hgs. destruct (f s) eqn:E; simpl in *; auto.
    apply IH; [eapply at_text_good_ok; [exact Ht|exact Hgs]|exact H].
  Qed.

  Lemma ok_lookahead : forall p f, ok_fun true f -> forall la, ok_fun la (lookahead p f).
  Proof.
    intros p f [Hg Hf] la. split; [apply good_lookahead; exact Hg|]. intros s Ht Ho. unfold lookahead.
    assert (Ht' : at_text (set_stk s (stack_snapshot (stk s)))) by (eapply at_text_same; [exact Ht|reflexivity|reflexivity]).
    pose proof (Hf _ Ht' Ho) as H.
    destruct (f (set_stk s (stack_snapshot (stk s)))) eqn:E; simpl in *; auto; destruct p; simpl; auto.
  Qed.
  Lemma ok_restore : forall la f, ok_fun la f -> ok_fun la (restore_on_err f).
  Proof.
    intros la f [Hg Hf]. split; [apply good_restore; exact Hg|]. intros s Ht Ho. unfold restore_on_err.
    assert (Ht' : at_text (set_stk s (stack_snapshot (stk s)))) by (eapply at_text_same; [exact Ht|reflexivity|reflexivity]).
    pose proof (Hf _ Ht' Ho) as H.
    destruct (f (set_stk s (stack_snapshot (stk s)))) eqn:E; simpl in *; auto.
  Qed.
  Lemma ok_push : forall la f, ok_fun la f -> ok_fun la (do_push f).
  Proof.
    intros la f [Hg Hf]. split; [apply good_push; exact Hg|]. intros s Ht Ho. unfold do_push.
    pose proof (Hf _ Ht Ho) as H. destruct (f s) eqn:E; simpl in *; auto.
  Qed.

  (* the only place a node is made *)
  Lemma ok_rule_wrap : forall r a la f, ok_fun la f ->
    (emits a la = true -> forall s s1, at_text s -> out s = [] -> f s = Ok s1 -> forest_all (out s1) ->
        C r (stake (N.to_nat (pos s1 - pos s)) (rest s)) (rev (out s1))) ->
    ok_fun la (rule_wrap r a la f).
  Proof.
    intros r a la f [Hg Hf] Hc. split; [apply good_rule_wrap; exact Hg|]. intros s Ht Ho. unfold rule_wrap.
    destruct (emits a la) eqn:Em; [|apply Hf; assumption].
    assert (Ht' : at_text (set_out s [])) by (eapply at_text_same; [exact Ht|reflexivity|reflexivity]).
    pose proof (Hf _ Ht' (Forall_nil _)) as H. pose proof (Hg (set_out s [])) as Hgs.
    destruct (f (set_out s [])) as [s1|s1| |] eqn:E; simpl in *; auto.
    constructor; [|exact Ho]. apply tree_ok_node. split.
    - destruct Hgs as (A & _). pose proof (consumed_slice (set_out s []) s1 Ht' A) as Hcs.
      cbn [pos rest set_out] in Hcs. rewrite <- Hcs.
      exact (Hc eq_refl (set_out s []) s1 Ht' eq_refl E H).
    - unfold forest_all. apply Forall_rev. exact H.
  Qed.

  (* what call_with does with a rule: the mode, the atomicity of the body, the atomicity rule_wrap sees *)
  Definition r_mode (d : rdef R) : bool :=
    (match rd_mod d with MAtomic | MCompound => true | _ => false end) || rd_trivia d.
  Definition r_body_atom (d : rdef R) (a : atomicity) : atomicity :=
    let a' := match rd_mod d with MAtomic => Atomic | MCompound => CompoundAtomic | MNonAtomic => NonAtomic | _ => a end in
    if rd_trivia d && negb (match rd_mod d with MAtomic | MCompound => true | _ => false end) then Atomic else a'.
  Definition r_wrap_atom (d : rdef R) (a : atomicity) : atomicity :=
    match rd_mod d with MCompound => CompoundAtomic | MNonAtomic => NonAtomic | _ => a end.

  (* HYPOTHESIS per rule: running the body, in the mode call_with uses, from an empty pair list, gives C *)
  Definition body_gives (rf : runner) : Prop :=
    forall r a s s1,
      rd_mod (g_def G r) <> MSilent ->
      emits (r_wrap_atom (g_def G r) a) false = true ->
      at_text s -> out s = [] ->
      rf (r_mode (g_def G r)) (r_body_atom (g_def G r) a) false (rd_body (g_def G r)) s = Ok s1 ->
      forest_all (out s1) ->
      C r (stake (N.to_nat (pos s1 - pos s)) (rest s)) (rev (out s1)).

  Definition ok_runner (rf : runner) : Prop := forall m a la e, ok_fun la (rf m a la e).

  Lemma emits_la : forall a la, emits a la = true -> la = false.
  Proof. intros a la H. unfold emits in H. destruct la; [discriminate H|reflexivity]. Qed.

  Lemma ok_call : forall rf, ok_runner rf -> body_gives rf -> forall a la r, ok_fun la (call_with G rf a la r).
  Proof.
    intros rf H Hb a la r. unfold call_with.
    pose proof (Hb r a) as Hbr. unfold r_mode, r_body_atom, r_wrap_atom in Hbr.
    destruct (rd_mod (g_def G r)) eqn:Em.
    - apply ok_rule_wrap; [apply H|]. intros He s s1 Ht Ho E Hf. pose proof (emits_la _ _ He) as ->.
      apply Hbr; auto; try discriminate.
    - apply H.
    - apply ok_rule_wrap; [apply H|]. intros He s s1 Ht Ho E Hf. pose proof (emits_la _ _ He) as ->.
      apply Hbr; auto; try discriminate.
      all: try (cbn [orb] in *; destruct (rd_trivia (g_def G r)); cbn [andb negb] in *; exact E).
    - apply ok_rule_wrap; [apply H|]. intros He s s1 Ht Ho E Hf. pose proof (emits_la _ _ He) as ->.
      apply Hbr; auto; try discriminate.
      all: try (cbn [orb] in *; destruct (rd_trivia (g_def G r)); cbn [andb negb] in *; exact E).
    - apply ok_rule_wrap; [apply H|]. intros He s s1 Ht Ho E Hf. pose proof (emits_la _ _ He) as ->.
      apply Hbr; auto; try discriminate.
  Qed.

  Lemma ok_fun_seq_bind : forall la (f g : st -> res), ok_fun la f -> ok_fun la g ->
    ok_fun la (fun s => sequence s (bind (f s) g)).
  Proof.
    intros la f g [Hgf Hf] [Hgg Hg]. split.
    - intro s. apply good_sequence_bind; [apply Hgf|exact Hgg].
    - intros s Ht Ho. apply ok_sequence; [exact Ho|].
      eapply ok_bind; [exact Ht|apply Hgf|apply Hf; assumption|split; assumption].
  Qed.

  Lemma ok_skip : forall n call, (forall a la r, ok_fun la (call a la r)) ->
    forall a la, ok_fun la (skip_with G n call a la).
  Proof.
    intros n call H a la.
    assert (Hgood : good_fun R la (skip_with G n call a la)) by (apply good_skip; intros; apply H).
    split; [exact Hgood|]. intros s Ht Ho. unfold skip_with.
    destruct a; try (simpl; exact Ho).
    destruct (g_ws G) as [w|], (g_comment G) as [c|]; try (simpl; exact Ho).
    - refine (proj2 (ok_fun_seq_bind la _ _ (ok_repeat la n _ (H _ _ w)) _) s Ht Ho).
      apply ok_repeat. apply ok_fun_seq_bind; [apply H|]. apply ok_repeat. apply H.
    - apply (ok_repeat la n _ (H _ _ w)); assumption.
    - apply (ok_repeat la n _ (H _ _ c)); assumption.
  Qed.

  Theorem run_nodes : forall f, (forall f', f' < f -> body_gives (run G f')) -> ok_runner (run G f).
  Proof.
    induction f as [|f IH]; intros Hb m a la e.
    { split; [apply run_good|]. intros s _ _. exact I. }
    assert (IHr : ok_runner (run G f)) by (apply IH; intros f' L; apply Hb; lia).
    assert (Hbf : body_gives (run G f)) by (apply Hb; lia).
    pose proof (ok_call _ IHr Hbf) as IHc.
    pose proof (fun a la => ok_skip f _ IHc a la) as IHs.
    split; [apply run_good|]. intros s Ht Ho.
    rewrite run_S. cbv zeta.
    destruct e as [x|x|lo hi|r|b|x|x|x y|x y|x|x|ss|x|x].
    - unfold match_string. destruct (drop_prefix x (rest s)); simpl; exact Ho.
    - unfold match_insensitive. destruct (drop_prefix_ci x (rest s)); simpl; exact Ho.
    - unfold match_range. destruct (rest s); simpl; [exact Ho|]. destruct (in_range lo hi a0); simpl; exact Ho.
    - apply IHc; assumption.
    - destruct b; simpl.
      + destruct (rest s); simpl; exact Ho.
      + destruct (N.eqb (pos s) 0); simpl; exact Ho.
      + destruct (rest s); simpl; exact Ho.
      + destruct (stack_peek (stk s)); [|exact I]. unfold match_string. destruct (drop_prefix s0 (rest s)); simpl; exact Ho.
      + destruct (stack_pop (stk s)) as [[x|] k]; [|exact I]. unfold match_string. simpl.
        destruct (drop_prefix x (rest s)); simpl; exact Ho.
      + destruct (stack_pop (stk s)) as [[x|] k]; simpl; exact Ho.
    - apply (ok_lookahead true _ (IHr m a true x)); assumption.
    - apply (ok_lookahead false _ (IHr m a true x)); assumption.
    - destruct m.
      + exact (proj2 (ok_fun_seq_bind la _ _ (IHr true a la x) (IHr true a la y)) s Ht Ho).
      + apply ok_sequence; [exact Ho|].
        pose proof (good_bind R la s _ (skip_with G f (call_with G (run G f)) a la)
                              (proj1 (IHr false a la x) s) (proj1 (IHs a la))) as W1.
        assert (O1 : outs_ok (bind (run G f false a la x s) (skip_with G f (call_with G (run G f)) a la))).
        { eapply ok_bind; [exact Ht|apply (proj1 (IHr false a la x))|
                           apply (proj2 (IHr false a la x)); assumption|apply IHs]. }
        destruct (bind (run G f false a la x s) (skip_with G f (call_with G (run G f)) a la)) as [s1|s1| |] eqn:E1;
          simpl; auto.
        apply (proj2 (IHr false a la y)); [|exact O1].
        simpl in W1. eapply at_text_good_ok; [exact Ht|exact W1].
    - pose proof (proj2 (IHr m a la x) s Ht Ho) as H1. pose proof (proj1 (IHr m a la x) s) as G1.
      destruct (run G f m a la x s) eqn:E1; auto.
      apply (proj2 (IHr m a la y)); [eapply at_text_good_fail; [exact Ht|exact G1]|exact H1].
    - apply ok_optional. apply (proj2 (IHr m a la x)); assumption.
    - destruct m.
      + apply (proj2 (ok_repeat la f _ (IHr true a la x))); assumption.
      + apply ok_sequence; [exact Ho|]. apply ok_optional.
        eapply ok_bind; [exact Ht|apply (proj1 (IHr false a la x))|apply (proj2 (IHr false a la x)); assumption|].
        apply ok_repeat. exact (ok_fun_seq_bind la _ _ (IHs a la) (IHr false a la x)).
    - destruct (skip_until_pos ss (pos s) (rest s)) as [p r]. simpl. exact Ho.
    - apply (proj2 (ok_push la _ (IHr m a la x))); assumption.
    - apply (proj2 (ok_restore la _ (IHr m a la x))); assumption.
  Qed.

  (* for every text: all nodes of all trees of a parse satisfy C *)
  Theorem parse_nodes : (forall f, body_gives (run G f)) ->
    forall f r s', parse G f r text = Ok s' -> forest_all (out s').
  Proof.
    intros Hb f r s' H. unfold parse in H.
    assert (Hr : ok_runner (run G f)) by (apply run_nodes; intros; apply Hb).
    pose proof (proj2 (ok_call _ Hr (Hb f) NonAtomic false r) (init text)) as Hc.
    rewrite H in Hc. apply Hc.
    - exists 0. simpl. repeat split; lia.
    - constructor.
  Qed.
End Nodes.

(* ================================================================== Part 3a: comment texts (any grammar) *)
Require Import Blots.Formatter Blots.gen.Grammar Blots.PegToItems Blots.PegComments.
Local Open Scope string_scope.

Definition LFs : string := String "010"%char EmptyString.

Lemma nl_free_cons : forall c t, nl_free (String c t) = negb (Ascii.eqb c NLc) && nl_free t.
Proof. intros c t. unfold nl_free. cbn [contains_nl]. destruct (Ascii.eqb c NLc); reflexivity. Qed.

(* skip_until over a set containing "\n" never steps over a line feed *)
Lemma skip_until_no_lf : forall ss, In LFs ss -> forall t p,
  exists k, k <= String.length t /\ skip_until_pos ss p t = ((p + N.of_nat k)%N, sdrop k t)
            /\ nl_free (stake k t) = true.
Proof.
  intros ss Hin. induction t as [|c t IH]; intro p.
  - exists 0. split; [simpl; lia|]. split; [|reflexivity]. cbn [skip_until_pos sdrop].
    destruct (existsb _ ss); f_equal; lia.
  - cbn [skip_until_pos].
    destruct (existsb (fun x => match drop_prefix x (String c t) with Some _ => true | None => false end) ss) eqn:Ex.
    + exists 0. split; [simpl; lia|]. split; [cbn [sdrop]; f_equal; lia|reflexivity].
    + destruct (IH (p + 1)%N) as (k & L & E & F). exists (S k). split; [simpl; lia|]. split.
      * rewrite E. cbn [sdrop]. f_equal. lia.
      * cbn [stake]. rewrite nl_free_cons, F, andb_true_r.
        destruct (Ascii.eqb c NLc) eqn:Ec; [|reflexivity]. exfalso.
        apply Ascii.eqb_eq in Ec. subst c.
        assert (Hx : existsb (fun x => match drop_prefix x (String NLc t) with Some _ => true | None => false end) ss = true).
        { apply existsb_exists. exists LFs. split; [exact Hin|]. unfold LFs, NLc. cbn [drop_prefix].
          rewrite Ascii.eqb_refl. reflexivity. }
        rewrite Hx in Ex. discriminate Ex.
Qed.

Definition comment_text_ok (t : string) : Prop :=
  exists r, t = String "/" (String "/" r) /\ nl_free r = true.

Lemma comment_text_ok_nl_free : forall t, comment_text_ok t -> nl_free t = true.
Proof. intros t (r & -> & H). rewrite !nl_free_cons, H. reflexivity. Qed.

Section CommentBody.
  Variable R : Type.
  Variable G : grammar R.
  (* the body of pest's optimized `"//" ~ (!NEWLINE-ish ~ ANY)*` = Seq (Str "//") (SkipUntil [.. "\n" ..]), atomic mode *)
  Lemma comment_body_consumes : forall fu a la ss (s s1 : st R), In LFs ss ->
    run G fu true a la (Seq (Str "//") (SkipUntil ss)) s = Ok s1 ->
    comment_text_ok (stake (N.to_nat (pos s1 - pos s)) (rest s)).
  Proof.
    intros fu a la ss s s1 Hin H.
    destruct fu as [|[|fu]]; [discriminate H|discriminate H|].
    rewrite run_S in H. cbv zeta in H. rewrite !run_S in H. cbv zeta in H.
    unfold match_string in H. destruct (drop_prefix "//" (rest s)) as [t|] eqn:Ed; [|discriminate H].
    cbn [bind] in H. rewrite run_S in H. cbv zeta in H.
    destruct (skip_until_no_lf ss Hin t (pos s + slen "//")%N) as (k & L & E & F).
    cbn [set_pos pos rest] in H. rewrite E in H. cbn [sequence] in H. inversion H; subst s1. clear H.
    cbn [pos set_pos].
    destruct (rest s) as [|c1 [|c2 r0]] eqn:Er; cbn [drop_prefix] in Ed; try discriminate Ed.
    { destruct (Ascii.eqb "/" c1); discriminate Ed. }
    destruct (Ascii.eqb "/" c1) eqn:E1; [|discriminate Ed].
    destruct (Ascii.eqb "/" c2) eqn:E2; [|discriminate Ed].
    apply Ascii.eqb_eq in E1, E2. subst c1 c2. inversion Ed; subst t. clear Ed.
    exists (stake k r0). split; [|exact F].
    replace (N.to_nat (pos s + slen "//" + N.of_nat k - pos s)) with (S (S k)) by (unfold slen; cbn [String.length]; lia).
    cbn [stake]. reflexivity.
  Qed.
End CommentBody.

(* ================================================================== Part 3b: gen/Grammar.v — comment pairs *)
Definition C_comment (r : grule) (txt : string) (kids : list (tree grule)) : Prop :=
  is_comment_rule r = true -> comment_text_ok txt.

Lemma blots_comment_body_gives : forall text f, body_gives grule blots_grammar text C_comment (run blots_grammar f).
Proof.
  intros text f r a s s1 _ _ _ _ H _ Hc.
  destruct r; try discriminate Hc.
  - refine (comment_body_consumes grule blots_grammar f _ false _ s s1 _ H). right. left. reflexivity.
  - refine (comment_body_consumes grule blots_grammar f _ false _ s s1 _ H). right. left. reflexivity.
Qed.

Lemma tree_comments_ok : forall text t,
  tree_ok grule text C_comment t -> Forall comment_text_ok (tree_comments text t).
Proof.
  intro text. fix IH 1. intros [r s e kids] H. cbn [tree_ok] in H. destruct H as [Hc Hk]. cbn [tree_comments].
  apply Forall_app. split.
  - destruct (is_comment_rule r) eqn:Ec; [|constructor]. constructor; [exact (Hc Ec)|constructor].
  - clear Hc. induction kids as [|k kids IHk]; [constructor|]. destruct Hk as [H1 H2].
    apply Forall_app. split; [apply IH; exact H1|apply IHk; exact H2].
Qed.

Lemma forest_comments_ok : forall text l,
  forest_all grule text C_comment l -> Forall comment_text_ok (forest_comments text l).
Proof.
  intros text l H. unfold forest_comments. induction H as [|t l Ht _ IH]; [constructor|].
  cbn [flat_map]. apply Forall_app. split; [apply tree_comments_ok; exact Ht|exact IH].
Qed.

(* SHAPE, comment texts: for EVERY text the interpreter accepts, every `comment` / `eol_comment` pair of the tree,
   at any depth, has a text "//" ++ r with no line feed in r *)
Theorem shape_comment_texts : forall fuel text s',
  Peg.parse blots_grammar fuel PG_input text = Peg.Ok s' ->
  Forall comment_text_ok (forest_comments text (rev (out s'))).
Proof.
  intros fuel text s' H. apply forest_comments_ok. unfold forest_all. apply Forall_rev.
  exact (parse_nodes grule blots_grammar text C_comment (blots_comment_body_gives text) fuel PG_input s' H).
Qed.

Theorem shape_comment_texts_program : forall text forest p,
  parse_program_c text = PCOk forest p ->
  Forall comment_text_ok (forest_comments text forest).
Proof.
  intros text forest p. unfold parse_program_c.
  pose proof (shape_comment_texts (peg_fuel text) text) as Hs. revert Hs.
  generalize (Peg.parse blots_grammar (peg_fuel text) PG_input text). intros r Hs H.
  destruct r as [s|s| |]; try discriminate H. specialize (Hs s eq_refl). revert H Hs.
  generalize (rev (out s)). intros fr H Hs.
  destruct (program_of_forest text fr) as [[q|]| | | |]; try discriminate H.
  injection H as <- <-. exact Hs.
Qed.

(* ================================================================== Part 2: top-level rule names (any grammar) *)
Local Open Scope list_scope.
Section Tops.
  Variable R : Type.
  Variable G : grammar R.
  Notation st := (st R).
  Notation res := (res R).

  Definition troot (t : tree R) : R := match t with Node r _ _ _ => r end.
  Definition silentb (r : R) : bool := match rd_mod (g_def G r) with MSilent => true | _ => false end.

  (* Q: a quiet set (PegQuiet) containing the implicit-skip rules and every silent trivia rule;
     S: a specification of the top-level pairs of the other silent rules, closed under unfolding *)
  Variable Q : R -> bool.
  Hypothesis Q_silent : forall r, Q r = true -> rd_mod (g_def G r) = MSilent.
  Hypothesis Q_closed : forall r, Q r = true -> forallb Q (idents R (rd_body (g_def G r))) = true.
  Hypothesis Q_ws : forall w, g_ws G = Some w -> Q w = true.
  Hypothesis Q_comment : forall c, g_comment G = Some c -> Q c = true.
  Hypothesis Q_trivia : forall r, silentb r = true -> rd_trivia (g_def G r) = true -> Q r = true.
  Variable S : R -> list R -> Prop.

  Definition star (P : list R -> Prop) (l : list R) : Prop := exists ls, l = concat ls /\ Forall P ls.

  Fixpoint tops (e : expr R) (l : list R) : Prop :=
    match e with
    | Ident r => if Q r then l = [] else if silentb r then S r l else l = [r]
    | Seq a b => exists l1 l2, l = l1 ++ l2 /\ tops a l1 /\ tops b l2
    | Choice a b => tops a l \/ tops b l
    | Opt x => l = [] \/ tops x l
    | Rep x => star (tops x) l
    | Push x | RestoreOnErr x => tops x l
    | _ => l = []
    end.

  Hypothesis S_sound : forall r, silentb r = true -> Q r = false ->
    forall l, tops (rd_body (g_def G r)) l -> S r l.

  Definition adds (P : list R -> Prop) (s : st) (r : res) : Prop :=
    match r with
    | Ok s' => exists new, out s' = new ++ out s /\ P (map troot (rev new))
    | Fail s' => out s' = out s
    | _ => True
    end.
  Definition adds_fun (P : list R -> Prop) (g : st -> res) : Prop := forall s, adds P s (g s).
  Definition nothing (l : list R) : Prop := l = [].

  Lemma adds_quiet : forall s r, quiet R s r -> adds nothing s r.
  Proof. intros s r H. destruct r; simpl in *; auto. exists []. split; [exact H|reflexivity]. Qed.
  Lemma adds_weaken : forall (P P' : list R -> Prop) s r, (forall l, P l -> P' l) -> adds P s r -> adds P' s r.
  Proof. intros P P' s r H Ha. destruct r; simpl in *; auto. destruct Ha as (n & O & Hp). exists n. auto. Qed.

  Definition cat (P1 P2 : list R -> Prop) (l : list R) : Prop := exists l1 l2, l = l1 ++ l2 /\ P1 l1 /\ P2 l2.

  (* bind: a failure after progress is unconstrained (the enclosing `sequence` resets [out]) *)
  Definition addsW (P : list R -> Prop) (s : st) (r : res) : Prop :=
    match r with Ok s' => adds P s (Ok s') | _ => True end.
  Lemma adds_bind : forall P1 P2 s r f, adds P1 s r -> adds_fun P2 f -> addsW (cat P1 P2) s (bind r f).
  Proof.
    intros P1 P2 s r f Hr Hf. destruct r as [s0|s0| |]; simpl; auto.
    pose proof (Hf s0) as H. destruct (f s0) as [s1|s1| |]; simpl in *; auto.
    destruct Hr as (n1 & O1 & H1). destruct H as (n2 & O2 & H2).
    exists (n2 ++ n1). rewrite O2, O1, app_assoc. split; [reflexivity|].
    rewrite rev_app_distr, map_app. exists (map troot (rev n1)), (map troot (rev n2)). auto.
  Qed.
  Lemma adds_sequence : forall P s r, addsW P s r -> adds P s (sequence s r).
  Proof. intros P s r H. destruct r; simpl in *; auto. Qed.
  Lemma adds_optional : forall P s r, adds P s r -> adds (fun l => l = [] \/ P l) s (optional r).
  Proof.
    intros P s r H. destruct r; simpl in *; auto.
    - destruct H as (n & O & Hp). exists n. auto.
    - exists []. split; [exact H|left; reflexivity].
  Qed.

  Lemma star_nil : forall P, star P [].
  Proof. intro P. exists []. split; [reflexivity|constructor]. Qed.
  Lemma star_cons : forall (P : list R -> Prop) l1 l2, P l1 -> star P l2 -> star P (l1 ++ l2).
  Proof. intros P l1 l2 H (ls & E & F). exists (l1 :: ls). split; [simpl; rewrite E; reflexivity|constructor; assumption]. Qed.
  Lemma star_nothing : forall l, star nothing l -> l = [].
  Proof.
    intros l (ls & E & F). subst l. induction F as [|x ls Hx _ IH]; [reflexivity|].
    simpl. rewrite Hx, IH. reflexivity.
  Qed.

  Lemma adds_repeat : forall P n g, adds_fun P g -> adds_fun (star P) (repeat_loop n g).
  Proof.
    intros P n g Hg. induction n as [|n IH]; intro s; simpl; [exact I|].
    pose proof (Hg s) as H. destruct (g s) as [s0|s0| |] eqn:E; simpl in *; auto.
    - pose proof (IH s0) as H2. destruct (repeat_loop n g s0) as [s1|s1| |] eqn:E2; simpl in *; auto.
      + destruct H as (n1 & O1 & H1). destruct H2 as (n2 & O2 & Hs).
        exists (n2 ++ n1). rewrite O2, O1, app_assoc. split; [reflexivity|].
        rewrite rev_app_distr, map_app. apply star_cons; assumption.
      + exfalso. eapply repeat_never_fails. exact E2.
    - exists []. split; [exact H|apply star_nil].
  Qed.

  Definition tops_runner (rf : runner R) : Prop :=
    forall m a e, a <> Atomic -> adds_fun (tops e) (rf m a false e).

  Lemma emits_true : forall a, a <> Atomic -> emits a false = true.
  Proof. intros a H. unfold emits. destruct a; try reflexivity. congruence. Qed.

  Lemma adds_rule_wrap : forall r a f, a <> Atomic -> (forall s, match f s with Fail s' => out s' = out s | _ => True end) ->
    adds_fun (fun l => l = [r]) (rule_wrap r a false f).
  Proof.
    intros r a f Ha Hf s. unfold rule_wrap. rewrite (emits_true a Ha).
    destruct (f (set_out s [])) as [s1|s1| |] eqn:E; simpl; auto.
    exists [Node r (pos s) (pos s1) (rev (out s1))]. split; reflexivity.
  Qed.

  Theorem run_tops : forall f, tops_runner (run G f).
  Proof.
    induction f as [|f IH]; intros m a e Ha s; [exact I|].
    assert (Hfail : forall m a la e s s', run G f m a la e s = Fail s' -> out s' = out s).
    { intros m0 a0 la0 e0 s0 s' H. apply (run_fail_unchanged R G) in H. apply H. }
    assert (Hq : quiet_runner R Q (run G f)) by (apply run_quiet; assumption).
    assert (Hskip : adds_fun nothing (skip_with G f (call_with G (run G f)) a false)).
    { intro s0. apply adds_quiet. apply (quiet_skip R G Q Q_silent Q_closed Q_ws Q_comment f _ Hq). }
    rewrite run_S. cbv zeta.
    destruct e as [x|x|lo hi|r|b|x|x|x y|x y|x|x|ss|x|x]; cbn [tops].
    - apply adds_quiet. apply quiet_match_string.
    - apply adds_quiet. apply quiet_match_insensitive.
    - apply adds_quiet. apply quiet_match_range.
    - (* Ident *)
      destruct (Q r) eqn:Eq.
      { apply adds_quiet. apply (quiet_call R G Q Q_silent Q_closed _ Hq). exact Eq. }
      unfold silentb. unfold call_with.
      destruct (rd_mod (g_def G r)) eqn:Em.
      + apply (adds_rule_wrap r a); [exact Ha|]. intro s0.
        match goal with |- match ?X with _ => _ end => destruct X eqn:E end; auto. eapply Hfail; exact E.
      + (* silent, not quiet: not a trivia rule; its body runs in the caller's atomicity *)
        destruct (rd_trivia (g_def G r)) eqn:Et.
        { assert (Hs : silentb r = true) by (unfold silentb; rewrite Em; reflexivity).
          rewrite (Q_trivia r Hs Et) in Eq. discriminate Eq. }
        cbn [orb andb]. eapply adds_weaken; [|apply (IH false a _ Ha)].
        apply S_sound; [unfold silentb; rewrite Em; reflexivity|exact Eq].
      + apply (adds_rule_wrap r a); [exact Ha|]. intro s0.
        match goal with |- match ?X with _ => _ end => destruct X eqn:E end; auto. eapply Hfail; exact E.
      + apply (adds_rule_wrap r CompoundAtomic); [discriminate|]. intro s0.
        match goal with |- match ?X with _ => _ end => destruct X eqn:E end; auto. eapply Hfail; exact E.
      + apply (adds_rule_wrap r NonAtomic); [discriminate|]. intro s0.
        match goal with |- match ?X with _ => _ end => destruct X eqn:E end; auto. eapply Hfail; exact E.
    - apply adds_quiet. apply quiet_builtin.
    - (* PosPred *)
      unfold lookahead. pose proof (run_good R G f m a true x (set_stk s (stack_snapshot (stk s)))) as Hg.
      destruct (run G f m a true x (set_stk s (stack_snapshot (stk s)))) as [s1|s1| |]; simpl in *; auto.
      + destruct Hg as (_ & n & O & _ & L). rewrite (L eq_refl) in O. exists []. split; [exact O|reflexivity].
      + apply Hg.
    - (* NegPred *)
      unfold lookahead. pose proof (run_good R G f m a true x (set_stk s (stack_snapshot (stk s)))) as Hg.
      destruct (run G f m a true x (set_stk s (stack_snapshot (stk s)))) as [s1|s1| |]; simpl in *; auto.
      + destruct Hg as (_ & n & O & _ & L). rewrite (L eq_refl) in O. exact O.
      + exists []. split; [apply Hg|reflexivity].
    - (* Seq *)
      destruct m.
      + apply adds_sequence. eapply adds_bind; [apply (IH true a x Ha)|apply (IH true a y Ha)].
      + apply adds_sequence.
        pose proof (adds_bind _ _ s _ _ (IH false a x Ha s) Hskip) as H1.
        destruct (bind (run G f false a false x s) (skip_with G f (call_with G (run G f)) a false)) as [s1|s1| |] eqn:E1;
          simpl; auto.
        pose proof (adds_bind _ _ s (Ok s1) _ H1 (IH false a y Ha)) as H2. cbn [bind] in H2.
        destruct (run G f false a false y s1) as [s2|s2| |]; simpl in *; auto.
        destruct H2 as (n & O & l1 & l2 & E & (l3 & l4 & E3 & H3 & H4) & H5). exists n. split; [exact O|].
        unfold nothing in H4. subst l4. rewrite app_nil_r in E3. subst l3. exists l1, l2. auto.
    - (* Choice *)
      pose proof (IH m a x Ha s) as H1. destruct (run G f m a false x s) as [s1|s1| |] eqn:E1; simpl in *; auto.
      + destruct H1 as (n & O & H1). exists n. auto.
      + pose proof (IH m a y Ha s1) as H2. destruct (run G f m a false y s1) as [s2|s2| |]; simpl in *; auto.
        * destruct H2 as (n & O & H2). exists n. rewrite <- H1. auto.
        * congruence.
    - (* Opt *) apply adds_optional. apply (IH m a x Ha).
    - (* Rep *)
      destruct m.
      + apply adds_repeat. apply (IH true a x Ha).
      + apply adds_sequence.
        assert (Hg : adds_fun (tops x) (fun s1 => sequence s1 (bind (skip_with G f (call_with G (run G f)) a false s1)
                                                                 (run G f false a false x)))).
        { intro s1. apply adds_sequence.
          pose proof (adds_bind _ _ s1 _ _ (Hskip s1) (IH false a x Ha)) as H.
          destruct (bind (skip_with G f (call_with G (run G f)) a false s1) (run G f false a false x)) as [s2|s2| |];
            simpl in *; auto.
          destruct H as (n & O & l1 & l2 & E & H1 & H2). exists n. split; [exact O|].
          unfold nothing in H1. subst l1. simpl in E. subst l2. exact H2. }
        pose proof (IH false a x Ha s) as H1.
        destruct (run G f false a false x s) as [s1|s1| |] eqn:E1; cbn [bind optional]; simpl; auto.
        * pose proof (adds_repeat _ f _ Hg s1) as H2.
          destruct (repeat_loop f _ s1) as [s2|s2| |] eqn:E2; simpl in *; auto.
          -- destruct H1 as (n1 & O1 & H1). destruct H2 as (n2 & O2 & H2).
             exists (n2 ++ n1). rewrite O2, O1, app_assoc. split; [reflexivity|].
             rewrite rev_app_distr, map_app. apply star_cons; assumption.
          -- exfalso. eapply repeat_never_fails. exact E2.
        * exists []. split; [exact H1|apply star_nil].
    - destruct (skip_until_pos ss (pos s) (rest s)) as [p r]. simpl. exists []. split; reflexivity.
    - (* Push *) unfold do_push. pose proof (IH m a x Ha s) as H. destruct (run G f m a false x s); simpl in *; auto.
    - (* RestoreOnErr *)
      unfold restore_on_err. pose proof (IH m a x Ha (set_stk s (stack_snapshot (stk s)))) as H.
      destruct (run G f m a false x (set_stk s (stack_snapshot (stk s)))); simpl in *; auto.
  Qed.
End Tops.

(* ---------------------------------------------------------------- computing with [tops] *)
Section TopsEnum.
  Variable R : Type.
  Variable G : grammar R.
  Variable Q : R -> bool.
  (* finite specification of the silent, non-quiet rules: [Senum r = Some ls] = the top-level names are one of ls *)
  Variable Senum : R -> option (list (list R)).
  Variable all_rules : list R.
  Hypothesis all_rules_all : forall r, In r all_rules.
  Definition S_of (r : R) (l : list R) : Prop := match Senum r with Some ls => In l ls | None => True end.
  Definition Snames (r : R) : list R := match Senum r with Some ls => concat ls | None => all_rules end.
  Notation tops := (tops R G Q S_of).
  Notation silentb := (silentb R G).

  Definition is_nil (l : list R) : bool := match l with [] => true | _ => false end.
  Fixpoint enum (e : expr R) : option (list (list R)) :=
    match e with
    | Ident r => if Q r then Some [[]] else if silentb r then Senum r else Some [[r]]
    | Seq a b =>
        match enum a, enum b with
        | Some la, Some lb => Some (flat_map (fun x => map (app x) lb) la)
        | _, _ => None
        end
    | Choice a b => match enum a, enum b with Some la, Some lb => Some (la ++ lb) | _, _ => None end
    | Opt x => match enum x with Some lx => Some ([] :: lx) | None => None end
    | Rep x => match enum x with Some lx => if forallb is_nil lx then Some [[]] else None | None => None end
    | Push x | RestoreOnErr x => enum x
    | _ => Some [[]]
    end.

  Lemma star_all_nil : forall (P : list R -> Prop) l, (forall x, P x -> x = []) -> star R P l -> l = [].
  Proof.
    intros P l H (ls & E & F). subst l. induction F as [|x ls Hx _ IH]; [reflexivity|].
    simpl. rewrite (H x Hx), IH. reflexivity.
  Qed.

  Lemma tops_enum : forall e l ls, tops e l -> enum e = Some ls -> In l ls.
  Proof.
    induction e as [x|x|lo hi|r|b|x IHx|x IHx|e1 IHe1 e2 IHe2|e1 IHe1 e2 IHe2|e IHe|e IHe|ss|e IHe|e IHe]; intros l ls H E; cbn [PegShape.tops enum] in *;
      try (inversion E; subst ls; left; symmetry; exact H).
    - (* Ident *)
      destruct (Q r); [inversion E; subst ls; left; symmetry; exact H|].
      destruct (silentb r).
      + unfold S_of in H. rewrite E in H. exact H.
      + inversion E; subst ls. left. symmetry. exact H.
    - (* Seq *)
      destruct H as (l1 & l2 & -> & H1 & H2).
      destruct (enum e1) as [la|]; [|discriminate E]. destruct (enum e2) as [lb|]; [|discriminate E].
      inversion E; subst ls. apply in_flat_map. exists l1. split; [apply IHe1; auto|].
      apply in_map. apply IHe2; auto.
    - (* Choice *)
      destruct (enum e1) as [la|]; [|discriminate E]. destruct (enum e2) as [lb|]; [|discriminate E].
      inversion E; subst ls. apply in_or_app. destruct H as [H|H]; [left; apply IHe1|right; apply IHe2]; auto.
    - (* Opt *)
      destruct (enum e) as [lx|]; [|discriminate E]. inversion E; subst ls.
      destruct H as [->|H]; [left; reflexivity|right; apply IHe; auto].
    - (* Rep *)
      destruct (enum e) as [lx|]; [|discriminate E].
      destruct (forallb is_nil lx) eqn:Hn; [|discriminate E]. inversion E; subst ls. left. symmetry.
      apply (star_all_nil (tops e)); [|exact H]. intros x Hx.
      pose proof (IHe x lx Hx eq_refl) as Hin. rewrite forallb_forall in Hn. specialize (Hn x Hin).
      destruct x; [reflexivity|discriminate Hn].
    - apply IHe; assumption.
    - apply IHe; assumption.
  Qed.

  Lemma tops_enum_nil : forall e l ls, tops e l -> enum e = Some ls -> forallb is_nil ls = true -> l = [].
  Proof.
    intros e l ls H E Hn. pose proof (tops_enum e l ls H E) as Hin. rewrite forallb_forall in Hn.
    specialize (Hn l Hin). destruct l; [reflexivity|discriminate Hn].
  Qed.

  (* every top-level name comes from a rule reference of the expression *)
  Fixpoint names (e : expr R) : list R :=
    match e with
    | Ident r => if Q r then [] else if silentb r then Snames r else [r]
    | Seq a b | Choice a b => names a ++ names b
    | Opt x | Rep x | Push x | RestoreOnErr x => names x
    | _ => []
    end.
  Lemma tops_names : forall e l, tops e l -> Forall (fun r => In r (names e)) l.
  Proof.
    induction e as [x|x|lo hi|r|b|x IHx|x IHx|e1 IHe1 e2 IHe2|e1 IHe1 e2 IHe2|e IHe|e IHe|ss|e IHe|e IHe]; intros l H; cbn [PegShape.tops names] in *; try (subst l; constructor).
    - destruct (Q r); [subst l; constructor|]. destruct (silentb r).
      + unfold S_of, Snames in *. destruct (Senum r) as [ls|].
        * apply Forall_forall. intros x Hx. apply in_concat. exists l. auto.
        * apply Forall_forall. intros x _. apply all_rules_all.
      + subst l. constructor; [left; reflexivity|constructor].
    - destruct H as (l1 & l2 & -> & H1 & H2). apply Forall_app. split.
      + eapply Forall_impl; [|apply IHe1; exact H1]. intros x Hx. apply in_or_app. left. exact Hx.
      + eapply Forall_impl; [|apply IHe2; exact H2]. intros x Hx. apply in_or_app. right. exact Hx.
    - destruct H as [H|H].
      + eapply Forall_impl; [|apply IHe1; exact H]. intros x Hx. apply in_or_app. left. exact Hx.
      + eapply Forall_impl; [|apply IHe2; exact H]. intros x Hx. apply in_or_app. right. exact Hx.
    - destruct H as [->|H]; [constructor|apply IHe; exact H].
    - destruct H as (ls & -> & F). induction F as [|x ls Hx _ IH]; [constructor|].
      simpl. apply Forall_app. split; [apply IHe; exact Hx|exact IH].
    - apply IHe; exact H.
    - apply IHe; exact H.
  Qed.
End TopsEnum.

(* ================================================================== Part 3c: gen/Grammar.v — inner pairs *)
Require Import Blots.proofs.PegCommentsCompose.

Definition blots_Senum (r : grule) : option (list (list grule)) :=
  match r with
  | PG_spreadable_expression => Some [[PG_spread_expression]; [PG_expression]]
  | _ => None
  end.
Local Notation BQ := in_newline_quiet.
Local Notation BS := (S_of grule blots_Senum).
Local Notation btops := (tops grule blots_grammar BQ BS).
Local Notation benum := (enum grule blots_grammar BQ blots_Senum).
Local Notation bnames := (names grule blots_grammar BQ blots_Senum all_grules).

Lemma all_grules_all : forall r : grule, In r all_grules.
Proof. intro r. destruct r; vm_compute; tauto. Qed.

Lemma BQ_silent : forall r, BQ r = true -> rd_mod (g_def blots_grammar r) = MSilent.
Proof. intros r. destruct r; vm_compute; intro H; try discriminate H; reflexivity. Qed.
Lemma BQ_closed : forall r, BQ r = true -> forallb BQ (idents grule (rd_body (g_def blots_grammar r))) = true.
Proof. intros r. destruct r; vm_compute; intro H; try discriminate H; reflexivity. Qed.
Lemma BQ_ws : forall w, g_ws blots_grammar = Some w -> BQ w = true.
Proof. intros w H. vm_compute in H. inversion H. reflexivity. Qed.
Lemma BQ_comment : forall c, g_comment blots_grammar = Some c -> BQ c = true.
Proof. intros c H. vm_compute in H. discriminate H. Qed.
Lemma BQ_trivia : forall r, silentb grule blots_grammar r = true -> rd_trivia (g_def blots_grammar r) = true -> BQ r = true.
Proof. intros r. destruct r; vm_compute; intros H1 H2; try discriminate H1; try discriminate H2; reflexivity. Qed.

Lemma BS_sound : forall r, silentb grule blots_grammar r = true -> BQ r = false ->
  forall l, btops (rd_body (g_def blots_grammar r)) l -> BS r l.
Proof.
  intros r _ _ l H. unfold S_of. destruct (blots_Senum r) as [ls|] eqn:E; [|exact I].
  destruct r; try discriminate E. inversion E; subst ls.
  refine (tops_enum grule blots_grammar BQ blots_Senum _ l _ H _). vm_compute. reflexivity.
Qed.

Definition blots_run_tops := run_tops grule blots_grammar BQ BQ_silent BQ_closed BQ_ws BQ_comment BQ_trivia BS BS_sound.

(* the rule names of the inner pairs, per rule *)
Definition kids_spec (r : grule) (l : list grule) : Prop :=
  match r with
  | PG_do_block =>
      exists pre, l = pre ++ [PG_return_statement] /\ Forall (fun x => x = PG_comment \/ x = PG_do_statement) pre
  | PG_return_statement => l = [PG_expression]
  | PG_do_statement =>
      In l [[PG_expression]; [PG_expression; PG_comment]; [PG_comment]; [PG_comment; PG_comment]]
  | PG_list_item =>
      In l [[PG_spread_expression]; [PG_spread_expression; PG_eol_comment]; [PG_expression]; [PG_expression; PG_eol_comment]]
  | PG_record_item =>
      In l [[PG_record_pair]; [PG_record_pair; PG_eol_comment]; [PG_record_shorthand];
            [PG_record_shorthand; PG_eol_comment]; [PG_spread_expression]; [PG_spread_expression; PG_eol_comment]]
  | PG_statement =>
      In l [[PG_output_declaration]; [PG_output_declaration; PG_comment]; [PG_expression]; [PG_expression; PG_comment];
            [PG_comment]; [PG_comment; PG_comment]]
  | _ => True
  end.
Definition C_kids (r : grule) (txt : string) (kids : list (tree grule)) : Prop := kids_spec r (map trule kids).

Lemma emits_not_atomic : forall a, emits a false = true -> a <> Atomic.
Proof. intros a H E. subst a. discriminate H. Qed.

Lemma do_block_tops : forall l, btops (rd_body (grule_def PG_do_block)) l -> kids_spec PG_do_block l.
Proof.
  intros l H. cbn [grule_def rd_body] in H.
  destruct H as (l0 & l1 & -> & H0 & H). cbn [PegShape.tops] in H0. subst l0.
  destruct H as (lw & l2 & -> & Hw & H).
  pose proof (tops_enum_nil grule blots_grammar BQ blots_Senum _ _ _ Hw eq_refl eq_refl) as Ew.
  subst lw. clear Hw.
  destruct H as (l3 & l4 & -> & H3 & H). cbn [PegShape.tops] in H3. subst l3.
  destruct H as (r1 & l5 & -> & H1 & H).
  destruct H as (r2 & l6 & -> & H2 & H).
  destruct H as (r3 & l7 & -> & H3 & H).
  destruct H as (rt & l8 & -> & Ht & H).
  destruct H as (lw2 & l9 & -> & Hw2 & H9). cbn [PegShape.tops] in H9. subst l9.
  pose proof (tops_enum_nil grule blots_grammar BQ blots_Senum _ _ _ Hw2 eq_refl eq_refl) as Ew2.
  subst lw2. clear Hw2.
  assert (Ert : rt = [PG_return_statement]) by exact Ht. subst rt.
  apply (tops_names grule blots_grammar BQ blots_Senum all_grules all_grules_all) in H1, H2, H3.
  exists (r1 ++ r2 ++ r3). split; [cbn [app]; rewrite ?app_nil_r, <- ?app_assoc; reflexivity|].
  assert (Hn : forall e l', Forall (fun r => In r (bnames e)) l' ->
                 forallb (fun x => orb (grule_eqb x PG_comment) (grule_eqb x PG_do_statement)) (bnames e) = true ->
                 Forall (fun x => x = PG_comment \/ x = PG_do_statement) l').
  { intros e l' F Hb. eapply Forall_impl; [|exact F]. intros x Hx. rewrite forallb_forall in Hb.
    specialize (Hb x Hx). destruct x; vm_compute in Hb; try discriminate Hb; auto. }
  rewrite !Forall_app. repeat split; (eapply Hn; [eassumption|vm_compute; reflexivity]).
Qed.

Lemma blots_kids_body_gives : forall text f, body_gives grule blots_grammar text C_kids (run blots_grammar f).
Proof.
  intros text f r a s s1 Hns Hem Ht Ho H Hf. unfold C_kids.
  assert (Hgen : r_body_atom grule (g_def blots_grammar r) a <> Atomic ->
                 btops (rd_body (g_def blots_grammar r)) (map trule (rev (out s1)))).
  { intro Ha. pose proof (blots_run_tops f (r_mode grule (g_def blots_grammar r)) _ (rd_body (g_def blots_grammar r)) Ha s) as Hr.
    rewrite H in Hr. destruct Hr as (new & O & Hr). rewrite Ho, app_nil_r in O. rewrite O. exact Hr. }
  destruct r; try exact I; cbn [kids_spec].
  - (* list_item *)
    refine (tops_enum grule blots_grammar BQ blots_Senum _ _ _ (Hgen _) _); [|vm_compute; reflexivity].
    apply emits_not_atomic. exact Hem.
  - (* record_item *)
    refine (tops_enum grule blots_grammar BQ blots_Senum _ _ _ (Hgen _) _); [|vm_compute; reflexivity].
    apply emits_not_atomic. exact Hem.
  - (* do_statement *)
    refine (tops_enum grule blots_grammar BQ blots_Senum _ _ _ (Hgen _) _); [|vm_compute; reflexivity].
    apply emits_not_atomic. exact Hem.
  - (* return_statement *)
    assert (E : In (map trule (rev (out s1))) [[PG_expression]]).
    { refine (tops_enum grule blots_grammar BQ blots_Senum _ _ _ (Hgen _) _); [discriminate|vm_compute; reflexivity]. }
    destruct E as [<-|[]]. reflexivity.
  - (* do_block *)
    apply do_block_tops. apply Hgen. discriminate.
  - (* statement *)
    refine (tops_enum grule blots_grammar BQ blots_Senum _ _ _ (Hgen _) _); [|vm_compute; reflexivity].
    apply emits_not_atomic. exact Hem.
Qed.

(* SHAPE, inner pairs: for EVERY text the interpreter accepts, every node of every tree satisfies kids_spec *)
Theorem shape_kids : forall fuel text s',
  Peg.parse blots_grammar fuel PG_input text = Peg.Ok s' ->
  forest_all grule text C_kids (rev (out s')).
Proof.
  intros fuel text s' H. unfold forest_all. apply Forall_rev.
  exact (parse_nodes grule blots_grammar text C_kids (blots_kids_body_gives text) fuel PG_input s' H).
Qed.
