(* DisplayNumAccStd.v — C20: accuracy of the STANDARD non-integer path of the repaired code
   (fx = true), under real-valued specifications of the library oracles.  Flocq real-number
   layer (three standard-library axioms, on the allow-list). *)
From Coq Require Import ZArith Reals Bool String Ascii List Lia Lra QArith Qreals Qabs Floats.SpecFloat.
From Flocq Require Import Core.Core IEEE754.BinarySingleNaN.
Require Import Flocq.Prop.Relative.
Require Import Blots.Num Blots.Outcome Blots.DisplayNum.
Require Import Blots.proofs.DisplayNumGroup Blots.proofs.DisplayNumSpec Blots.proofs.DisplayNumText
               Blots.proofs.DisplayNumInt Blots.proofs.DisplayNum Blots.proofs.DisplayNumFloat
               Blots.proofs.DisplayNumFinite.
Import ListNotations.
Open Scope R_scope.

Definition radix10 : radix := Build_radix 10 eq_refl.
Notation p10 := (bpow radix10).

Lemma vexp : Valid_exp fexp64.
Proof. apply (fexp_correct 53 1024). reflexivity. Qed.
Local Existing Instance vexp.

Lemma p10_pos : forall k, 0 < p10 k. Proof. intros. apply bpow_gt_0. Qed.

(* 10^j, 0 <= j <= 22, is a double *)
Lemma p10_format : forall j, (0 <= j <= 22)%Z -> generic_format radix2 fexp64 (p10 j).
Proof.
  intros j Hj. rewrite <- (IZR_Zpower radix10 j) by lia. change (Z.pow radix10 j) with (10 ^ j)%Z.
  replace (10 ^ j)%Z with (5 ^ j * 2 ^ j)%Z by (rewrite <- Z.pow_mul_l; reflexivity).
  apply generic_format_FLT.
  apply (FLT_spec radix2 (3 - 1024 - 53) 53 _ (Float radix2 (5 ^ j) j)).
  - unfold F2R. cbn [Fnum Fexp]. rewrite mult_IZR.
    replace (IZR (2 ^ j)) with (bpow radix2 j) by (symmetry; apply (IZR_Zpower radix2 j); lia). reflexivity.
  - cbn [Fnum]. rewrite Z.abs_eq by (apply Z.pow_nonneg; lia).
    apply Z.le_lt_trans with (5 ^ 22)%Z; [apply Z.pow_le_mono_r; lia|reflexivity].
  - cbn [Fexp]. lia.
Qed.

(* relative error of rounding to nearest in the normal range *)
Lemma rnd_rel : forall v, bpow radix2 (-1022) <= Rabs v ->
  Rabs (rnd64 v - v) <= bpow radix2 (-53) * Rabs v.
Proof.
  intros v H.
  pose proof (relative_error_N_FLT radix2 (3 - 1024 - 53) 53 ltac:(lia) (fun x => negb (Z.even x)) v H) as E.
  change (/ 2 * bpow radix2 (- (53) + 1)) with (/ 2 * bpow radix2 (-52)) in E.
  replace (bpow radix2 (-53)) with (/ 2 * bpow radix2 (-52)).
  - exact E.
  - change (-52)%Z with (1 + -53)%Z. rewrite bpow_plus. change (bpow radix2 1) with 2. field.
Qed.

Lemma rnd_abs : forall v, rnd64 (Rabs v) = Rabs (rnd64 v).
Proof. intros. apply round_NE_abs. exact vexp. Qed.

Lemma rnd_id : forall v, generic_format radix2 fexp64 v -> rnd64 v = v.
Proof. intros. apply round_generic; [apply valid_rnd_N|assumption]. Qed.

Lemma rnd_mono : forall a b, a <= b -> rnd64 a <= rnd64 b.
Proof. intros. apply round_le; [exact vexp|apply valid_rnd_N|assumption]. Qed.

Section StdAccuracy.
  Variable log10 : num -> num.
  Variable powi : num -> Z -> num.
  Variable fmt_prec : num -> Z -> text.
  Variable fmt_exp14 : num -> text.
  Variable parse_f64 : text -> option num.

  Notation est a := (as_i32 (nfloor (log10 a))).

  (* f64::log10 is off by less than one: floor is the decimal exponent or one more *)
  Hypothesis HL : forall a K, valid a -> Num.is_finite a = true ->
    p10 K <= RV a < p10 (K + 1) -> (K <= est a <= K + 1)%Z.
  (* powi(10, j) is exact for 0 <= j <= 22 *)
  Hypothesis HW0 : forall j, (0 <= j <= 22)%Z ->
    valid (powi c_ten j) /\ (exists s m e, powi c_ten j = S754_finite s m e) /\ RV (powi c_ten j) = p10 j.
  (* powi(10, j), -4 <= j <= -1, is the correctly rounded 10^j, and not below it *)
  Hypothesis HWn : forall j, (-4 <= j <= -1)%Z ->
    valid (powi c_ten j) /\ (exists s m e, powi c_ten j = S754_finite s m e) /\
    RV (powi c_ten j) = rnd64 (p10 j) /\ p10 j <= RV (powi c_ten j).

  Lemma powi_facts : forall j, (-4 <= j <= 22)%Z ->
    valid (powi c_ten j) /\ Num.is_finite (powi c_ten j) = true /\
    RV (powi c_ten j) = rnd64 (p10 j) /\ p10 j <= RV (powi c_ten j).
  Proof.
    intros j Hj. destruct (Z_lt_le_dec j 0).
    - destruct (HWn j ltac:(lia)) as (V & (s & m & e & E) & R1 & R2). repeat split; auto.
      rewrite E. reflexivity.
    - destruct (HW0 j ltac:(lia)) as (V & (s & m & e & E) & R1). repeat split; auto.
      + rewrite E. reflexivity.
      + rewrite R1. symmetry. apply rnd_id. apply p10_format. lia.
      + rewrite R1. lra.
  Qed.

  (* rnd64 (10^j) >= 10^j for -4 <= j <= 22 *)
  Lemma rnd_p10_ge : forall j, (-4 <= j <= 22)%Z -> p10 j <= rnd64 (p10 j).
  Proof. intros j Hj. destruct (powi_facts j Hj) as (_ & _ & E & G). now rewrite <- E. Qed.

  (* Lemma A: the repaired decimal_exponent is the decimal exponent *)
  Lemma flog10_exact : forall a K, valid a -> Num.is_finite a = true -> (-4 <= K <= 15)%Z ->
    p10 K <= RV a < p10 (K + 1) -> flog10 log10 powi true a = Ok K.
  Proof.
    intros a K Va Fa HK Ha. pose proof (HL a K Va Fa Ha) as He. unfold flog10.
    assert (C : est a = K \/ est a = (K + 1)%Z) by lia.
    destruct C as [C|C]; rewrite C.
    - destruct (powi_facts K ltac:(lia)) as (VP & FP & EP & GP).
      assert (N : nltb a (powi c_ten K) = false).
      { destruct (nltb a (powi c_ten K)) eqn:T; [|reflexivity].
        apply (nltb_correct a _ Va VP Fa FP) in T. exfalso.
        rewrite EP in T. pose proof (rnd_mono _ _ (proj1 Ha)) as M.
        rewrite (rnd_id (RV a)) in M by now apply valid_format. lra. }
      now rewrite N.
    - destruct (powi_facts (K + 1) ltac:(lia)) as (VP & FP & EP & GP).
      assert (N : nltb a (powi c_ten (K + 1)) = true).
      { apply (nltb_correct a _ Va VP Fa FP). lra. }
      rewrite N. unfold i32_sub. rewrite i32_ok_small by (change (2 ^ 30)%Z with 1073741824%Z; lia).
      f_equal. lia.
  Qed.

  (* numeric facts *)
  Lemma p10_15_le : p10 15 <= bpow radix2 50.
  Proof. change (p10 15) with 1000000000000000. change (bpow radix2 50) with 1125899906842624. lra. Qed.
  Lemma eps_p10_15 : bpow radix2 (-53) * p10 15 <= / 8.
  Proof.
    change (-53)%Z with (- (53))%Z. rewrite bpow_opp.
    change (bpow radix2 53) with 9007199254740992. change (p10 15) with 1000000000000000. lra.
  Qed.
  Lemma Rabs_signed : forall s n, (0 <= n)%Z -> Rabs (IZR (cond_Zopp s n)) = IZR n.
  Proof.
    intros s n Hn. destruct s; cbn [cond_Zopp]; [rewrite opp_IZR, Rabs_Ropp|];
      apply Rabs_pos_eq; apply IZR_le; lia.
  Qed.

  (* Lemma C: the rounded value, explicitly *)
  Lemma round_sig_explicit : forall x K,
    valid x -> std_nonint_path x = true -> (-4 <= K <= 14)%Z ->
    p10 K <= Rabs (RV x) < p10 (K + 1) ->
    exists r s n, round_to_significant_figures log10 powi true x = Ok r /\
      valid r /\ Num.is_finite r = true /\ (10 ^ 14 <= n <= 10 ^ 15)%Z /\
      RV r = rnd64 (IZR (cond_Zopp s n) * p10 (K - 14)) /\
      Rabs (IZR (cond_Zopp s n) - RV x * p10 (14 - K)) <= 5 / 8.
  Proof.
    intros x K Vx Hp HK HA. unfold std_nonint_path in Hp.
    apply andb_true_iff in Hp. destruct Hp as [Hp _]. apply andb_true_iff in Hp. destruct Hp as [Hp Hs].
    apply andb_true_iff in Hp. destruct Hp as [Fx Hz].
    apply negb_true_iff in Hs. apply negb_true_iff in Hz.
    unfold round_to_significant_figures. rewrite Hz.
    rewrite (flog10_exact (nabs x) K (valid_nabs x Vx) ltac:(now rewrite finite_nabs) ltac:(lia))
      by (now rewrite RV_nabs).
    cbn [obind]. change (i32_sub 15 1) with (@Ok Z 14%Z). cbn [obind].
    unfold i32_sub. rewrite i32_ok_small by (change (2 ^ 30)%Z with 1073741824%Z; lia). cbn [obind].
    destruct (HW0 (14 - K)%Z ltac:(lia)) as (Vs & (ss & ms & es & Es) & Rs).
    set (sc := powi c_ten (14 - K)%Z) in *. set (S := p10 (14 - K)) in *.
    assert (HS : 0 < S) by apply p10_pos.
    assert (Fs : Num.is_finite sc = true) by (rewrite Es; reflexivity).
    set (v := RV x * S).
    assert (Hv : p10 14 <= Rabs v < p10 15).
    { unfold v. rewrite Rabs_mult, (Rabs_pos_eq S) by lra.
      replace (p10 14) with (p10 K * S) by (unfold S; rewrite <- bpow_plus; f_equal; lia).
      replace (p10 15) with (p10 (K + 1) * S) by (unfold S; rewrite <- bpow_plus; f_equal; lia).
      split; [apply Rmult_le_compat_r; lra|apply Rmult_lt_compat_r; lra]. }
    pose proof p10_15_le as P15. pose proof eps_p10_15 as EPS.
    assert (P14 : 100000000000000 = p10 14) by reflexivity.
    assert (P15' : 1000000000000000 = p10 15) by reflexivity.
    (* p = x * scale *)
    destruct (nmul_correct x sc Vx Vs Fx Fs) as (Vp & Fp & Ep).
    { rewrite Rs. fold S. fold v.
      eapply Rle_lt_trans; [apply (rnd_abs_le_bpow _ 50); [lia|lra]|]. apply bpow_lt. lia. }
    rewrite Rs in Ep. fold S in Ep. fold v in Ep.
    assert (Erel : Rabs (RV (nmul x sc) - v) <= / 8).
    { rewrite Ep. eapply Rle_trans; [apply rnd_rel|].
      - eapply Rle_trans; [|apply (proj1 Hv)]. rewrite <- P14.
        apply Rle_trans with 1; [|lra]. change 1 with (bpow radix2 0). apply bpow_le. lia.
      - eapply Rle_trans; [|exact EPS]. apply Rmult_le_compat_l; [apply bpow_ge_0|lra]. }
    set (p := nmul x sc) in *.
    destruct p as [s0|s0| |s m e] eqn:P; try discriminate Fp.
    { exfalso. unfold RV in Erel. cbn [SF2R] in Erel. rewrite Rminus_0_l, Rabs_Ropp in Erel. lra. }
    destruct (nround_value s m e) as (n & Hn & En & Dn).
    set (N := IZR (cond_Zopp s n)) in *.
    assert (DN : Rabs (N - v) <= 5 / 8).
    { replace (N - v) with ((N - RV (S754_finite s m e)) + (RV (S754_finite s m e) - v)) by ring.
      eapply Rle_trans; [apply Rabs_triang|]. lra. }
    assert (AN : Rabs N = IZR n) by (apply Rabs_signed; exact Hn).
    assert (Bn : (10 ^ 14 <= n <= 10 ^ 15)%Z).
    { assert (T1 : Rabs N <= Rabs v + 5 / 8).
      { replace N with ((N - v) + v) by ring. eapply Rle_trans; [apply Rabs_triang|]. lra. }
      assert (T2 : Rabs v <= Rabs N + 5 / 8).
      { replace v with ((v - N) + N) at 1 by ring. eapply Rle_trans; [apply Rabs_triang|].
        rewrite Rabs_minus_sym. lra. }
      rewrite AN in T1, T2. split.
      - assert (L : (10 ^ 14 - 1 < n)%Z); [|lia]. apply lt_IZR. rewrite minus_IZR.
        change (IZR (10 ^ 14)) with 100000000000000. lra.
      - assert (L : (n < 10 ^ 15 + 1)%Z); [|lia]. apply lt_IZR. rewrite plus_IZR.
        change (IZR (10 ^ 15)) with 1000000000000000. lra. }
    (* q = p.round() is the integer exactly *)
    assert (FN : generic_format radix2 fexp64 N).
    { apply int_format. assert (Z.abs (cond_Zopp s n) = n) by (destruct s; cbn [cond_Zopp]; lia).
      rewrite H. change (10 ^ 15)%Z with 1000000000000000%Z in Bn. change (2 ^ 53)%Z with 9007199254740992%Z. lia. }
    destruct (num_of_sm_correct s n Hn) as (Vq & Fq & Eq).
    { fold N. rewrite (rnd_id N FN). rewrite AN.
      apply Rle_lt_trans with (IZR (10 ^ 15)); [apply IZR_le; lia|].
      change (IZR (10 ^ 15)) with 1000000000000000. rewrite P15'.
      eapply Rle_lt_trans; [exact P15|]. apply bpow_lt. lia. }
    fold N in Eq. rewrite (rnd_id N FN) in Eq. rewrite En.
    (* r = q / scale *)
    set (u := p10 (K - 14)).
    assert (Eu : / S = u).
    { unfold S, u. rewrite <- bpow_opp. f_equal. lia. }
    assert (By : Rabs (N * u) <= p10 15).
    { rewrite Rabs_mult, AN, (Rabs_pos_eq u) by (apply Rlt_le, p10_pos).
      apply Rle_trans with (IZR (10 ^ 15) * u).
      - apply Rmult_le_compat_r; [apply Rlt_le, p10_pos|apply IZR_le; lia].
      - change (IZR (10 ^ 15)) with 1000000000000000. rewrite P15'. unfold u. rewrite <- bpow_plus.
        apply bpow_le. lia. }
    rewrite Es in *.
    destruct (ndiv_correct (num_of_sm s n) ss ms es Vq Fq) as (Vr & Fr & Er).
    { rewrite Eq, Rs. unfold Rdiv. fold S. rewrite Eu.
      eapply Rle_lt_trans; [apply (rnd_abs_le_bpow _ 50); [lia|lra]|]. apply bpow_lt. lia. }
    rewrite Eq, Rs in Er. unfold Rdiv in Er. fold S in Er. rewrite Eu in Er.
    exists (ndiv (num_of_sm s n) (S754_finite ss ms es)), s, n.
    split; [reflexivity|]. repeat split; try assumption; try lia.
  Qed.

  (* ---------- the decade of the rounded value ---------- *)
  Lemma tiny_le_p10 : forall K, (-4 <= K)%Z -> bpow radix2 (-1022) <= p10 K.
  Proof.
    intros K HK. apply Rle_trans with (p10 (-4)); [|apply bpow_le; lia].
    apply Rle_trans with (bpow radix2 (-14)); [apply bpow_le; lia|].
    change (-14)%Z with (- (14))%Z. change (-4)%Z with (- (4))%Z. rewrite !bpow_opp.
    change (bpow radix2 14) with 16384. change (p10 4) with 10000. lra.
  Qed.

  Lemma rounded_decade : forall (K n : Z) (u y : R),
    (-4 <= K <= 14)%Z -> (10 ^ 14 <= n <= 10 ^ 15)%Z ->
    u = p10 (K - 14) -> y = IZR n * u ->
    let K' := if (n =? 10 ^ 15)%Z then (K + 1)%Z else K in
    p10 K' <= rnd64 y < p10 (K' + 1) /\ Rabs (rnd64 y - y) <= / 8 * u.
  Proof.
    intros K n u y HK Hn Hu Hy K'.
    assert (Pu : 0 < u) by (rewrite Hu; apply p10_pos).
    assert (E14 : IZR (10 ^ 14) * u = p10 K).
    { rewrite Hu. change (IZR (10 ^ 14)) with (p10 14). rewrite <- bpow_plus. f_equal. lia. }
    assert (E15 : IZR (10 ^ 15) * u = p10 (K + 1)).
    { rewrite Hu. change (IZR (10 ^ 15)) with (p10 15). rewrite <- bpow_plus. f_equal. lia. }
    assert (Ylo : p10 K <= y).
    { rewrite Hy, <- E14. apply Rmult_le_compat_r; [lra|apply IZR_le; lia]. }
    assert (Yhi : y <= p10 (K + 1)).
    { rewrite Hy, <- E15. apply Rmult_le_compat_r; [lra|apply IZR_le; lia]. }
    assert (Ypos : 0 < y) by (pose proof (p10_pos K); lra).
    assert (Rel : Rabs (rnd64 y - y) <= bpow radix2 (-53) * y).
    { rewrite <- (Rabs_pos_eq y) at 3 by lra. apply rnd_rel. rewrite Rabs_pos_eq by lra.
      eapply Rle_trans; [apply (tiny_le_p10 K); lia|exact Ylo]. }
    pose proof eps_p10_15 as EPS. change (p10 15) with (IZR (10 ^ 15)) in EPS.
    assert (Eps : bpow radix2 (-53) * y <= / 8 * u).
    { rewrite Hy. rewrite <- Rmult_assoc. apply Rmult_le_compat_r; [lra|].
      eapply Rle_trans; [|exact EPS]. apply Rmult_le_compat_l; [apply bpow_ge_0|apply IZR_le; lia]. }
    split; [|lra].
    apply Rabs_le_inv in Rel.
    unfold K'. destruct (n =? 10 ^ 15)%Z eqn:C.
    - apply Z.eqb_eq in C. subst n. rewrite E15 in Hy. subst y. split.
      + apply rnd_p10_ge. lia.
      + replace (K + 1 + 1)%Z with (1 + (K + 1))%Z by lia. rewrite (bpow_plus radix10 1 (K + 1)).
        change (p10 1) with 10. pose proof (p10_pos (K + 1)).
        assert (bpow radix2 (-53) <= 1).
        { change 1 with (bpow radix2 0). apply bpow_le. lia. }
        assert (bpow radix2 (-53) * p10 (K + 1) <= p10 (K + 1)) by nra. lra.
    - apply Z.eqb_neq in C. split.
      + eapply Rle_trans; [apply (rnd_p10_ge K); lia|]. now apply rnd_mono.
      + assert (Hn1 : IZR n <= IZR (10 ^ 15) - 1).
        { rewrite <- minus_IZR. apply IZR_le. lia. }
        rewrite <- E15. 
        assert (y <= (IZR (10 ^ 15) - 1) * u) by (rewrite Hy; apply Rmult_le_compat_r; lra).
        lra.
  Qed.

  (* ---------- texts with dp fraction digits lie on the 10^-dp grid ---------- *)
  Lemma Q2R_grid : forall N k,
    Q2R (Qmake N (Z.to_pos (pow10 k))) = IZR N * p10 (- Z.of_nat k).
  Proof.
    intros N k. unfold Q2R. cbn [Qnum Qden]. rewrite Z2Pos.id by apply pow10_pos.
    unfold pow10. rewrite (IZR_Zpower radix10) by lia. now rewrite bpow_opp.
  Qed.

  Lemma grid_of_shape : forall dp s, prec_shape dp s = true -> (0 <= dp)%Z ->
    exists z, Q2R (denote_plain s) = IZR z * p10 (- dp).
  Proof.
    intros dp s H Hdp.
    destruct (prec_shape_inv dp s H) as (neg & ip & ofp & -> & Hi & Hof & Hpos & Hzero).
    rewrite denote_plain_mk_plain by assumption. cbn zeta.
    assert (L : Z.of_nat (length (match ofp with Some fp => fp | None => [] end)) = dp).
    { destruct (Z.eq_dec dp 0) as [->|Hnz].
      - rewrite (Hzero eq_refl). reflexivity.
      - destruct (Hpos ltac:(lia)) as (fp & -> & Hl). exact Hl. }
    unfold dec_value. rewrite <- L.
    destruct neg.
    - change (- (digits_value (ip ++ match ofp with Some fp => fp | None => [] end)
                 # Z.to_pos (pow10 (length (match ofp with Some fp => fp | None => [] end)))))%Q
        with ((- digits_value (ip ++ match ofp with Some fp => fp | None => [] end))
                 # Z.to_pos (pow10 (length (match ofp with Some fp => fp | None => [] end))))%Q.
      eexists. apply Q2R_grid.
    - eexists. apply Q2R_grid.
  Qed.

  Lemma grid_eq_R : forall (z1 z2 : Z) (g : R), 0 < g ->
    Rabs (IZR z1 * g - IZR z2 * g) < g -> z1 = z2.
  Proof.
    intros z1 z2 g Hg H.
    replace (IZR z1 * g - IZR z2 * g) with (IZR (z1 - z2) * g) in H by (rewrite minus_IZR; ring).
    rewrite Rabs_mult, (Rabs_pos_eq g) in H by lra.
    assert (L : Rabs (IZR (z1 - z2)) < 1).
    { apply Rmult_lt_reg_r with g; [exact Hg|]. lra. }
    rewrite <- abs_IZR in L. apply lt_IZR in L. lia.
  Qed.

  (* {:.dp$} has the documented shape and prints the nearest multiple of 10^-dp (dp <= 18) *)
  Hypothesis Hprec : forall x n, Num.is_finite x = true -> (0 <= n)%Z -> prec_shape n (fmt_prec x n) = true.
  Hypothesis HF : forall m dp, Num.is_finite m = true -> (0 <= dp <= 18)%Z ->
    Rabs (Q2R (denote_plain (fmt_prec m dp)) - RV m) <= / 2 * p10 (- dp).

  Lemma RV_c_one : RV c_one = 1.
  Proof. unfold RV, c_one. cbn [SF2R]. unfold F2R. cbn [Fnum Fexp cond_Zopp].
         change (bpow radix2 (-52)) with (/ 4503599627370496). lra. Qed.

  (* decimal places chosen for the rounded value *)
  Lemma places_exact : forall r K', valid r -> Num.is_finite r = true -> (-4 <= K' <= 15)%Z ->
    p10 K' <= Rabs (RV r) < p10 (K' + 1) ->
    decimal_places_of log10 powi true r = Ok (Z.max (14 - K') 0).
  Proof.
    intros r K' Vr Fr HK Hr. unfold decimal_places_of.
    rewrite (flog10_exact (nabs r) K' (valid_nabs r Vr) ltac:(now rewrite finite_nabs) HK)
      by (now rewrite RV_nabs).
    cbn [obind]. unfold ngeb. change (SFleb c_one (nabs r)) with (nleb c_one (nabs r)).
    assert (G : nleb c_one (nabs r) = true <-> 1 <= Rabs (RV r)).
    { rewrite <- RV_c_one, <- RV_nabs. apply nleb_correct; try reflexivity.
      - now apply valid_nabs. - now rewrite finite_nabs. }
    destruct (Z_lt_le_dec K' 0) as [Neg|Pos].
    - assert (N : nleb c_one (nabs r) = false).
      { apply not_true_is_false. intros T.
        apply G in T. assert (p10 (K' + 1) <= 1); [|lra].
        change 1 with (p10 0). apply bpow_le. lia. }
      rewrite N. unfold i32_neg, i32_add, i32_sub.
      rewrite i32_ok_small by (change (2 ^ 30)%Z with 1073741824%Z; lia). cbn [obind].
      rewrite i32_ok_small by (change (2 ^ 30)%Z with 1073741824%Z; lia). cbn [obind].
      rewrite i32_ok_small by (change (2 ^ 30)%Z with 1073741824%Z; lia). cbn [obind].
      f_equal. lia.
    - assert (P : nleb c_one (nabs r) = true).
      { apply G. apply Rle_trans with (p10 K'); [|tauto]. change 1 with (p10 0). apply bpow_le. lia. }
      rewrite P. unfold i32_add, i32_sub.
      rewrite i32_ok_small by (change (2 ^ 30)%Z with 1073741824%Z; lia). cbn [obind].
      rewrite i32_ok_small by (change (2 ^ 30)%Z with 1073741824%Z; lia). cbn [obind].
      f_equal. lia.
  Qed.

  (* ACCURACY on the standard non-integer path of the repaired code *)
  Theorem display_standard_accurate : forall x K t,
    valid x -> std_nonint_path x = true -> (-4 <= K <= 14)%Z ->
    p10 K <= Rabs (RV x) < p10 (K + 1) ->
    format_display_number log10 powi fmt_prec fmt_exp14 parse_f64 true x = Ok t ->
    Rabs (Q2R (denote t) - RV x) <= 5 / 8 * p10 (K - 14) /\
    Rabs (Q2R (denote t) - RV x) < p10 (K - 14).
  Proof.
    intros x K t Vx Hp HK HA Ht.
    destruct (round_sig_explicit x K Vx Hp HK HA) as (r & s & n & Er & Vr & Fr & Bn & ERr & DN).
    set (N := IZR (cond_Zopp s n)) in *. set (u := p10 (K - 14)) in *.
    assert (Pu : 0 < u) by apply p10_pos.
    set (y := N * u) in *.
    assert (AN : Rabs N = IZR n) by (apply Rabs_signed; lia).
    (* |r| = rnd64 (n * u), its decade and its distance to n * u *)
    assert (Ay : Rabs y = IZR n * u) by (unfold y; rewrite Rabs_mult, AN, (Rabs_pos_eq u) by lra; reflexivity).
    destruct (rounded_decade K n u (Rabs y) HK Bn eq_refl Ay) as [Dec Dist]. cbv zeta in Dec.
    set (K' := if (n =? 10 ^ 15)%Z then (K + 1)%Z else K) in *.
    assert (HK' : (-4 <= K' <= 15)%Z) by (unfold K'; destruct (n =? 10 ^ 15)%Z; lia).
    assert (Ar : Rabs (RV r) = rnd64 (Rabs y)) by (rewrite ERr; symmetry; apply rnd_abs).
    rewrite <- Ar in Dec.
    assert (Dist' : Rabs (RV r - y) <= / 8 * u).
    { rewrite ERr. destruct (Rle_lt_dec 0 y) as [P|P].
      - rewrite (Rabs_pos_eq y P) in Dist. exact Dist.
      - rewrite (Rabs_left y P) in Dist. rewrite round_NE_opp in Dist.
        replace (- rnd64 y - - y) with (- (rnd64 y - y)) in Dist by ring.
        now rewrite Rabs_Ropp in Dist. }
    (* the decimal places and the text *)
    pose proof (places_exact r K' Vr Fr HK' Dec) as Epl.
    set (dp := Z.max (14 - K') 0) in *.
    assert (Hdp : (0 <= dp <= 18)%Z) by (unfold dp; lia).
    destruct (display_standard_value log10 powi fmt_prec fmt_exp14 parse_f64 true Hprec x t Hp Ht)
      as (r' & dp' & Er' & Epl' & _ & Hval).
    rewrite Er in Er'. injection Er' as <-. rewrite Epl in Epl'. injection Epl' as <-.
    destruct (Hval Fr) as [_ Vt].
    apply Qeq_eqR in Vt. rewrite Vt.
    set (D := Q2R (denote_plain (fmt_prec r dp))).
    pose proof (HF r dp Fr Hdp) as HD. fold D in HD.
    destruct (grid_of_shape dp _ (Hprec r dp Fr ltac:(lia)) ltac:(lia)) as (z & Gz). fold D in Gz.
    set (g := p10 (- dp)) in *. assert (Pg : 0 < g) by apply p10_pos.
    (* y lies on the same grid, and u <= g *)
    assert (Gy : exists z2, y = IZR z2 * g /\ u <= g).
    { unfold K' in dp. destruct (n =? 10 ^ 15)%Z eqn:C.
      - apply Z.eqb_eq in C. destruct (Z.eq_dec K 14) as [->|NK].
        + exists (cond_Zopp s n). unfold y, N, g, u, dp. change (Z.max (14 - (14 + 1)) 0) with 0%Z.
          change (14 - 14)%Z with 0%Z. change (- 0)%Z with 0%Z. split; [reflexivity|lra].
        + exists (cond_Zopp s (10 ^ 14)).
          assert (Edp : dp = (13 - K)%Z) by (unfold dp; lia).
          assert (Eg : g = 10 * u).
          { unfold g, u. rewrite Edp. replace (- (13 - K))%Z with (1 + (K - 14))%Z by lia.
            rewrite bpow_plus. reflexivity. }
          split; [|lra]. unfold y, N. rewrite Eg, C.
          destruct s; cbn [cond_Zopp]; rewrite ?opp_IZR;
            change (IZR (10 ^ 15)) with 1000000000000000; change (IZR (10 ^ 14)) with 100000000000000; lra.
      - exists (cond_Zopp s n).
        assert (Eg : g = u) by (unfold g, u, dp; f_equal; lia).
        rewrite Eg. split; [reflexivity|lra]. }
    destruct Gy as (z2 & Gy & Ug).
    (* D = y *)
    assert (DY : D = y).
    { assert (Z12 : z = z2).
      { apply (grid_eq_R z z2 g Pg). rewrite <- Gz, <- Gy.
        replace (D - y) with ((D - RV r) + (RV r - y)) by ring.
        eapply Rle_lt_trans; [apply Rabs_triang|]. lra. }
      rewrite Gz, Gy, Z12. reflexivity. }
    rewrite DY.
    (* |y - x| = u * |N - x * S| *)
    set (S := p10 (14 - K)) in *.
    assert (SU : S * u = 1).
    { unfold S, u. rewrite <- bpow_plus. replace (14 - K + (K - 14))%Z with 0%Z by lia. reflexivity. }
    assert (E : y - RV x = (N - RV x * S) * u).
    { unfold y. replace (RV x) with (RV x * (S * u)) at 1 by (rewrite SU; ring). ring. }
    rewrite E, Rabs_mult, (Rabs_pos_eq u) by lra.
    split.
    - apply Rmult_le_compat_r; lra.
    - apply Rle_lt_trans with (5 / 8 * u); [apply Rmult_le_compat_r; lra|lra].
  Qed.

  (* the decade of a standard-range double is between -4 and 14 *)
  Lemma RV_c_1e15 : RV c_1e15 = p10 15.
  Proof.
    unfold RV, c_1e15. cbn [SF2R]. unfold F2R. cbn [Fnum Fexp cond_Zopp].
    change (bpow radix2 (-3)) with (/ 8). change (p10 15) with 1000000000000000. lra.
  Qed.
  Lemma RV_c_1e_4 : p10 (-4) <= RV c_1e_4.
  Proof.
    unfold RV, c_1e_4. cbn [SF2R]. unfold F2R. cbn [Fnum Fexp cond_Zopp].
    change (bpow radix2 (-66)) with (/ 73786976294838206464). change (p10 (-4)) with (/ 10000). lra.
  Qed.

  Lemma std_decade_range : forall x K, valid x -> std_nonint_path x = true ->
    p10 K <= Rabs (RV x) < p10 (K + 1) -> (-4 <= K <= 14)%Z.
  Proof.
    intros x K Vx Hp HA. unfold std_nonint_path in Hp.
    apply andb_true_iff in Hp. destruct Hp as [Hp _]. apply andb_true_iff in Hp. destruct Hp as [Hp Hs].
    apply andb_true_iff in Hp. destruct Hp as [Fx _]. apply negb_true_iff in Hs.
    unfold scientific_range in Hs. apply negb_false_iff in Hs. apply andb_true_iff in Hs.
    destruct Hs as [Hlo Hhi].
    apply (nleb_correct c_1e_4 (nabs x)) in Hlo; [|reflexivity|now apply valid_nabs|reflexivity|now rewrite finite_nabs].
    apply (nltb_correct (nabs x) c_1e15) in Hhi; [|now apply valid_nabs|reflexivity|now rewrite finite_nabs|reflexivity].
    rewrite RV_nabs in Hlo, Hhi. rewrite RV_c_1e15 in Hhi. pose proof RV_c_1e_4 as L.
    assert (A : (K < 15)%Z) by (apply (lt_bpow radix10); lra).
    assert (B : (-4 < K + 1)%Z) by (apply (lt_bpow radix10); lra).
    lia.
  Qed.

  Theorem display_standard_accurate' : forall x K t,
    valid x -> std_nonint_path x = true ->
    p10 K <= Rabs (RV x) < p10 (K + 1) ->
    format_display_number log10 powi fmt_prec fmt_exp14 parse_f64 true x = Ok t ->
    Rabs (Q2R (denote t) - RV x) <= 5 / 8 * p10 (K - 14) /\
    Rabs (Q2R (denote t) - RV x) < p10 (K - 14).
  Proof.
    intros x K t Vx Hp HA Ht.
    apply display_standard_accurate; auto. now apply (std_decade_range x).
  Qed.
End StdAccuracy.
