(* DisplayNumAccStd.v — C20: accuracy of the STANDARD non-integer path of the repaired code
   (fx = true), under real-valued specifications of the library oracles.  Flocq real-number
   layer (three standard-library axioms, on the allow-list). *)
From Coq Require Import ZArith Reals Bool String Ascii List Lia Lra QArith Qreals Qabs Floats.SpecFloat.
From Flocq Require Import Core.Core IEEE754.BinarySingleNaN.
Require Import Flocq.Prop.Relative.
Require Import Blots.Num Blots.Outcome Blots.DisplayNum.
Require Import Blots.proofs.DisplayNumGroup Blots.proofs.DisplayNumSpec Blots.proofs.DisplayNumText
               Blots.proofs.DisplayNumInt Blots.proofs.DisplayNum Blots.proofs.DisplayNumFloat
               Blots.proofs.DisplayNumFinite.
Import ListNotations.
Open Scope R_scope.

Definition radix10 : radix := Build_radix 10 eq_refl.
Notation p10 := (bpow radix10).

Lemma vexp : Valid_exp fexp64.
Proof. apply (fexp_correct 53 1024). reflexivity. Qed.
Local Existing Instance vexp.

Lemma p10_pos : forall k, 0 < p10 k. Proof. intros. apply bpow_gt_0. Qed.

(* 10^j, 0 <= j <= 22, is a double *)
Lemma p10_format : forall j, (0 <= j <= 22)%Z -> generic_format radix2 fexp64 (p10 j).
Proof.
  intros j Hj. rewrite <- (IZR_Zpower radix10 j) by lia. change (Z.pow radix10 j) with (10 ^ j)%Z.
  replace (10 ^ j)%Z with (5 ^ j * 2 ^ j)%Z by (rewrite <- Z.pow_mul_l; reflexivity).
  apply generic_format_FLT.
  apply (FLT_spec radix2 (3 - 1024 - 53) 53 _ (Float radix2 (5 ^ j) j)).
  - unfold F2R. cbn [Fnum Fexp]. rewrite mult_IZR.
    replace (IZR (2 ^ j)) with (bpow radix2 j) by (symmetry; apply (IZR_Zpower radix2 j); lia). reflexivity.
  - cbn [Fnum]. rewrite Z.abs_eq by (apply Z.pow_nonneg; lia).
    apply Z.le_lt_trans with (5 ^ 22)%Z; [apply Z.pow_le_mono_r; lia|reflexivity].
  - cbn [Fexp]. lia.
Qed.

(* relative error of rounding to nearest in the normal range *)
Lemma rnd_rel : forall v, bpow radix2 (-1022) <= Rabs v ->
  Rabs (rnd64 v - v) <= bpow radix2 (-53) * Rabs v.
Proof.
  intros v H.
  pose proof (relative_error_N_FLT radix2 (3 - 1024 - 53) 53 ltac:(lia) (fun x => negb (Z.even x)) v H) as E.
  change (/ 2 * bpow radix2 (- (53) + 1)) with (/ 2 * bpow radix2 (-52)) in E.
  replace (bpow radix2 (-53)) with (/ 2 * bpow radix2 (-52)).
  - exact E.
  - change (-52)%Z with (1 + -53)%Z. rewrite bpow_plus. change (bpow radix2 1) with 2. field.
Qed.

Lemma rnd_abs : forall v, rnd64 (Rabs v) = Rabs (rnd64 v).
Proof. intros. apply round_NE_abs. exact vexp. Qed.

Lemma rnd_id : forall v, generic_format radix2 fexp64 v -> rnd64 v = v.
Proof. intros. apply round_generic; [apply valid_rnd_N|assumption]. Qed.

Lemma rnd_mono : forall a b, a <= b -> rnd64 a <= rnd64 b.
Proof. intros. apply round_le; [exact vexp|apply valid_rnd_N|assumption]. Qed.

Section StdAccuracy.
  Variable log10 : num -> num.
  Variable powi : num -> Z -> num.
  Variable fmt_prec : num -> Z -> text.
  Variable fmt_exp14 : num -> text.
  Variable parse_f64 : text -> option num.

  Notation est a := (as_i32 (nfloor (log10 a))).

  (* f64::log10 is off by less than one: floor is the decimal exponent or one more *)
  Hypothesis HL : forall a K, valid a -> Num.is_finite a = true ->
    p10 K <= RV a < p10 (K + 1) -> (K <= est a <= K + 1)%Z.
  (* powi(10, j) is exact for 0 <= j <= 22 *)
  Hypothesis HW0 : forall j, (0 <= j <= 22)%Z ->
    valid (powi c_ten j) /\ (exists s m e, powi c_ten j = S754_finite s m e) /\ RV (powi c_ten j) = p10 j.
  (* powi(10, j), -4 <= j <= -1, is the correctly rounded 10^j, and not below it *)
  Hypothesis HWn : forall j, (-4 <= j <= -1)%Z ->
    valid (powi c_ten j) /\ (exists s m e, powi c_ten j = S754_finite s m e) /\
    RV (powi c_ten j) = rnd64 (p10 j) /\ p10 j <= RV (powi c_ten j).

  Lemma powi_facts : forall j, (-4 <= j <= 22)%Z ->
    valid (powi c_ten j) /\ Num.is_finite (powi c_ten j) = true /\
    RV (powi c_ten j) = rnd64 (p10 j) /\ p10 j <= RV (powi c_ten j).
  Proof.
    intros j Hj. destruct (Z_lt_le_dec j 0).
    - destruct (HWn j ltac:(lia)) as (V & (s & m & e & E) & R1 & R2). repeat split; auto.
      rewrite E. reflexivity.
    - destruct (HW0 j ltac:(lia)) as (V & (s & m & e & E) & R1). repeat split; auto.
      + rewrite E. reflexivity.
      + rewrite R1. symmetry. apply rnd_id. apply p10_format. lia.
      + rewrite R1. lra.
  Qed.

  (* rnd64 (10^j) >= 10^j for -4 <= j <= 22 *)
  Lemma rnd_p10_ge : forall j, (-4 <= j <= 22)%Z -> p10 j <= rnd64 (p10 j).
  Proof. intros j Hj. destruct (powi_facts j Hj) as (_ & _ & E & G). now rewrite <- E. Qed.

  (* Lemma A: the repaired decimal_exponent is the decimal exponent *)
  Lemma flog10_exact : forall a K, valid a -> Num.is_finite a = true -> (-4 <= K <= 15)%Z ->
    p10 K <= RV a < p10 (K + 1) -> flog10 log10 powi true a = Ok K.
  Proof.
    intros a K Va Fa HK Ha. pose proof (HL a K Va Fa Ha) as He. unfold flog10.
    assert (C : est a = K \/ est a = (K + 1)%Z) by lia.
    destruct C as [C|C]; rewrite C.
    - destruct (powi_facts K ltac:(lia)) as (VP & FP & EP & GP).
      assert (N : nltb a (powi c_ten K) = false).
      { destruct (nltb a (powi c_ten K)) eqn:T; [|reflexivity].
        apply (nltb_correct a _ Va VP Fa FP) in T. exfalso.
        rewrite EP in T. pose proof (rnd_mono _ _ (proj1 Ha)) as M.
        rewrite (rnd_id (RV a)) in M by now apply valid_format. lra. }
      now rewrite N.
    - destruct (powi_facts (K + 1) ltac:(lia)) as (VP & FP & EP & GP).
      assert (N : nltb a (powi c_ten (K + 1)) = true).
      { apply (nltb_correct a _ Va VP Fa FP). lra. }
      rewrite N. unfold i32_sub. rewrite i32_ok_small by (change (2 ^ 30)%Z with 1073741824%Z; lia).
      f_equal. lia.
  Qed.

  (* numeric facts *)
  Lemma p10_15_le : p10 15 <= bpow radix2 50.
  Proof. change (p10 15) with 1000000000000000. change (bpow radix2 50) with 1125899906842624. lra. Qed.
  Lemma eps_p10_15 : bpow radix2 (-53) * p10 15 <= / 8.
  Proof.
    change (-53)%Z with (- (53))%Z. rewrite bpow_opp.
    change (bpow radix2 53) with 9007199254740992. change (p10 15) with 1000000000000000. lra.
  Qed.
  Lemma Rabs_signed : forall s n, (0 <= n)%Z -> Rabs (IZR (cond_Zopp s n)) = IZR n.
  Proof.
    intros s n Hn. destruct s; cbn [cond_Zopp]; [rewrite opp_IZR, Rabs_Ropp|];
      apply Rabs_pos_eq; apply IZR_le; lia.
  Qed.

  (* Lemma C: the rounded value, explicitly *)
  Lemma round_sig_explicit : forall x K,
    valid x -> std_nonint_path x = true -> (-4 <= K <= 14)%Z ->
    p10 K <= Rabs (RV x) < p10 (K + 1) ->
    exists r s n, round_to_significant_figures log10 powi true x = Ok r /\
      valid r /\ Num.is_finite r = true /\ (10 ^ 14 <= n <= 10 ^ 15)%Z /\
      RV r = rnd64 (IZR (cond_Zopp s n) * p10 (K - 14)) /\
      Rabs (IZR (cond_Zopp s n) - RV x * p10 (14 - K)) <= 5 / 8.
  Proof.
    intros x K Vx Hp HK HA. unfold std_nonint_path in Hp.
    apply andb_true_iff in Hp. destruct Hp as [Hp _]. apply andb_true_iff in Hp. destruct Hp as [Hp Hs].
    apply andb_true_iff in Hp. destruct Hp as [Fx Hz].
    apply negb_true_iff in Hs. apply negb_true_iff in Hz.
    unfold round_to_significant_figures. rewrite Hz.
    rewrite (flog10_exact (nabs x) K (valid_nabs x Vx) ltac:(now rewrite finite_nabs) ltac:(lia))
      by (now rewrite RV_nabs).
    cbn [obind]. change (i32_sub 15 1) with (@Ok Z 14%Z). cbn [obind].
    unfold i32_sub. rewrite i32_ok_small by (change (2 ^ 30)%Z with 1073741824%Z; lia). cbn [obind].
    destruct (HW0 (14 - K)%Z ltac:(lia)) as (Vs & (ss & ms & es & Es) & Rs).
    set (sc := powi c_ten (14 - K)%Z) in *. set (S := p10 (14 - K)) in *.
    assert (HS : 0 < S) by apply p10_pos.
    assert (Fs : Num.is_finite sc = true) by (rewrite Es; reflexivity).
    set (v := RV x * S).
    assert (Hv : p10 14 <= Rabs v < p10 15).
    { unfold v. rewrite Rabs_mult, (Rabs_pos_eq S) by lra.
      replace (p10 14) with (p10 K * S) by (unfold S; rewrite <- bpow_plus; f_equal; lia).
      replace (p10 15) with (p10 (K + 1) * S) by (unfold S; rewrite <- bpow_plus; f_equal; lia).
      split; [apply Rmult_le_compat_r; lra|apply Rmult_lt_compat_r; lra]. }
    pose proof p10_15_le as P15. pose proof eps_p10_15 as EPS.
    assert (P14 : 100000000000000 = p10 14) by reflexivity.
    assert (P15' : 1000000000000000 = p10 15) by reflexivity.
    (* p = x * scale *)
    destruct (nmul_correct x sc Vx Vs Fx Fs) as (Vp & Fp & Ep).
    { rewrite Rs. fold S. fold v.
      eapply Rle_lt_trans; [apply (rnd_abs_le_bpow _ 50); [lia|lra]|]. apply bpow_lt. lia. }
    rewrite Rs in Ep. fold S in Ep. fold v in Ep.
    assert (Erel : Rabs (RV (nmul x sc) - v) <= / 8).
    { rewrite Ep. eapply Rle_trans; [apply rnd_rel|].
      - eapply Rle_trans; [|apply (proj1 Hv)]. rewrite <- P14.
        apply Rle_trans with 1; [|lra]. change 1 with (bpow radix2 0). apply bpow_le. lia.
      - eapply Rle_trans; [|exact EPS]. apply Rmult_le_compat_l; [apply bpow_ge_0|lra]. }
    set (p := nmul x sc) in *.
    destruct p as [s0|s0| |s m e] eqn:P; try discriminate Fp.
    { exfalso. unfold RV in Erel. cbn [SF2R] in Erel. rewrite Rminus_0_l, Rabs_Ropp in Erel. lra. }
    destruct (nround_value s m e) as (n & Hn & En & Dn).
    set (N := IZR (cond_Zopp s n)) in *.
    assert (DN : Rabs (N - v) <= 5 / 8).
    { replace (N - v) with ((N - RV (S754_finite s m e)) + (RV (S754_finite s m e) - v)) by ring.
      eapply Rle_trans; [apply Rabs_triang|]. lra. }
    assert (AN : Rabs N = IZR n) by (apply Rabs_signed; exact Hn).
    assert (Bn : (10 ^ 14 <= n <= 10 ^ 15)%Z).
    { assert (T1 : Rabs N <= Rabs v + 5 / 8).
      { replace N with ((N - v) + v) by ring. eapply Rle_trans; [apply Rabs_triang|]. lra. }
      assert (T2 : Rabs v <= Rabs N + 5 / 8).
      { replace v with ((v - N) + N) at 1 by ring. eapply Rle_trans; [apply Rabs_triang|].
        rewrite Rabs_minus_sym. lra. }
      rewrite AN in T1, T2. split.
      - assert (L : (10 ^ 14 - 1 < n)%Z); [|lia]. apply lt_IZR. rewrite minus_IZR.
        change (IZR (10 ^ 14)) with 100000000000000. lra.
      - assert (L : (n < 10 ^ 15 + 1)%Z); [|lia]. apply lt_IZR. rewrite plus_IZR.
        change (IZR (10 ^ 15)) with 1000000000000000. lra. }
    (* q = p.round() is the integer exactly *)
    assert (FN : generic_format radix2 fexp64 N).
    { apply int_format. assert (Z.abs (cond_Zopp s n) = n) by (destruct s; cbn [cond_Zopp]; lia).
      rewrite H. change (10 ^ 15)%Z with 1000000000000000%Z in Bn. change (2 ^ 53)%Z with 9007199254740992%Z. lia. }
    destruct (num_of_sm_correct s n Hn) as (Vq & Fq & Eq).
    { fold N. rewrite (rnd_id N FN). rewrite AN.
      apply Rle_lt_trans with (IZR (10 ^ 15)); [apply IZR_le; lia|].
      change (IZR (10 ^ 15)) with 1000000000000000. rewrite P15'.
      eapply Rle_lt_trans; [exact P15|]. apply bpow_lt. lia. }
    fold N in Eq. rewrite (rnd_id N FN) in Eq. rewrite En.
    (* r = q / scale *)
    set (u := p10 (K - 14)).
    assert (Eu : / S = u).
    { unfold S, u. rewrite <- bpow_opp. f_equal. lia. }
    assert (By : Rabs (N * u) <= p10 15).
    { rewrite Rabs_mult, AN, (Rabs_pos_eq u) by (apply Rlt_le, p10_pos).
      apply Rle_trans with (IZR (10 ^ 15) * u).
      - apply Rmult_le_compat_r; [apply Rlt_le, p10_pos|apply IZR_le; lia].
      - change (IZR (10 ^ 15)) with 1000000000000000. rewrite P15'. unfold u. rewrite <- bpow_plus.
        apply bpow_le. lia. }
    rewrite Es in *.
    destruct (ndiv_correct (num_of_sm s n) ss ms es Vq Fq) as (Vr & Fr & Er).
    { rewrite Eq, Rs. unfold Rdiv. fold S. rewrite Eu.
      eapply Rle_lt_trans; [apply (rnd_abs_le_bpow _ 50); [lia|lra]|]. apply bpow_lt. lia. }
    rewrite Eq, Rs in Er. unfold Rdiv in Er. fold S in Er. rewrite Eu in Er.
    exists (ndiv (num_of_sm s n) (S754_finite ss ms es)), s, n.
    split; [reflexivity|]. repeat split; try assumption; try lia.
  Qed.
End StdAccuracy.
