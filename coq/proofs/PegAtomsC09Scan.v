(* proofs/PegAtomsC09Scan.v — round ATOMS (C09): the formatter-half well-formedness proofs of ScanFmt.v /
   DriverText.v re-proved for the WEAKER comment predicate [comment_ok_cr]: what those proofs really need of a
   comment text c is Formatter.is_comment_text c (scanned from code state the text is read as ONE comment that is
   still open at its end, so the line break the layout emits after it closes exactly c).  For the scanner
   (and for the grammar's `comment` rule, which stops only at "\r\n" / "\n") that is:
       c = "//" ++ r,  r has no "\n",  r does not END in "\r"
   — a bare "\r" INSIDE r is harmless (ScanFmt.comment_ok forbade every "\r").  A comment that ENDS in "\r" is a
   genuine problem, not a proof artefact: the layout appends "\n", the emitted bytes are "\r\n", and a re-scan /
   re-parse reads the comment WITHOUT its final "\r" (finding C09-comment-trailing-cr, see notes/ext-atoms.md).

   Everything below [Module CR] from "composing documents" on is the text of ScanFmt.v (sections Layouts, Fmt) and
   DriverText.v (section DriverText) with comment_ok shadowed by the weaker predicate: the proofs use comment_ok
   only through comment_ok_text and comment_not_minus, which are re-proved here. *)
From Coq Require Import String Ascii List ZArith Bool Lia.
Require Import Blots.Num Blots.gen.Builtins Blots.Ast Blots.Formatter Blots.proofs.ExprInd
  Blots.proofs.Scan Blots.proofs.Comments Blots.proofs.ScanFmt Blots.proofs.Idempotent Blots.proofs.DriverText.
Import ListNotations.
Open Scope list_scope.

(* r has no line feed and does not end in a carriage return *)
Fixpoint cr_body_ok (r : string) : bool :=
  match r with
  | "" => true
  | String c r' =>
      negb (Ascii.eqb c NLc) &&
      (if Ascii.eqb c CRc then match r' with "" => false | _ => cr_body_ok r' end else cr_body_ok r')
  end.
Definition comment_ok_cr (c : string) : bool :=
  match c with
  | String a (String b r) => Ascii.eqb a "/" && Ascii.eqb b "/" && cr_body_ok r
  | _ => false
  end.

Lemma snoc_app : forall a c, snoc a c = a +++ String c "".
Proof. reflexivity. Qed.

Lemma sstep_com_cr : forall cur, sstep (SCom cur) CRc = ([], SComCR cur).
Proof. reflexivity. Qed.
Lemma sstep_comcr_cr : forall cur, sstep (SComCR cur) CRc = ([], SComCR (snoc cur CRc)).
Proof. reflexivity. Qed.
Lemma sstep_com_other : forall cur c, Ascii.eqb c NLc = false -> Ascii.eqb c CRc = false ->
  sstep (SCom cur) c = ([], SCom (snoc cur c)).
Proof. intros cur c H1 H2. cbn [sstep]. now rewrite H1, H2. Qed.
Lemma sstep_comcr_other : forall cur c, Ascii.eqb c NLc = false -> Ascii.eqb c CRc = false ->
  sstep (SComCR cur) c = ([], SCom (snoc (snoc cur CRc) c)).
Proof. intros cur c H1 H2. cbn [sstep]. now rewrite H1, H2. Qed.
Lemma srun_cons : forall st c r, srun st (String c r) =
  let (o, st') := sstep st c in let (o', st'') := srun st' r in (o ++ o', st'').
Proof. reflexivity. Qed.

Lemma srun_cr_body : forall r cur, cr_body_ok r = true ->
  srun (SCom cur) r = ([], SCom (cur +++ r)) /\
  (r <> "" -> srun (SComCR cur) r = ([], SCom (cur +++ String CRc r))).
Proof.
  induction r as [|c r IH]; intros cur H.
  - split; [cbn [srun]; now rewrite append_nil_r|intros N; now elim N].
  - cbn [cr_body_ok] in H. apply andb_prop in H as [Hn Hr]. rewrite negb_true_iff in Hn.
    destruct (Ascii.eqb c CRc) eqn:Ec.
    + apply Ascii.eqb_eq in Ec. subst c.
      assert (NE : r <> "") by (destruct r; [discriminate|discriminate]).
      assert (Hr' : cr_body_ok r = true) by (destruct r; [discriminate|exact Hr]).
      split; [|intros _]; rewrite srun_cons.
      * rewrite sstep_com_cr. destruct (IH cur Hr') as [_ B]. rewrite (B NE). reflexivity.
      * rewrite sstep_comcr_cr. destruct (IH (snoc cur CRc) Hr') as [_ B]. rewrite (B NE), append_snoc. reflexivity.
    + split; [|intros _]; rewrite srun_cons.
      * rewrite (sstep_com_other _ _ Hn Ec). destruct (IH (snoc cur c) Hr) as [A _]. rewrite A, append_snoc. reflexivity.
      * rewrite (sstep_comcr_other _ _ Hn Ec). destruct (IH (snoc (snoc cur CRc) c) Hr) as [A _].
        rewrite A, !append_snoc. reflexivity.
Qed.

Lemma comment_ok_cr_text : forall c, comment_ok_cr c = true -> is_comment_text c.
Proof.
  intros c H. destruct c as [|a [|b r]]; try discriminate. cbn [comment_ok_cr] in H.
  apply andb_prop in H as [H Hr]. apply andb_prop in H as [Ha Hb].
  apply Ascii.eqb_eq in Ha, Hb. subst a b.
  unfold is_comment_text. cbn [srun sstep]. cbn.
  destruct (srun_cr_body r "//" Hr) as [A _]. rewrite A. reflexivity.
Qed.

(* the old predicate implies the new one: every theorem below subsumes its ScanFmt / DriverText original *)
Lemma eol_free_cr_body : forall r, all_chars eol_free_char r = true -> cr_body_ok r = true.
Proof.
  induction r as [|c r IH]; intros H; [reflexivity|]. cbn [all_chars] in H. apply andb_prop in H as [Hc Hr].
  unfold eol_free_char in Hc. apply andb_prop in Hc as [H1 H2]. rewrite negb_true_iff in H2.
  cbn [cr_body_ok]. rewrite H1, H2. exact (IH Hr).
Qed.
Lemma comment_ok_weaker : forall c, comment_ok c = true -> comment_ok_cr c = true.
Proof.
  intros [|a [|b r]] H; try discriminate. cbn [comment_ok comment_ok_cr] in *.
  apply andb_prop in H as [H Hr]. rewrite H. exact (eol_free_cr_body r Hr).
Qed.

(* the converse fails exactly on a bare CR inside: satisfiable, and strictly weaker *)
Example comment_ok_cr_bare_cr :
  let c := String "/" (String "/" (String " " (String "a" (String CRc (String "b" ""))))) in
  comment_ok_cr c = true /\ comment_ok c = false.
Proof. split; reflexivity. Qed.
(* ... and a trailing CR is refused: the scanner is then NOT in an open comment holding c *)
Example comment_ok_cr_trailing_cr :
  let c := String "/" (String "/" (String "a" (String CRc ""))) in
  comment_ok_cr c = false /\ srun SCode c = ([], SComCR "//a").
Proof. split; reflexivity. Qed.

Module CR.
Definition comment_ok := comment_ok_cr.
Lemma comment_ok_text : forall c, comment_ok c = true -> is_comment_text c.
Proof. exact comment_ok_cr_text. Qed.

(* comment blocks followed by a line break *)
Lemma wf_dcomment_lines_then : forall l Y,
  forallb comment_ok l = true -> wf_doc Y -> starts_nl Y = true -> wf_doc (dcomment_lines l ++ Y).
Proof.
  induction l as [|c r IH]; intros Y H HY HS; [exact HY|].
  cbn [forallb] in H. apply andb_prop in H as [Hc Hr].
  destruct r as [|c2 r'].
  - cbn [dcomment_lines app wf_doc]. split; [now apply comment_ok_text|].
    destruct Y as [|q Y']; [discriminate|]. destruct q; try discriminate. exact HY.
  - change (dcomment_lines (c :: c2 :: r')) with (Comment c :: Nl :: dcomment_lines (c2 :: r')).
    cbn [app wf_doc]. split; [now apply comment_ok_text|]. apply (IH Y Hr HY HS).
Qed.

Definition trailing_ok (tr : option string) : bool :=
  match tr with Some t => forallb comment_ok (split_nl t) | None => true end.

Lemma wf_trailing_then : forall tr Y,
  trailing_ok tr = true -> wf_doc Y -> starts_nl Y = true -> wf_doc (trailing_doc tr ++ Y).
Proof.
  intros [t|] Y H HY HS; [|exact HY].
  cbn [trailing_doc app wf_doc]. split; [reflexivity|]. now apply wf_dcomment_lines_then.
Qed.

Lemma wf_leading_then : forall i lead Y,
  forallb comment_ok lead = true -> wf_doc Y -> starts_nl Y = true ->
  wf_doc (leading_doc i lead ++ Y) /\ starts_nl (leading_doc i lead ++ Y) = true.
Proof.
  intros i lead Y. induction lead as [|c r IH]; intros H HY HS; [split; assumption|].
  cbn [forallb] in H. apply andb_prop in H as [Hc Hr]. destruct (IH Hr HY HS) as [W S].
  unfold leading_doc in *. cbn [flat_map app]. split; [|reflexivity].
  cbn [wf_doc]. split; [apply neutral_indent|]. split; [now apply comment_ok_text|].
  destruct (flat_map (fun c0 : string => [Nl; ind i; Comment c0]) r ++ Y) as [|q Z]; [discriminate|].
  destruct q; try discriminate. exact W.
Qed.

Definition comments_ok {A} (c : commented A) : bool :=
  forallb comment_ok (cleading c) && trailing_ok (ctrailing c).


(* ------------------------------------------------------------------ layouts *)
Section Layouts.
  Variable O : oracles.
  Variable key_ok : string -> bool.
  Hypothesis Hrk : forall k, key_ok k = true -> neutral (o_record_key O k).
  Variable w : nat.
  Variable rec : expr -> nat -> doc.

  (* the recursive call yields a good document whenever its opaque texts are neutral *)
  Definition R (x : expr) : Prop := forall j, opaque_texts_neutral (rec x j) -> Good (rec x j).

  Ltac split_otn H :=
    repeat match type of H with
           | opaque_texts_neutral (_ ++ _) => let H1 := fresh "O" in let H2 := fresh "O" in
               apply otn_app in H as [H1 H2]; try split_otn H1; try split_otn H2
           | opaque_texts_neutral (_ :: _ :: _) => idtac
           end.

  Lemma otn_cons : forall p d, opaque_texts_neutral (p :: d) -> opaque_texts_neutral d.
  Proof. intros p d H. inversion H; assumption. Qed.

  Lemma wrap_parens_good : forall b d, Good d -> Good (wrap_parens b d).
  Proof.
    intros [] d H; [|exact H]. unfold wrap_parens.
    repeat apply good_app; try (apply good_code; reflexivity). exact H.
  Qed.
  Lemma otn_wrap_parens : forall b d, opaque_texts_neutral (wrap_parens b d) -> opaque_texts_neutral d.
  Proof.
    intros [] d H; [|exact H]. unfold wrap_parens in H. apply otn_app in H as [_ H].
    now apply otn_app in H as [H _].
  Qed.

  Lemma protect_minus_good : forall d b, Good d -> Good (protect_minus d b).
  Proof.
    intros d b H. unfold protect_minus. destruct (negb b && starts_with_minus (render d)); [|exact H].
    repeat apply good_app; try (apply good_code; reflexivity). exact H.
  Qed.
  Lemma otn_protect_minus : forall d b, opaque_texts_neutral (protect_minus d b) -> opaque_texts_neutral d.
  Proof.
    intros d b H. unfold protect_minus in H. destruct (negb b && starts_with_minus (render d)); [|exact H].
    apply otn_app in H as [_ H]. now apply otn_app in H as [H _].
  Qed.

  (* items of a list: the loop followed by a tail that starts with a line break *)
  Lemma list_items_wf : forall l inner Y,
    Forall (fun c => R (cnode c)) l -> forallb comments_ok l = true ->
    opaque_texts_neutral (list_items_doc rec l inner) ->
    wf_doc Y -> starts_nl Y = true ->
    wf_doc (list_items_doc rec l inner ++ Y) /\ starts_nl (list_items_doc rec l inner ++ Y) = true.
  Proof.
    induction l as [|[lead n tr] r IH]; intros inner Y HR HC HO HY HS; [split; assumption|].
    inversion HR as [|? ? Hn Hr]; subst. cbn [cnode] in Hn.
    cbn [forallb] in HC. apply andb_prop in HC as [Hc HCr].
    unfold comments_ok in Hc. cbn [cleading ctrailing] in Hc. apply andb_prop in Hc as [Hl Ht].
    cbn [list_items_doc] in *.
    apply otn_app in HO as [_ HO]. apply otn_app in HO as [_ HO]. apply otn_app in HO as [On HO].
    apply otn_app in HO as [_ HO]. apply otn_app in HO as [_ Or].
    destruct (IH inner Y Hr HCr Or HY HS) as [Wr Sr].
    rewrite <- !app_assoc.
    apply wf_leading_then; [exact Hl| |reflexivity].
    change ([Nl; ind inner] ++ rec n inner ++ [Code ","] ++ trailing_doc tr ++ list_items_doc rec r inner ++ Y)
      with (([Nl; ind inner]) ++ (rec n inner ++ [Code ","] ++ trailing_doc tr ++ list_items_doc rec r inner ++ Y)).
    apply wf_app_good; [apply good_nl_ind|apply good_nl_ind|].
    destruct (Hn inner On) as [Wn En].
    apply wf_app_good; [exact Wn|exact En|].
    change ([Code ","] ++ trailing_doc tr ++ list_items_doc rec r inner ++ Y)
      with (Code "," :: (trailing_doc tr ++ list_items_doc rec r inner ++ Y)).
    cbn [wf_doc]. split; [reflexivity|]. now apply wf_trailing_then.
  Qed.

  Lemma list_doc_good : forall items i,
    Forall (fun c => R (cnode c)) items -> forallb comments_ok items = true ->
    opaque_texts_neutral (list_doc rec items i) -> Good (list_doc rec items i).
  Proof.
    intros items i HR HC HO. destruct items as [|c r]; [apply good_code; reflexivity|].
    unfold list_doc in *. apply otn_app in HO as [_ HO]. apply otn_app in HO as [HO _].
    split.
    - change ([Code "["] ++ list_items_doc rec (c :: r) (i + INDENT_SIZE) ++ [Nl; ind i; Code "]"])
        with (Code "[" :: (list_items_doc rec (c :: r) (i + INDENT_SIZE) ++ [Nl; ind i; Code "]"])).
      cbn [wf_doc]. split; [reflexivity|].
      assert (T : wf_doc [Nl; ind i; Code "]"]) by (cbn; repeat split; try reflexivity; try apply neutral_indent).
      exact (proj1 (list_items_wf _ _ _ HR HC HO T eq_refl)).
    - rewrite app_assoc. apply ends_code_app; [reflexivity|discriminate].
  Qed.

  (* record entries *)
  Definition key_atoms_ok (r : rentry) : bool :=
    match r with
    | REntry (KStatic k) _ => key_ok k
    | REntry (KShort name) _ => plain name
    | _ => true
    end.
  Definition R_entry (r : rentry) : Prop :=
    match r with
    | REntry (KStatic _) v => R v
    | REntry (KDyn k) v => R k /\ R v
    | REntry (KShort _) _ => True
    | REntry (KSpread x) _ => R x
    end.

  Lemma entry_doc_good : forall r i, R_entry r -> key_atoms_ok r = true ->
    opaque_texts_neutral (entry_doc O rec r i) -> Good (entry_doc O rec r i).
  Proof.
    intros [[k|ke|name|x] v] i HR HK HO; cbn [entry_doc R_entry key_atoms_ok] in *.
    - change (Code (o_record_key O k +++ ": ") :: rec v i) with ([Code (o_record_key O k +++ ": ")] ++ rec v i).
      apply good_app; [apply good_code, neutral_app; [now apply Hrk|reflexivity]|].
      apply HR. now apply otn_cons in HO.
    - destruct HR as [Rk Rv]. apply otn_app in HO as [_ HO]. apply otn_app in HO as [Ok HO].
      apply otn_app in HO as [_ Ov].
      repeat apply good_app; try (apply good_code; reflexivity); auto.
    - apply good_code. now apply plain_neutral.
    - now apply HR.
  Qed.

  Lemma rec_entries_wf : forall l inner Y,
    Forall (fun c => R_entry (cnode c)) l ->
    forallb (fun c => comments_ok c && key_atoms_ok (cnode c)) l = true ->
    opaque_texts_neutral (rec_entries_doc O rec l inner) ->
    wf_doc Y -> starts_nl Y = true ->
    wf_doc (rec_entries_doc O rec l inner ++ Y) /\
    starts_nl (rec_entries_doc O rec l inner ++ Y) = true.
  Proof.
    induction l as [|[lead n tr] r IH]; intros inner Y HR HC HO HY HS; [split; assumption|].
    inversion HR as [|? ? Hn Hr]; subst. cbn [cnode] in Hn.
    cbn [forallb] in HC. apply andb_prop in HC as [Hc HCr]. cbn [cnode] in Hc.
    apply andb_prop in Hc as [Hc Hk].
    unfold comments_ok in Hc. cbn [cleading ctrailing] in Hc. apply andb_prop in Hc as [Hl Ht].
    cbn [rec_entries_doc] in *.
    apply otn_app in HO as [_ HO]. apply otn_app in HO as [_ HO]. apply otn_app in HO as [On HO].
    apply otn_app in HO as [_ HO]. apply otn_app in HO as [_ Or].
    destruct (IH inner Y Hr HCr Or HY HS) as [Wr Sr].
    rewrite <- !app_assoc.
    apply wf_leading_then; [exact Hl| |reflexivity].
    change ([Nl; ind inner] ++ entry_doc O rec n inner ++ [Code ","] ++ trailing_doc tr ++
            rec_entries_doc O rec r inner ++ Y)
      with (([Nl; ind inner]) ++ (entry_doc O rec n inner ++ [Code ","] ++ trailing_doc tr ++
            rec_entries_doc O rec r inner ++ Y)).
    apply wf_app_good; [apply good_nl_ind|apply good_nl_ind|].
    destruct (entry_doc_good n inner Hn Hk On) as [Wn En].
    apply wf_app_good; [exact Wn|exact En|].
    change ([Code ","] ++ trailing_doc tr ++ rec_entries_doc O rec r inner ++ Y)
      with (Code "," :: (trailing_doc tr ++ rec_entries_doc O rec r inner ++ Y)).
    cbn [wf_doc]. split; [reflexivity|]. now apply wf_trailing_then.
  Qed.

  Lemma record_doc_good : forall entries i,
    Forall (fun c => R_entry (cnode c)) entries ->
    forallb (fun c => comments_ok c && key_atoms_ok (cnode c)) entries = true ->
    opaque_texts_neutral (record_doc O rec entries i) -> Good (record_doc O rec entries i).
  Proof.
    intros entries i HR HC HO. destruct entries as [|c r]; [apply good_code; reflexivity|].
    unfold record_doc in *. apply otn_app in HO as [_ HO]. apply otn_app in HO as [HO _].
    split.
    - change ([Code "{"] ++ rec_entries_doc O rec (c :: r) (i + INDENT_SIZE) ++ [Nl; ind i; Code "}"])
        with (Code "{" :: (rec_entries_doc O rec (c :: r) (i + INDENT_SIZE) ++ [Nl; ind i; Code "}"])).
      cbn [wf_doc]. split; [reflexivity|].
      assert (T : wf_doc [Nl; ind i; Code "}"]) by (cbn; repeat split; try reflexivity; try apply neutral_indent).
      exact (proj1 (rec_entries_wf _ _ _ HR HC HO T eq_refl)).
    - rewrite app_assoc. apply ends_code_app; [reflexivity|discriminate].
  Qed.

  (* do-blocks *)
  Lemma do_stmts_wf : forall l inner first Y,
    Forall (fun c => R (cnode c)) l -> forallb comments_ok l = true ->
    opaque_texts_neutral (do_stmts_doc rec l inner first) ->
    wf_doc Y -> starts_nl Y = true ->
    wf_doc (do_stmts_doc rec l inner first ++ Y) /\ starts_nl (do_stmts_doc rec l inner first ++ Y) = true.
  Proof.
    induction l as [|[lead n tr] r IH]; intros inner first Y HR HC HO HY HS; [split; assumption|].
    inversion HR as [|? ? Hn Hr]; subst. cbn [cnode] in Hn.
    cbn [forallb] in HC. apply andb_prop in HC as [Hc HCr].
    unfold comments_ok in Hc. cbn [cleading ctrailing] in Hc. apply andb_prop in Hc as [Hl Ht].
    cbn [do_stmts_doc] in *.
    apply otn_app in HO as [_ HO]. apply otn_app in HO as [_ HO]. apply otn_app in HO as [On HO].
    apply otn_app in HO as [_ Or].
    destruct (IH inner false Y Hr HCr Or HY HS) as [Wr Sr].
    rewrite <- !app_assoc.
    apply wf_leading_then; [exact Hl| |reflexivity].
    change ([Nl; ind inner] ++ protect_minus (rec n inner) first ++ trailing_doc tr ++ do_stmts_doc rec r inner false ++ Y)
      with (([Nl; ind inner]) ++ (protect_minus (rec n inner) first ++ trailing_doc tr ++ do_stmts_doc rec r inner false ++ Y)).
    apply wf_app_good; [apply good_nl_ind|apply good_nl_ind|].
    destruct (protect_minus_good _ first (Hn inner (otn_protect_minus _ _ On))) as [Wn En].
    apply wf_app_good; [exact Wn|exact En|]. now apply wf_trailing_then.
  Qed.

  Lemma do_doc_good : forall stmts ret i,
    Forall (fun c => R (cnode c)) stmts -> R (cnode ret) ->
    forallb comments_ok stmts = true -> forallb comment_ok (cleading ret) = true ->
    opaque_texts_neutral (do_doc rec stmts ret i) -> Good (do_doc rec stmts ret i).
  Proof.
    intros stmts ret i HS HR HC HL HO. unfold do_doc in *. cbv zeta in *.
    apply otn_app in HO as [_ HO]. apply otn_app in HO as [Os HO]. apply otn_app in HO as [_ HO].
    apply otn_app in HO as [_ HO]. apply otn_app in HO as [Or _].
    destruct (HR _ Or) as [Wr Er].
    split.
    - change ([Code "do {"] ++ do_stmts_doc rec stmts (i + INDENT_SIZE) true ++
              leading_doc (i + INDENT_SIZE) (cleading ret) ++ [Nl; ind (i + INDENT_SIZE); Code "return "] ++
              rec (cnode ret) (i + INDENT_SIZE) ++ [Nl; ind i; Code "}"])
        with (Code "do {" :: (do_stmts_doc rec stmts (i + INDENT_SIZE) true ++
              (leading_doc (i + INDENT_SIZE) (cleading ret) ++ [Nl; ind (i + INDENT_SIZE); Code "return "] ++
              rec (cnode ret) (i + INDENT_SIZE) ++ [Nl; ind i; Code "}"]))).
      cbn [wf_doc]. split; [reflexivity|].
      assert (T : wf_doc ([Nl; ind (i + INDENT_SIZE); Code "return "] ++ rec (cnode ret) (i + INDENT_SIZE) ++ [Nl; ind i; Code "}"])).
      { cbn [app wf_doc]. split; [apply neutral_indent|]. split; [reflexivity|].
        apply wf_app_good; [exact Wr|exact Er|]. cbn; repeat split; try reflexivity; try apply neutral_indent. }
      destruct (wf_leading_then (i + INDENT_SIZE) (cleading ret) _ HL T eq_refl) as [WL SL].
      exact (proj1 (do_stmts_wf _ _ _ _ HS HC Os WL SL)).
    - rewrite !app_assoc. apply ends_code_app; [reflexivity|discriminate].
  Qed.

  (* lambda *)
  Lemma lambda_doc_good : forall args body i,
    forallb (fun a => plain (arg_name a)) args = true -> R body ->
    opaque_texts_neutral (lambda_doc O w rec args body i) -> Good (lambda_doc O w rec args body i).
  Proof.
    intros args body i HA HR HO.
    assert (NA : forall suffix, plain suffix = true -> neutral (lambda_args_part args +++ suffix)).
    { intros suffix Hs. apply plain_neutral. rewrite plain_app, Hs, andb_true_r.
      unfold lambda_args_part.
      assert (G : plain ("(" +++ sjoin ", " (map lambda_arg_to_str args) +++ ")") = true).
      { rewrite !plain_app. change (plain "(") with true. change (plain ")") with true.
        rewrite andb_true_r. cbn [andb].
        apply plain_sjoin; [reflexivity|]. clear -HA.
        induction args as [|a r IH]; [reflexivity|]. cbn [map forallb] in *.
        apply andb_prop in HA as [Ha Hr]. rewrite (IH Hr), andb_true_r.
        destruct a; cbn [lambda_arg_to_str arg_name] in *; rewrite ?plain_app, ?Ha; reflexivity. }
      destruct args as [|[x|x|x] [|b r]]; try exact G.
      cbn [forallb arg_name] in HA. now rewrite andb_true_r in HA. }
    unfold lambda_doc in *. cbv zeta in *.
    destruct (is_do body).
    - apply otn_app in HO as [_ HO]. apply good_app; [apply good_code|now apply HR].
      rewrite append_assoc. apply NA. reflexivity.
    - match goal with |- context [if negb ?a && ?b then _ else _] => destruct (negb a && b) end.
      + apply otn_app in HO as [_ HO].
        apply good_app; [apply good_code|apply wrap_parens_good, HR; now apply otn_wrap_parens in HO].
        rewrite append_assoc. apply NA. reflexivity.
      + apply otn_app in HO as [_ HO].
        apply good_app; [|apply wrap_parens_good, HR; now apply otn_wrap_parens in HO].
        split; [|reflexivity]. cbn [wf_doc]. split; [apply NA; reflexivity|].
        split; [apply neutral_indent|exact I].
  Qed.

  (* conditional chain *)
  Definition cond_good (el : expr) : Prop :=
    forall fc ft i,
      (forall j, opaque_texts_neutral (fc j) -> Good (fc j)) ->
      (forall j, opaque_texts_neutral (ft j) -> Good (ft j)) ->
      opaque_texts_neutral (cond_doc w rec fc ft el i) -> Good (cond_doc w rec fc ft el i).

  Ltac good_pieces :=
    repeat first
      [ apply good_app
      | apply good_code; first [reflexivity | apply neutral_indent]
      | apply good_nl_ind ].

  Lemma cond_doc_step_good : forall el,
    R el ->
    (forall c2 t2 e2, el = ECond c2 t2 e2 -> R c2 /\ R t2 /\ cond_good e2) ->
    cond_good el.
  Proof.
    intros el Hel Hsub fc ft i Hc Ht HO.
    assert (NL1 : forall k s, Good [Nl; ind k; Code s] <-> neutral s).
    { intros k s. split; [intros [[_ [H _]] _]; exact H|].
      intros H. split; [cbn; repeat split; try apply neutral_indent; exact H|reflexivity]. }
    assert (G4 : forall k k2, Good [Nl; ind k; Code "else"; Nl; ind k2]).
    { intros. split; [cbn; repeat split; try reflexivity; try apply neutral_indent|reflexivity]. }
    assert (G5 : forall k k2, Good [Nl; ind k; Code "then"; Nl; ind k2]).
    { intros. split; [cbn; repeat split; try reflexivity; try apply neutral_indent|reflexivity]. }
    assert (G6 : Good [Code "if "]) by (apply good_code; reflexivity).
    assert (D : (exists c2 t2 e2, el = ECond c2 t2 e2) \/ (forall c2 t2 e2, el <> ECond c2 t2 e2))
      by (destruct el; try (right; intros; discriminate); left; eauto).
    destruct D as [(c2 & t2 & e2 & ->) | NC].
    - destruct (Hsub _ _ _ eq_refl) as (K1 & K2 & K3).
      cbn [cond_doc] in *; cbv zeta in *.
      match goal with |- context [if ?b then _ else _] => destruct b end;
        repeat match goal with H : opaque_texts_neutral (_ ++ _) |- _ => apply otn_app in H as [? ?] end;
        repeat first [ apply good_app | apply G4 | apply G5 | apply G6
                     | apply good_code; reflexivity | apply good_nl_ind
                     | apply (proj2 (NL1 _ _)); reflexivity
                     | apply Hc; assumption | apply Ht; assumption
                     | apply K3; [exact K1|exact K2|assumption] ].
    - destruct el; try (exfalso; eapply NC; reflexivity);
        cbn [cond_doc] in *; cbv zeta in *;
        (match goal with |- context [if ?b then _ else _] => destruct b end;
         repeat match goal with H : opaque_texts_neutral (_ ++ _) |- _ => apply otn_app in H as [? ?] end;
         repeat first [ apply good_app | apply G4 | apply G5 | apply G6
                      | apply good_code; reflexivity | apply good_nl_ind
                      | apply (proj2 (NL1 _ _)); reflexivity
                      | apply Hc; assumption | apply Ht; assumption | apply Hel; assumption ]).
  Qed.

  (* call *)
  Lemma call_doc_good : forall f args i, R f -> Forall R args ->
    opaque_texts_neutral (call_doc O rec f args i) -> Good (call_doc O rec f args i).
  Proof.
    intros f args i Hf Ha HO. unfold call_doc in *. cbv zeta in *.
    assert (F : opaque_texts_neutral (wrap_parens (o_postfix_parens O f) (rec f i)) ->
                Good (wrap_parens (o_postfix_parens O f) (rec f i))).
    { intros O'. apply wrap_parens_good, Hf. now apply otn_wrap_parens in O'. }
    destruct args as [|a r].
    - apply otn_app in HO as [O1 _]. apply good_app; [now apply F|apply good_code; reflexivity].
    - apply otn_app in HO as [O1 HO]. apply otn_app in HO as [_ HO]. apply otn_app in HO as [O2 _].
      apply good_app; [now apply F|]. apply good_app; [apply good_code; reflexivity|].
      apply good_app; [|split; [cbn; repeat split; try reflexivity; try apply neutral_indent|reflexivity]].
      remember (a :: r) as l eqn:E. clear E.
      induction Ha as [|x l' Hx Hl IH]; [apply good_nil|].
      cbn [flat_map] in *. apply otn_app in O2 as [Ox Ol]. apply otn_app in Ox as [_ Ox]. apply otn_app in Ox as [Ox _].
      apply good_app; [|now apply IH].
      repeat apply good_app; [apply good_nl_ind|now apply Hx|apply good_code; reflexivity].
  Qed.

  (* binary operator *)
  Lemma binop_doc_good : forall op l r i, R l -> R r ->
    opaque_texts_neutral (binop_doc O w rec op l r i) ->
    Good (binop_doc O w rec op l r i).
  Proof.
    intros op l r i Hl Hr HO. unfold binop_doc in *. cbv zeta in *.
    assert (GN : forall k, Good [Nl; ind k; Code (binary_op_str op +++ " ")]).
    { intros k. split; [cbn; repeat split; try apply neutral_indent; apply neutral_binop_lead|reflexivity]. }
    destruct (is_via_like op && is_lambda r).
    - match goal with |- context [if (?a <=? ?b)%nat then _ else _] => destruct (a <=? b)%nat end.
      + destruct (contains_nl _).
        * apply otn_app in HO as [O1 HO]. apply otn_app in HO as [_ O2].
          apply good_app; [apply wrap_parens_good, Hl; now apply otn_wrap_parens in O1|].
          apply good_app; [apply good_code, neutral_binop_infix|].
          destruct (String.eqb _ _).
          -- apply wrap_parens_good, Hr. now apply otn_wrap_parens in O2.
          -- inversion O2 as [|? ? N _]; subst. split; [cbn; auto|reflexivity].
        * apply otn_app in HO as [O1 HO]. apply otn_app in HO as [_ O2].
          apply good_app; [apply wrap_parens_good, Hl; now apply otn_wrap_parens in O1|].
          apply good_app; [apply good_code, neutral_binop_infix|].
          apply wrap_parens_good, Hr. now apply otn_wrap_parens in O2.
      + apply otn_app in HO as [O1 HO]. apply otn_app in HO as [_ O2].
        apply good_app; [apply wrap_parens_good, Hl; now apply otn_wrap_parens in O1|].
        apply good_app; [apply GN|]. apply wrap_parens_good, Hr. now apply otn_wrap_parens in O2.
    - apply otn_app in HO as [O1 HO]. apply otn_app in HO as [_ O2].
      apply good_app; [apply wrap_parens_good, Hl; now apply otn_wrap_parens in O1|].
      apply good_app; [apply GN|]. apply wrap_parens_good, Hr. now apply otn_wrap_parens in O2.
  Qed.
End Layouts.

(* ------------------------------------------------------------------ the formatter *)
Section Fmt.
  Variable O : oracles.
  Variable key_ok : string -> bool.
  Hypothesis Hrk : forall k, key_ok k = true -> neutral (o_record_key O k).
  Variable w : nat.
  Let fmtd := fmtd O w.

  (* the strings of the AST that the layouts print themselves: assigned names, parameter
     names, shorthand keys (no quote, no slash), static keys (accepted by key_ok), and the
     comments (each "//" + text without line break; a trailing field = such lines joined by "\n") *)
  Fixpoint atoms_ok (e : expr) : bool :=
    match e with
    | EList items => forallb (fun c => comments_ok c && atoms_ok (cnode c)) items
    | ERec entries =>
        forallb (fun c => comments_ok c && key_atoms_ok key_ok (cnode c) &&
                          match cnode c with
                          | REntry (KStatic _) v => atoms_ok v
                          | REntry (KDyn k) v => atoms_ok k && atoms_ok v
                          | REntry (KShort _) _ => true
                          | REntry (KSpread x) _ => atoms_ok x
                          end) entries
    | ELam args body => forallb (fun a => plain (arg_name a)) args && atoms_ok body
    | ECond c t f => atoms_ok c && atoms_ok t && atoms_ok f
    | EDo stmts ret =>
        forallb (fun c => comments_ok c && atoms_ok (cnode c)) stmts &&
        forallb comment_ok (cleading ret) && atoms_ok (cnode ret)
    | EAssign x v => plain x && atoms_ok v
    | EOutput x => atoms_ok x
    | ECall f args => atoms_ok f && forallb atoms_ok args
    | EBin _ l r => atoms_ok l && atoms_ok r
    | EAccess a ix => atoms_ok a && atoms_ok ix
    | EDot a field => atoms_ok a && plain field
    | EUn _ a => atoms_ok a
    | EFact a => atoms_ok a
    | ESpread a => atoms_ok a
    | _ => true
    end.

  Lemma fmtd_eq' : forall e i, fmtd e i = impl_doc O w fmtd e i.
  Proof. intros; apply fmtd_eq. Qed.

  Definition Q (e : expr) : Prop := atoms_ok e = true -> R fmtd e.
  Definition QC (e : expr) : Prop := atoms_ok e = true -> cond_good w fmtd e.

  Lemma opaque_good : forall e s, opaque_texts_neutral [Opaque e s] -> Good [Opaque e s].
  Proof. intros e s H. inversion H as [|? ? N _]; subst. split; [cbn; auto|reflexivity]. Qed.

  Ltac opaque_case :=
    let HQ := fresh "HQ" in
    match goal with |- Q ?e /\ QC ?e =>
      assert (HQ : Q e) by
        (intros _ ? ?; rewrite fmtd_eq' in *; unfold impl_doc in *; cbn [multiline_doc contains_comments] in *;
         rewrite ?andb_false_r in *; cbn [negb andb] in *;
         repeat match goal with H : context [if ?b then _ else _] |- _ => destruct b end;
         now apply opaque_good);
      split; [exact HQ | intros Hw; apply cond_doc_step_good; [exact (HQ Hw) | intros; discriminate]]
    end.
  Ltac finish HQ :=
    split; [exact HQ | intros Hw; apply cond_doc_step_good; [exact (HQ Hw) | intros; discriminate]].

  Lemma forallb_and_split : forall {A} (f g : A -> bool) l,
    forallb (fun x => f x && g x) l = true -> forallb f l = true /\ forallb g l = true.
  Proof.
    induction l as [|x r IH]; intros H; [split; reflexivity|].
    cbn [forallb] in *. apply andb_prop in H as [H Hr]. apply andb_prop in H as [Hf Hg].
    destruct (IH Hr) as [A1 A2]. now rewrite Hf, Hg, A1, A2.
  Qed.

  Lemma fmtd_good_and_cond : forall e, Q e /\ QC e.
  Proof.
    apply expr_ind'.
    - intros; opaque_case.
    - intros; opaque_case.
    - intros; opaque_case.
    - opaque_case.
    - intros; opaque_case.
    - intros; opaque_case.
    - intros; opaque_case.
    - (* EList *)
      intros items H.
      assert (HQ : Q (EList items)).
      { intros Ha j HO. rewrite fmtd_eq' in *. unfold impl_doc in *.
        match goal with |- context [if ?b then _ else _] => destruct b end; [now apply opaque_good|].
        cbn [multiline_doc] in *. cbn [atoms_ok] in Ha. apply forallb_and_split in Ha as [Hc Hs].
        apply list_doc_good; auto.
        rewrite forallb_forall in Hs. rewrite Forall_forall in *. intros c Hin. apply (H c Hin), Hs, Hin. }
      finish HQ.
    - (* ERec *)
      intros entries H.
      assert (HQ : Q (ERec entries)).
      { intros Ha j HO. rewrite fmtd_eq' in *. unfold impl_doc in *.
        match goal with |- context [if ?b then _ else _] => destruct b end; [now apply opaque_good|].
        cbn [multiline_doc] in *. cbn [atoms_ok] in Ha. apply forallb_and_split in Ha as [Hc Hs].
        apply (record_doc_good O key_ok Hrk); auto.
        rewrite forallb_forall in Hs. rewrite Forall_forall in *. intros c Hin.
        specialize (H c Hin). specialize (Hs c Hin).
        destruct c as [lead [k v] tr]; cbn [cnode Pentry Pkey R_entry] in *.
        destruct k; cbn [Pkey] in H.
        + apply H, Hs.
        + apply andb_prop in Hs as [Hk Hv]. destruct H as [[Hk' _] [Hv' _]]. split; auto.
        + exact I.
        + destruct H as [[Hx _] _]. apply Hx, Hs. }
      finish HQ.
    - (* ELam *)
      intros args body [IHe _].
      assert (HQ : Q (ELam args body)).
      { intros Ha j HO. rewrite fmtd_eq' in *. cbn [impl_doc] in *.
        cbn [atoms_ok] in Ha. apply andb_prop in Ha as [Hargs Hb].
        apply lambda_doc_good; auto. }
      finish HQ.
    - (* ECond *)
      intros e1 e2 e3 [Q1 _] [Q2 _] [Q3 QC3].
      assert (HQ : Q (ECond e1 e2 e3)).
      { intros Ha j HO. cbn [atoms_ok] in Ha. apply andb_prop in Ha as [Ha H3]. apply andb_prop in Ha as [H1 H2].
        rewrite fmtd_eq' in *. unfold impl_doc in *.
        match goal with |- context [if ?b then _ else _] => destruct b end; [now apply opaque_good|].
        cbn [multiline_doc] in *. apply (QC3 H3); [exact (Q1 H1)|exact (Q2 H2)|exact HO]. }
      split; [exact HQ|].
      intros Hw; apply cond_doc_step_good; [exact (HQ Hw)|].
      intros c2 t2 e2' Heq; injection Heq as <- <- <-.
      cbn [atoms_ok] in Hw. apply andb_prop in Hw as [Hw H3]. apply andb_prop in Hw as [H1 H2].
      split; [exact (Q1 H1)|]. split; [exact (Q2 H2)|exact (QC3 H3)].
    - (* EDo *)
      intros stmts ret H [IHr _].
      assert (HQ : Q (EDo stmts ret)).
      { intros Ha j HO. rewrite fmtd_eq' in *. cbn [impl_doc multiline_doc] in *.
        cbn [atoms_ok] in Ha. apply andb_prop in Ha as [Ha Hr]. apply andb_prop in Ha as [Hs Hl].
        apply forallb_and_split in Hs as [Hc Hs].
        apply do_doc_good; auto.
        rewrite forallb_forall in Hs. rewrite Forall_forall in *. intros c Hin. apply (H c Hin), Hs, Hin. }
      finish HQ.
    - (* EAssign *)
      intros x v [IHe _].
      assert (HQ : Q (EAssign x v)).
      { intros Ha j HO. rewrite fmtd_eq' in *. unfold impl_doc in *.
        match goal with |- context [if ?b then _ else _] => destruct b end; [now apply opaque_good|].
        cbn [multiline_doc] in *. cbn [atoms_ok] in Ha. apply andb_prop in Ha as [Hx Hv].
        change (Code (x +++ " = ") :: fmtd v j) with ([Code (x +++ " = ")] ++ fmtd v j).
        apply good_app; [apply good_code, neutral_app; [now apply plain_neutral|reflexivity]|].
        apply (IHe Hv). now apply otn_cons in HO. }
      finish HQ.
    - (* EOutput *)
      intros v [IHe _].
      assert (HQ : Q (EOutput v)).
      { intros Ha j HO. rewrite fmtd_eq' in *. unfold impl_doc in *.
        match goal with |- context [if ?b then _ else _] => destruct b end; [now apply opaque_good|].
        cbn [multiline_doc] in *. cbn [atoms_ok] in Ha.
        change (Code "output " :: fmtd v j) with ([Code "output "] ++ fmtd v j).
        apply good_app; [apply good_code; reflexivity|].
        apply (IHe Ha). now apply otn_cons in HO. }
      finish HQ.
    - (* ECall *)
      intros f args [IHf _] H.
      assert (HQ : Q (ECall f args)).
      { intros Ha j HO. rewrite fmtd_eq' in *. unfold impl_doc in *.
        match goal with |- context [if ?b then _ else _] => destruct b end; [now apply opaque_good|].
        cbn [multiline_doc] in *. cbn [atoms_ok] in Ha. apply andb_prop in Ha as [Hf Hargs].
        apply call_doc_good; auto.
        rewrite forallb_forall in Hargs. rewrite Forall_forall in *. intros a Hin. apply (H a Hin), Hargs, Hin. }
      finish HQ.
    - (* EAccess *)
      intros a ix [IHa _] [IHi _].
      assert (HQ : Q (EAccess a ix)).
      { intros Ha j HO. rewrite fmtd_eq' in *. unfold impl_doc in *.
        match goal with |- context [if ?b then _ else _] => destruct b end; [now apply opaque_good|].
        cbn [multiline_doc] in *.
        match goal with |- context [if ?b then _ else _] => destruct b end; [|now apply opaque_good].
        cbn [atoms_ok] in Ha. apply andb_prop in Ha as [H1 H2].
        apply otn_app in HO as [O1 HO]. apply otn_app in HO as [_ HO]. apply otn_app in HO as [O2 _].
        repeat apply good_app; try (apply good_code; reflexivity).
        - apply wrap_parens_good, (IHa H1). now apply otn_wrap_parens in O1.
        - now apply (IHi H2). }
      finish HQ.
    - (* EDot *)
      intros a f [IHa _].
      assert (HQ : Q (EDot a f)).
      { intros Ha j HO. rewrite fmtd_eq' in *. unfold impl_doc in *.
        match goal with |- context [if ?b then _ else _] => destruct b end; [now apply opaque_good|].
        cbn [multiline_doc] in *.
        match goal with |- context [if ?b then _ else _] => destruct b end; [|now apply opaque_good].
        cbn [atoms_ok] in Ha. apply andb_prop in Ha as [H1 H2].
        apply otn_app in HO as [O1 _].
        apply good_app; [apply wrap_parens_good, (IHa H1); now apply otn_wrap_parens in O1|].
        apply good_code. apply neutral_app; [reflexivity|now apply plain_neutral]. }
      finish HQ.
    - (* EBin *)
      intros op e1 e2 [IH1 _] [IH2 _].
      assert (HQ : Q (EBin op e1 e2)).
      { intros Ha j HO. rewrite fmtd_eq' in *. unfold impl_doc in *.
        match goal with |- context [if ?b then _ else _] => destruct b end; [now apply opaque_good|].
        cbn [multiline_doc] in *. cbn [atoms_ok] in Ha. apply andb_prop in Ha as [H1 H2].
        apply binop_doc_good; auto. }
      finish HQ.
    - (* EUn *)
      intros op x [IHx _].
      assert (HQ : Q (EUn op x)).
      { intros Ha j HO. rewrite fmtd_eq' in *. unfold impl_doc in *.
        match goal with |- context [if ?b then _ else _] => destruct b end; [now apply opaque_good|].
        cbn [multiline_doc] in *.
        match goal with |- context [if ?b then _ else _] => destruct b end; [|now apply opaque_good].
        cbn [atoms_ok] in Ha. apply otn_app in HO as [_ O1].
        apply good_app; [apply good_code; destruct op; reflexivity|].
        apply wrap_parens_good, (IHx Ha). now apply otn_wrap_parens in O1. }
      finish HQ.
    - (* EFact *)
      intros x [IHx _].
      assert (HQ : Q (EFact x)).
      { intros Ha j HO. rewrite fmtd_eq' in *. unfold impl_doc in *.
        match goal with |- context [if ?b then _ else _] => destruct b end; [now apply opaque_good|].
        cbn [multiline_doc] in *.
        match goal with |- context [if ?b then _ else _] => destruct b end; [|now apply opaque_good].
        cbn [atoms_ok] in Ha. apply otn_app in HO as [O1 _].
        apply good_app; [|apply good_code; reflexivity].
        apply wrap_parens_good, (IHx Ha). now apply otn_wrap_parens in O1. }
      finish HQ.
    - (* ESpread *)
      intros x [IHx _].
      assert (HQ : Q (ESpread x)).
      { intros Ha j HO. rewrite fmtd_eq' in *. unfold impl_doc in *.
        match goal with |- context [if ?b then _ else _] => destruct b end; [now apply opaque_good|].
        cbn [multiline_doc] in *.
        match goal with |- context [if ?b then _ else _] => destruct b end; [|now apply opaque_good].
        cbn [atoms_ok] in Ha. apply otn_app in HO as [_ O1].
        apply good_app; [apply good_code; reflexivity|]. now apply (IHx Ha). }
      finish HQ.
  Qed.

  (* no layout merges a comment into code or code into a comment *)
  Theorem fmtd_wf_doc : forall e i,
    atoms_ok e = true -> opaque_texts_neutral (fmtd e i) -> wf_doc (fmtd e i).
  Proof. intros e i Ha HO. exact (proj1 (proj1 (fmtd_good_and_cond e) Ha i HO)). Qed.

  (* the whole chain: the comments found by scanning the text the formatter prints are the
     comments of the AST *)
  Theorem fmtd_text_comments : forall e i,
    wf_ast e = true -> atoms_ok e = true ->
    forallb cfree (doc_opaque (fmtd e i)) = true -> opaque_texts_neutral (fmtd e i) ->
    scan_comments (render (fmtd e i)) = expr_comments e.
  Proof.
    intros e i Hw Ha Hc HO.
    rewrite render_scan by (now apply fmtd_wf_doc).
    now apply fmtd_comments_preserved.
  Qed.
End Fmt.

(* ------------------------------------------------------------------ DriverText.v, section DriverText *)
Section DriverText.
  Variable O : oracles.
  Variable key_ok : string -> bool.
  Hypothesis Hrk : forall k, key_ok k = true -> neutral (o_record_key O k).

  (* a statement whose document is good: its expression satisfies the hypotheses of
     fmtd_text_comments at the driver's width; comments are comment texts; a comment statement
     has no second comment *)
  Definition stmt_ok (mw : option nat) (s : stmt) : Prop :=
    let w := match mw with Some n => n | None => DEFAULT_MAX_COLUMNS end in
    match s with
    | St k eol _ _ =>
        (match k with
         | SComment c => comment_ok c = true
         | SExpr e =>
             wf_ast e = true /\ atoms_ok key_ok e = true /\
             forallb cfree (doc_opaque (fmtd O w e 0)) = true /\
             opaque_texts_neutral (fmtd O w e 0)
         | SOut e =>
             wf_ast e = true /\ atoms_ok key_ok e = true /\
             forallb cfree (doc_opaque (fmtd O w (EOutput e) 0)) = true /\
             opaque_texts_neutral (fmtd O w (EOutput e) 0)
         end) /\
        match eol with
        | Some c => comment_ok c = true /\ match k with SComment _ => False | _ => True end
        | None => True
        end
    end.

  Lemma dc_protect_minus : forall d b, doc_comments (protect_minus d b) = doc_comments d.
  Proof.
    intros d b. unfold protect_minus. destruct (negb b && starts_with_minus (render d)); [|reflexivity].
    rewrite !dc_app. cbn. now rewrite app_nil_r.
  Qed.

  Lemma comment_not_minus : forall c, comment_ok c = true -> starts_with_minus c = false.
  Proof.
    intros [|a [|b r]] H; try discriminate. cbn in H. apply andb_prop in H as [H _].
    apply andb_prop in H as [Ha _]. apply Ascii.eqb_eq in Ha. subst a. reflexivity.
  Qed.

  (* the statement's own document (before the end-of-line comment) *)
  Definition kind_doc (mw : option nat) (k : stmt_kind) : doc :=
    match k with
    | SComment c => [Comment c]
    | SOut e => format_expr_doc O (EOutput e) mw
    | SExpr e => format_expr_doc O e mw
    end.

  Lemma kind_doc_facts : forall mw k eol a b first, stmt_ok mw (St k eol a b) ->
    doc_comments (protect_minus (kind_doc mw k) first) =
      match k with SExpr e | SOut e => expr_comments e | SComment c => [c] end /\
    (Good (protect_minus (kind_doc mw k) first) \/
     exists c, k = SComment c /\ comment_ok c = true /\ protect_minus (kind_doc mw k) first = [Comment c]).
  Proof.
    intros mw k eol a b first [Hk He]. rewrite dc_protect_minus. destruct k as [e|e|c].
    - destruct Hk as (Hw & Ha & Hc & Ho). split; [now apply fmtd_comments_preserved|left].
      apply protect_minus_good. exact (proj1 (fmtd_good_and_cond O key_ok Hrk _ e) Ha 0 Ho).
    - destruct Hk as (Hw & Ha & Hc & Ho). split.
      + unfold kind_doc, format_expr_doc. rewrite fmtd_comments_preserved; [reflexivity|exact Hw|exact Hc].
      + left. apply protect_minus_good. exact (proj1 (fmtd_good_and_cond O key_ok Hrk _ (EOutput e)) Ha 0 Ho).
    - split; [reflexivity|right]. exists c. repeat split; auto.
      unfold protect_minus, kind_doc. cbn [render render_piece]. rewrite append_nil_r, (comment_not_minus c Hk).
      now rewrite andb_false_r.
  Qed.

  Lemma lib_stmt_wf : forall mw first s, stmt_ok mw s ->
    wf_doc (fst (fst (lib_stmt O mw first s))) /\
    doc_comments (fst (fst (lib_stmt O mw first s))) = stmt_comments s.
  Proof.
    intros mw first [k eol a b] Hs. destruct (kind_doc_facts mw k eol a b first Hs) as [C G].
    destruct Hs as [Hk He]. cbn [lib_stmt fst stmt_comments].
    change (match k with
            | SExpr e => format_expr_doc O e mw
            | SOut e => format_expr_doc O (EOutput e) mw
            | SComment c => [Comment c]
            end) with (kind_doc mw k).
    destruct eol as [c|].
    - destruct He as [He Hnc]. rewrite dc_app, C. split; [|reflexivity].
      destruct G as [[W E]|(c0 & -> & Hc0 & _)]; [|contradiction].
      apply wf_app_good; [exact W|exact E|]. cbn. repeat split. now apply comment_ok_text.
    - rewrite C, app_nil_r. split; [|reflexivity].
      destruct G as [[W E]|(c0 & -> & Hc0 & ->)]; [exact W|].
      cbn. split; [now apply comment_ok_text|exact I].
  Qed.

  Lemma Forall_map_first : forall {A B} (P : B -> Prop) (f : bool -> A -> B) l,
    (forall b x, In x l -> P (f b x)) -> Forall P (map_first f l).
  Proof.
    intros A B P f [|x r] H; [constructor|]. cbn [map_first]. constructor; [apply H; now left|].
    apply Forall_forall. intros y Hy. apply in_map_iff in Hy as (z & <- & Hz). apply H. now right.
  Qed.

  (* C09 for the library driver at text level: the comments a lexer-level scan finds in the text
     format_blots returns are the comments of the program, in order *)
  Theorem lib_driver_text_comments : forall mw p d,
    Forall (stmt_ok mw) p ->
    format_lib O mw p = Some d ->
    scan_comments (render d) = program_comments p.
  Proof.
    intros mw p d Hp Hd. unfold format_lib in Hd.
    assert (d = join_spacing (map_first (lib_stmt O mw) p))
      by (destruct p; [discriminate|now injection Hd]).
    subst d. clear Hd. rewrite Forall_forall in Hp.
    rewrite render_scan.
    - assert (J : forall l, doc_comments (join_spacing l) = flat_map (fun x => doc_comments (fst (fst x))) l).
      { induction l as [|[[d s] e] rest IH]; [reflexivity|].
        destruct rest as [|[[d2 s2] e2] rest']; [cbn; now rewrite app_nil_r|].
        cbn [join_spacing flat_map fst] in *. rewrite !dc_app, IH. f_equal.
        assert (R : forall n, doc_comments (repeat Nl n) = []) by (induction n; [reflexivity|exact IHn]).
        now rewrite R. }
      rewrite J. unfold program_comments. apply flat_map_map_first.
      intros b x Hx. exact (proj2 (lib_stmt_wf mw b x (Hp x Hx))).
    - apply wf_join_spacing. apply Forall_map_first.
      intros b x Hx. exact (proj1 (lib_stmt_wf mw b x (Hp x Hx))).
  Qed.

  (* ... and for blots --format *)
  Lemma cli_stmt_lib : forall first s, stmt_ok None s ->
    cli_stmt O first s = fst (fst (lib_stmt O None first s)) ++ [Nl].
  Proof.
    intros first [k [c|] a b] Hs; cbn [cli_stmt lib_stmt fst].
    - rewrite <- app_assoc. f_equal. destruct k as [e|e|c0]; [reflexivity| |destruct Hs as [_ [_ []]]].
      unfold protect_minus. destruct Hs as [(Hw & Ha & Hc & Ho) _].
      (* an output declaration starts with "output ": never with "-" *)
      assert (N : starts_with_minus (render (format_expr_doc O (EOutput e) None)) = false).
      { unfold format_expr_doc. rewrite fmtd_eq. unfold impl_doc.
        match goal with |- context [if ?b then _ else _] => destruct b end; reflexivity. }
      rewrite N, andb_false_r. reflexivity.
    - f_equal. destruct k as [e|e|c0]; [reflexivity| |].
      + unfold protect_minus.
        assert (N : starts_with_minus (render (format_expr_doc O (EOutput e) None)) = false).
        { unfold format_expr_doc. rewrite fmtd_eq. unfold impl_doc.
          match goal with |- context [if ?b then _ else _] => destruct b end; reflexivity. }
        rewrite N, andb_false_r. reflexivity.
      + destruct Hs as [Hk _]. unfold protect_minus. cbn [render render_piece].
        rewrite append_nil_r, (comment_not_minus c0 Hk), andb_false_r. reflexivity.
  Qed.

  Theorem cli_driver_text_comments : forall p,
    Forall (stmt_ok None) p ->
    scan_comments (render (format_cli O p)) = program_comments p.
  Proof.
    intros p Hp. unfold format_cli. rewrite Forall_forall in Hp.
    assert (W : forall l, (forall x, In x l -> stmt_ok None x) -> forall first,
              wf_doc (concat (map (cli_stmt O first) l)) /\
              doc_comments (concat (map (cli_stmt O first) l)) = flat_map stmt_comments l).
    { induction l as [|s r IH]; intros H first; [split; [exact I|reflexivity]|].
      cbn [map concat flat_map]. destruct (IH (fun x Hx => H x (or_intror Hx)) first) as [IW IC].
      assert (Hs := H s (or_introl eq_refl)). destruct (lib_stmt_wf None first s Hs) as [Ws Cs].
      rewrite (cli_stmt_lib first s Hs). split.
      - rewrite <- app_assoc. apply wf_app_nl; [exact Ws|exact IW].
      - rewrite !dc_app, Cs, IC. cbn. now rewrite app_nil_r. }
    destruct p as [|s r]; [reflexivity|].
    cbn [map_first concat]. unfold program_comments. cbn [flat_map].
    assert (Hs := Hp s (or_introl eq_refl)). destruct (lib_stmt_wf None true s Hs) as [Ws Cs].
    destruct (W r (fun x Hx => Hp x (or_intror Hx)) false) as [IW IC].
    rewrite render_scan.
    - rewrite dc_app, (cli_stmt_lib true s Hs), dc_app, Cs, IC. cbn. now rewrite app_nil_r.
    - rewrite (cli_stmt_lib true s Hs), <- app_assoc. apply wf_app_nl; [exact Ws|exact IW].
  Qed.
End DriverText.
End CR.
