(* EmitSound.v — C05, layer P2 (first-order part): inlining preserves evaluation.

   For a first-order body (Emit.first_order_body) whose free names are bound locally or captured,
   evaluating the body with the captured scope in the environment and evaluating the INLINED body
   (subst) without it give the same outcome and the same store, at every call depth, whatever the
   rest of the two environments contains.  Proved over the evaluator model for every
   implementation of the operators and built-ins that (H*_ext) uses its callback only through
   the callback's behaviour on lambda-free values and (H*_lf) returns lambda-free values from
   lambda-free arguments — properties the transcribed implementations have because they only
   ever apply the callback to functions found among their arguments.                        *)
From Coq Require Import String Ascii List ZArith Bool Lia.
Require Import Blots.Num Blots.gen.Builtins Blots.Ast Blots.Value Blots.Outcome Blots.Binop
               Blots.Env Blots.Eval Blots.Emit Blots.proofs.ValueInd Blots.proofs.ExprInd
               Blots.proofs.EmitLit Blots.proofs.EmitSubst.
Import ListNotations.
Open Scope list_scope.

(* ------------------------------------------------------------------ lambda-free values *)
Definition lfs (l : list value) : bool := forallb lf l.
Definition frame_lf (f : frame) : bool := forallb (fun kv => lf (snd kv)) f.
Definition frames_lf (fr : frames) : bool := forallb (fun kf => frame_lf (snd kf)) fr.

Lemma lf_list l : lf (VList l) = lfs l. Proof. reflexivity. Qed.
Lemma lf_rec r : lf (VRec r) = forallb (fun kv => lf (snd kv)) r. Proof. reflexivity. Qed.

Lemma fo_lf v : fo v = true -> lf v = true.
Proof.
  induction v using value_ind'; cbn; intros Hf; try reflexivity; try discriminate.
  - induction H as [|x l Hx Hl IH]; cbn in *; [reflexivity|].
    apply andb_prop in Hf as [A B]. now rewrite Hx, IH.
  - apply andb_prop in Hf as [_ Hf]. induction H as [|[k x] l Hx Hl IH]; cbn in *; [reflexivity|].
    apply andb_prop in Hf as [A B]. now rewrite Hx, IH.
Qed.
Lemma emittable_gen_lf v : emittable_gen v = true -> lf v = true.
Proof. unfold emittable_gen. intros H. apply andb_prop in H as [H _]. apply andb_prop in H as [H _]. now apply fo_lf. Qed.

Lemma lfs_app a b : lfs (a ++ b) = lfs a && lfs b.
Proof. apply forallb_app. Qed.
Lemma lfs_map_str l : lfs (map VStr l) = true.
Proof. induction l; cbn; auto. Qed.
Lemma lf_spread_items v : lf v = true -> lfs (spread_items v) = true.
Proof.
  destruct v; cbn; intros H; try reflexivity; try assumption.
  - apply lfs_map_str.
  - induction r as [|[k x] r IH]; cbn in *; [reflexivity|].
    apply andb_prop in H as [A B]. now rewrite A, IH.
Qed.
Lemma lfs_flatten l : lfs l = true -> lfs (flatten_spreads l) = true.
Proof.
  unfold lfs. induction l as [|v l IH]; [reflexivity|]. cbn [forallb]. intros H.
  apply andb_prop in H as [A B]. specialize (IH B).
  destruct v; cbn [flatten_spreads forallb]; try (rewrite A, IH; reflexivity).
  rewrite forallb_app, IH. cbn in A. fold (lfs (spread_items v)). now rewrite lf_spread_items.
Qed.
Lemma lf_rec_get (r : list (string * value)) k v :
  forallb (fun kv => lf (snd kv)) r = true -> rec_get r k = Some v -> lf v = true.
Proof.
  induction r as [|[k' x] r IH]; cbn; [discriminate|]. intros H. apply andb_prop in H as [A B].
  destruct (String.eqb k k'); [intros E; now inversion E; subst|auto].
Qed.
Lemma lf_rec_insert (r : list (string * value)) k v :
  forallb (fun kv => lf (snd kv)) r = true -> lf v = true ->
  forallb (fun kv => lf (snd kv)) (rec_insert r k v) = true.
Proof.
  induction r as [|[k' x] r IH]; cbn; intros H Hv; [now rewrite Hv|].
  apply andb_prop in H as [A B]. destruct (String.eqb k k'); cbn; [now rewrite Hv, B|now rewrite A, IH].
Qed.
Lemma lf_rec_insert_all es : forall (r : list (string * value)),
  forallb (fun kv => lf (snd kv)) r = true -> forallb (fun kv => lf (snd kv)) es = true ->
  forallb (fun kv => lf (snd kv)) (rec_insert_all r es) = true.
Proof.
  unfold rec_insert_all. induction es as [|[k x] es IH]; cbn; intros r Hr He; [assumption|].
  apply andb_prop in He as [A B]. apply IH; [|assumption]. now apply lf_rec_insert.
Qed.
Lemma lfs_nth (l : list value) k : lfs l = true -> lf (nth k l VNull) = true.
Proof.
  revert k. induction l as [|x l IH]; intros [|k] H; cbn in *; try reflexivity;
    apply andb_prop in H as [A B]; auto.
Qed.
Lemma lf_enum_entries {A} (f : A -> value) (l : list A) : forall n,
  forallb (fun a => lf (f a)) l = true ->
  forallb (fun kv : string * value => lf (snd kv))
          (map (fun iv : nat * A => (nat_to_dec (fst iv), f (snd iv))) (enum_from n l)) = true.
Proof.
  induction l as [|a l IH]; intros n H; cbn in *; [reflexivity|].
  apply andb_prop in H as [X Y]. now rewrite X, IH.
Qed.
Lemma lf_record_spread_entries v : lf v = true ->
  forallb (fun kv => lf (snd kv)) (record_spread_entries v) = true.
Proof.
  destruct v as [| | | | | | | |w]; try reflexivity.
  destruct w as [| | |s|l|r| | |]; try reflexivity; intros H; cbn [record_spread_entries].
  - apply (lf_enum_entries VStr). induction (chars s); cbn [forallb lf]; auto.
  - apply (lf_enum_entries (fun x => x)). exact H.
  - exact H.
Qed.
Lemma lf_access_val v i r : lf v = true -> access_val v i = Ok r -> lf r = true.
Proof.
  destruct v; cbn; try discriminate; intros Hv.
  - destruct (as_number i); cbn; try discriminate. intros E; inversion E; subst; clear E.
    destruct (index_from _ _); [|reflexivity]. destruct (nth_error _ _); reflexivity.
  - destruct (as_number i); cbn; try discriminate. intros E; inversion E; subst; clear E.
    destruct (index_from _ _); [|reflexivity]. now apply lfs_nth.
  - destruct (as_string i); cbn; try discriminate. intros E; inversion E; subst; clear E.
    destruct (rec_get r0 a) eqn:G; [|reflexivity]. eapply lf_rec_get; eauto.
Qed.
Lemma lf_dot_val v f r : lf v = true -> dot_val v f = Ok r -> lf r = true.
Proof.
  destruct v; cbn; try discriminate; intros Hv E; inversion E; subst.
  destruct (rec_get r0 f) eqn:G; [|reflexivity]. eapply lf_rec_get; eauto.
Qed.
Lemma lf_spread_val v r : lf v = true -> spread_val v = Ok r -> lf r = true.
Proof. destruct v; cbn; try discriminate; intros Hv E; inversion E; subst; exact Hv. Qed.
Lemma lf_factorial rel n r : factorial_val rel n = Ok r -> lf r = true.
Proof.
  unfold factorial_val. destruct (_ && _); [|discriminate].
  destruct (_ =? _)%Z; [destruct rel; [|discriminate]; intros E; now inversion E|].
  destruct (_ <=? _)%Z; intros E; now inversion E.
Qed.

(* ------------------------------------------------------------------ environments *)
Lemma lookup_app (a b : frames) x :
  lookup (a ++ b) x = match lookup a x with Some v => Some v | None => lookup b x end.
Proof.
  induction a as [|[k f] a IH]; cbn; [reflexivity|]. destruct (lookup_frame f x); [reflexivity|apply IH].
Qed.
Lemma lookup_frame_rec_get (f : frame) x : lookup_frame f x = rec_get f x.
Proof. induction f as [|[k v] f IH]; cbn; [reflexivity|]. now rewrite IH. Qed.
Lemma lf_lookup_frame (f : frame) x v : frame_lf f = true -> lookup_frame f x = Some v -> lf v = true.
Proof. rewrite lookup_frame_rec_get. apply lf_rec_get. Qed.
Lemma lf_lookup (fr : frames) x v : frames_lf fr = true -> lookup fr x = Some v -> lf v = true.
Proof.
  induction fr as [|[k f] fr IH]; cbn; [discriminate|]. intros H. apply andb_prop in H as [A B].
  destruct (lookup_frame f x) eqn:E; [intros E'; inversion E'; subst; eapply lf_lookup_frame; eauto|auto].
Qed.

(* callbacks that agree on lambda-free values / return lambda-free values on them *)
Definition cb_lf_equiv (cb cb' : callback) : Prop :=
  forall this f args st, lf this = true -> lf f = true -> lfs args = true ->
    cb this f args st = cb' this f args st.
Definition cb_lf_closed (cb : callback) : Prop :=
  forall this f args st v st', lf this = true -> lf f = true -> lfs args = true ->
    cb this f args st = (Ok v, st') -> lf v = true.

(* ------------------------------------------------------------------ the pieces of [subst] *)
Definition subst_items (m : smap) :=
  fix go (l : list (commented expr)) : list (commented expr) :=
    match l with [] => [] | Cm a n t :: r => Cm a (subst true m n) t :: go r end.
Definition subst_args (m : smap) :=
  fix go (l : list expr) : list expr :=
    match l with [] => [] | a :: r => subst true m a :: go r end.
Definition subst_entry (m : smap) (k : rkey) (v : expr) : rentry :=
  match k with
  | KStatic s => REntry (KStatic s) (subst true m v)
  | KDyn ke => REntry (KDyn (subst true m ke)) (subst true m v)
  | KShort x => match rec_get m x with
                | Some lit => REntry (KStatic x) lit
                | None => REntry (KShort x) v
                end
  | KSpread se => REntry (KSpread (subst true m se)) v
  end.
Definition subst_entries (m : smap) :=
  fix go (l : list (commented rentry)) : list (commented rentry) :=
    match l with [] => [] | Cm a (REntry k v) t :: r => Cm a (subst_entry m k v) t :: go r end.
Definition subst_stmts :=
  fix go (l : list (commented expr)) (m' : smap) {struct l} : list (commented expr) :=
    match l with
    | [] => []
    | Cm a s t :: r => Cm a (subst true m' s) t :: go r (do_step_map true m' s)
    end.
Lemma subst_EList m items : subst true m (EList items) = EList (subst_items m items).
Proof. reflexivity. Qed.
Lemma subst_ERec m es : subst true m (ERec es) = ERec (subst_entries m es).
Proof. reflexivity. Qed.
Lemma subst_ECall m f args : subst true m (ECall f args) = ECall (subst true m f) (subst_args m args).
Proof. reflexivity. Qed.
Lemma subst_EDo m stmts rl ret rt :
  subst true m (EDo stmts (Cm rl ret rt)) =
  EDo (subst_stmts stmts m) (Cm rl (subst true (do_final_map true m stmts) ret) rt).
Proof. reflexivity. Qed.

(* ------------------------------------------------------------------ decomposition of the premises *)
Definition fob_entry (k : rkey) (v : expr) : bool :=
  match k with
  | KDyn a => first_order_body a && first_order_body v
  | KSpread a => first_order_body a
  | KStatic _ => first_order_body v
  | KShort _ => true
  end.
Definition fv_entry (b : list string) (k : rkey) (v : expr) : list string :=
  match k with
  | KDyn a => free_vars a b ++ free_vars v b
  | KSpread a => free_vars a b
  | KStatic _ => free_vars v b
  | KShort x => if mem x b then [] else [x]
  end.
Lemma fob_EList items : first_order_body (EList items) = true ->
  Forall (fun c => first_order_body (cnode c) = true) items.
Proof.
  cbn. induction items as [|[a n t] l IH]; intros H; constructor.
  - apply andb_prop in H as [A _]. exact A.
  - apply andb_prop in H as [_ B]. auto.
Qed.
Lemma fv_EList items b : free_vars (EList items) b = [] ->
  Forall (fun c => free_vars (cnode c) b = []) items.
Proof.
  cbn. induction items as [|[a n t] l IH]; intros H; constructor.
  - apply app_eq_nil in H as [A _]. exact A.
  - apply app_eq_nil in H as [_ B]. auto.
Qed.
Lemma fob_args f args : first_order_body (ECall f args) = true ->
  first_order_body f = true /\ Forall (fun a => first_order_body a = true) args.
Proof.
  cbn. intros H. apply andb_prop in H as [A B]. split; [exact A|]. clear A.
  induction args as [|a l IH]; constructor.
  - apply andb_prop in B as [X _]. exact X.
  - apply andb_prop in B as [_ Y]. auto.
Qed.
Lemma fv_args f args b : free_vars (ECall f args) b = [] ->
  free_vars f b = [] /\ Forall (fun a => free_vars a b = []) args.
Proof.
  cbn. intros H. apply app_eq_nil in H as [A B]. split; [exact A|]. clear A.
  induction args as [|a l IH]; constructor.
  - apply app_eq_nil in B as [X _]. exact X.
  - apply app_eq_nil in B as [_ Y]. auto.
Qed.
Lemma fob_ERec es : first_order_body (ERec es) = true ->
  Forall (fun c => match cnode c with REntry k v => fob_entry k v = true end) es.
Proof.
  cbn. induction es as [|[a [k v] t] l IH]; intros H; constructor.
  - apply andb_prop in H as [A _]. exact A.
  - apply andb_prop in H as [_ B]. auto.
Qed.
Lemma fv_ERec es b : free_vars (ERec es) b = [] ->
  Forall (fun c => match cnode c with REntry k v => fv_entry b k v = [] end) es.
Proof.
  cbn. induction es as [|[a [k v] t] l IH]; intros H; constructor.
  - apply app_eq_nil in H as [A _]. cbn. destruct k; exact A.
  - apply app_eq_nil in H as [_ B]. auto.
Qed.

(* ------------------------------------------------------------------ the simulation *)
Section Sound.
  Variable release : bool.
  Variable binop_impl : callback -> binop -> value -> value -> store -> outcome value * store.
  Variable apply : frames -> callback.
  Notation evalE := (evalE release binop_impl apply).

  Hypothesis Hbin_ext : forall cb cb' op l r st, cb_lf_equiv cb cb' -> lf l = true -> lf r = true ->
    binop_impl cb op l r st = binop_impl cb' op l r st.
  Hypothesis Hbin_lf : forall cb op l r st v st', cb_lf_closed cb -> lf l = true -> lf r = true ->
    binop_impl cb op l r st = (Ok v, st') -> lf v = true.
  Hypothesis Happ_ext : forall fr fr', cb_lf_equiv (apply fr) (apply fr').
  Hypothesis Happ_lf : forall fr, cb_lf_closed (apply fr).

  Variable nanfix : bool.
  Variable sv : list (string * value).                 (* the captured scope *)
  Hypothesis Hsv_emit : forallb (fun kv => emittable_gen (snd kv)) sv = true.
  Hypothesis Hsv_special : forall x, special_name x = true -> rec_get sv x = None.
  Variables R1 R2 : frames.                            (* the rest of the two environments *)
  Notation F1 L := (L ++ (FShared, sv) :: R1).
  Notation F2 L := (L ++ R2).
  Notation lit := (value_to_ast nanfix true).

  Lemma sv_get_emit x v : rec_get sv x = Some v -> emittable_gen v = true.
  Proof.
    clear Hsv_special. induction sv as [|[k w] s IH]; cbn in *; [discriminate|].
    apply andb_prop in Hsv_emit as [A B]. destruct (String.eqb x k); [intros E; now inversion E; subst|auto].
  Qed.

  (* names bound in L are not inlined; on the others the inlining scope is the captured scope *)
  Definition Inv (L : frames) (m : smap) : Prop :=
    frames_lf L = true /\
    forall x, match lookup L x with
              | Some _ => rec_get m x = None
              | None => rec_get m x = option_map lit (rec_get sv x)
              end.
  Definition bound_ok (bound : list string) (L : frames) : Prop :=
    forall x, mem x bound = true -> lookup L x <> None \/ rec_get sv x <> None.

  Definition Sim (L : frames) (st : store) (e : expr) (m : smap) : Prop :=
    exists r st', evalE (st, F1 L) e = (r, (st', F1 L)) /\
                  evalE (st, F2 L) (subst true m e) = (r, (st', F2 L)) /\
                  (forall v, r = Ok v -> lf v = true).
  Definition Q (e : expr) : Prop :=
    first_order_body e = true -> forall L m bound st,
      Inv L m -> bound_ok bound L -> free_vars e bound = [] -> Sim L st e m.
  Definition P (e : expr) : Prop := Q e /\ (forall x v, e = EAssign x v -> Q v).

  Lemma lookup_F1 L x : lookup (F1 L) x =
    match lookup L x with Some v => Some v | None =>
      match rec_get sv x with Some v => Some v | None => lookup R1 x end end.
  Proof. rewrite lookup_app. cbn. now rewrite lookup_frame_rec_get. Qed.

  (* an identifier (also used for record shorthand): what the original finds is what the
     inlined expression evaluates to *)
  Lemma ident_sim L m bound x : Inv L m -> bound_ok bound L ->
    mem x bound = true ->
    exists v, lookup (F1 L) x = Some v /\ lf v = true /\
      match rec_get m x with
      | Some a => a = lit v /\ emittable_gen v = true
      | None => lookup (F2 L) x = Some v
      end.
  Proof.
    intros [HL HI] HB Hm. specialize (HI x). rewrite lookup_F1, lookup_app.
    destruct (lookup L x) eqn:EL.
    - exists v. rewrite HI. repeat split; auto. eapply lf_lookup; eauto.
    - destruct (rec_get sv x) eqn:ES.
      + exists v. rewrite HI. cbn. pose proof (sv_get_emit _ _ ES). repeat split; auto.
        now apply emittable_gen_lf.
      + destruct (HB x Hm); congruence.
  Qed.

  Ltac fin := eexists; eexists; split; [reflexivity|split; [reflexivity|]].

  Lemma Q_id x : Q (EId x).
  Proof.
    intros _ L m bound st HI HB HFV. cbn [free_vars] in HFV.
    unfold Sim. cbn [subst].
    destruct (special_name x) eqn:Hsp.
    - (* never looked up, never captured *)
      assert (Hm : rec_get m x = None).
      { destruct HI as [_ HI]. specialize (HI x). destruct (lookup L x); [exact HI|].
        rewrite HI, (Hsv_special x Hsp). reflexivity. }
      rewrite Hm. cbn [Eval.evalE]. unfold special_name in Hsp.
      destruct (String.eqb x "infinity" || String.eqb x "inf")%bool eqn:E1.
      + fin. intros v E; inversion E; reflexivity.
      + try rewrite E1 in Hsp. cbn [orb] in Hsp. rewrite Hsp. fin. intros v E; inversion E; reflexivity.
    - assert (Hmem : mem x bound = true).
      { unfold special_name in Hsp. destruct (mem x bound); [reflexivity|].
        cbn [orb] in HFV. rewrite Hsp in HFV. discriminate. }
      destruct (ident_sim L m bound x HI HB Hmem) as (v & E1 & Hlf & Hm).
      unfold special_name in Hsp. apply orb_false_elim in Hsp as [Hsp E3].
      destruct (rec_get m x) eqn:Em.
      + destruct Hm as [-> Hem]. cbn [Eval.evalE snd fst]. rewrite Hsp, E3, E1.
        rewrite (lit_roundtrip release binop_impl apply nanfix true v Hem). cbn.
        fin. intros w E; inversion E; subst; exact Hlf.
      + cbn [Eval.evalE snd fst]. rewrite Hsp, E3, E1, Hm. cbn.
        fin. intros w E; inversion E; subst; exact Hlf.
  Qed.

  (* ---- lists of sub-expressions ---- *)
  Lemma evalCL_sim items : Forall (fun c => Q (cnode c)) items ->
    Forall (fun c => first_order_body (cnode c) = true) items ->
    forall L m bound, Inv L m -> bound_ok bound L ->
    Forall (fun c => free_vars (cnode c) bound = []) items ->
    forall st, exists r st',
      evalCL evalE (st, F1 L) items = (r, (st', F1 L)) /\
      evalCL evalE (st, F2 L) (subst_items m items) = (r, (st', F2 L)) /\
      (forall vs, r = Ok vs -> lfs vs = true).
  Proof.
    intros HQ. induction HQ as [|[a n t] l Hn Hl IH]; intros Hf L m bound HI HB HV st.
    - cbn. fin. intros vs E; inversion E; reflexivity.
    - pose proof (Forall_inv Hf) as Hf1. pose proof (Forall_inv_tail Hf) as Hf2.
      pose proof (Forall_inv HV) as HV1. pose proof (Forall_inv_tail HV) as HV2.
      cbn [cnode] in Hn, Hf1, HV1. cbn [evalCL subst_items].
      destruct (Hn Hf1 L m bound st HI HB HV1) as (r & st1 & E1 & E2 & Hlf). rewrite E1, E2.
      destruct r as [v| | | |]; try (cbn [cast_fail]; fin; discriminate).
      destruct (IH Hf2 L m bound HI HB HV2 st1) as (r2 & st2 & E3 & E4 & Hlf2). rewrite E3, E4.
      destruct r2 as [vs| | | |]; try (fin; discriminate).
      fin. intros ws E; inversion E; subst. cbn. rewrite (Hlf v eq_refl). exact (Hlf2 vs eq_refl).
  Qed.

  Lemma evalL_sim args : Forall Q args ->
    Forall (fun a => first_order_body a = true) args ->
    forall L m bound, Inv L m -> bound_ok bound L ->
    Forall (fun a => free_vars a bound = []) args ->
    forall st, exists r st',
      evalL evalE (st, F1 L) args = (r, (st', F1 L)) /\
      evalL evalE (st, F2 L) (subst_args m args) = (r, (st', F2 L)) /\
      (forall vs, r = Ok vs -> lfs vs = true).
  Proof.
    intros HQ. induction HQ as [|n l Hn Hl IH]; intros Hf L m bound HI HB HV st.
    - cbn. fin. intros vs E; inversion E; reflexivity.
    - pose proof (Forall_inv Hf) as Hf1. pose proof (Forall_inv_tail Hf) as Hf2.
      pose proof (Forall_inv HV) as HV1. pose proof (Forall_inv_tail HV) as HV2.
      cbn [evalL subst_args].
      destruct (Hn Hf1 L m bound st HI HB HV1) as (r & st1 & E1 & E2 & Hlf). rewrite E1, E2.
      destruct r as [v| | | |]; try (cbn [cast_fail]; fin; discriminate).
      destruct (IH Hf2 L m bound HI HB HV2 st1) as (r2 & st2 & E3 & E4 & Hlf2). rewrite E3, E4.
      destruct r2 as [vs| | | |]; try (fin; discriminate).
      fin. intros ws E; inversion E; subst. cbn. rewrite (Hlf v eq_refl). exact (Hlf2 vs eq_refl).
  Qed.

  Definition Qentry (c : commented rentry) : Prop :=
    match cnode c with
    | REntry k v => (match k with KDyn e | KSpread e => Q e | _ => True end) /\ Q v
    end.

  Lemma evalRec_sim es : Forall Qentry es ->
    Forall (fun c => match cnode c with REntry k v => fob_entry k v = true end) es ->
    forall L m bound, Inv L m -> bound_ok bound L ->
    Forall (fun c => match cnode c with REntry k v => fv_entry bound k v = [] end) es ->
    forall acc st, forallb (fun kv => lf (snd kv)) acc = true ->
    exists r st',
      evalRecL evalE (st, F1 L) acc es = (r, (st', F1 L)) /\
      evalRecL evalE (st, F2 L) acc (subst_entries m es) = (r, (st', F2 L)) /\
      (forall v, r = Ok v -> lf v = true).
  Proof.
    intros HQ. induction HQ as [|[a [k v] t] l Hn Hl IH]; intros Hf L m bound HI HB HV acc st Hacc.
    - cbn. fin. intros w E; inversion E; subst. exact Hacc.
    - pose proof (Forall_inv Hf) as Hf1. pose proof (Forall_inv_tail Hf) as Hf2.
      pose proof (Forall_inv HV) as HV1. pose proof (Forall_inv_tail HV) as HV2.
      unfold Qentry in Hn. cbn [cnode] in Hn, Hf1, HV1. destruct Hn as [Hk Hv].
      cbn [evalRecL subst_entries]. destruct k as [key|ke|x|se]; cbn [subst_entry fob_entry fv_entry] in *.
      + (* static key *)
        destruct (Hv Hf1 L m bound st HI HB HV1) as (r & st1 & E1 & E2 & Hlf). rewrite E1, E2.
        destruct r as [w| | | |]; try (fin; discriminate).
        apply (IH Hf2 L m bound HI HB HV2). apply lf_rec_insert; auto.
      + (* computed key *)
        apply andb_prop in Hf1 as [Fa Fb]. apply app_eq_nil in HV1 as [Va Vb].
        destruct (Hk Fa L m bound st HI HB Va) as (r & st1 & E1 & E2 & Hlf). rewrite E1, E2.
        destruct r as [kv| | | |]; try (fin; discriminate).
        destruct (as_string kv) as [key| | | |]; try (cbn [cast_fail]; fin; discriminate).
        destruct (Hv Fb L m bound st1 HI HB Vb) as (r2 & st2 & E3 & E4 & Hlf2). rewrite E3, E4.
        destruct r2 as [w| | | |]; try (fin; discriminate).
        apply (IH Hf2 L m bound HI HB HV2). apply lf_rec_insert; auto.
      + (* shorthand: the variable is looked up / its literal is written *)
        assert (Hmem : mem x bound = true) by (destruct (mem x bound); [reflexivity|discriminate]).
        destruct (ident_sim L m bound x HI HB Hmem) as (w & E1 & Hlfw & Hm).
        cbn [snd]. rewrite E1. destruct (rec_get m x) eqn:Em.
        * destruct Hm as [-> Hem]. cbn [evalRecL].
          rewrite (lit_roundtrip release binop_impl apply nanfix true w Hem).
          apply (IH Hf2 L m bound HI HB HV2). apply lf_rec_insert; auto.
        * cbn [evalRecL snd]. rewrite Hm.
          apply (IH Hf2 L m bound HI HB HV2). apply lf_rec_insert; auto.
      + (* spread *)
        destruct (Hk Hf1 L m bound st HI HB HV1) as (r & st1 & E1 & E2 & Hlf). rewrite E1, E2.
        destruct r as [w| | | |]; try (fin; discriminate).
        apply (IH Hf2 L m bound HI HB HV2). apply lf_rec_insert_all; auto.
        apply lf_record_spread_entries. auto.
  Qed.

  (* ---- do-blocks ---- *)
  Definition not_assign (e : expr) : bool := match e with EAssign _ _ => false | _ => true end.
  Definition fv_do (ret : expr) :=
    fix go (l : list (commented expr)) (bnd : list string) : list string :=
      match l with
      | [] => free_vars ret bnd
      | Cm _ s _ :: r =>
          match s with
          | EAssign x v => free_vars v bnd ++ go r (x :: bnd)
          | _ => free_vars s bnd ++ go r bnd
          end
      end.
  Definition fob_stmts :=
    fix go (l : list (commented expr)) : bool :=
      match l with
      | [] => true
      | Cm _ a _ :: r =>
          (match a with EAssign _ v => first_order_body v | _ => first_order_body a end) && go r
      end.
  Lemma fv_EDo stmts a ret t b : free_vars (EDo stmts (Cm a ret t)) b = fv_do ret stmts b.
  Proof. reflexivity. Qed.
  Lemma fob_EDo stmts a ret t :
    first_order_body (EDo stmts (Cm a ret t)) = fob_stmts stmts && first_order_body ret.
  Proof. reflexivity. Qed.
  Lemma na_do_step (ev : cfg -> expr -> result) c s : not_assign s = true -> do_step ev c s = ev c s.
  Proof. destruct s; try reflexivity; discriminate. Qed.
  Lemma na_step_map m s : not_assign s = true -> do_step_map true m s = m.
  Proof. destruct s; try reflexivity; discriminate. Qed.
  Lemma na_fv_do ret a s t l b : not_assign s = true ->
    fv_do ret (Cm a s t :: l) b = free_vars s b ++ fv_do ret l b.
  Proof. destruct s; try reflexivity; discriminate. Qed.
  Lemma na_fob a s t l : not_assign s = true ->
    fob_stmts (Cm a s t :: l) = first_order_body s && fob_stmts l.
  Proof. destruct s; try reflexivity; discriminate. Qed.
  Lemma assign_or_not s : (exists x v, s = EAssign x v) \/ not_assign s = true.
  Proof. destruct s; try (right; reflexivity). left; eauto. Qed.
  Lemma fob_not_assign e : first_order_body e = true -> not_assign e = true.
  Proof. destruct e; try reflexivity; discriminate. Qed.

  Lemma concat_ast_na l : forall acc, not_assign acc = true -> not_assign (concat_ast acc l) = true.
  Proof. induction l as [|p l IH]; intros acc H; cbn; [exact H|]. apply IH. reflexivity. Qed.
  Lemma lit_not_assign v : not_assign (lit v) = true.
  Proof.
    destruct v; try reflexivity.
    - cbn. unfold num_to_ast. destruct x as [[|]|[|]| |[|] ? ?]; cbn; try reflexivity; destruct nanfix; reflexivity.
    - cbn. unfold str_to_ast. destruct (both_quotes s); [|reflexivity].
      destruct (split_dq s ""); [reflexivity|]. apply concat_ast_na. reflexivity.
  Qed.
  Lemma Inv_lit L m x a : Inv L m -> rec_get m x = Some a -> exists v, a = lit v.
  Proof.
    intros [_ HI] E. specialize (HI x). destruct (lookup L x); [congruence|].
    rewrite HI in E. destruct (rec_get sv x); cbn in E; [|discriminate]. inversion E. eauto.
  Qed.
  Lemma subst_not_assign L m e : Inv L m -> first_order_body e = true ->
    not_assign (subst true m e) = true.
  Proof.
    intros HI Hf. destruct e; try reflexivity; try discriminate.
    - cbn. destruct (rec_get m x) eqn:E; [|reflexivity].
      destruct (Inv_lit L m x e HI E) as [v ->]. apply lit_not_assign.
    - cbn. destruct ret. reflexivity.
  Qed.
  Lemma name_lf st v x : lf v = true -> name_if_lambda st v x = st.
  Proof. destruct v; try reflexivity; discriminate. Qed.

  Definition do_body (c : cfg) (stmts : list (commented expr)) (ret : expr) : result :=
    match evalDoL evalE c stmts with
    | (Ok _, c1) => do_step evalE c1 ret
    | (o, c1) => (cast_fail o, c1)
    end.

  Lemma Inv_bind f L m x v : Inv ((FOwned, f) :: L) m -> lf v = true ->
    Inv ((FOwned, (x, v) :: f) :: L) (smap_remove m x).
  Proof.
    intros [HL HI] Hv. split.
    - cbn in *. now rewrite Hv.
    - intros y. specialize (HI y). rewrite rec_get_remove. cbn [lookup lookup_frame] in *.
      destruct (String.eqb y x); [reflexivity|]. exact HI.
  Qed.
  Lemma bound_ok_bind bound f L x v : bound_ok bound ((FOwned, f) :: L) ->
    bound_ok (x :: bound) ((FOwned, (x, v) :: f) :: L).
  Proof.
    intros HB y Hy. cbn [lookup lookup_frame]. destruct (String.eqb y x) eqn:E; [left; discriminate|].
    cbn [mem existsb] in Hy. rewrite E in Hy. cbn [orb] in Hy. apply (HB y Hy).
  Qed.

  Lemma do_sim stmts : Forall (fun c => P (cnode c)) stmts ->
    forall ret, Q ret -> first_order_body ret = true -> fob_stmts stmts = true ->
    forall f L m bound st, Inv ((FOwned, f) :: L) m -> bound_ok bound ((FOwned, f) :: L) ->
      fv_do ret stmts bound = [] ->
      exists r st' f',
        do_body (st, (FOwned, f) :: F1 L) stmts ret = (r, (st', (FOwned, f') :: F1 L)) /\
        do_body (st, (FOwned, f) :: F2 L) (subst_stmts stmts m)
                (subst true (do_final_map true m stmts) ret) = (r, (st', (FOwned, f') :: F2 L)) /\
        (forall v, r = Ok v -> lf v = true).
  Proof.
    intros HP. induction HP as [|[a s t] l Hs Hl IH]; intros ret HQr Hfr Hfs f L m bound st HI HB HV.
    - cbn [fv_do] in HV. unfold do_body. cbn [evalDoL subst_stmts do_final_map].
      rewrite na_do_step by (now apply fob_not_assign).
      rewrite na_do_step by (eapply subst_not_assign; eauto).
      destruct (HQr Hfr _ m bound st HI HB HV) as (r & st1 & E1 & E2 & Hlf).
      cbn [app] in E1, E2. rewrite E1, E2. exists r, st1, f. auto.
    - cbn [cnode] in Hs. destruct Hs as [HQs HAs].
      destruct (assign_or_not s) as [(x & v & ->)|Hna].
      + (* x = v : binds x in the block frame; x is no longer inlined *)
        cbn [fob_stmts] in Hfs. apply andb_prop in Hfs as [Hf1 Hf2].
        cbn [fv_do] in HV. apply app_eq_nil in HV as [HV1 HV2].
        unfold do_body. cbn [evalDoL subst_stmts do_final_map do_step_map subst do_step].
        destruct (mem x do_assign_keywords).
        { cbn [cast_fail]. exists Err, st, f. repeat split; discriminate. }
        unfold assign_value.
        destruct (HAs x v eq_refl Hf1 _ m bound st HI HB HV1) as (r & st1 & E1 & E2 & Hlf).
        cbn [app] in E1, E2. rewrite E1, E2.
        destruct r as [w| | | |];
          try (cbn [cast_fail]; eexists _, st1, f; repeat split; discriminate).
        unfold bind_value. cbn [snd fst insert_head]. rewrite (name_lf st1 w x (Hlf w eq_refl)).
        destruct (IH ret HQr Hfr Hf2 ((x, w) :: f) L (smap_remove m x) (x :: bound) st1
                     (Inv_bind f L m x w HI (Hlf w eq_refl)) (bound_ok_bind bound f L x w HB) HV2)
          as (r & st2 & f2 & E3 & E4 & Hlf2).
        unfold do_body in E3, E4. exists r, st2, f2. auto.
      + rewrite (na_fob a s t l Hna) in Hfs. apply andb_prop in Hfs as [Hf1 Hf2].
        rewrite (na_fv_do ret a s t l bound Hna) in HV. apply app_eq_nil in HV as [HV1 HV2].
        unfold do_body. cbn [evalDoL subst_stmts do_final_map]. rewrite (na_step_map m s Hna).
        rewrite na_do_step by exact Hna.
        rewrite na_do_step by (eapply subst_not_assign; eauto).
        destruct (HQs Hf1 _ m bound st HI HB HV1) as (r & st1 & E1 & E2 & Hlf).
        cbn [app] in E1, E2. rewrite E1, E2.
        destruct r as [w| | | |];
          try (cbn [cast_fail]; eexists _, st1, f; repeat split; discriminate).
        destruct (IH ret HQr Hfr Hf2 f L m bound st1 HI HB HV2) as (r & st2 & f2 & E3 & E4 & Hlf2).
        unfold do_body in E3, E4. exists r, st2, f2. auto.
  Qed.

  Lemma evalE_EDo c stmts a ret t :
    evalE c (EDo stmts (Cm a ret t)) =
    (fst (do_body (fst c, (FOwned, []) :: snd c) stmts ret),
     (fst (snd (do_body (fst c, (FOwned, []) :: snd c) stmts ret)), snd c)).
  Proof. reflexivity. Qed.
  Lemma pair_proj {A B C} (x : A * (B * C)) (a : A) (b : B) (c d : C) :
    x = (a, (b, c)) -> (fst x, (fst (snd x), d)) = (a, (b, d)).
  Proof. intros ->. reflexivity. Qed.
  Lemma Inv_push L m : Inv L m -> Inv ((FOwned, []) :: L) m.
  Proof. intros [HL HI]. split; [exact HL|]. intros x. exact (HI x). Qed.
  Lemma bound_ok_push bound L : bound_ok bound L -> bound_ok bound ((FOwned, []) :: L).
  Proof. intros HB x Hx. exact (HB x Hx). Qed.

  Ltac failcase := try (cbn [cast_fail]; fin; discriminate).

  Theorem sim_all : forall e, P e.
  Proof.
    induction e using expr_ind'; (split; [|intros x0 v0 Heq; try discriminate]).
    - intros _ L m bound st _ _ _. cbn. fin. intros v E; inversion E; reflexivity.
    - intros _ L m bound st _ _ _. cbn. fin. intros v E; inversion E; reflexivity.
    - intros _ L m bound st _ _ _. cbn. fin. intros v E; inversion E; reflexivity.
    - intros _ L m bound st _ _ _. cbn. fin. intros v E; inversion E; reflexivity.
    - apply Q_id.
    - intros Hf; discriminate.
    - intros _ L m bound st _ _ _. cbn. fin. intros v E; inversion E; reflexivity.
    - (* list *)
      intros Hf L m bound st HI HB HV. unfold Sim. rewrite subst_EList. cbn [Eval.evalE].
      assert (HQ : Forall (fun c => Q (cnode c)) items).
      { eapply Forall_impl; [|exact H]. intros c Hc. exact (proj1 Hc). }
      destruct (evalCL_sim items HQ (fob_EList items Hf) L m bound HI HB (fv_EList items bound HV) st)
        as (r & st1 & E1 & E2 & Hlf).
      rewrite E1, E2. cbn [fst snd]. fin.
      intros v E. destruct r; cbn in E; inversion E; subst. rewrite lf_list. apply lfs_flatten. auto.
    - (* record *)
      intros Hf L m bound st HI HB HV. unfold Sim. rewrite subst_ERec. cbn [Eval.evalE].
      assert (HQ : Forall Qentry entries).
      { eapply Forall_impl; [|exact H]. intros [a [k v] t] Hc. unfold Qentry. cbn in *.
        destruct Hc as [Hk Hv]. split; [|exact (proj1 Hv)]. destruct k; auto; exact (proj1 Hk). }
      apply (evalRec_sim entries HQ (fob_ERec entries Hf) L m bound HI HB (fv_ERec entries bound HV)).
      reflexivity.
    - intros Hf; discriminate.
    - (* conditional *)
      intros Hf L m bound st HI HB HV. cbn [first_order_body] in Hf. cbn [free_vars] in HV.
      apply andb_prop in Hf as [Hf Hf3]. apply andb_prop in Hf as [Hf1 Hf2].
      apply app_eq_nil in HV as [HV1 HV]. apply app_eq_nil in HV as [HV2 HV3].
      unfold Sim. cbn [subst Eval.evalE].
      destruct (proj1 IHe1 Hf1 L m bound st HI HB HV1) as (r & st1 & E1 & E2 & Hlf). rewrite E1, E2.
      destruct r as [cv| | | |]; try (fin; discriminate).
      destruct (as_bool cv) as [[|]| | | |]; failcase.
      + apply (proj1 IHe2 Hf2 L m bound st1 HI HB HV2).
      + apply (proj1 IHe3 Hf3 L m bound st1 HI HB HV3).
    - (* do-block *)
      intros Hf L m bound st HI HB HV. destruct ret as [rl ret rt]. cbn [cnode] in IHe.
      rewrite fob_EDo in Hf. apply andb_prop in Hf as [Hfs Hfr]. rewrite fv_EDo in HV.
      unfold Sim. rewrite subst_EDo. rewrite !evalE_EDo. cbn [fst snd].
      destruct (do_sim stmts H ret (proj1 IHe) Hfr Hfs [] L m bound st (Inv_push L m HI)
                       (bound_ok_push bound L HB) HV) as (r & st1 & f1 & E1 & E2 & Hlf).
      exists r, st1. split; [exact (pair_proj _ _ _ _ _ E1)|split; [exact (pair_proj _ _ _ _ _ E2)|exact Hlf]].
    - intros Hf; discriminate.
    - inversion Heq; subst. exact (proj1 IHe).
    - intros Hf; discriminate.
    - (* call *)
      intros Hf L m bound st HI HB HV. unfold Sim. rewrite subst_ECall. cbn [Eval.evalE].
      destruct (fob_args _ _ Hf) as [Hff Hfa]. destruct (fv_args _ _ _ HV) as [HVf HVa].
      destruct (proj1 IHe Hff L m bound st HI HB HVf) as (r & st1 & E1 & E2 & Hlf). rewrite E1, E2.
      destruct r as [fv| | | |]; try (fin; discriminate).
      assert (HQ : Forall Q args) by (eapply Forall_impl; [|exact H]; intros c Hc; exact (proj1 Hc)).
      destruct (evalL_sim args HQ Hfa L m bound HI HB HVa st1) as (r2 & st2 & E3 & E4 & Hlf2).
      rewrite E3, E4. destruct r2 as [raw| | | |]; failcase.
      destruct (negb (is_function fv)); [fin; discriminate|].
      pose proof (Hlf fv eq_refl) as Hfv. pose proof (lfs_flatten raw (Hlf2 raw eq_refl)) as Hargs.
      rewrite (Happ_ext (F1 L) (F2 L) fv fv (flatten_spreads raw) st2 Hfv Hfv Hargs).
      destruct (apply (F2 L) fv fv (flatten_spreads raw) st2) as [res st3] eqn:EA.
      fin. intros v E; subst. eapply (Happ_lf (F2 L)); eauto.
    - (* index *)
      intros Hf L m bound st HI HB HV. cbn [first_order_body] in Hf. cbn [free_vars] in HV.
      apply andb_prop in Hf as [Hf1 Hf2]. apply app_eq_nil in HV as [HV1 HV2].
      unfold Sim. cbn [subst Eval.evalE].
      destruct (proj1 IHe1 Hf1 L m bound st HI HB HV1) as (r & st1 & E1 & E2 & Hlf). rewrite E1, E2.
      destruct r as [v| | | |]; try (fin; discriminate).
      destruct (proj1 IHe2 Hf2 L m bound st1 HI HB HV2) as (r2 & st2 & E3 & E4 & Hlf2). rewrite E3, E4.
      destruct r2 as [i| | | |]; try (fin; discriminate).
      fin. intros w E. eapply lf_access_val; eauto.
    - (* field *)
      intros Hf L m bound st HI HB HV. cbn [first_order_body] in Hf. cbn [free_vars] in HV.
      unfold Sim. cbn [subst Eval.evalE].
      destruct (proj1 IHe Hf L m bound st HI HB HV) as (r & st1 & E1 & E2 & Hlf). rewrite E1, E2.
      destruct r as [v| | | |]; try (fin; discriminate).
      fin. intros w E. eapply lf_dot_val; eauto.
    - (* binary operator *)
      intros Hf L m bound st HI HB HV. cbn [first_order_body] in Hf. cbn [free_vars] in HV.
      apply andb_prop in Hf as [Hf1 Hf2]. apply app_eq_nil in HV as [HV1 HV2].
      unfold Sim. cbn [subst Eval.evalE].
      destruct (proj1 IHe1 Hf1 L m bound st HI HB HV1) as (r & st1 & E1 & E2 & Hlf). rewrite E1, E2.
      destruct r as [lv| | | |]; try (fin; discriminate).
      destruct (proj1 IHe2 Hf2 L m bound st1 HI HB HV2) as (r2 & st2 & E3 & E4 & Hlf2). rewrite E3, E4.
      destruct r2 as [rv| | | |]; try (fin; discriminate).
      rewrite (Hbin_ext (apply (F1 L)) (apply (F2 L)) op lv rv st2 (Happ_ext _ _) (Hlf lv eq_refl) (Hlf2 rv eq_refl)).
      destruct (binop_impl (apply (F2 L)) op lv rv st2) as [res st3] eqn:EB.
      fin. intros v E; subst. exact (Hbin_lf (apply (F2 L)) op lv rv st2 v st3 (Happ_lf _) (Hlf lv eq_refl) (Hlf2 rv eq_refl) EB).
    - (* unary operator *)
      intros Hf L m bound st HI HB HV. cbn [first_order_body] in Hf. cbn [free_vars] in HV.
      unfold Sim. cbn [subst Eval.evalE].
      destruct (proj1 IHe Hf L m bound st HI HB HV) as (r & st1 & E1 & E2 & Hlf). rewrite E1, E2.
      destruct r as [v| | | |]; try (fin; discriminate).
      fin. intros w E. destruct op; [destruct (as_number v)|destruct (as_bool v)|destruct (as_bool v)];
        cbn in E; inversion E; reflexivity.
    - (* factorial *)
      intros Hf L m bound st HI HB HV. cbn [first_order_body] in Hf. cbn [free_vars] in HV.
      unfold Sim. cbn [subst Eval.evalE].
      destruct (proj1 IHe Hf L m bound st HI HB HV) as (r & st1 & E1 & E2 & Hlf). rewrite E1, E2.
      destruct r as [v| | | |]; try (fin; discriminate).
      fin. intros w E. destruct (as_number v); cbn in E; try discriminate. eapply lf_factorial; eauto.
    - (* spread *)
      intros Hf L m bound st HI HB HV. cbn [first_order_body] in Hf. cbn [free_vars] in HV.
      unfold Sim. cbn [subst Eval.evalE].
      destruct (proj1 IHe Hf L m bound st HI HB HV) as (r & st1 & E1 & E2 & Hlf). rewrite E1, E2.
      destruct r as [v| | | |]; try (fin; discriminate).
      fin. intros w E. eapply lf_spread_val; eauto.
  Qed.
End Sound.
